"""Cooperative scheduler for replaying TLC interleavings into the REAL locking code (C14, C15).

What it provides (DESIGN 2.5, row ``env/sched.py``):

* :class:`Controller` - exactly one *managed* thread runs at a time.  A managed thread
  hands control back at every *scheduling point* by calling :meth:`Controller.park`
  (``kind``, ``info``) and continues only when the controller calls :meth:`Controller.resume`.
  The controller therefore decides the interleaving, step by step, exactly as a TLC
  behaviour prescribes it.
* :class:`SThreadLock` / :class:`SProcLock` - stand-ins for ``threading.RLock`` /
  ``multiprocessing.RLock`` (owner + recursion count, ``acquire``/``release``/context manager)
  that park before every acquire and before every release.  They take their re-entrancy
  from the object they replace (probed behaviourally), so ``RLock -> Lock`` in the library
  is mirrored, not hidden.
* :class:`HookedGlobals` - a ``dict`` subclass used as the globals of a loaded copy of
  ``term_image/utils.py``: reading the module global that names a lock (``_tty_lock``,
  ``_cell_size_lock``) is itself a scheduling point, so the window between reading the
  global and acquiring the lock it named can be scheduled (CPython's ``LOAD_GLOBAL`` calls
  ``__getitem__`` when the globals are not an exact ``dict``).
* :func:`load_utils_copy` - executes the real source of ``term_image.utils`` once more under
  a different module name with its own globals: a "process" of the replay is such a copy;
  :func:`install_locks` substitutes the stand-ins for ``_tty_lock``, ``_cell_size_lock``,
  ``RLock``, ``mp_RLock``, ``Array`` and whatever names the lock type; :func:`fork_into` / fresh copies
  model ``fork`` / ``spawn``; :func:`apply_wrappers` wires ``_process_start_wrapper`` and
  ``_process_run_wrapper`` the way the bottom of the module does for ``Process.start/run``.

Nothing here judges anything: drivers compare what the real code did with what the
specification prescribes.
"""

from __future__ import annotations

import _thread
import builtins
import functools
import threading
import traceback
import warnings

from ..tlc import MachineryError

STEP_TIMEOUT = 20.0  # a managed thread must reach its next scheduling point within this


class Abort(BaseException):
    """Raised inside managed threads to unwind them when a replay is abandoned."""


class _Worker:
    """A pooled OS thread: managed threads of successive replays reuse it (starting a thread
    costs milliseconds on a loaded machine, a replay needs thousands)."""

    def __init__(self):
        self._go = _thread.allocate_lock()
        self._go.acquire()
        self.job: "MThread | None" = None
        self.thread = threading.Thread(target=self._loop, name="sched-worker", daemon=True)
        self.thread.start()

    def _loop(self):
        while True:
            self._go.acquire()
            job, self.job = self.job, None
            if job is not None:
                job._run(self)


_POOL: list[_Worker] = []


class MThread:
    def __init__(self, ctl: "Controller", tid, fn):
        self.ctl = ctl
        self.tid = tid
        self.fn = fn
        self.at: tuple | None = None  # (kind, info) while parked
        self.done = False
        self.error: BaseException | None = None
        self.error_tb = ""
        self.result = None
        self._go = _thread.allocate_lock()
        self._go.acquire()

    def start(self):
        w = _POOL.pop() if _POOL else _Worker()
        w.job = self
        w._go.release()

    def _run(self, worker: _Worker):
        ident = _thread.get_ident()
        self.ctl.by_ident[ident] = self
        try:
            self.ctl.park("boot", None)
            self.result = self.fn()
        except Abort:
            pass
        except BaseException as e:  # the real code raised: reported by the driver
            self.error = e
            self.error_tb = traceback.format_exc()
        finally:
            self.done = True
            self.at = ("done", None)
            self.ctl.by_ident.pop(ident, None)
            _POOL.append(worker)
            self.ctl._sig.release()

    def __repr__(self):
        return f"<MThread {self.tid} at={self.at and self.at[0]}>"


class Controller:
    def __init__(self, groups=()):
        self.groups = set(groups)  # lock groups whose operations are scheduling points
        self.by_ident: dict[int, MThread] = {}
        self.threads: dict[object, MThread] = {}
        self._sig = threading.Semaphore(0)
        self.aborting = False
        self.inbody: set = set()  # tids currently inside a probe body (maintained by probes)
        self.log: list = []

    # -- called from managed threads ---------------------------------------------------
    def cur(self) -> MThread | None:
        return self.by_ident.get(_thread.get_ident())

    def scheduling(self, group) -> bool:
        return group in self.groups and not self.aborting and self.cur() is not None

    def park(self, kind, info=None):
        mt = self.cur()
        if mt is None:
            raise MachineryError(f"park({kind}) from an unmanaged thread")
        if self.aborting:
            raise Abort()
        mt.at = (kind, info)
        self._sig.release()
        mt._go.acquire()
        mt.at = None
        if self.aborting:
            raise Abort()

    # -- called from the controlling thread --------------------------------------------
    def spawn(self, tid, fn) -> MThread:
        mt = MThread(self, tid, fn)
        self.threads[tid] = mt
        mt.start()
        self._wait(mt)
        return mt

    def _wait(self, mt: MThread):
        if not self._sig.acquire(timeout=STEP_TIMEOUT):
            raise MachineryError(
                f"managed thread {mt.tid} did not reach a scheduling point within {STEP_TIMEOUT}s"
            )

    def resume(self, tid) -> tuple:
        """Let thread *tid* run to its next scheduling point; returns where it parked."""
        mt = self.threads[tid]
        if mt.done:
            raise MachineryError(f"resume of finished thread {tid}")
        mt._go.release()
        self._wait(mt)
        return mt.at  # type: ignore[return-value]

    def where(self, tid) -> tuple | None:
        return self.threads[tid].at if tid in self.threads else None

    def abort_all(self):
        self.aborting = True
        live = [mt for mt in self.threads.values() if not mt.done]
        for mt in live:
            mt._go.release()
        for mt in live:
            if not self._sig.acquire(timeout=STEP_TIMEOUT):
                raise MachineryError("a managed thread did not unwind on abort")


def expire_waits(ctl: Controller) -> list:
    """Virtual time: more time than any finite timeout goes by while no thread moves.  Every managed thread that waits
    with a BOUNDED timeout for a lock it cannot get has its acquire return False and runs to its next scheduling point;
    unbounded waits keep waiting.  Returns the tids whose wait expired."""
    expired = []
    for tid, mt in list(ctl.threads.items()):
        at = mt.at
        if (not mt.done and at and at[0] in ("acquire", "blocked") and isinstance(at[1], SLock)
                and getattr(mt, "wait_bounded", False) and not at[1].free_for(mt)):
            mt.wait_expired = True
            ctl.resume(tid)
            expired.append(tid)
    return expired


# ------------------------------------------------------------------------------------------
# lock stand-ins


class SLock:
    """Owner/count lock whose acquire and release are scheduling points."""

    kind = "thread"
    _n = 0

    def __init__(self, ctl: Controller, group: str, reentrant: bool = True, label: str = ""):
        SLock._n += 1
        self.ctl = ctl
        self.group = group
        self.reentrant = reentrant
        self.label = label or f"{self.kind}{SLock._n}"
        self.owner = None
        self.count = 0

    def _me(self):
        return self.ctl.cur() or ("ext", _thread.get_ident())

    def free_for(self, who) -> bool:
        return self.owner is None or (self.reentrant and self.owner == who)

    def acquire(self, blocking=True, timeout=-1):
        me = self._me()
        if self.ctl.scheduling(self.group):
            # a bounded wait (`acquire(True, timeout)`) is remembered on the managed thread: virtual time does not pass by
            # itself, a driver lets "more time than any timeout" go by with :func:`expire_waits` (C14 `Elapse`)
            bounded = bool(blocking) and timeout is not None and timeout >= 0
            if isinstance(me, MThread):
                me.wait_bounded, me.wait_expired = bounded, False
            self.ctl.park("acquire", self)
            while not self.free_for(me):
                if not blocking:
                    return False
                if bounded and getattr(me, "wait_expired", False):
                    me.wait_expired = False
                    return False
                self.ctl.park("blocked", self)
        elif not self.free_for(me):
            if self.ctl.aborting:
                raise Abort()
            if not blocking:
                return False
            raise MachineryError(f"pass-through lock {self.label} is contended")
        self.owner = me
        self.count += 1
        hook = getattr(self.ctl, "on_lock_op", None)
        if hook:
            hook("acq", self)
        return True

    def release(self):
        me = self._me()
        if self.ctl.scheduling(self.group):
            self.ctl.park("release", self)
        hook = getattr(self.ctl, "on_lock_op", None)
        if hook and self.owner == me:
            hook("rel", self)
        if self.owner != me:
            if self.ctl.aborting:
                return
            raise RuntimeError("cannot release un-acquired lock")
        self.count -= 1
        if self.count == 0:
            self.owner = None

    __enter__ = acquire

    def __exit__(self, *exc):
        self.release()

    def __repr__(self):
        o = self.owner.tid if isinstance(self.owner, MThread) else self.owner
        return f"<{type(self).__name__} {self.label} owner={o} count={self.count}>"


class SThreadLock(SLock):
    kind = "thread"


class SProcLock(SLock):
    kind = "proc"


class SArray:
    """Stand-in for ``multiprocessing.Array('i', ...)``: shared values + a process lock."""

    def __init__(self, ctl: Controller, lock: SProcLock, values):
        self.ctl = ctl
        self._v = list(values)
        self._lock = lock

    def get_lock(self):
        return self._lock

    def __len__(self):
        return len(self._v)

    def __iter__(self):
        return iter(self._v)

    def __getitem__(self, i):
        return self._v[i]

    def __setitem__(self, i, v):
        self._v[i] = list(v) if isinstance(i, slice) else v
        hook = getattr(self.ctl, "on_cache_write", None)
        if hook:
            hook()


class TrackedList(list):
    """The initial (list) ``_cell_size_cache`` with the same write hook as :class:`SArray`."""

    ctl: Controller | None = None

    def __setitem__(self, i, v):
        list.__setitem__(self, i, v)
        hook = getattr(self.ctl, "on_cache_write", None)
        if hook:
            hook()


def probe_reentrant(lock) -> bool:
    """Does a second acquire by the owner succeed?  (behavioural test on a real lock)"""
    if not lock.acquire(False):
        raise MachineryError("cannot probe a lock that is held")
    try:
        again = lock.acquire(False)
        if again:
            lock.release()
        return bool(again)
    finally:
        lock.release()


_FACTORY_REENTRANT: dict[int, bool] = {}


def factory_reentrant(factory) -> bool:
    k = id(factory)
    if k not in _FACTORY_REENTRANT:
        try:
            _FACTORY_REENTRANT[k] = probe_reentrant(factory())
        except MachineryError:
            raise
        except Exception as e:
            raise MachineryError(f"cannot create a lock with {factory!r}: {e}")
    return _FACTORY_REENTRANT[k]


# ------------------------------------------------------------------------------------------
# loaded copies of term_image.utils

# module globals whose READ is a scheduling point, and the group that switches it on
WATCHED = {"_tty_lock": "tty", "_cell_size_lock": "cell", "_swap_win_size": "flag", "_queries_enabled": "flag"}


class HookedGlobals(dict):
    """Module globals whose reads of the lock-naming globals are scheduling points."""

    ctl: Controller | None = None

    def __getitem__(self, k):
        if k in WATCHED:
            ctl = self.ctl
            if ctl is not None and ctl.scheduling(WATCHED[k]):
                ctl.park("read-flag" if WATCHED[k] == "flag" else "read", k)
        return dict.__getitem__(self, k)


_CODE: dict[str, object] = {}


def load_utils_copy(name: str, ctl: Controller | None = None) -> dict:
    """Execute the real ``term_image/utils.py`` once more; returns the copy's globals."""
    import multiprocessing

    with warnings.catch_warnings():
        warnings.simplefilter("ignore")  # "not running within a terminal"
        import term_image.utils as U

    path = U.__file__
    if path not in _CODE:
        with open(path) as f:
            _CODE[path] = compile(f.read(), path, "exec")
    g = HookedGlobals() if ctl is not None else {}
    if ctl is not None:
        g.ctl = ctl
    g.update(
        __name__=f"term_image.{name}",
        __package__="term_image",
        __file__=path,
        __builtins__=builtins,
    )
    start0, run0 = multiprocessing.Process.start, multiprocessing.Process.run
    with warnings.catch_warnings():
        warnings.simplefilter("ignore")  # "not running within a terminal"
        exec(_CODE[path], g)  # type: ignore[arg-type]
    # a copy must never hijack the real Process class (it does when a terminal is attached)
    if multiprocessing.Process.start is not start0:
        multiprocessing.Process.start = start0  # type: ignore[method-assign]
    if multiprocessing.Process.run is not run0:
        multiprocessing.Process.run = run0  # type: ignore[method-assign]
    for need in ("lock_tty", "cached", "terminal_size_cached", "_process_start_wrapper",
                 "_process_run_wrapper", "_tty_lock", "_cell_size_lock", "_cell_size_cache",
                 "RLock", "mp_RLock", "Array", "get_cell_size"):
        if need not in g:
            raise MachineryError(f"seam term_image.utils.{need} is missing")
    return g


def rebind_lock_type(ns, real_type, stand_in_type) -> list:
    """Rebind every global of `ns` (dict or module) that IS the type of the replaced lock object."""
    d = ns if isinstance(ns, dict) else vars(ns)
    hit = [k for k, v in list(d.items()) if v is real_type and not k.startswith("__")]
    for k in hit:
        if isinstance(ns, dict):
            dict.__setitem__(ns, k, stand_in_type)
        else:
            setattr(ns, k, stand_in_type)
    return hit


def install_locks(g: dict, ctl: Controller, proc_label: str = "p") -> None:
    """Substitute the instrumented stand-ins the way DESIGN C14 describes."""
    tty_re = probe_reentrant(dict.__getitem__(g, "_tty_lock"))
    real_lock_type = type(dict.__getitem__(g, "_tty_lock"))
    cell_re = probe_reentrant(dict.__getitem__(g, "_cell_size_lock"))
    orig_rlock = g["RLock"]
    orig_mp_rlock = g["mp_RLock"]
    g["_tty_lock"] = SThreadLock(ctl, "tty", tty_re, f"T.tty.{proc_label}")
    g["_cell_size_lock"] = SThreadLock(ctl, "cell", cell_re, f"T.cell.{proc_label}")
    # whatever name the module binds to "the type of a thread lock" (today `_rlock_type`) must keep
    # recognising the stand-in: found through the lock object itself, not through the name
    rebind_lock_type(g, real_lock_type, SThreadLock)
    tl = TrackedList(dict.__getitem__(g, "_cell_size_cache"))
    tl.ctl = ctl
    g["_cell_size_cache"] = tl

    def rlock_factory():
        re_ = factory_reentrant(orig_rlock)
        if ctl.scheduling("memo"):
            ctl.park("newlock", "memo")
        return SThreadLock(ctl, "memo", re_, f"T.memo.{proc_label}")

    def mp_rlock_factory():
        re_ = factory_reentrant(orig_mp_rlock)
        if ctl.scheduling("tty"):
            ctl.park("newlock", "tty")
        return SProcLock(ctl, "tty", re_, f"P.tty.{proc_label}")

    def array_factory(typecode, values, *a, **k):
        re_ = factory_reentrant(orig_mp_rlock)
        if ctl.scheduling("cell"):
            ctl.park("newlock", "cell")
        return SArray(ctl, SProcLock(ctl, "cell", re_, f"P.cell.{proc_label}"), values)

    g["RLock"] = rlock_factory
    g["mp_RLock"] = mp_rlock_factory
    g["Array"] = array_factory


def fork_into(parent: dict, child: dict, ctl: Controller, proc_label: str) -> None:
    """``fork``: the child's module state is a copy of the parent's at the time of the fork."""
    for k, v in list(parent.items()):  # plain data (flags, numbers, ...) is copied as it is
        if not k.startswith("__") and type(v) in (bool, int, float, str, bytes, type(None)):
            dict.__setitem__(child, k, v)
    for name, group in (("_tty_lock", "tty"), ("_cell_size_lock", "cell")):
        lock = dict.__getitem__(parent, name)
        if isinstance(lock, SProcLock):
            child[name] = lock  # a process lock is shared memory
        else:  # a thread lock is copied: a distinct (free) lock in the child
            child[name] = SThreadLock(ctl, group, lock.reentrant, f"T.{group}.{proc_label}(forked)")
    cache = dict.__getitem__(parent, "_cell_size_cache")
    if isinstance(cache, SArray):
        child["_cell_size_cache"] = cache
    else:
        tl = TrackedList(cache)
        tl.ctl = ctl
        child["_cell_size_cache"] = tl


def apply_wrappers(g: dict, start, run) -> None:
    """What the bottom of utils.py does with ``Process.start`` / ``Process.run``."""
    functools.wraps(start)(g["_process_start_wrapper"])
    functools.wraps(run)(g["_process_run_wrapper"])


class ProcObj:
    """Stand-in for a ``multiprocessing.Process`` instance (carries the wrapper's attributes)."""

    def __init__(self, child):
        self.child = child
