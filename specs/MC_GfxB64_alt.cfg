SPECIFICATION Spec
CONSTANTS
  ChunkSize = 4096
  Block = 786432
INVARIANT StreamWellFormed
INVARIANT DecodesToAll
INVARIANT StepMachineAgrees
INVARIANT Report
CHECK_DEADLOCK FALSE
