--------------------------- MODULE ImageLifeCore ---------------------------
(***************************************************************************)
(* X02: life cycle and attribute state machine of the old image API        *)
(* (term_image.image.BaseImage; BlockImage / KittyImage / ITerm2Image).    *)
(* Functional core, no variables.                                          *)
(*                                                                         *)
(* A configuration `c` describes what the caller has in hand:              *)
(*   cls   "BlockImage" | "KittyImage" | "ITerm2Image" | "SubKittyImage"   *)
(*   src   "pil"  the caller holds an open PIL image and passes it to the  *)
(*                constructor (Cls(img) / AutoImage(img))                  *)
(*         "file" the caller passes a path (Cls.from_file / from_file)     *)
(*   anim  the source is animated;  n = its frame count (1 if not)         *)
(*   dur0  token of the frame duration in the source's metadata ("0.04"),  *)
(*         "0.1" when the metadata has none (the library default)          *)
(*   ow,oh source size in pixels;  tc,tl terminal size;  cw,ch cell size   *)
(*                                                                         *)
(* The state `s` of the ONE image object (plus the caller's PIL image):    *)
(*   ph    "unborn" (no object) | "open" | "closed" (finalized)            *)
(*   pos   seek position (tell())                                          *)
(*   sz    Fixed(w, h) | Dynamic(member)       (records of module Sizing)  *)
(*   dur   frame duration token, "none" for a non-animated image           *)
(*   cn    the frame count has been computed (n_frames is computed once)   *)
(*   pt    current frame of the CALLER'S PIL image (src = "pil")           *)
(*                                                                         *)
(* Values offered to the API are records V(t, i, s, e): type tag, integer, *)
(* string, elements (of a tuple / list; elements are E(t, i, s)).          *)
(* float: i = sign (-1, 0, 1), s = repr().  size: s = member name.         *)
(*                                                                         *)
(* An operation is a record [op, a, b, c, x, y, z] (a, b, c values; x, y,  *)
(* z strings).  Errs(c, s, o) is the set of DOCUMENTED error classes whose *)
(* condition holds (the documentation does not order the checks: any of    *)
(* them is admissible);  LRes = admissible results;  Apply = next state;   *)
(* Ret / Opens = return value token / number of times the source FILE is   *)
(* opened;  LObs = the projection compared with the real object.           *)
(*                                                                         *)
(* Size arithmetic is NOT restated here: requests are handed to module     *)
(* Sizing (check C04): Algo for the model's numbers, SizeClause (the       *)
(* property, a relation) wherever an observed number is judged.            *)
(***************************************************************************)
EXTENDS Integers, Sequences, FiniteSets, TLC

Sz == INSTANCE Sizing

V(t, i, s, e) == [t |-> t, i |-> i, s |-> s, e |-> e]
E(t, i, s) == [t |-> t, i |-> i, s |-> s]
Up(x) == V(x.t, x.i, x.s, <<>>)

NoneV == V("none", 0, "", <<>>)
AbsentV == V("absent", 0, "", <<>>)          \* argument not passed
IntV(n) == V("int", n, "", <<>>)
FloatV(sign, r) == V("float", sign, r, <<>>)
StrV(x) == V("str", 0, x, <<>>)
SizeV(m) == V("size", 0, m, <<>>)
ObjV == V("obj", 0, "", <<>>)                \* some unrelated object
TupV(es) == V("tuple", 0, "", es)
ListV(es) == V("list", 0, "", es)
EInt(n) == E("int", n, "")
ENone == E("none", 0, "")
ESize(m) == E("size", 0, m)
EFloat(sign, r) == E("float", sign, r)
EStr(x) == E("str", 0, x)

ValueTags == {"none", "absent", "int", "float", "str", "size", "obj", "tuple", "list"}
ElemTags == {"none", "int", "float", "str", "size"}
WFValue(v) ==
  /\ v.t \in ValueTags
  /\ v.t = "size" => v.s \in Sz!SizeModes
  /\ v.t = "float" => v.i \in {-1, 0, 1}
  /\ \A k \in 1..Len(v.e) :
       /\ v.e[k].t \in ElemTags
       /\ v.e[k].t = "size" => v.e[k].s \in Sz!SizeModes
       /\ v.e[k].t = "float" => v.e[k].i \in {-1, 0, 1}

Op(op, a, b, cc, x, y, z) == [op |-> op, a |-> a, b |-> b, c |-> cc, x |-> x, y |-> y, z |-> z]
Op0(op) == Op(op, NoneV, NoneV, NoneV, "", "", "")
Op1(op, a) == Op(op, a, NoneV, NoneV, "", "", "")
OpX(op, x) == Op(op, NoneV, NoneV, NoneV, x, "", "")

\* the three render styles, and a user-defined subclass of one of them (type("SubKittyImage",
\* (KittyImage,), {})): classmethod constructors return "a new instance" of the invoking class
BaseClasses == {"BlockImage", "KittyImage", "ITerm2Image"}
Classes == BaseClasses \cup {"SubKittyImage"}
IsSub(cls) == cls \notin BaseClasses
Fam(cls) == IF cls = "BlockImage" THEN "text" ELSE "gfx"

WFConfig(c) ==
  /\ c.cls \in Classes /\ c.src \in {"pil", "file"} /\ c.anim \in BOOLEAN
  /\ c.n >= 1 /\ (c.anim <=> c.n > 1)
  /\ c.ow >= 1 /\ c.oh >= 1 /\ c.tc >= 1 /\ c.tl >= 1 /\ c.cw >= 1 /\ c.ch >= 1

\* sizing environment of module Sizing: cell ratio fixed at 1/2 (term_image.set_cell_ratio(0.5))
Env(c, fc, fl) ==
  [fam |-> Fam(c.cls), ow |-> c.ow, oh |-> c.oh, tc |-> c.tc, tl |-> c.tl, fc |-> fc, fl |-> fl,
   cw |-> c.cw, ch |-> c.ch, rn |-> 1, rd |-> 2]

---------------------------------------------------------------------------
(* State                                                                    *)

Unborn(pt) == [ph |-> "unborn", pos |-> 0, sz |-> Sz!Dynamic("FIT"), dur |-> "none", cn |-> FALSE, pt |-> pt]
Live(s) == s.ph \in {"open", "closed"}
Finalized(s) == s.ph = "closed"
\* the operation needs the frame count and it has not been computed yet
NeedsCount(c, s) == c.anim /\ ~s.cn
HasPil(c) == c.src = "pil"

\* documented default of the library when the metadata carries no duration (CHANGELOG: "frame
\* duration is now derived from the image metadata, if available"; the value 0.1 s is the code's)
DefaultDuration == "0.1"

---------------------------------------------------------------------------
(* Argument validation, as documented                                       *)

IsNoneArg(v) == v.t \in {"none", "absent"}
IsIntArg(v) == v.t = "int"
IsMember(v) == v.t = "size"

\* BaseImage / set_size(): width, height: "a positive integer" or "a Size enum member"
\* (or None);  TypeError: inappropriate type,  ValueError: unexpected/invalid value
DimErrs(v) ==
  IF IsNoneArg(v) \/ IsMember(v) THEN {}
  ELSE IF IsIntArg(v) THEN (IF v.i <= 0 THEN {"ValueError"} ELSE {})
  ELSE {"TypeError"}

BothGiven(w, h) == ~IsNoneArg(w) /\ ~IsNoneArg(h)
BothInts(w, h) == IsIntArg(w) /\ IsIntArg(h)

\* frame_size: "(columns, lines)", a 2-tuple of integers
FrameErrs(f) ==
  IF f.t = "absent" THEN {}
  ELSE IF f.t # "tuple" \/ (\E k \in 1..Len(f.e) : f.e[k].t # "int") THEN {"TypeError"}
  ELSE IF Len(f.e) # 2 THEN {"ValueError"}
  ELSE {}

\* "If both width and height are not None, they must be positive integers"
\* DEVIATION (harmless, named SetSizeManualFrameUnchecked in the state machine): when both are
\* integers the code returns before looking at frame_size, so an ill-typed frame_size passes.
SetSizeErrs(w, h, f) ==
  DimErrs(w) \cup DimErrs(h)
  \cup (IF BothGiven(w, h) /\ ~BothInts(w, h) THEN {"TypeError"} ELSE {})
  \cup (IF BothGiven(w, h) THEN {} ELSE FrameErrs(f))

MemberOf(w, h) == IF IsMember(w) THEN w.s ELSE IF IsMember(h) THEN h.s ELSE "FIT"

\* the sizing request of an ACCEPTED set_size(w, h, f): mode of module Sizing + frame as given
ReqMode(w, h) ==
  IF BothInts(w, h) THEN Sz!Manual(w.i, h.i)
  ELSE IF IsIntArg(w) THEN Sz!GivenW(w.i)
  ELSE IF IsIntArg(h) THEN Sz!GivenH(h.i)
  ELSE Sz!Mode(MemberOf(w, h))
ReqFrame(f) == IF f.t = "tuple" /\ Len(f.e) = 2 THEN <<f.e[1].i, f.e[2].i>> ELSE <<Sz!DefFC, Sz!DefFL>>

NoReq == [is |-> FALSE, m |-> Sz!Mode("FIT"), fc |-> 0, fl |-> 0]
Req(w, h, f) == [is |-> TRUE, m |-> ReqMode(w, h), fc |-> ReqFrame(f)[1], fl |-> ReqFrame(f)[2]]

FixedFor(c, r) == Sz!FixedBy(r.m, Env(c, r.fc, r.fl))

\* size = <tuple>: "2-tuple of integers".  DEVIATION (harmless, named SizeSetTupleLax): the
\* tuple is forwarded to set_size(), so None / Size members inside it get set_size() semantics.
TupleW(a) == Up(a.e[1])
TupleH(a) == Up(a.e[2])

GoodSpecs == {"", "#", "<8.^5"}      \* a few format specifiers (the grammar is check C19's)
BadSpecs == {"x", "5."}

ReadOnlyAttrs == {"closed", "is_animated", "original_size", "n_frames", "rendered_size",
                  "rendered_width", "rendered_height", "source", "source_type"}
AllAttrs == ReadOnlyAttrs \cup {"size", "width", "height", "frame_duration", "forced_support"}

\* source variants of a construction
PilVariants == {"good", "notimage", "null"}
FileVariants == {"good", "pathlike", "nonstr", "missing", "dir", "junk"}
SrcErrs(c, x) ==
  CASE x \in {"good", "pathlike"} -> {}
    [] x = "notimage" -> {"TypeError"}          \* "TypeError: An argument is of an inappropriate type"
    [] x = "null" -> {"ValueError"}             \* null-sized image
    [] x = "nonstr" -> {"TypeError"}            \* "TypeError: filepath is of an inappropriate type"
    [] x = "missing" -> {"FileNotFoundError"}   \* "FileNotFoundError: The given path does not exist"
    [] x = "dir" -> {"IsADirectoryError"}       \* propagated from PIL.Image.open
    [] x = "junk" -> {"UnidentifiedImageError"} \* propagated from PIL.Image.open

\* GraphicsImage: "StyleError: The active terminal doesn't support the render style";
\* TextImage: "Instantiation of subclasses is always allowed"
StyleErrs(c, z) == IF Fam(c.cls) = "gfx" /\ z = "foreign" THEN {"StyleError"} ELSE {}

\* from_url(): "TypeError: url is not a string", "ValueError: The URL is invalid".
\* "full" = scheme://host/path: validation passes and the network seam is reached.
\* DEVIATION (named FromUrlNoPath): the code also calls a URL without a path component invalid.
UrlClasses == {"nonstr", "noscheme", "nonetloc", "nopath", "full"}
UrlErrs(x) ==
  CASE x = "nonstr" -> {"TypeError"}
    [] x \in {"noscheme", "nonetloc", "nopath"} -> {"ValueError"}
    [] OTHER -> {}

\* auto_image_class(): the render style that best suits the terminal - preference
\* KittyImage, ITerm2Image, BlockImage; BlockImage when nothing is supported
TermKinds == {"kitty", "iterm2", "both", "neither"}
AutoStyle(k, i) == IF k THEN "KittyImage" ELSE IF i THEN "ITerm2Image" ELSE "BlockImage"
AutoOf(z) == AutoStyle(z \in {"kitty", "both"}, z \in {"iterm2", "both"})
\* the terminal each class is exercised under (the one that supports exactly that style)
NativeTerm(cls) == CASE cls \in {"KittyImage", "SubKittyImage"} -> "kitty" [] cls = "ITerm2Image" -> "iterm2"
                     [] OTHER -> "neither"

---------------------------------------------------------------------------
(* Which operation makes sense when                                         *)

UnbornOps == {"new", "new_url", "auto"}
LiveOps == {"close", "with", "drop", "seek", "n_frames", "source", "set_fd", "size=", "width=",
            "height=", "set_size", "str", "format", "draw", "iter", "set_ro", "del_attr", "set_fs"}
AllOps == UnbornOps \cup LiveOps \cup {"pilseek"}

WFOp(c, o) ==
  /\ o.op \in AllOps
  /\ WFValue(o.a) /\ WFValue(o.b) /\ WFValue(o.c)
  /\ o.op = "new" =>
       /\ o.x \in (IF HasPil(c) THEN PilVariants ELSE FileVariants)
       /\ o.y \in {"class", "factory"} /\ o.z \in {"native", "foreign"}
       /\ o.y = "factory" => o.z = "native" /\ ~IsSub(c.cls)   \* the factories know the three styles only
  /\ o.op = "new_url" => o.x \in UrlClasses /\ o.y \in {"class", "factory"}
  /\ o.op = "auto" => o.z \in TermKinds
  /\ o.op = "with" => o.x \in {"pass", "raise"}
  /\ o.op = "format" => o.x \in GoodSpecs \cup BadSpecs
  /\ o.op = "set_ro" => o.x \in ReadOnlyAttrs
  /\ o.op = "del_attr" => o.x \in AllAttrs
  /\ o.op = "pilseek" => HasPil(c) /\ c.anim /\ o.a.t = "int" /\ o.a.i \in 0..(c.n - 1)

Enabled(c, s, o) ==
  /\ WFOp(c, o)
  /\ o.op \in UnbornOps => s.ph = "unborn"
  /\ o.op \in LiveOps => Live(s)

---------------------------------------------------------------------------
(* Errors                                                                   *)

SizeSetErrs(a) ==
  IF IsMember(a) THEN {}
  ELSE IF a.t = "tuple" THEN
         (IF Len(a.e) # 2 THEN {"ValueError"} ELSE SetSizeErrs(TupleW(a), TupleH(a), AbsentV))
  ELSE {"TypeError"}

FinalizedErr(s) == IF Finalized(s) THEN {"TermImageError"} ELSE {}
TooLarge(c, s) == s.sz.k = "fixed" /\ (s.sz.w > c.tc \/ s.sz.h > c.tl)

Errs(c, s, o) ==
  CASE o.op = "new" -> SrcErrs(c, o.x) \cup StyleErrs(c, o.z) \cup SetSizeErrs(o.a, o.b, AbsentV)
    [] o.op = "new_url" -> UrlErrs(o.x)
    [] o.op = "seek" ->
         \* "TypeError / ValueError"; frame numbers 0 <= pos < n_frames.  The range check needs the
         \* frame count, which a finalized image can no longer compute
         (IF ~IsIntArg(o.a) THEN {"TypeError"} ELSE {})
         \cup (IF IsIntArg(o.a) /\ ~(0 <= o.a.i /\ o.a.i < c.n) THEN {"ValueError"} ELSE {})
         \cup (IF Finalized(s) /\ NeedsCount(c, s) THEN {"TermImageError"} ELSE {})
    [] o.op = "n_frames" -> IF Finalized(s) /\ NeedsCount(c, s) THEN {"TermImageError"} ELSE {}
    [] o.op = "source" -> FinalizedErr(s)
    [] o.op = "set_fd" ->
         IF o.a.t # "float" THEN {"TypeError"} ELSE IF o.a.i <= 0 THEN {"ValueError"} ELSE {}
    [] o.op = "size=" -> SizeSetErrs(o.a)
    [] o.op = "width=" -> SetSizeErrs(o.a, NoneV, AbsentV)
    [] o.op = "height=" -> SetSizeErrs(NoneV, o.a, AbsentV)
    [] o.op = "set_size" -> SetSizeErrs(o.a, o.b, o.c)
    [] o.op = "str" -> FinalizedErr(s)
    \* draw(): "InvalidSizeError: The image's rendered size can not fit into the terminal size"
    \* (a size that is set, i.e. fixed; a dynamic size is computed to fit when rendering)
    [] o.op = "draw" -> FinalizedErr(s) \cup (IF TooLarge(c, s) THEN {"InvalidSizeError"} ELSE {})
    [] o.op = "format" -> (IF o.x \in BadSpecs THEN {"ValueError"} ELSE {}) \cup FinalizedErr(s)
    [] o.op = "iter" -> (IF ~c.anim THEN {"ValueError"} ELSE {}) \cup FinalizedErr(s)
    [] o.op \in {"set_ro", "del_attr", "set_fs"} -> {"AttributeError"}
    [] OTHER -> {}

Accepts(c, s, o) == Errs(c, s, o) = {}

OkTag(o) ==
  IF o.op = "with" /\ o.x = "raise" THEN "propagated"    \* "no particular exception is suppressed"
  ELSE IF o.op = "new_url" THEN "network"                 \* validation passed
  ELSE "ok"
OkTags == {"ok", "propagated", "network"}

LRes(c, s, o) == IF Accepts(c, s, o) THEN {OkTag(o)} ELSE Errs(c, s, o)

---------------------------------------------------------------------------
(* Effects                                                                  *)

\* the sizing request an accepted operation makes (is = FALSE: none, the size is stored as given)
ReqOf(c, s, o) ==
  CASE o.op = "new" -> IF IsNoneArg(o.a) /\ IsNoneArg(o.b) THEN NoReq ELSE Req(o.a, o.b, AbsentV)
    [] o.op = "size=" -> IF IsMember(o.a) THEN NoReq ELSE Req(TupleW(o.a), TupleH(o.a), AbsentV)
    [] o.op = "width=" -> Req(o.a, NoneV, AbsentV)
    [] o.op = "height=" -> Req(NoneV, o.a, AbsentV)
    [] o.op = "set_size" -> Req(o.a, o.b, o.c)
    [] OTHER -> NoReq

SizeOps == {"size=", "width=", "height=", "set_size"}
RenderOps == {"str", "format", "draw"}

\* rendering a frame of a PIL-sourced animated image seeks the caller's PIL image to that frame
PtAfterRender(c, s) == IF HasPil(c) /\ c.anim THEN s.pos ELSE s.pt

Accepted(c, s, o) ==
  CASE o.op = "new" ->
         [ph |-> "open",
          \* "the seek position is initialized to the current seek position of the given image"
          pos |-> IF HasPil(c) /\ c.anim THEN s.pt ELSE 0,
          \* "If neither width nor height is given (or both are None), FIT applies": a DYNAMIC size
          sz |-> IF IsNoneArg(o.a) /\ IsNoneArg(o.b) THEN Sz!Dynamic("FIT")
                 ELSE FixedFor(c, Req(o.a, o.b, AbsentV)),
          dur |-> IF c.anim THEN c.dur0 ELSE "none",
          cn |-> FALSE, pt |-> s.pt]
    [] o.op \in {"close", "with"} -> [s EXCEPT !.ph = "closed"]
    [] o.op = "drop" -> Unborn(s.pt)
    [] o.op = "seek" -> [s EXCEPT !.pos = IF c.anim THEN o.a.i ELSE 0, !.cn = s.cn \/ c.anim]
    [] o.op = "n_frames" -> [s EXCEPT !.cn = s.cn \/ c.anim]
    [] o.op = "set_fd" -> [s EXCEPT !.dur = IF c.anim THEN o.a.s ELSE "none"]
    [] o.op = "size=" ->
         [s EXCEPT !.sz = IF IsMember(o.a) THEN Sz!Dynamic(o.a.s) ELSE FixedFor(c, ReqOf(c, s, o))]
    [] o.op \in {"width=", "height=", "set_size"} -> [s EXCEPT !.sz = FixedFor(c, ReqOf(c, s, o))]
    [] o.op \in RenderOps -> [s EXCEPT !.pt = PtAfterRender(c, s)]
    [] o.op = "pilseek" -> [s EXCEPT !.pt = o.a.i]
    [] OTHER -> s

\* a rejected operation leaves every observable attribute alone.  Hidden state: seek() with an
\* integer on an open animated image has computed the frame count before rejecting the position.
Rejected(c, s, o) ==
  IF o.op = "seek" /\ IsIntArg(o.a) /\ c.anim /\ s.ph = "open" THEN [s EXCEPT !.cn = TRUE] ELSE s

Apply(c, s, o) == IF Accepts(c, s, o) THEN Accepted(c, s, o) ELSE Rejected(c, s, o)

SType(c) == IF HasPil(c) THEN "PIL_IMAGE" ELSE "FILE_PATH"

Ret(c, s, o) ==
  CASE o.op = "new" -> c.cls
    [] o.op = "auto" -> AutoOf(o.z)
    [] o.op = "n_frames" -> ToString(c.n)
    [] o.op = "source" -> IF HasPil(c) THEN "pil-object" ELSE "abspath"
    [] o.op = "with" -> "self"
    [] OTHER -> "-"

\* how often the library opens the source FILE during the operation (-1: not judged)
Opens(c, s, o) ==
  IF o.op \in UnbornOps THEN -1
  ELSE IF HasPil(c) THEN 0
  ELSE IF o.op = "n_frames" THEN (IF NeedsCount(c, s) /\ s.ph = "open" THEN 1 ELSE 0)
  ELSE IF o.op = "seek" THEN (IF IsIntArg(o.a) /\ NeedsCount(c, s) /\ s.ph = "open" THEN 1 ELSE 0)
  ELSE IF o.op \in RenderOps \cup {"iter"} THEN (IF Accepts(c, s, o) THEN 1 ELSE 0)
  ELSE 0

---------------------------------------------------------------------------
(* Observable projection                                                    *)

Bool(b) == IF b THEN "True" ELSE "False"
ShowSz(sz) == IF sz.k = "dyn" THEN sz.m ELSE ToString(sz.w) \o "x" \o ToString(sz.h)
Repr(c, s) ==
  "<" \o c.cls \o ": source_type=" \o SType(c) \o " size=" \o ShowSz(s.sz)
  \o " is_animated=" \o Bool(c.anim) \o ">"

DimShow(sz, d) == IF sz.k = "dyn" THEN sz.m ELSE ToString(d)

Rendered(c, sz) ==
  IF sz.k = "fixed" THEN <<sz.w, sz.h>> ELSE Sz!AlgoOut(Sz!Mode(sz.m), Env(c, Sz!DefFC, Sz!DefFL))

ObsFields == {"ph", "closed", "tell", "size", "width", "height", "rsize", "rw", "rh", "fd", "anim",
              "ow", "oh", "stype", "repr", "pilok", "pt", "fs"}
ObsOrder == <<"ph", "closed", "tell", "size", "width", "height", "rsize", "rw", "rh", "fd", "anim",
              "ow", "oh", "stype", "repr", "pilok", "pt", "fs">>

LObsWith(c, s, rs) ==
  IF s.ph = "unborn" THEN
    [ph |-> "unborn", closed |-> FALSE, tell |-> 0, size |-> Sz!Dynamic("FIT"), width |-> "", height |-> "",
     rsize |-> <<0, 0>>, rw |-> 0, rh |-> 0, fd |-> "", anim |-> c.anim, ow |-> c.ow, oh |-> c.oh,
     stype |-> "", repr |-> "", pilok |-> TRUE, pt |-> s.pt, fs |-> FALSE]
  ELSE
    [ph |-> "live", closed |-> Finalized(s), tell |-> s.pos, size |-> s.sz,
     width |-> DimShow(s.sz, s.sz.w), height |-> DimShow(s.sz, s.sz.h),
     rsize |-> rs, rw |-> rs[1], rh |-> rs[2],
     fd |-> IF c.anim THEN s.dur ELSE "None", anim |-> c.anim, ow |-> c.ow, oh |-> c.oh,
     stype |-> SType(c), repr |-> Repr(c, s),
     pilok |-> TRUE,           \* "the PIL image is never finalized"
     pt |-> s.pt,
     fs |-> FALSE]             \* forced_support of the class: never changed through an instance

LObs(c, s) == LObsWith(c, s, IF Live(s) THEN Rendered(c, s.sz) ELSE <<0, 0>>)

\* fields an ACCEPTED operation may change ("which setter resets which attribute")
SizeFields == {"size", "width", "height", "rsize", "rw", "rh", "repr"}
Footprint(op) ==
  CASE op \in {"new", "drop"} -> ObsFields
    [] op \in {"close", "with"} -> {"closed"}
    [] op = "seek" -> {"tell"}
    [] op = "set_fd" -> {"fd"}
    [] op \in SizeOps -> SizeFields
    [] op \in RenderOps \cup {"pilseek"} -> {"pt"}
    [] OTHER -> {}
=============================================================================
