SPECIFICATION Spec
INVARIANT DeleteOnlyRemoves
CHECK_DEADLOCK FALSE
