"""C09 - frame caching is invisible except for speed (render-iterator half).

model:   specs/RenderIter.tla with caching (MC_RenderIter_B.cfg, 3 frames, loops 2/3/infinite):
         FrameMatchesSettings (a yielded frame always carries the CURRENT size / duration / args /
         padding, i.e. equals the uncached definition) and NoRerender (while size, duration and
         args are unchanged a cached frame is never rendered again).
binding: spec -> code: every edge replayed on a PAIR of real iterators (cache on / cache off)
         over the same instrumented renderable: results must equal the spec's and each other,
         and `rendered` (was _render_ called?) must equal the spec's; code -> spec: seeded random
         paired histories (cache argument True / False / ints around the frame count, N up to 12)
         validated by TLC (Trace_RenderIter.tla, uncached-twin clause).
round 7: render-argument VALUES that cannot be hashed (MC_RenderIter_D.cfg + scripted histories);
         the iterator that draw()/_animate_() builds (DrawCacheCore.tla / MC_DrawCache.cfg /
         Trace_DrawCache.tla, harness/c09_draw.py): the real draw() with loops in {1,2,3,infinite}
         x cache arguments around frame_count, interrupted by Ctrl-C at every kind of position.
The image-iterator half of C09 (ImageIterator's two-phase cache keyed by rendered size) is
checked by the C11 machinery (ImageIter.tla) and reported there and here (see notes/C09.md).
"""

from __future__ import annotations

from ..core import Report
from . import c08


def main(rep: Report, replay: dict | None) -> None:
    # image-iterator half first: its world must set the library's temp dir before
    # term_image.image is imported
    from .. import imageiter_pairs

    kind = replay["scenario"].get("kind") if replay else None
    if kind == "draw" or (kind == "design" and replay["scenario"].get("cfg") == "MC_DrawCache.cfg"):
        from ..env import stubs

        stubs.install()
        stubs.set_term(size=(8, 6))
        from .. import c09_draw

        if kind == "draw":
            c09_draw.replay_scenario(rep, replay["scenario"])
        else:
            c09_draw.design(rep)
        return
    is_img = bool(replay) and kind not in ("replay", "trace", "design", "renderop")
    if is_img:
        from . import c11

        c11.main(rep, replay)
        return
    imageiter_pairs.run(rep, replay)
    c08.main(rep, replay, which=("B", "D"), pair=True)
    if not replay:
        from .. import c09_draw

        c09_draw.run(rep)  # the iterator draw() builds: cache decision over (loops, cache, frame_count)
    rep.rule = (
        "render iterator: all edges of the cached RenderIter model replayed on paired cached/uncached "
        "real iterators + seeded random paired histories validated by TLC; image iterator: seeded "
        "random histories of paired cached/uncached ImageIterators (size changes, dynamic sizes + "
        "terminal resizes, seeks) validated by TLC against ImageIter.tla; draw(): grid + seeded random "
        "(loops, cache, interruption point) cases of the real draw() validated by TLC against "
        "DrawCacheCore.tla; distinct = walks + traces + draw cases"
    )
