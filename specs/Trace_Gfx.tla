----------------------------- MODULE Trace_Gfx -----------------------------
(***************************************************************************)
(* C03: code -> spec.  Each trace is the sequence of graphics commands of  *)
(* ONE REAL render (str(image) / format(image, spec) / image._renderer)    *)
(* of KittyImage or ITerm2Image:                                           *)
(*                                                                         *)
(*   hdr  what was asked for: style, method, rw, rh (rendered size the     *)
(*        library advertises), cw, ch (cell size), ow, oh (original size), *)
(*        compress, z, blend, jpeg, rff, animated, frame, readable,        *)
(*        modeclass, alphakind, unstable, cw2, ch2 (the cell size          *)
(*        alternated between (cw,ch) and (cw2,ch2) on successive reads)    *)
(*   ev   one record per graphics command, in output order: the lexer's    *)
(*        gfx record (keys and values as written by the library, b64len)   *)
(*        plus the DUMB projections of harness/c03_project.py on the       *)
(*        record that ends a transmission: tb64, pad, pad1 (characters,    *)
(*        trailing '=', offset of the FIRST '=' of the WHOLE payload),     *)
(*        dlen (strict base64 decode), ilen (zlib inflate), kind / imgw /  *)
(*        imgh / imgmode                                                   *)
(*        (image decode), isfile (bytes = source file), rows_lo, rows_hi,  *)
(*        pix (decoded pixels = rows [lo,hi) of the reference picture the  *)
(*        driver resized with Pillow BOX to the transmitted resolution).   *)
(*                                                                         *)
(* Python decodes; every requirement (which length, which rows, which      *)
(* kind, which keys) is judged here with the operators of Gfx.             *)
(* Steps are total; the verdict names the first failing clause.            *)
(***************************************************************************)
EXTENDS Gfx, Json, IOUtils

Traces == JsonDeserialize(IOEnv.TRACE_FILE)

VARIABLES tid, l, R, pend, first, verdict, at, maxd
vars == <<tid, l, R, pend, first, verdict, at, maxd>>

Tr == Traces[tid]
H == Tr.hdr
Ev == Tr.ev
N == Len(Ev)

IsCont(e) == e.proto = "kitty" /\ e.nkeys >= 1 /\ (\A i \in DOMAIN e.keys : e.keys[i] \in {"m", "q"})
                /\ (\E i \in DOMAIN e.keys : e.keys[i] = "m")
HasCtl(e) == \E i \in DOMAIN e.keys : e.keys[i] \notin {"m", "q"}
IsDelete(e) == e.proto = "kitty" /\ e.a = "d"

RecOf(e) == [a |-> e.a, f |-> e.f, t |-> e.t, s |-> e.s, v |-> e.v, z |-> e.z, zset |-> e.zset,
             zok |-> e.zok, o |-> e.o, C |-> e.C, c |-> e.c, r |-> e.r]

CmdOf(e, more) == [ctl |-> HasCtl(e), onlym |-> IsCont(e), m |-> e.m, len |-> e.b64len,
                   more |-> more, rec |-> RecOf(e)]

\* clause of the (i)th command in receiver state RR; pd = a delete-at-cursor is pending
KittyClause(RR, pd, fst, i) ==
  LET e == Ev[i]
      c == CmdOf(e, i < N /\ IsCont(Ev[i + 1]))
  IN
  IF e.proto # "kitty" THEN "protocol: not a kitty graphics command"
  ELSE IF ~e.b64ok THEN "base64: a chunk carries characters outside the base64 alphabet or '=' before its end"
  ELSE IF IsDelete(e) THEN
    (IF RR.rx # "idle" THEN "continuation-has-only-m: delete command inside a chunked transmission"
     ELSE IF H.blend THEN "blend: images are deleted although blend is on"
     ELSE IF e.d \notin {"C", "c"} THEN "blend: delete is not delete-at-cursor"
     ELSE IF pd THEN "blend: two deletes in a row"
     ELSE "ok")
  ELSE IF RR.rx = "idle" /\ ~H.blend /\ ~pd THEN "blend: transmission not preceded by delete-at-cursor"
  ELSE LET fc == ChunkClause(RR, c) IN
    IF fc # "ok" THEN fc
    ELSE IF Completes(c) THEN KittyDoneClause(H, RR.ntrans, CtlOf(RR, c), Total(RR, c), e, fst)
    ELSE "ok"

Init ==
  /\ tid \in 1..Len(Traces)
  /\ l = 0
  /\ R = RxInit
  /\ pend = FALSE
  /\ first = NoFirst
  /\ verdict = "ok"
  /\ at = 0
  /\ maxd = -1

\* largest payload of the render so far (bytes its base64 characters stand for): the
\* render's payload SIZE CLASS is reported with the verdict (coverage of the quantifier)
Seen(e) == maxd' = Max(maxd, IF e.tb64 > 0 THEN DecodedLen(e.tb64, e.pad) ELSE -1)

Mark(v) ==
  /\ verdict' = (IF verdict # "ok" THEN verdict ELSE v)
  /\ at' = (IF verdict = "ok" /\ v # "ok" THEN l + 1 ELSE at)

\* a=d command between the strips (blend off)
KittyDelete ==
  /\ l < N /\ H.style = "kitty" /\ IsDelete(Ev[l + 1])
  /\ Mark(KittyClause(R, pend, first, l + 1))
  /\ pend' = TRUE
  /\ l' = l + 1
  /\ UNCHANGED <<tid, R, first, maxd>>

\* first chunk / continuation chunk of a transmission
KittyChunk ==
  /\ l < N /\ H.style = "kitty" /\ ~IsDelete(Ev[l + 1])
  /\ Mark(KittyClause(R, pend, first, l + 1))
  /\ R' = (IF Ev[l + 1].proto = "kitty"
             THEN RxApply(R, CmdOf(Ev[l + 1], l + 1 < N /\ IsCont(Ev[l + 2]))) ELSE R)
  /\ pend' = FALSE
  /\ first' = (LET e == Ev[l + 1]
                   c == CmdOf(e, l + 1 < N /\ IsCont(Ev[l + 2]))
               IN IF e.proto = "kitty" /\ Completes(c) /\ R.ntrans = 0
                    THEN <<CtlOf(R, c).s, CtlOf(R, c).v>> ELSE first)
  /\ l' = l + 1
  /\ Seen(Ev[l + 1])
  /\ UNCHANGED tid

\* one inline image (a strip of LINES, or the whole picture)
ITermImage ==
  /\ l < N /\ H.style = "iterm2"
  /\ Mark(ITermClause(H, R.ntrans, Ev[l + 1], first))
  /\ R' = [R EXCEPT !.ntrans = @ + 1]
  /\ first' = (IF R.ntrans = 0 THEN <<Ev[l + 1].imgw, Ev[l + 1].imgh>> ELSE first)
  /\ l' = l + 1
  /\ Seen(Ev[l + 1])
  /\ UNCHANGED <<tid, pend>>

Finish ==
  /\ l = N
  /\ l' = N + 1
  /\ Mark(IF pend THEN "blend: delete not followed by a transmission" ELSE EndClause(H, R))
  /\ UNCHANGED <<tid, R, pend, first, maxd>>

Next == KittyDelete \/ KittyChunk \/ ITermImage \/ Finish
Spec == Init /\ [][Next]_vars

Done == l = N + 1
Report == Done => PrintT(<<"VERDICT", ToJson([tid |-> tid, verdict |-> verdict, at |-> at,
                                               ntrans |-> R.ntrans, maxch |-> R.maxch,
                                               pclass |-> PayloadClass(maxd)])>>)
=============================================================================
