----------------------------- MODULE Trace_Draw -----------------------------
(***************************************************************************)
(* C06 / C07: code -> spec.  Each trace is the token stream that one REAL   *)
(* draw() call delivered to the terminal (both APIs, still or animated,     *)
(* clean or interrupted at some write / flush / sleep / render), folded     *)
(* through Terminal!Apply in ABSOLUTE line coordinates (scrolling keeps     *)
(* the identity of lines), together with what the driver observed around    *)
(* the call (exception seen by the caller, termios attributes before/after, *)
(* finalization count, image size / frame before/after).                    *)
(*                                                                         *)
(* Geometry (header): screen cols x rows, cursor starts at (r0, 0); the     *)
(* padded region is the pw x ph box whose top-left is (r0, 0) in absolute   *)
(* coordinates; the render rectangle rw x rh sits at offset (t, l) in it.   *)
(*                                                                         *)
(* mode = "clean"  (C06): clauses after every token - nothing outside the   *)
(*   box is touched, frames never leave the render rectangle, no wrap; at   *)
(*   the end - the last frame fills the render rectangle, the rest of the   *)
(*   box is blank, cursor visible at column 0 of the line below the box,    *)
(*   exactly the scrolling the box height made necessary, attributes reset. *)
(* mode = "fault"  (C07): at the end - cursor visible, attributes reset,    *)
(*   parser in ground state, no chunked graphics transfer open, terminal    *)
(*   attributes restored, render data finalized once, image size and frame  *)
(*   unchanged, and the caller saw the documented outcome.                  *)
(*   "Finalized" is judged twice: fin_live = the RenderData instance(s)     *)
(*   generated for the call, kept referenced by the harness, report         *)
(*   finalized at the very moment draw() returns / raises (a finalization   *)
(*   that only happens when the garbage collector gets to the object is     *)
(*   not draw()'s doing); fin = the finalizer hook ran exactly once.        *)
(***************************************************************************)
EXTENDS Terminal, Json, IOUtils

Traces == JsonDeserialize(IOEnv.TRACE_FILE)

VARIABLES tid, l, T, verdict, at
vars == <<tid, l, T, verdict, at>>

Tr == Traces[tid]
Toks == Tr.toks
N == Len(Toks)

Box(h) == {<<rr, cc>> : rr \in h.r0..(h.r0 + h.ph - 1), cc \in 0..(h.pw - 1)}
Inner(h) == {<<rr, cc>> : rr \in (h.r0 + h.t)..(h.r0 + h.t + h.rh - 1), cc \in h.l..(h.l + h.rw - 1)}

IsFrameCell(c) == c.g = "ch" \/ c.bg # DefaultColor \/ c.fg # DefaultColor
FrameCells(S) == {p \in DOMAIN S.cells : IsFrameCell(S.cells[p])}

NeededScrolls(h) == Max(0, h.r0 + h.ph - h.rows + 1)

CleanStep(h, S) ==
  IF S.err # "" THEN S.err
  ELSE IF S.wraps > 0 THEN "wrap: output wrapped at the right margin"
  ELSE IF ~(Touched(S) \subseteq Box(h)) THEN "outside: a cell outside the padded region changed"
  ELSE IF ~(FrameCells(S) \subseteq Inner(h)) THEN "frame-moved: frame content drawn outside the render rectangle of the first frame"
  ELSE IF ~(PlacementCover(S) \subseteq Inner(h)) THEN "image-moved: a graphics placement lies outside the render rectangle"
  ELSE IF S.scrolls > NeededScrolls(h) THEN "scroll: more scrolling than the region's height requires"
  ELSE "ok"

InnerShowsLast(h, S) ==
  CASE h.inner = "letter" ->
         \A p \in Inner(h) : p \in DOMAIN S.cells /\ S.cells[p].g = "ch" /\ S.cells[p].ch = h.last
    [] h.inner = "color" ->
         \A p \in Inner(h) : p \in DOMAIN S.cells /\ S.cells[p].bg = h.color
                              /\ (S.cells[p].g = "sp" \/ S.cells[p].fg = h.color)
    [] h.inner = "gfx" ->
         \* frames of an animation may be stacked on the same cells (whether a terminal
         \* replaces or stacks same-place images is its business); they must cover exactly
         \* the render rectangle and (CleanStep) never lie outside it
         /\ PlacementCover(S) = Inner(h)
         \* on kitty itself the library makes every frame delete its predecessor (same z-index,
         \* translucent frames would blend): no two placements may share a cell there
         /\ (h.nostack => \A i, j \in DOMAIN S.pl : i # j => PlCover(S.pl[i]) \cap PlCover(S.pl[j]) = {})
    [] OTHER -> TRUE

PaddingBlank(h, S) ==
  \A p \in Box(h) \ Inner(h) :
     IF h.fill_empty THEN p \notin DOMAIN S.cells     \* an empty fill leaves the cells untouched
     ELSE p \in DOMAIN S.cells /\ S.cells[p].g = "sp" /\ S.cells[p].bg = DefaultColor

CleanEnd(h, S) ==
  IF N > 0 /\ Toks[N].k = "partial" THEN "incomplete-sequence at end of output"
  ELSE IF ~InnerShowsLast(h, S) THEN "picture: the render rectangle does not show the last frame"
  ELSE IF ~PaddingBlank(h, S) THEN "padding: a padding cell of the box is not blank"
  ELSE IF AbsRow(S) # h.r0 + h.ph THEN "cursor-row: cursor not on the line immediately below the padded region"
  ELSE IF S.c # 0 THEN "cursor-col: cursor not at the start of the line"
  ELSE IF S.scrolls # NeededScrolls(h) THEN "scroll: not exactly the scrolling the region's height requires"
  ELSE IF ~S.vis THEN "cursor-hidden: cursor not visible after draw()"
  ELSE IF ~SgrDefault(S) THEN "sgr-not-reset"
  ELSE IF S.rx # 0 THEN "kitty-chunking-open"
  ELSE IF S.sync # 0 THEN "synchronized-update-open"
  ELSE IF h.wrong_stream THEN "wrong-stream: part of the output went to the stdout of import time, not to sys.stdout"
  ELSE IF h.outcome # "ok" THEN "outcome: draw() raised " \o h.outcome
  ELSE IF ~h.attrs_equal THEN "termios: terminal attributes differ after draw()"
  ELSE IF ~h.fin_live THEN "unfinalized: the render data was not finalized when draw() returned (left to the garbage collector)"
  ELSE IF h.fin # 1 THEN "finalize: render data finalized " \o ToString(h.fin) \o " times"
  ELSE IF ~h.state_same THEN "image-state: size setting or current frame changed"
  ELSE "ok"

FaultEnd(h, S) ==
  \* an open STRING sequence (APC / OSC / DCS: the graphics-protocol commands) swallows all
  \* following output until ST; a cut-off ESC / CSI ends at the next final byte and is not
  \* what the property is about
  IF N > 0 /\ Toks[N].k = "partial" /\ Toks[N].g \notin {"esc", "csi", "scs"}
    THEN "unterminated: the output ends inside a control string (" \o Toks[N].g \o ") - the terminal keeps swallowing output"
  ELSE IF h.wrong_stream THEN "wrong-stream: part of the clean-up went to the stdout of import time, not to sys.stdout"
  ELSE IF S.rx # 0 THEN "kitty-chunking-open: a chunked graphics transfer was left without its last chunk"
  ELSE IF ~S.vis THEN "cursor-hidden: cursor left hidden"
  ELSE IF ~SgrDefault(S) THEN "sgr-not-reset: text attributes left set"
  ELSE IF ~h.attrs_equal THEN "termios: terminal attributes not restored"
  ELSE IF ~h.fin_live THEN "unfinalized: the render data was not finalized when draw() returned / raised (left to the garbage collector)"
  ELSE IF h.fin # 1 THEN "finalize: render data finalized " \o ToString(h.fin) \o " times"
  ELSE IF ~h.state_same THEN "image-state: size setting or current frame changed"
  ELSE IF h.outcome # h.expect THEN "outcome: caller saw " \o h.outcome \o ", documented " \o h.expect
  ELSE "ok"

\* errors of the terminal model that a cut-off sequence legitimately provokes are not
\* judged in fault mode (a terminal ignores a malformed graphics command)
StepClause(h, S) == IF h.mode = "clean" THEN CleanStep(h, S) ELSE "ok"
EndClause(h, S) == IF h.mode = "clean" THEN CleanEnd(h, S) ELSE FaultEnd(h, S)

Init ==
  /\ tid \in 1..Len(Traces)
  /\ l = 0
  /\ T = NewTerminal(Traces[tid].cols, Traces[tid].rows, Traces[tid].r0, 0)
  /\ verdict = "ok"
  /\ at = 0

Consume ==
  /\ l < N
  /\ l' = l + 1
  /\ T' = LET S == Apply(T, Toks[l + 1], Tr.gfx) IN
          IF Tr.mode = "fault" THEN [S EXCEPT !.err = ""] ELSE S
  /\ LET v == IF verdict # "ok" THEN verdict ELSE StepClause(Tr, T') IN
       /\ verdict' = v
       /\ at' = IF verdict = "ok" /\ v # "ok" THEN l + 1 ELSE at
  /\ UNCHANGED tid

Finish ==
  /\ l = N
  /\ l' = N + 1
  /\ LET v == IF verdict # "ok" THEN verdict ELSE EndClause(Tr, T) IN
       /\ verdict' = v
       /\ at' = IF verdict = "ok" /\ v # "ok" THEN N + 1 ELSE at
  /\ UNCHANGED <<tid, T>>

Next == Consume \/ Finish
Spec == Init /\ [][Next]_vars

Report == (l = N + 1) =>
  PrintT(<<"VERDICT", ToJson([tid |-> tid, verdict |-> verdict, at |-> at])>>)
=============================================================================
