---------------------------- MODULE Trace_RenderOp ----------------------------
(* code -> spec: event logs of real operation sequences (one log per data object,  *)
(* in creation order) judged by the lifecycle automaton of RenderOp.tla.            *)
EXTENDS RenderOp, IOUtils
Traces == JsonDeserialize(IOEnv.TRACE_FILE)
VARIABLES tid, l, st, at
vars == <<tid, l, st, at>>
Ev == Traces[tid].events
Init == tid \in 1..Len(Traces) /\ l = 0 /\ st = <<"none", "">> /\ at = 0
Step == /\ l < Len(Ev) /\ l' = l + 1
        /\ st' = LStep(st, Ev[l + 1])
        /\ at' = IF st[2] = "" /\ LStep(st, Ev[l + 1])[2] # "" THEN l + 1 ELSE at
        /\ UNCHANGED tid
Done == l = Len(Ev) /\ l' = l + 1 /\ UNCHANGED <<tid, st, at>>
Spec == Init /\ [][Step \/ Done]_vars
Verdict == IF st[2] # "" THEN st[2] ELSE IF st[1] # "none" THEN "log ends in lifecycle state " \o st[1] ELSE "ok"
Report == (l = Len(Ev) + 1) => PrintT(<<"VERDICT", ToJson([tid |-> tid, verdict |-> Verdict, at |-> at])>>)
=============================================================================
