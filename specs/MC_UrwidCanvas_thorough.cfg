SPECIFICATION Spec
CONSTANTS
  MaxSize = 9
  MaxW = 5
  MaxH = 3
  Colours = {0, 1, 2}
INVARIANT TrimIsCrop
INVARIANT ContentIsCrop
INVARIANT ColoursNeverBleed
INVARIANT GfxVerticalSelectsHorizontalBlanks
ACTION_CONSTRAINT Dump
CHECK_DEADLOCK FALSE
