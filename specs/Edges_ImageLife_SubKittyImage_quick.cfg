SPECIFICATION Spec
CONSTANTS
  Rich = FALSE
  ClsSet = {"SubKittyImage"}
VIEW View
ACTION_CONSTRAINT Dump
INVARIANT InitDump
INVARIANT StateDump
CHECK_DEADLOCK FALSE
