SPECIFICATION Spec
INVARIANT IndefiniteSane
CHECK_DEADLOCK FALSE
