----------------------------- MODULE MC_RenderOp -----------------------------
EXTENDS RenderOp
VARIABLES o, i, st
vars == <<o, i, st>>
Init == /\ o \in Ops /\ i = 0 /\ st = <<"none", "">>
        /\ PrintT(<<"PROG", ToJson([op |-> o, prog |-> Prog(o)])>>)
Step == /\ i < Len(Prog(o)) /\ i' = i + 1 /\ st' = LStep(st, Prog(o)[i + 1]) /\ UNCHANGED o
Spec == Init /\ [][Step]_vars
NoLifecycleError == st[2] = ""
EndsQuiescent == (i = Len(Prog(o))) => st = <<"none", "">>
=============================================================================
