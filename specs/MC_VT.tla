--------------------------------- MODULE MC_VT ---------------------------------
EXTENDS VT
CONSTANT L
VARIABLES str, st, k, evs
vars == <<str, st, k, evs>>
Init == str = <<>> /\ st = "ground" /\ k = "" /\ evs = <<>>
Feed == \E c \in Classes :
          /\ Len(str) < L
          /\ LET r == Step(st, k, c) IN
               /\ st' = r[1] /\ k' = r[2] /\ evs' = evs \o r[3]
          /\ str' = Append(str, c)
Spec == Init /\ [][Feed]_vars
Dump == PrintT(<<"VT", ToJson([s |-> str, st |-> st, k |-> k, ev |-> evs])>>)
SwallowUntilST == \A c \in Classes : StringOnlyEndsAtST(st, k, c)
StatesOK == st \in {"ground", "esc", "scs", "csi", "str", "stresc"}
EventsBounded == Len(evs) <= Len(str)
=============================================================================
