---------------------------- MODULE MC_IterLife ----------------------------
(* Instances of IterLife for TLC (cfg files cannot hold negative literals). *)
EXTENDS IterLife
RepsAll == {-1, 1, 2}
RepsPair == {-1, 2}
RepsBig == {-1, 1, 2, 3}
=============================================================================
