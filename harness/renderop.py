"""C10, one-shot operations: the real code's render-data lifecycle log vs RenderOp.tla."""

from __future__ import annotations

import gc
import io
import random
import sys

from . import iterkit, tlc
from .core import Report


class _Stream(io.StringIO):
    """stdout stand-in (not a tty) that raises KeyboardInterrupt on the k-th frame write."""

    def __init__(self, interrupt_at=0):
        super().__init__()
        self.frame_writes = 0
        self.interrupt_at = interrupt_at

    def write(self, s):
        if any(c.isalpha() for c in s):
            self.frame_writes += 1
            if self.frame_writes == self.interrupt_at:
                raise KeyboardInterrupt
        return super().write(s)


class FinalizerError(Exception):
    pass


class Lab:
    """An instrumented probe renderable with an event log (C / R / F per data object)."""

    def __init__(self):
        C = iterkit.classes()
        self.Probe = C["Probe"]
        self.log: list[tuple[str, int]] = []
        self.finalizer_fails = False
        self.keep: list = []
        lab = self

        class LoggedProbe(self.Probe):
            def _get_render_data_(self, *, iteration):
                d = super()._get_render_data_(iteration=iteration)
                lab.log.append(("C", id(d)))
                lab.keep.append(d)  # the data outlives the operation: prompt vs gc finalization
                return d

            def _render_(self, render_data, render_args):
                lab.log.append(("R", id(render_data)))
                k = getattr(self, "fail_at", 0)
                self.render_calls = getattr(self, "render_calls", 0) + 1
                if k and self.render_calls == k:
                    self.fail_next = self.fail_kind
                return super()._render_(render_data, render_args)

            @classmethod
            def _finalize_render_data_(cls, render_data):
                lab.log.append(("F", id(render_data)))
                super()._finalize_render_data_(render_data)
                if lab.finalizer_fails:
                    lab.finalizer_fails = False  # only the first invocation fails
                    raise FinalizerError("injected finalizer failure")

            def _handle_interrupted_draw_(self, render_data, render_args, output):
                lab.log.append(("H", id(render_data)))
                super()._handle_interrupted_draw_(render_data, render_args, output)

        class PlainLogged(LoggedProbe):
            """overrides nothing: all hooks (the finalizer too) are inherited"""

        # every other Lab runs the operations on the subclass that only inherits its hooks
        Lab._count = getattr(Lab, "_count", 0) + 1
        self.cls = PlainLogged if Lab._count % 2 == 0 else LoggedProbe

    def run(self, o: dict):
        """Execute operation ``o`` (a RenderOp.tla Ops record); returns (events, outcome)."""
        import term_image.renderable._renderable as R
        from term_image.padding import ExactPadding
        from term_image.render import RenderIterator

        from .env import stubs

        stubs.set_term(size=(1, 1) if o["fail"] == "validation" else (8, 6))
        R.sleep = lambda _s: None
        op = o["op"]
        animated = op not in ("render", "str", "draw_still") or o["fail"] == "badargs"
        p = self.cls(2 if animated or op == "draw_still" else 1)
        if o["fail"] in ("exc", "stop", "kbrender"):
            p.fail_at = o["k"] or 1
            p.fail_kind = o["fail"]
        start = len(self.log)
        self.finalizer_fails = o["fail"] == "finfail"
        outcome = "ok"
        kept = None
        out = _Stream(o["k"] if o["fail"] == "interrupt" else 0)
        if o["fail"] == "interrupt" and not o["k"]:
            out.interrupt_at = 1
        old_stdout = sys.stdout
        sys.stdout = out
        bad = None
        if o["fail"] == "badargs":
            from term_image.renderable import RenderArgs

            bad = RenderArgs(iterkit.classes()["Other"])
        try:
            try:
                if bad is not None:
                    if op == "render":
                        p.render(bad)
                    elif op == "draw_still":
                        p.draw(bad, animate=False, padding=ExactPadding())
                    elif op == "draw_anim":
                        p.draw(bad, loops=1, padding=ExactPadding())
                    else:
                        RenderIterator(p, bad)
                elif op == "render":
                    p.render()
                elif op == "str":
                    str(p)
                elif op == "draw_still":
                    p.draw(animate=False, padding=ExactPadding())
                elif op == "draw_anim":
                    p.draw(loops=o["loops"], cache=o["cache"], padding=ExactPadding())
                elif op.startswith("iter_"):
                    it = iter(p)
                    try:
                        self._consume(it, op.split("_")[1], o["k"])
                    finally:
                        del it  # the caller drops its reference, also when an exception escapes
                elif op.startswith("owned_"):
                    kept = p._get_render_data_(iteration=True)
                    it = RenderIterator._from_render_data_(p, kept, finalize=False)
                    try:
                        self._consume(it, op.split("_")[1], o["k"])
                    finally:
                        del it
            except BaseException as e:  # noqa: BLE001 - the class is the observation
                outcome = type(e).__name__
        finally:
            sys.stdout = old_stdout
            stubs.set_term(size=(8, 6))
        self.log.append(("E", 0))
        del p
        self.keep.clear()
        gc.collect()
        self.finalizer_fails = False
        events = [e for e, _ in self.log[start:]]
        if kept is not None:
            events.append("Qkept")
            n = len(self.log)
            kept.finalize()  # the caller finalizes its own data (not part of the judged log)
            del self.log[n:]
        else:
            events.append("Q")
        return events, outcome

    @staticmethod
    def _consume(it, how, k):
        if how == "exhaust":
            for _ in it:
                pass
        else:
            for _ in range(k):
                next(it)
            if how == "close":
                it.close()
                it.close()  # idempotent


EXPECTED_OUTCOME = {
    # (op kind, fail) -> exception class reaching the caller ("ok" = none)
    "exc": "ProbeError",
    "validation": "RenderSizeOutofRangeError",
}


def expected_outcome(o):
    f = o["fail"]
    if f == "no":
        return "ok"
    if f == "finfail":
        return "FinalizerError"
    if f == "badargs":
        return "IncompatibleRenderArgsError"
    if f == "kbrender":
        # Ctrl-C while a frame is being rendered: swallowed by animations, propagated otherwise
        return "ok" if o["op"] == "draw_anim" else "KeyboardInterrupt"
    if f == "stop":
        return "StopDefiniteIterationError"
    if f == "interrupt":
        # animations end silently on Ctrl-C, still draws propagate it
        return "ok" if o["op"] == "draw_anim" else "KeyboardInterrupt"
    return EXPECTED_OUTCOME[f]


def run(rep: Report):
    import gc as _gc

    res = tlc.run("MC_RenderOp", "MC_RenderOp.cfg", workers=1, timeout=300)
    rep.add_tlc(res)
    if res.violated:
        rep.violation(f"design:RenderOp:{res.violated}", res.error_text[:1500], {"kind": "design"})
        return
    progs = res.tagged("PROG")
    if len(progs) < 40:
        raise tlc.MachineryError(f"only {len(progs)} PROG lines from MC_RenderOp")
    _gc.unfreeze()
    lab = Lab()
    for pr in progs:
        o, prog = pr["op"], list(pr["prog"])
        rep.evaluations += 1
        rep.traces_validated += 1
        events, outcome = lab.run(o)
        rep.distinct.add(("renderop", o["op"], o["fail"], o["loops"], o["cache"], o["k"]))
        exp_out = expected_outcome(o)
        if events != prog:
            rep.violation(
                f"RenderOp:{o['op']}:{o['fail']}:lifecycle",
                f"operation {o}: render-data event log of the real code {events} differs from the "
                f"specified program {prog} (C=created, R=rendered with, F=finalized, Q=quiescent)",
                {"kind": "renderop", "op": o, "prog": prog},
            )
        elif outcome != exp_out:
            rep.violation(
                f"RenderOp:{o['op']}:{o['fail']}:outcome",
                f"operation {o}: caller saw {outcome}, specified {exp_out}",
                {"kind": "renderop", "op": o, "prog": prog},
            )
    rep.sample({"renderop": progs[0]})
    # code -> spec: random operation sequences, every data object's log judged by the automaton
    rng = random.Random(rep.seed * 31 + 5)
    n_seq = 150 if rep.tier == "quick" else 5000
    traces = []
    for _ in range(n_seq):
        o = dict(rng.choice(progs)["op"])
        events, _ = lab.run(o)
        traces.append({"events": events, "op": o})
        rep.evaluations += 1
    verdicts, st, tr = tlc.validate_traces("Trace_RenderOp", "Trace_RenderOp.cfg", traces, batch=500,
                                           parallel=2, workers=2, name="renderop")
    rep.states += st
    rep.transitions += tr
    rep.traces_validated += len(traces)
    for t, v in zip(traces, verdicts):
        if v["verdict"] != "ok":
            rep.violation(
                f"RenderOp:{t['op']['op']}:{t['op']['fail']}:automaton",
                f"{v['verdict']} at event {v['at']} of {t['events']} for {t['op']}",
                {"kind": "renderop", "op": t["op"], "prog": None},
            )


def replay_scenario(rep: Report, sc: dict):
    lab = Lab()
    events, outcome = lab.run(sc["op"])
    rep.evaluations += 1
    prog = sc.get("prog")
    if prog is not None and events != prog:
        rep.violation(f"RenderOp:{sc['op']['op']}:{sc['op']['fail']}:lifecycle",
                      f"log {events} vs program {prog}", sc)
    elif outcome != expected_outcome(sc["op"]):
        rep.violation(f"RenderOp:{sc['op']['op']}:{sc['op']['fail']}:outcome",
                      f"caller saw {outcome}", sc)
