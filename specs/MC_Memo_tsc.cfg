SPECIFICATION Spec
CONSTANTS
  NT = 3
  Prog <- TscProg
  Kind = "tsc"
  Sizes = {1, 2, 3}
  MaxResize = 2
  Variant = "code"
INVARIANT BodyOnce
INVARIANT BodyExclusive
VIEW View
CHECK_DEADLOCK FALSE
ACTION_CONSTRAINT Dump
