SPECIFICATION Spec
CONSTANTS
  N = 3
  Postponed = TRUE
  Offs <- OffsDef
  MaxDepth = 4
CONSTRAINT Bound
VIEW View
ACTION_CONSTRAINT Dump
INVARIANT FrameInRange
INVARIANT EvaluatedAtMostOnce
PROPERTY RejectedChangesNothing
CHECK_DEADLOCK FALSE
