SPECIFICATION Spec
CONSTANTS
  Rich = FALSE
  MaxWeight = 1
  PrevByRoute = FALSE
VIEW View
CONSTRAINT Bound
ACTION_CONSTRAINT Dump
INVARIANT InitDump
CHECK_DEADLOCK FALSE
