"""X07 (extension) - the attribute-dispatch and decoration machinery of `term_image.utils`:
`ClassInstanceMethod`, `ClassProperty` / `ClassInstanceProperty` (+ the metaclass idiom the library
uses them with), `no_redecorate`, the argument-error helpers, and which terminal
`get_terminal_size()` asks.

models:     specs/AttrDispatch.tla (+Core, MC_AttrDispatch): stored values per class / instance and
            property kind of a probe class tree (diamond, derived metaclass, derived descriptors);
            specs/Redecorate.tla (+Core): layers around two functions; specs/ActiveTerminal.tla
            (+Core, MC_ActiveTerminal): one process from loading the package to its end.
spec->code: TLC prints every edge (and, per state, what the real objects must show);
            harness/graph.py gives covering walks; every walk runs on FRESH probe classes
            (x07_world.py) / fresh decorators (x07_deco.py) / a fresh REAL process on real ptys
            (x07_tty.py), the observable projection is compared after EVERY step; after a
            difference the real objects are put into the spec's state and the walk goes on.
code->spec: seeded random histories on random class trees / layer stacks / stream arrangements,
            validated by TLC against Trace_AttrDispatch / Trace_Redecorate / Trace_ActiveTerminal;
            every difference of the replay is validated the same way (TLC names the clause).
guards:     a tampered edge must be noticed by each replay, a corrupted trace must be rejected by
            each Trace spec at the corrupted event, every action must have been generated, the
            recorded histories must have shown every kind of outcome (exit 2 otherwise).
"""

from __future__ import annotations

import copy
import json
import random
import time
from concurrent.futures import ThreadPoolExecutor

from .. import graph, tlc
from .. import x07_deco as D
from .. import x07_world as W
from ..core import Report
from ..x07_tty import TtyWorld

ASSUMPTIONS = [
    "the probe classes follow the library's own idiom (ImageMeta/ITerm2ImageMeta + BaseImage/ITerm2Image): class level "
    "= descriptor on the metaclass built with @prop.setter/@prop.deleter, instance level = descriptor of the same "
    "kind in the class body; accessors store in `_<name>` of the invoker and read with getattr(invoker, name, default)",
    "'nearest class that has a value' under multiple inheritance is the method resolution order (C3); the spec computes "
    "it and every trace carries the real __mro__, a disagreement is a machinery failure",
    "the text of the AttributeError of a property without setter/deleter is CPython's and is not judged; TypeError / "
    "ValueError messages of rejected values are judged against the documented shapes of the arg_* helpers",
    "type(value).__qualname__ and repr(value) of the values given to the helpers are computed by the harness (dumb "
    "projection); argument names are plain identifiers so that repr(name) is the name in single quotes",
    "a ClassInstanceMethod without a registered instance variant invoked on an instance is undocumented "
    "(AttributeError today): recorded as information, not judged",
    "__doc__ of a copy made by .setter()/.deleter() of a descriptor constructed with doc= depends on the CPython "
    "version (lost on 3.12): recorded as information; the doc of directly constructed descriptors is judged",
    "no_redecorate: decorators are functools.wraps-based like all of the library's; an opaque (non-wraps) layer hides "
    "the marker - modelled as the named deviation RedecorateAboveOpaque; two different decorators with the same "
    "__name__ share a marker - recorded as information",
    "get_terminal_size(): without an active terminal, or when it is hung up, the answer is shutil.get_terminal_size() "
    "as documented by Python (COLUMNS/LINES per dimension, else the terminal behind stdout, else 80x24) - named "
    "fallback branch of the spec; terminals never report a zero size in the scenarios",
    "real pseudo-terminals stand for terminals; 'hang up' = the master side is closed",
]

API = {"cip": "ClassInstanceProperty", "cp": "ClassProperty", "ro": "ClassProperty(read-only)", "m": "ClassInstanceMethod"}
DISPATCH_ACTIONS = (
    "PropGet", "PropSet", "PropSetInvalidType", "PropSetOutOfRange", "PropDelete", "PropDeleteUnset", "ShadowSet",
    "ShadowDelete", "ReadOnlySet", "ReadOnlyDelete", "MethodSetViaClass", "MethodSetViaInstance",
    "MethodUnsetViaClass", "MethodUnsetViaInstance", "MethodInvalid", "MethodLook", "Introspect", "ErrorHelper")
DECO_ACTIONS = ("DecorateFirst", "RedecorateBlocked", "RedecorateAboveOpaque", "DecorateUnguarded", "DecorateOpaque",
                "Rewrap", "DecoratorMeta", "Call")
TTY_ACTIONS = ("Load", "Resize", "SetEnv", "Hangup", "Query")
R_KEYS = ("res", "msg", "val", "log", "cls")
MAX_SEG = 10          # events kept before a difference
MAX_DIFF_PER_WALK = 2
MAX_DIFF_TRACES = 600


# ====================================================================== dispatch: spec -> code
def _state(k: dict) -> dict:
    return {"cip": k["c"], "cp": k["p"], "m": k["m"]}


def _ev(world: W.World, op: dict, h: dict | None = None) -> dict:
    r = world.do(op, h)
    hh = W.NO_H if op["k"] != "err" else {k: (h or W.default_h(op["p"], op["a"]))[k] for k in W.NO_H}
    return {"op": op, "r": r, "obs": world.obs(), "h": hh}


def _tlc_ev(e: dict) -> dict:
    return {"op": e["op"], "r": {k: e["r"][k] for k in R_KEYS}, "obs": e["obs"], "h": e["h"]}


def _dtrace(world: W.World, init: dict, evs: list[dict]) -> dict:
    return {"w": world.w, "mro": world.mro(), "init": init, "ev": evs, "variant": world.variant}


def play_dispatch(walk: list[dict], states: dict, desc: dict, variant: int, keep_clean: bool) -> dict:
    world = W.World(desc, variant)
    seg: list[tuple[dict, dict]] = []
    diffs, steps = [], 0
    for e in walk:
        exp = e["op"]
        ev = _ev(world, exp["op"])
        steps += 1
        seg.append((e["from"], ev))
        why = next((k for k in R_KEYS if ev["r"][k] != exp[k]), None)
        if why is None and ev["obs"] != states[graph.key(e["to"])]:
            why = "obs"
        if why:
            if len(diffs) < MAX_DIFF_PER_WALK:
                part = seg[-MAX_SEG:]
                t = _dtrace(world, _state(part[0][0]), [x[1] for x in part])
                t["why"] = why
                diffs.append(t)
            world.force(_state(e["to"]))
            seg = []
    clean = None
    if keep_clean and not diffs:
        clean = _dtrace(world, _state(walk[0]["from"]), [x[1] for x in seg[:40]])
    return {"steps": steps, "diffs": diffs, "clean": clean}


def validate_dispatch(traces: list[dict], name: str):
    if not traces:
        return [], 0, 0
    payload = [{"w": t["w"], "mro": t["mro"], "init": t["init"], "ev": [_tlc_ev(e) for e in t["ev"]]} for t in traces]
    return tlc.validate_traces("Trace_AttrDispatch", "Trace_AttrDispatch.cfg", payload, batch=250, parallel=3,
                               workers=2, timeout=600, name=name)


# ---------------------------------------------------------------------- dispatch: code -> spec
ERR_VALUES = [7, -3, 0, 3.5, None, "abc", (1, 2), [1], True, b"x"]
ERR_ARGS = ["x", "pos", "jpeg_quality", "h_align", "frame_count"]
ERR_MSGS = ["Invalid thing", "'x' must be positive", "Unknown render method"]
ERR_EXTRAS = ["n_frames=3", "got more", "style='kitty'"]


class _Outer:
    class Inner:
        def __repr__(self):
            return "Inner()"


def _random_h(rng, helper, with_extra):
    v = rng.choice(ERR_VALUES + [_Outer.Inner()])
    arg = rng.choice(ERR_MSGS if helper.endswith("_msg") else ERR_ARGS)
    return {"arg": arg, "tname": type(v).__qualname__, "vrepr": repr(v), "extra": rng.choice(ERR_EXTRAS) if with_extra else "",
            "value": v}


def _random_op(rng, world: W.World):
    n = rng.randint(1, world.n)
    k = rng.choices(["cip", "cp", "ro", "m", "err", "static"], [10, 8, 3, 10, 2, 1])[0]
    if k == "err":
        helper = rng.choice(W.HELPERS)
        a = rng.randrange(2)
        return {"k": "err", "p": helper, "n": 1, "a": a}, _random_h(rng, helper, a == 1)
    if k == "static":
        return {"k": "static", "p": "ro", "n": 1, "a": 0}, None
    if k == "m":
        kk = rng.choices(["call", "look"], [4, 1])[0]
        a = 0 if kk == "look" else rng.choice([1, 2, 1, 2, 0, 0, W.BAD_TYPE, W.BAD_RANGE])
        return {"k": kk, "p": "m", "n": n, "a": a}, None
    kk = rng.choices(["get", "set", "del"], [2, 5, 3])[0]
    a = 0 if kk != "set" else rng.choice([1, 2, 1, 2, 1, 2, W.BAD_TYPE, W.BAD_RANGE])
    return {"k": kk, "p": k, "n": n, "a": a}, None


def record_dispatch(rng: random.Random, length: int, max_classes: int, falsy: bool) -> dict:
    desc = W.random_world(rng, max_classes, falsy)
    world = W.World(desc, rng.randrange(6))
    init = {k: [0] * world.n for k in W.STORED}
    evs = []
    for _ in range(length):
        op, h = _random_op(rng, world)
        evs.append(_ev(world, op, h))
    return _dtrace(world, init, evs)


def helper_grid() -> dict:
    """Every helper x with / without the extra part x every value of the alphabet, on a minimal world."""
    desc = {"nc": 1, "bases": [[]], "m2": [False], "cls": [0, 1], "falsy": [False, False],
            "decl": [{"own": True, "from": 0, "cls": True, "inst": True}]}
    world = W.World(desc, 0)
    evs = []
    for helper in W.HELPERS:
        for a in (0, 1):
            for i, v in enumerate(ERR_VALUES + [_Outer.Inner()]):
                pool = ERR_MSGS if helper.endswith("_msg") else ERR_ARGS
                h = {"arg": pool[i % len(pool)], "tname": type(v).__qualname__, "vrepr": repr(v),
                     "extra": ERR_EXTRAS[i % len(ERR_EXTRAS)] if a else "", "value": v}
                evs.append(_ev(world, {"k": "err", "p": helper, "n": 1, "a": a}, h))
    return _dtrace(world, {k: [0, 0] for k in W.STORED}, evs)


# ====================================================================== no_redecorate
def play_deco(walk: list[dict], states: dict, keep_clean: bool) -> dict:
    init = [walk[0]["from"]["a"], walk[0]["from"]["b"]]
    world = D.DecoWorld(init if any(init) else None)
    seg, diffs, steps = [], [], 0
    for e in walk:
        op = e["op"]["op"]
        r = world.do(op)
        ev = {"op": op, "r": {"same": r["same"], "ok": r["ok"]}, "obs": world.obs(), "exc": r.get("exc", "")}
        steps += 1
        seg.append((e["from"], ev))
        if ev["r"]["same"] != e["op"]["same"] or ev["r"]["ok"] != e["op"]["ok"] or ev["obs"] != states[graph.key(e["to"])]:
            if len(diffs) < MAX_DIFF_PER_WALK:
                part = seg[-MAX_SEG:]
                diffs.append({"init": [part[0][0]["a"], part[0][0]["b"]], "ev": [x[1] for x in part]})
            world.force([e["to"]["a"], e["to"]["b"]])
            seg = []
    clean = {"init": init, "ev": [x[1] for x in seg[:40]]} if keep_clean and not diffs else None
    return {"steps": steps, "diffs": diffs, "clean": clean}


def record_deco(rng: random.Random, length: int) -> dict:
    world = D.DecoWorld()
    evs = []
    for _ in range(length):
        k = rng.choices(["decorate", "rewrap", "decmeta", "call"], [12, 1, 1, 2])[0]
        d = rng.choice(D.DECOS if k == "decorate" else D.GUARDED) if k != "call" else ""
        if k == "decorate" and rng.random() < 0.5:
            d = rng.choice(D.GUARDED)
        op = {"k": k, "d": d, "f": rng.choice([1, 1, 2])}
        r = world.do(op)
        evs.append({"op": op, "r": {"same": r["same"], "ok": r["ok"]}, "obs": world.obs(), "exc": r.get("exc", "")})
    return {"init": [[], []], "ev": evs}


def validate_deco(traces: list[dict], name: str):
    if not traces:
        return [], 0, 0
    payload = [{"init": t["init"], "ev": [{"op": e["op"], "r": e["r"], "obs": e["obs"]} for e in t["ev"]]} for t in traces]
    return tlc.validate_traces("Trace_Redecorate", "Trace_Redecorate.cfg", payload, batch=400, parallel=2, workers=2,
                               timeout=600, name=name)


# ====================================================================== active terminal
T_KEYS = ("cols", "lines", "act", "via", "warned")


def run_tty(conf: dict, size0: list, ops: list[dict]) -> dict:
    world = TtyWorld(conf, size0)
    evs = []
    try:
        for op in ops:
            r = world.do(op)
            evs.append({"op": op, "r": {k: r[k] for k in T_KEYS}, "exc": r["exc"]})
    finally:
        world.close()
    return {"conf": conf, "size0": size0, "ev": evs}


def play_tty(walk: list[dict]) -> dict:
    st = walk[0]["from"]
    ops, exps = [], []
    for e in walk:
        op = dict(e["op"]["op"])
        if op["k"] == "resize":
            op["c"], op["l"] = e["to"]["size"][op["t"] - 1]
        ops.append(op)
        exps.append(e["op"])
    world = TtyWorld(st["conf"], st["size"])
    evs, diff = [], ""
    try:
        for op, exp in zip(ops, exps):
            r = world.do(op)
            evs.append({"op": op, "r": {k: r[k] for k in T_KEYS}, "exc": r["exc"]})
            keys = T_KEYS if op["k"] == "load" else ("cols", "lines", "act")
            bad = [k for k in keys if r[k] != exp[k]]
            if bad:
                diff = f"{bad[0]}: code {r[bad[0]]!r} {r['exc']}, spec {exp[bad[0]]!r}"
                break
    finally:
        world.close()
    return {"conf": st["conf"], "size0": st["size"], "ev": evs, "diff": diff, "steps": len(evs), "cut": len(walk) - len(evs)}


def record_tty(rng: random.Random, length: int) -> dict:
    def pick():
        return rng.choice([0, 0, 1, 2, 3, 4])

    conf = {"out": pick(), "in": pick(), "err": pick(), "ctty": pick()}
    if rng.random() < 0.3:  # the everyday arrangements
        conf = rng.choice([{"out": 1, "in": 1, "err": 1, "ctty": 1}, {"out": 0, "in": 1, "err": 1, "ctty": 1},
                           {"out": 0, "in": 0, "err": 0, "ctty": 0}, {"out": 0, "in": 0, "err": 2, "ctty": 2}])
    size0 = [[rng.randint(1, 200), rng.randint(1, 200)] for _ in range(4)]
    used = sorted({conf[k] for k in conf} - {0})
    alive = set(used)
    ops = [{"k": "load", "t": 0, "c": 0, "l": 0}]
    for _ in range(length):
        k = rng.choices(["resize", "env", "hangup", "query"], [6, 4, 1, 3])[0]
        if k == "resize" and alive:
            ops.append({"k": k, "t": rng.choice(sorted(alive)), "c": rng.randint(1, 200), "l": rng.randint(1, 200)})
        elif k == "hangup" and alive:
            t = rng.choice(sorted(alive))
            alive.discard(t)
            ops.append({"k": k, "t": t, "c": 0, "l": 0})
        elif k == "env":
            c, l = rng.choice([(0, 0), (rng.randint(1, 200), rng.randint(1, 200)), (rng.randint(1, 200), 0), (0, rng.randint(1, 200))])
            ops.append({"k": k, "t": 0, "c": c, "l": l})
        else:
            ops.append({"k": "query", "t": 0, "c": 0, "l": 0})
    return run_tty(conf, size0, ops)


def validate_tty(traces: list[dict], name: str):
    if not traces:
        return [], 0, 0
    payload = [{"conf": t["conf"], "size0": t["size0"], "ev": [{"op": e["op"], "r": e["r"]} for e in t["ev"]]} for t in traces]
    return tlc.validate_traces("Trace_ActiveTerminal", "Trace_ActiveTerminal.cfg", payload, batch=400, parallel=2,
                               workers=2, timeout=600, name=name)


# ====================================================================== verdicts -> violations
def _node_text(w: dict, n: int) -> str:
    if n <= w["nc"]:
        return f"class P{n}" + ("[M2]" if w["m2"][n - 1] else "")
    return f"instance #{n} of P{w['cls'][n - 1]}" + (" (falsy)" if w["falsy"][n - 1] else "")


def _dop_text(w: dict, e: dict) -> str:
    op = e["op"]
    a = {0: "None", W.BAD_TYPE: "'x'", W.BAD_RANGE: "99"}.get(op["a"], str(op["a"]))
    who = _node_text(w, op["n"])
    k = op["k"]
    txt = {"get": f"{who}.{op['p']}", "set": f"{who}.{op['p']} = {a}", "del": f"del {who}.{op['p']}",
           "call": f"{who}.set_m({a})", "look": f"{who}.get_m()", "static": "descriptor facts",
           "err": f"utils.{op['p']}({e['h']['arg']!r}, {e['h']['vrepr']}{', ' + repr(e['h']['extra']) if e['h']['extra'] else ''})"}[k]
    return txt


def report_dispatch(rep: Report, traces, verdicts, origin: str) -> int:
    bad = 0
    for t, v in zip(traces, verdicts):
        if v["verdict"] == "ok":
            continue
        if v["verdict"] in ("trace-malformed", "mro-differs-from-python", "mro-not-well-formed"):
            raise tlc.MachineryError(f"x07: {v['verdict']} at event {v['at']} ({origin}); world {t['w']} mro {t['mro']}")
        bad += 1
        at = v["at"]
        e = t["ev"][at - 1]
        op = e["op"]
        w = t["w"]
        if v["verdict"] == "falsy-instance-dispatched-as-class":
            sig = "ClassInstanceMethod:falsy-instance-dispatched-as-class"
        elif v["verdict"].startswith("observer-"):  # the probe's reader get_m() is a ClassInstanceMethod itself
            sig = f"ClassInstanceMethod:{v['verdict']}"
        elif op["k"] == "err":
            sig = f"{op['p']}:{v['verdict']}"
        elif op["k"] == "static":
            facts = e["r"].get("facts") or ["?"]
            sig = f"descriptors:{v['verdict']}[{facts[0]}]"
        else:
            kind = "m" if op["k"] in ("call", "look") else op["p"]
            sig = f"{API[kind]}:{'class' if op['n'] <= w['nc'] else 'instance'}-{v['verdict']}"
        lines = [f"[{origin}] {v['verdict']} at event {at} of {len(t['ev'])}",
                 f"  classes: bases {w['bases']}, derived metaclass {w['m2']}, instances of {w['cls'][w['nc']:]}, "
                 f"set_m declarations {[(d['from'], d['cls'], d['inst']) if d['own'] else None for d in w['decl']]}",
                 f"  stored at the start: {t['init']}"]
        for i, x in enumerate(t["ev"][:at], 1):
            if i >= at - 6:
                lines.append(f"  {i}. {_dop_text(w, x)} -> {x['r']['res']} {x['r'].get('exc_text', '')}".rstrip())
        lines.append(f"  observed result: { {k: e['r'][k] for k in R_KEYS} } {e['r'].get('facts', '')}")
        lines.append(f"  observed after it: {e['obs']}")
        rep.violation(sig, "\n".join(lines),
                      {"part": "dispatch", "w": w, "variant": t.get("variant", 0), "init": t["init"],
                       "ops": [x["op"] for x in t["ev"][:at]], "hs": [x["h"] for x in t["ev"][:at]]})
    return bad


def report_deco(rep: Report, traces, verdicts, origin: str) -> int:
    bad = 0
    for t, v in zip(traces, verdicts):
        if v["verdict"] == "ok":
            continue
        if v["verdict"] == "trace-malformed":
            raise tlc.MachineryError(f"x07: malformed no_redecorate trace ({origin}) at {v['at']}")
        bad += 1
        at = v["at"]
        e = t["ev"][at - 1]
        lines = [f"[{origin}] {v['verdict']} at event {at} of {len(t['ev'])}; layers at the start: {t['init']}"]
        for i, x in enumerate(t["ev"][:at], 1):
            if i >= at - 8:
                lines.append(f"  {i}. {x['op']['k']} {x['op']['d']} on f{x['op']['f']} -> same={x['r']['same']} ok={x['r']['ok']} {x.get('exc', '')}")
        lines.append(f"  observed after it: {e['obs']}")
        rep.violation(f"no_redecorate:{v['verdict']}", "\n".join(lines),
                      {"part": "deco", "init": t["init"], "ops": [x["op"] for x in t["ev"][:at]]})
    return bad


def report_tty(rep: Report, traces, verdicts, origin: str) -> int:
    bad = 0
    for t, v in zip(traces, verdicts):
        if v["verdict"] == "ok":
            continue
        if v["verdict"] == "trace-malformed":
            raise tlc.MachineryError(f"x07: malformed terminal trace ({origin}) at {v['at']}: {t['conf']}")
        bad += 1
        at = v["at"]
        lines = [f"[{origin}] {v['verdict']} at event {at} of {len(t['ev'])}",
                 f"  terminals behind stdout/stdin/stderr/controlling: {t['conf']}, sizes at the start {t['size0']}"]
        for i, x in enumerate(t["ev"][:at], 1):
            if i >= at - 8:
                lines.append(f"  {i}. {x['op']} -> {x['r']} {x.get('exc', '')}")
        if t.get("diff"):
            lines.append(f"  replay difference: {t['diff']}")
        rep.violation(f"get_terminal_size:{v['verdict']}", "\n".join(lines),
                      {"part": "tty", "conf": t["conf"], "size0": t["size0"], "ops": [x["op"] for x in t["ev"][:at]]})
    return bad


# ====================================================================== replay of one scenario
def _replay(rep: Report, replay: dict) -> None:
    sc = replay["scenario"]
    part = sc.get("part")
    if part == "design":
        res = tlc.run(sc["spec"], sc["cfg"], workers=1, timeout=900)
        rep.add_tlc(res)
        if res.violated:
            rep.violation(f"design:{sc['spec']}:{res.violated}", res.error_text[:1500], sc)
        return
    if part == "dispatch":
        world = W.World(sc["w"], sc.get("variant", 0), sc["init"])
        evs = []
        for op, h in zip(sc["ops"], sc["hs"]):
            hh = None
            if op["k"] == "err":
                hh = dict(h, value=next((v for v in ERR_VALUES + [_Outer.Inner()] if repr(v) == h["vrepr"]), 7))
            evs.append(_ev(world, op, hh))
        t = _dtrace(world, sc["init"], evs)
        v, st, tr = validate_dispatch([t], "x07-replay")
        report_dispatch(rep, [t], v, "replay")
    elif part == "deco":
        world = D.DecoWorld(sc["init"] if any(sc["init"]) else None)
        evs = []
        for op in sc["ops"]:
            r = world.do(op)
            evs.append({"op": op, "r": {"same": r["same"], "ok": r["ok"]}, "obs": world.obs(), "exc": r.get("exc", "")})
        t = {"init": sc["init"], "ev": evs}
        v, st, tr = validate_deco([t], "x07-replay")
        report_deco(rep, [t], v, "replay")
    elif part == "tty":
        t = run_tty(sc["conf"], sc["size0"], sc["ops"])
        v, st, tr = validate_tty([t], "x07-replay")
        report_tty(rep, [t], v, "replay")
    else:
        raise tlc.MachineryError(f"x07: unknown replay scenario {part!r}")
    rep.states += st
    rep.transitions += tr
    rep.traces_validated += 1
    rep.evaluations += len(t["ev"])


# ====================================================================== main
def _check_model(rep: Report, res, spec: str, cfg: str) -> bool:
    rep.add_tlc(res)
    if res.violated:
        rep.violation(f"design:{spec}:{res.violated}", f"the model {spec} ({cfg}) violates {res.violated}\n" + res.error_text[:1500],
                      {"part": "design", "spec": spec, "cfg": cfg})
        return False
    return True


def main(rep: Report, replay: dict | None) -> None:
    rep.assumptions += ASSUMPTIONS
    rep.rule = (
        "spec->code: every edge of the explored state graphs (AttrDispatch: all states with <= MaxWeight stored values "
        "per configuration; Redecorate: <= MaxLayers layers; ActiveTerminal: complete) replayed on fresh real probe "
        "classes / decorators / processes, projection compared after each step; code->spec: seeded random histories "
        "validated by TLC; distinct_nontrivial = distinct (model, state, operation) edges + distinct recorded histories")
    if replay:
        _replay(rep, replay)
        return
    quick = rep.tier == "quick"
    U = W.utils()
    timing = rep.extra.setdefault("timing_s", {})
    t_start = time.time()

    def lap(name, t0):
        timing[name] = round(time.time() - t0, 1)

    sfx = "" if quick else "_T"
    dcfgs = ["cip", "cp", "m", "mix", "falsy"]
    with ThreadPoolExecutor(max_workers=4) as ex, ThreadPoolExecutor(max_workers=4) as ex2:
        # ---- models (edge dumps need one worker each; they run side by side)
        f_tty = ex.submit(tlc.run, "MC_ActiveTerminal", f"MC_ActiveTerminal{sfx}.cfg", workers=1, timeout=900, coverage=True)
        f_disp = {c: ex.submit(tlc.run, "MC_AttrDispatch", f"MC_AttrDispatch_{c}{sfx}.cfg", workers=1,
                               timeout=900 if quick else 2400, coverage=True) for c in dcfgs}
        f_deco = ex.submit(tlc.run, "Redecorate", f"MC_Redecorate{sfx}.cfg", workers=1, timeout=900, coverage=True)

        # ---- code -> spec: record seeded histories meanwhile
        t0 = time.time()
        rng = random.Random(rep.seed * 7919 + 7)
        n_d = 250 if quick else 3000
        hist_d = [record_dispatch(rng, rng.randint(10, 24) if quick else rng.randint(15, 50), 6 if quick else 9,
                                  falsy=(i % 25 == 24)) for i in range(n_d)]
        hist_d.append(helper_grid())
        rngd = random.Random(rep.seed * 7919 + 8)
        hist_k = [record_deco(rngd, rngd.randint(8, 20) if quick else rngd.randint(10, 40)) for _ in range(150 if quick else 1500)]
        lap("record_histories", t0)
        # guards: corrupted copies (one observed value altered) ride along
        can_d = []
        for i, t in enumerate(hist_d[:12]):
            c = copy.deepcopy(t)
            c["ev"] = c["ev"][:5]
            c["ev"][4]["obs"]["eff"]["cip"][0] += 1
            can_d.append((i, c))
        can_k = []
        for i, t in enumerate(hist_k[:6]):
            c = copy.deepcopy(t)
            c["ev"] = c["ev"][:5]
            c["ev"][4]["obs"][0]["wd"] += 1
            can_k.append((i, c))
        f_hd = ex2.submit(validate_dispatch, hist_d + [c for _, c in can_d], "x07-c2s-d")
        f_hk = ex2.submit(validate_deco, hist_k + [c for _, c in can_k], "x07-c2s-k")

        # ---- active terminal: random histories on real processes (4 at a time)
        t0 = time.time()
        rngt = random.Random(rep.seed * 7919 + 9)
        seeds_t = [rngt.randrange(1 << 30) for _ in range(24 if quick else 200)]
        hist_t = list(ex2.map(lambda s: record_tty(random.Random(s), random.Random(s).randint(8, 16)), seeds_t))
        lap("record_tty_histories", t0)
        can_t = []
        for i, t in enumerate(hist_t[:6]):
            c = copy.deepcopy(t)
            c["ev"] = c["ev"][:4]
            c["ev"][3]["r"]["cols"] += 1
            can_t.append((i, c))
        f_ht = ex2.submit(validate_tty, hist_t + [c for _, c in can_t], "x07-c2s-t")

        # ---- active terminal: spec -> code
        t0 = time.time()
        res_t = f_tty.result()
        lap("wait_model_tty", t0)
        if not _check_model(rep, res_t, "MC_ActiveTerminal", f"MC_ActiveTerminal{sfx}.cfg"):
            return
        vac = [a for a in TTY_ACTIONS if res_t.coverage.get(a, (0, 0))[1] == 0]
        if vac:
            raise tlc.MachineryError(f"x07: vacuous actions in ActiveTerminal: {vac}")
        g_t = graph.from_result(res_t)
        walks_t = g_t.walks(max_len=80)
        if not g_t.edges or g_t.unreachable_edges:
            raise tlc.MachineryError("x07: ActiveTerminal edge dump empty or with unreachable edges")
        t0 = time.time()
        played_t = list(ex2.map(play_tty, walks_t))
        lap("replay_tty_walks", t0)
        victim = next((w for w, t in zip(walks_t, played_t) if not t["diff"] and len(w) > 3), None)
        tamp_t = "not evaluable"
        if victim is not None:
            tam = copy.deepcopy(victim[:4])
            tam[3]["op"]["cols"] += 1
            tamp_t = "noticed" if play_tty(tam)["diff"] else "MISSED"
        f_wt = ex2.submit(validate_tty, played_t, "x07-s2c-t")

        # ---- no_redecorate: spec -> code
        res_k = f_deco.result()
        if not _check_model(rep, res_k, "Redecorate", f"MC_Redecorate{sfx}.cfg"):
            return
        vac = [a for a in DECO_ACTIONS if res_k.coverage.get(a, (0, 0))[1] == 0]
        if vac:
            raise tlc.MachineryError(f"x07: vacuous actions in Redecorate: {vac}")
        g_k = graph.from_result(res_k)
        st_k = {graph.key(s["k"]): s["obs"] for s in res_k.tagged("STATE")}
        walks_k = g_k.walks(max_len=40)
        if not g_k.edges or g_k.unreachable_edges:
            raise tlc.MachineryError("x07: Redecorate edge dump empty or with unreachable edges")
        t0 = time.time()
        played_k = [play_deco(w, st_k, i % 10 == 0) for i, w in enumerate(walks_k)]
        lap("replay_deco_walks", t0)
        tamp_k = "not evaluable"
        victim = next((w for w, t in zip(walks_k, played_k) if not t["diffs"] and len(w) > 2), None)
        if victim is not None:
            tam = copy.deepcopy(victim[:3])
            tam[2]["op"]["same"] = not tam[2]["op"]["same"]
            tamp_k = "noticed" if play_deco(tam, st_k, False)["diffs"] else "MISSED"
        diff_k = [d for t in played_k for d in t["diffs"]][:MAX_DIFF_TRACES]
        clean_k = [t["clean"] for t in played_k if t["clean"]]
        f_wk = ex2.submit(validate_deco, diff_k + clean_k, "x07-s2c-k")

        # ---- descriptors: spec -> code
        model_d, cover = {}, {}
        played_d_all, walks_n, steps_d, edges_d = [], 0, 0, 0
        tamp_d = "not evaluable"
        for c in dcfgs:
            t0 = time.time()
            res = f_disp[c].result()
            timing[f"wait_model_{c}"] = round(time.time() - t0, 1)
            if not _check_model(rep, res, "MC_AttrDispatch", f"MC_AttrDispatch_{c}{sfx}.cfg"):
                return
            for a in DISPATCH_ACTIONS:
                cover[a] = cover.get(a, 0) + res.coverage.get(a, (0, 0))[1]
            model_d[c] = {"states": res.distinct, "transitions": res.generated, "wall_s": round(res.wall_s, 1)}
            g = graph.from_result(res)
            wd = res.tagged("WORLD")
            walks = g.walks(max_len=40)
            if not g.edges or g.unreachable_edges or len(wd) != 1:
                raise tlc.MachineryError(f"x07: AttrDispatch({c}) edge dump empty / unreachable edges / no WORLD line")
            states = {graph.key(s["k"]): s["obs"] for s in res.tagged("STATE")}
            missing = {graph.key(e["to"]) for e in g.edges} - set(states)
            if missing:
                raise tlc.MachineryError(f"x07: AttrDispatch({c}): {len(missing)} states without a STATE line")
            if W.World(wd[0]["w"]).mro() != wd[0]["mro"]:
                raise tlc.MachineryError(f"x07: C3 of the spec differs from Python's __mro__ for world {c}")
            t0 = time.time()
            played = [play_dispatch(w, states, wd[0]["w"], i + rep.seed, i % 12 == 0) for i, w in enumerate(walks)]
            timing[f"replay_{c}"] = round(time.time() - t0, 1)
            played_d_all += played
            walks_n += len(walks)
            edges_d += len(g.edges)
            steps_d += sum(t["steps"] for t in played)
            model_d[c].update(edges=len(g.edges), model_states=g.nodes, walks=len(walks))
            for e in g.edges:
                rep.distinct.add((c, graph.key(e["from"]), graph.key(e["op"]["op"])))
            if tamp_d != "noticed":
                victim = next((w for w, t in zip(walks, played) if not t["diffs"] and len(w) > 2), None)
                if victim is not None:
                    tam = copy.deepcopy(victim[:3])
                    key = graph.key(tam[2]["to"])
                    st2 = dict(states)
                    st2[key] = copy.deepcopy(states[key])
                    st2[key]["eff"]["cip"][1] += 1
                    tamp_d = "noticed" if play_dispatch(tam, st2, wd[0]["w"], 0, False)["diffs"] else "MISSED"
        vac = [a for a in DISPATCH_ACTIONS if cover.get(a, 0) == 0]
        if vac:
            raise tlc.MachineryError(f"x07: vacuous actions in AttrDispatch: {vac}")
        diff_d = [d for t in played_d_all for d in t["diffs"]][:MAX_DIFF_TRACES]
        clean_d = [t["clean"] for t in played_d_all if t["clean"]]
        f_wd = ex2.submit(validate_dispatch, diff_d + clean_d, "x07-s2c-d")

        t0 = time.time()
        hv_d, s1, r1 = f_hd.result()
        hv_k, s2, r2 = f_hk.result()
        hv_t, s3, r3 = f_ht.result()
        wv_t, s4, r4 = f_wt.result()
        wv_k, s5, r5 = f_wk.result()
        wv_d, s6, r6 = f_wd.result()
        lap("wait_trace_validation", t0)
    rep.states += s1 + s2 + s3 + s4 + s5 + s6
    rep.transitions += r1 + r2 + r3 + r4 + r5 + r6

    # ---- guards
    def canaries(hv, cans, at, what):
        cvs = [hv.pop() for _ in cans][::-1]
        judged = [cv for (i, _), cv in zip(cans, cvs) if hv[i]["verdict"] == "ok" or hv[i]["at"] > at]
        for cv in judged:
            if cv["verdict"] == "ok" or cv["at"] != at:
                raise tlc.MachineryError(f"x07: {what} accepted a corrupted trace: {cv}")
        return len(judged)

    j_d = canaries(hv_d, can_d, 5, "Trace_AttrDispatch")
    j_k = canaries(hv_k, can_k, 5, "Trace_Redecorate")
    j_t = canaries(hv_t, can_t, 4, "Trace_ActiveTerminal")
    for name, val in (("dispatch", tamp_d), ("deco", tamp_k), ("tty", tamp_t)):
        if val == "MISSED":
            raise tlc.MachineryError(f"x07: the {name} replay did not notice a tampered edge")
    all_v = hv_d + hv_k + hv_t + wv_t + wv_k + wv_d
    clean_run = all(v["verdict"] == "ok" for v in all_v)
    if clean_run and (min(j_d, j_k, j_t) == 0 or "not evaluable" in (tamp_d, tamp_k, tamp_t)):
        raise tlc.MachineryError("x07: the guards could not be evaluated although nothing was rejected")
    rep.extra["guards"] = {"corrupted_traces_rejected": {"dispatch": j_d, "deco": j_k, "tty": j_t},
                           "tampered_edge": {"dispatch": tamp_d, "deco": tamp_k, "tty": tamp_t}}
    # replay comparison and Trace spec must agree: every difference is confirmed, every clean sample accepted
    for name, diffs, cleans, wv in (("dispatch", diff_d, clean_d, wv_d), ("deco", diff_k, clean_k, wv_k)):
        for t, v in zip(diffs, wv[:len(diffs)]):
            if v["verdict"] == "ok" or v["at"] != len(t["ev"]):
                raise tlc.MachineryError(f"x07: {name} replay saw a difference at event {len(t['ev'])} "
                                         f"({t.get('why', '')}) but the Trace spec says {v}")
        for t, v in zip(cleans, wv[len(diffs):]):
            if v["verdict"] != "ok":
                raise tlc.MachineryError(f"x07: {name} replay saw no difference but the Trace spec says {v}")
    for t, v in zip(played_t, wv_t):
        py_at = t["steps"] if t["diff"] else 0
        tl_at = v["at"] if v["verdict"] != "ok" else 0
        if py_at != tl_at:
            raise tlc.MachineryError(f"x07: tty replay and Trace_ActiveTerminal disagree: replay step {py_at} ({t['diff']}), TLC {v}")

    # ---- the histories must have shown every kind of outcome
    seen = {(e["op"]["k"], e["op"]["p"] if e["op"]["k"] != "err" else "helper", e["r"]["res"]) for t in hist_d for e in t["ev"]}
    must = {("set", "cip", "ok"), ("set", "cip", "TypeError"), ("set", "cip", "ValueError"), ("del", "cip", "ok"),
            ("set", "cp", "ok"), ("set", "cp", "AttributeError"), ("del", "cp", "AttributeError"), ("set", "cp", "ValueError"),
            ("set", "ro", "AttributeError"), ("del", "ro", "AttributeError"), ("call", "m", "ok"), ("call", "m", "TypeError"),
            ("call", "m", "ValueError"), ("look", "m", "ok"), ("err", "helper", "ok"), ("static", "ro", "ok"), ("get", "cip", "ok")}
    seen_t = {e["op"]["k"] for t in hist_t for e in t["ev"]} | {("fallback" if e["r"]["act"] == 0 else "active") for t in hist_t for e in t["ev"]}
    if clean_run and (must - seen or {"load", "resize", "env", "hangup", "query", "fallback", "active"} - seen_t):
        raise tlc.MachineryError(f"x07: the recorded histories never showed {sorted(must - seen)} / tty {seen_t}")

    # ---- report
    bad = {}
    bad["dispatch_walks"] = report_dispatch(rep, diff_d, wv_d[:len(diff_d)], "spec->code replay")
    bad["dispatch_histories"] = report_dispatch(rep, hist_d, hv_d, "code->spec history")
    bad["deco_walks"] = report_deco(rep, diff_k, wv_k[:len(diff_k)], "spec->code replay")
    bad["deco_histories"] = report_deco(rep, hist_k, hv_k, "code->spec history")
    bad["tty_walks"] = report_tty(rep, played_t, wv_t, "spec->code replay")
    bad["tty_histories"] = report_tty(rep, hist_t, hv_t, "code->spec history")

    steps_k = sum(t["steps"] for t in played_k)
    steps_t = sum(t["steps"] for t in played_t)
    rep.evaluations += steps_d + steps_k + steps_t + sum(len(t["ev"]) for t in hist_d + hist_k + hist_t)
    rep.traces_validated += walks_n + len(walks_k) + len(walks_t) + len(hist_d) + len(hist_k) + len(hist_t)
    for e in g_k.edges:
        rep.distinct.add(("deco", graph.key(e["from"]), graph.key(e["op"]["op"])))
    for e in g_t.edges:
        rep.distinct.add(("tty", graph.key(e["from"]), graph.key(e["op"]["op"])))
    for t in hist_d:
        rep.distinct.add(("hist-d", json.dumps([t["w"], [e["op"] for e in t["ev"]]], sort_keys=True)))
    for t in hist_t:
        rep.distinct.add(("hist-t", json.dumps([t["conf"], [e["op"] for e in t["ev"]]], sort_keys=True)))
    rep.exhaustive = True
    rep.extra["exhaustive_space"] = (
        "AttrDispatch: main world (5 classes: diamond + derived metaclass, 4 instances) - every state with <= MaxWeight "
        "stored values and every operation of the alphabet from it, per configuration (cip+ro / cp / m / all kinds), "
        "falsy world likewise; Redecorate: every layer stack of two functions with <= MaxLayers layers; ActiveTerminal: "
        "the complete state graph for the stream arrangements of the cfg")
    rep.extra["models"] = {"AttrDispatch": model_d, "actions_generated": cover,
                           "Redecorate": {"states": res_k.distinct, "transitions": res_k.generated, "edges": len(g_k.edges),
                                          "walks": len(walks_k), "actions_generated": {a: res_k.coverage[a][1] for a in DECO_ACTIONS}},
                           "ActiveTerminal": {"states": res_t.distinct, "transitions": res_t.generated, "edges": len(g_t.edges),
                                              "walks": len(walks_t), "real_processes": len(walks_t) + len(hist_t),
                                              "actions_generated": {a: res_t.coverage[a][1] for a in TTY_ACTIONS}}}
    rep.extra["replay"] = {"dispatch": {"edges": edges_d, "walks": walks_n, "steps": steps_d,
                                        "differences_validated": len(diff_d), "clean_walks_cross_checked": len(clean_d)},
                           "deco": {"edges": len(g_k.edges), "walks": len(walks_k), "steps": steps_k,
                                    "differences_validated": len(diff_k), "clean_walks_cross_checked": len(clean_k)},
                           "tty": {"edges": len(g_t.edges), "walks": len(walks_t), "steps": steps_t,
                                   "edges_cut_after_a_difference": sum(t["cut"] for t in played_t)}}
    rep.extra["histories"] = {"dispatch": {"recorded": len(hist_d), "events": sum(len(t["ev"]) for t in hist_d),
                                           "with_multiple_inheritance": sum(any(len(b) > 1 for b in t["w"]["bases"]) for t in hist_d),
                                           "outcomes_seen": len(seen)},
                              "deco": {"recorded": len(hist_k), "events": sum(len(t["ev"]) for t in hist_k)},
                              "tty": {"recorded": len(hist_t), "events": sum(len(t["ev"]) for t in hist_t)},
                              "rejected": bad}
    # information only (undocumented corners, see ASSUMPTIONS)
    info = {}
    try:
        class _B:
            @U.ClassInstanceMethod
            def m(cls):
                return "cls"
        try:
            info["instance_call_without_instance_variant"] = _B().m()
        except Exception as e:
            info["instance_call_without_instance_variant"] = type(e).__name__
        p = U.ClassInstanceProperty(lambda s: 1, doc="given doc")
        info["doc_after_setter_copy_of_doc_argument"] = p.setter(lambda s, v: None).__doc__
        info["homonym_decorators_share_marker"] = D.homonym_blocked(U)
        info["library_decorator_facts_failing"] = D.library_facts(U)
    except Exception as e:  # pragma: no cover
        info["error"] = repr(e)
    rep.extra["information_only"] = info
    if info.get("library_decorator_facts_failing"):
        rep.violation(f"no_redecorate:library-decorator[{info['library_decorator_facts_failing'][0]}]",
                      f"facts failing for the library's own guarded decorators: {info['library_decorator_facts_failing']}",
                      {"part": "deco", "init": [[], []], "ops": []})
    w0 = next((t for t in hist_d if len({e["op"]["k"] for e in t["ev"][:8]}) >= 4), hist_d[0])
    rep.sample({"history": [{"op": _dop_text(w0["w"], e), "res": e["r"]["res"]} for e in w0["ev"][:8]], "bases": w0["w"]["bases"]})
    rep.sample({"process": hist_t[0]["conf"], "events": [{"op": e["op"], "r": e["r"]} for e in hist_t[0]["ev"][:5]]})
    timing["total"] = round(time.time() - t_start, 1)
