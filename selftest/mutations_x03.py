"""Seeded mutations for X03 (same record format as selftest/mutations_c20.py).

    /venv/bin/python -m selftest.mutations_x03 [id ...]     # runs ./check X03 on each mutant

Every mutant is applied to a scratch copy of /repo/src under /tmp (removed afterwards) and counts as
caught when the quick check exits 1 with at least one VIOLATION signature.
"""

from __future__ import annotations

import os
import shutil
import subprocess
import sys
from pathlib import Path

VERIF = Path(__file__).resolve().parent.parent

MUTATIONS = {
    # ---- rejected calls must change nothing ------------------------------------------------
    "x03-ratio-stored-before-validation": dict(
        file="__init__.py",
        old="""        if ratio <= 0.0:
            raise arg_value_error_range("ratio", ratio)
        _cell_ratio = ratio
""",
        new="""        _cell_ratio = ratio
        if ratio <= 0.0:
            raise arg_value_error_range("ratio", ratio)
""",
    ),
    "x03-ratio-zero-accepted": dict(
        file="__init__.py",
        old="        if ratio <= 0.0:\n            raise arg_value_error_range(\"ratio\", ratio)",
        new="        if ratio < 0.0:\n            raise arg_value_error_range(\"ratio\", ratio)",
    ),
    "x03-timeout-stored-before-validation": dict(
        file="__init__.py",
        old="""    if timeout <= 0.0:
        raise arg_value_error_range("timeout", timeout)

    utils._query_timeout = timeout
""",
        new="""    utils._query_timeout = timeout
    if timeout <= 0.0:
        raise arg_value_error_range("timeout", timeout)
""",
    ),
    "x03-timeout-zero-accepted": dict(
        file="__init__.py",
        old="    if timeout <= 0.0:\n        raise arg_value_error_range(\"timeout\", timeout)",
        new="    if timeout < 0.0:\n        raise arg_value_error_range(\"timeout\", timeout)",
    ),
    "x03-unsupported-auto-switches-to-dynamic": dict(
        # the mode is switched before the support check: a refused request leaves DYNAMIC behind
        file="__init__.py",
        old="""        if not AutoCellRatio.is_supported:
            raise TermImageError(""",
        new="""        if not AutoCellRatio.is_supported:
            _cell_ratio = None
            raise TermImageError(""",
    ),
    # ---- AutoCellRatio.is_supported ---------------------------------------------------------
    "x03-support-determined-every-time": dict(
        file="__init__.py",
        old="        if AutoCellRatio.is_supported is None:\n",
        new="        if True:\n",
    ),
    "x03-explicit-unsupported-ignored": dict(
        # an explicit `is_supported = False` is re-examined instead of being honoured
        file="__init__.py",
        old="        if AutoCellRatio.is_supported is None:\n",
        new="        if not AutoCellRatio.is_supported:\n",
    ),
    "x03-unsupported-does-not-raise": dict(
        file="__init__.py",
        old="        if not AutoCellRatio.is_supported:\n            raise TermImageError(",
        new="        if AutoCellRatio.is_supported is None:\n            raise TermImageError(",
    ),
    # ---- FIXED / DYNAMIC / explicit -----------------------------------------------------------
    "x03-fixed-stores-nothing": dict(
        file="__init__.py",
        old="            _cell_ratio = truediv(*(get_cell_size() or (1, 2)))\n",
        new="            _cell_ratio = None\n",
    ),
    "x03-fixed-fallback-one": dict(
        file="__init__.py",
        old="            _cell_ratio = truediv(*(get_cell_size() or (1, 2)))\n",
        new="            _cell_ratio = truediv(*(get_cell_size() or (1, 1)))\n",
    ),
    "x03-dynamic-fallback-one": dict(
        file="__init__.py",
        old="    return _cell_ratio or truediv(*(get_cell_size() or (1, 2)))\n",
        new="    return _cell_ratio or truediv(*(get_cell_size() or (1, 1)))\n",
    ),
    "x03-dynamic-inverted": dict(
        # height / width instead of width / height
        file="__init__.py",
        old="    return _cell_ratio or truediv(*(get_cell_size() or (1, 2)))\n",
        new="    return _cell_ratio or truediv(*(get_cell_size() or (2, 1))[::-1])\n",
    ),
    "x03-explicit-ratio-rounded": dict(
        # "returned as is": the explicit value is normalised on the way in
        file="__init__.py",
        old="        _cell_ratio = ratio\n",
        new="        _cell_ratio = round(ratio, 2)\n",
    ),
    # ---- each setter touches its own setting only ------------------------------------------------
    "x03-disable-queries-marks-unsupported": dict(
        file="__init__.py",
        old="    utils._queries_enabled = False\n",
        new="    utils._queries_enabled = False\n    AutoCellRatio.is_supported = False\n",
    ),
    "x03-enable-queries-resets-timeout": dict(
        file="__init__.py",
        old="        utils._queries_enabled = True\n",
        new="        utils._queries_enabled = True\n        utils._query_timeout = DEFAULT_QUERY_TIMEOUT\n",
    ),
    "x03-swap-toggle-inverted": dict(
        file="__init__.py",
        old="    if utils._swap_win_size:\n        utils._swap_win_size = False\n",
        new="    if not utils._swap_win_size:\n        utils._swap_win_size = True\n",
    ),
    # ---- queries: disabled / timeout ---------------------------------------------------------
    "x03-query-ignores-set-timeout": dict(
        file="utils.py",
        old="        return read_tty(more, timeout or _query_timeout)\n",
        new="        return read_tty(more, timeout or term_image.DEFAULT_QUERY_TIMEOUT)\n",
    ),
    "x03-disabled-queries-still-ask": dict(
        file="utils.py",
        old="    if not _queries_enabled:\n        return None\n\n    old_attr",
        new="    old_attr",
    ),
    "x03-disabled-queries-empty-bytes": dict(
        # query_terminal() documents None while queries are disabled
        file="utils.py",
        old="    if not _queries_enabled:\n        return None\n\n    old_attr",
        new="    if not _queries_enabled:\n        return b\"\"\n\n    old_attr",
    ),
    "x03-default-timeout-changed": dict(
        file="utils.py",
        old="_query_timeout = 0.1\n",
        new="_query_timeout = 0.25\n",
    ),
    # ---- win-size swap -----------------------------------------------------------------------
    "x03-swap-only-for-queried-window-size": dict(
        # the workaround is skipped when the window size came from TIOCGWINSZ
        file="utils.py",
        old="            if _swap_win_size:\n                text_area_size = text_area_size[::-1]\n",
        new="            if _swap_win_size and 0 in buf[2:]:\n                text_area_size = text_area_size[::-1]\n",
    ),
    "x03-swap-swaps-terminal-size-too": dict(
        file="utils.py",
        old="            cell_size = tuple(map(floordiv, text_area_size, terminal_size))\n",
        new="            cell_size = tuple(map(floordiv, text_area_size, terminal_size[::-1] if _swap_win_size else terminal_size))\n",
    ),
    # ---- no active terminal ------------------------------------------------------------------
    "x03-default-ratio-changed": dict(
        file="__init__.py",
        old="_cell_ratio: float | None = 0.5\n",
        new="_cell_ratio: float | None = 0.45\n",
    ),
}


def apply(mid: str, edits) -> Path:
    root = Path(f"/tmp/verif-selftest-{mid}")
    shutil.rmtree(root, ignore_errors=True)
    root.mkdir(parents=True)
    subprocess.run(["rsync", "-a", "/repo/src", str(root) + "/"], check=True)
    for e in edits:
        f = root / "src" / "term_image" / e["file"]
        text = f.read_text()
        if text.count(e["old"]) != 1:
            raise SystemExit(f"{mid}: pattern occurs {text.count(e['old'])} times in {e['file']}")
        f.write_text(text.replace(e["old"], e["new"]))
    subprocess.run([sys.executable, "-m", "compileall", "-q", str(root / "src" / "term_image")], check=True)
    return root


def run(mid: str, tier: str = "quick") -> bool:
    m = MUTATIONS[mid]
    root = apply(mid, m["edits"] if "edits" in m else [m])
    try:
        env = dict(os.environ, VERIF_REPO=str(root))
        p = subprocess.run([str(VERIF / "check"), "X03", "--tier", tier], env=env, cwd=VERIF,
                           stdout=subprocess.PIPE, stderr=subprocess.STDOUT, text=True, timeout=3600)
    finally:
        shutil.rmtree(root, ignore_errors=True)
    sigs = sorted({l.strip()[len("signature: "):] for l in p.stdout.splitlines() if l.strip().startswith("signature:")})
    ok = p.returncode == 1 and bool(sigs)
    status = "caught" if ok else ("MACHINERY" if p.returncode == 2 else "MISSED")
    print(f"MUT {mid} X03 exit={p.returncode} {status} {sigs}", flush=True)
    if p.returncode == 2:
        print("\n".join(p.stdout.splitlines()[-15:]))
    return ok


def main() -> int:
    args = [a for a in sys.argv[1:] if not a.startswith("--")]
    tier = "thorough" if "--thorough" in sys.argv else "quick"
    ids = args or list(MUTATIONS)
    bad = [m for m in ids if not run(m, tier)]
    print(f"{len(ids) - len(bad)}/{len(ids)} as expected" + (f"; not: {bad}" if bad else ""))
    return 1 if bad else 0


if __name__ == "__main__":
    sys.exit(main())
