SPECIFICATION Spec
CONSTANTS
  Prog <- PTwo
  Env <- EnvIo
  Swap0 = FALSE
  Queries0 = TRUE
  Cache0 <- CacheZero
  Variant = "code"
INVARIANT QuiescentFresh
INVARIANT LockFree
VIEW View
CHECK_DEADLOCK FALSE
ACTION_CONSTRAINT Dump
