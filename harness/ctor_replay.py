"""Spec -> code replay of RenderIterCtor.tla: every enumerated constructor case is executed on
the real RenderIterator / iter() and the outcome (exception class, loop, caching) compared."""

from __future__ import annotations

from . import iterkit, tlc
from .core import Report


def _run(case):
    from term_image.padding import ExactPadding
    from term_image.render import RenderIterator
    from term_image.renderable import RenderArgs

    C = iterkit.classes()
    p = C["Probe"](case["frames"], 3)
    fits = case.get("fits", "yes")
    iterkit.set_terminal()
    pad = ExactPadding()
    if fits == "render-too-big":
        from term_image.geometry import Size

        p.size = Size(iterkit.TERM0[0] + 3, iterkit.TERM0[1] + 2)
    elif fits == "padding-too-big":
        pad = ExactPadding(iterkit.TERM0[0], iterkit.TERM0[1], 1, 1)
    elif fits == "padding-raises":
        pad = _raising_padding()
    cache = case["cacheb"] if case["cachekind"] == "bool" else case["cachen"]
    args = {"none": None, "own": RenderArgs(C["Probe"], C["ProbeArgs"]("a1", 0)),
            "incompatible": RenderArgs(C["Other"])}[case["args"]]
    try:
        if case["via"] == "iter":
            it = iter(p)
        elif case["via"] == "ctor":
            it = RenderIterator(p, args, pad, case["loops"], cache)
        else:
            kind = case["data"]
            if kind == "other-class":
                data = C["Other"]()._get_render_data_(iteration=True) if False else None
                o = object.__new__(C["Other"])
                from term_image.renderable import Renderable

                Renderable.__init__(o, 2, 50)
                data = o._get_render_data_(iteration=True)
            else:
                data = p._get_render_data_(iteration=kind != "not-iteration")
                if kind == "finalized":
                    data.finalize()
            it = RenderIterator._from_render_data_(p, data, args, pad, case["loops"], cache,
                                                   finalize=case.get("finalize", True))
    except Exception as e:  # noqa: BLE001
        failed = type(e).__name__
    else:
        failed = None
    if failed is not None:
        # (outside the handler: the traceback, which holds the half-built iterator, is gone)
        res = {"verdict": failed}
        if case["via"] == "from_data" and case["data"] == "ok" and not case.get("finalize", True):
            import gc

            gc.collect()  # a half-built iterator must not take the caller's data with it
            res["caller_data_finalized"] = bool(data.finalized)
        return res
    res = {"verdict": "ok", "loop": it.loop, "cached": bool(it._cached)}
    if fits != "yes":
        # the oversized iterator works: its first frame has the (padded) size asked for
        try:
            frame = next(it)
            want = pad.get_padded_size(p.size)
            if tuple(frame.render_size) != tuple(want):
                res["first_frame"] = f"render_size {tuple(frame.render_size)} != {tuple(want)}"
        except Exception as e:  # noqa: BLE001
            res["first_frame"] = type(e).__name__
    it.close()
    return res


_PAD = []


def _raising_padding():
    """A user padding (extension API) whose size computation fails."""
    if not _PAD:
        from term_image.padding import ExactPadding

        class PadError(Exception):
            pass

        class FailingPadding(ExactPadding):
            __slots__ = ()

            def get_padded_size(self, render_size):
                raise PadError("injected")

        PadError.__name__ = "PadError"
        _PAD.append(FailingPadding)
    return _PAD[0](1, 1, 1, 1)


def run(rep: Report) -> None:
    res = tlc.run("MC_RenderIterCtor", "MC_RenderIterCtor.cfg", workers=1, timeout=300)
    rep.add_tlc(res)
    if res.violated:
        rep.violation(f"design:RenderIterCtor:{res.violated}", res.error_text[:1200], {"kind": "design"})
        return
    table = res.tagged("TABLE")
    if len(table) < 500:
        raise tlc.MachineryError("RenderIterCtor table not dumped")
    for row in table:
        c = row["case"]
        rep.evaluations += 1
        rep.traces_validated += 1
        rep.distinct.add(("ctor", tuple(sorted(c.items()))))
        real = _run(c)
        want = {"verdict": row["verdict"]}
        if row["verdict"] == "ok":
            want.update(loop=row["loop"], cached=row["cached"])
        elif row.get("survives"):
            want["caller_data_finalized"] = False
        # IncompatibleRenderArgsError is documented as such; accept subclasses by name only
        if real != want:
            rep.violation(
                f"RenderIterator:construct:{c['via']}:{row['verdict']}",
                f"constructing with {c}: spec {want}, code {real}",
                {"kind": "ctor", "case": c, "want": want},
            )
