------------------------------- MODULE RenderOp -------------------------------
(***************************************************************************)
(* C10, one-shot operations: render(), str(), draw() (still / animated),    *)
(* iteration via iter()/RenderIterator and via _from_render_data_ with the  *)
(* caller keeping ownership - as PROGRAMS over render-data lifecycle events  *)
(*    C  render data created        R  a frame rendered with the data       *)
(*    F  _finalize_render_data_ invoked for the data                         *)
(*    H  the data handed to _handle_interrupted_draw_ (a use of the data)    *)
(*    E  the operation has ended (returned or raised) and the caller has     *)
(*       dropped the iterator, if any; the render data is still referenced   *)
(*       (by the harness) - so an F before E is a PROMPT finalization, an F  *)
(*       after E one that only garbage collection of the data performs       *)
(*    Q  quiescence: operation over, references dropped, gc ran             *)
(* with a failure injected into the k-th render, into size validation, or   *)
(* as a KeyboardInterrupt while a frame is being written.                   *)
(*                                                                         *)
(* Lifecycle automaton per data object (the property):                      *)
(*    none -C-> live -R*-> live -F-> final ; R or F in `final` is an error;  *)
(*    at Q every created object is final, unless the caller kept ownership  *)
(*    (then it must still be live: finalize count 0).                       *)
(* MC_RenderOp checks that every program satisfies the automaton; the      *)
(* programs are dumped (PROG lines) and the real code's event log for the   *)
(* same operation must be exactly the program (spec -> code); logs of       *)
(* random operation sequences are validated against the automaton by        *)
(* Trace_RenderOp (code -> spec).                                           *)
(***************************************************************************)
EXTENDS Naturals, Sequences, TLC, Json

NFrames == 2

Rep(e, n) == [i \in 1..n |-> e]

\* number of renders an animation performs: frames x loops, each frame once if cached
AnimRenders(loops, cache) == IF cache /\ loops > 1 THEN NFrames ELSE NFrames * loops

OpsStill ==
  {[op |-> o, fail |-> f, loops |-> 1, cache |-> FALSE, k |-> 0] :
      o \in {"render", "str"}, f \in {"no", "exc", "finfail", "kbrender"}}
  \cup {[op |-> o, fail |-> "badargs", loops |-> 1, cache |-> FALSE, k |-> 0] :
      o \in {"render", "draw_still", "draw_anim", "iter_ctor"}}
  \cup {[op |-> "draw_still", fail |-> f, loops |-> 1, cache |-> FALSE, k |-> 0] :
      f \in {"no", "validation", "exc", "interrupt", "finfail", "kbrender"}}

OpsAnim ==
  {[op |-> "draw_anim", fail |-> "no", loops |-> l, cache |-> c, k |-> 0] : l \in 1..2, c \in BOOLEAN}
  \cup {[op |-> "draw_anim", fail |-> "validation", loops |-> 1, cache |-> FALSE, k |-> 0]}
  \cup {[op |-> "draw_anim", fail |-> f, loops |-> l, cache |-> c, k |-> k] :
          f \in {"exc", "stop", "interrupt", "kbrender"}, l \in 1..2, c \in BOOLEAN, k \in 1..4}

OpsIter ==
  {[op |-> o, fail |-> "no", loops |-> 1, cache |-> FALSE, k |-> k] :
      o \in {"iter_exhaust"}, k \in {0}}
  \cup {[op |-> o, fail |-> "no", loops |-> 1, cache |-> FALSE, k |-> k] :
      o \in {"iter_close", "iter_drop", "owned_close", "owned_drop"}, k \in 0..2}
  \cup {[op |-> o, fail |-> f, loops |-> 1, cache |-> FALSE, k |-> k] :
      o \in {"iter_exhaust", "owned_exhaust"}, f \in {"exc", "stop", "kbrender"}, k \in 1..2}
  \cup {[op |-> "owned_exhaust", fail |-> "no", loops |-> 1, cache |-> FALSE, k |-> 0]}
  \cup {[op |-> "iter_exhaust", fail |-> "finfail", loops |-> 1, cache |-> FALSE, k |-> 0]}

Valid(o) == o.fail \in {"exc", "stop", "interrupt", "kbrender"} /\ o.op = "draw_anim" => o.k <= AnimRenders(o.loops, o.cache)
Ops == {o \in OpsStill \cup OpsAnim \cup OpsIter : Valid(o)}

\* The event program of an operation.  `kept` = the caller keeps ownership of the data.
ProgCore(o) ==
  CASE o.op \in {"render", "str"} -> <<"C", "R", "F", "Q">>
    [] o.op = "draw_still" ->
         IF o.fail = "validation" THEN <<"C", "F", "Q">>
         ELSE IF o.fail = "interrupt" THEN <<"C", "R", "H", "F", "Q">>
         ELSE <<"C", "R", "F", "Q">>
    [] o.op = "draw_anim" ->
         IF o.fail = "validation" THEN <<"C", "F", "Q">>
         ELSE IF o.fail = "no" THEN <<"C">> \o Rep("R", AnimRenders(o.loops, o.cache)) \o <<"F", "Q">>
         ELSE IF o.fail \in {"exc", "stop", "kbrender"} THEN <<"C">> \o Rep("R", o.k) \o <<"F", "Q">>
         \* Ctrl-C while frame k is being written: frame k+1 was not rendered yet for k = 1
         \* (the first frame is written before the next is rendered); later frames are
         \* rendered one ahead of the write
         ELSE <<"C">> \o Rep("R", o.k) \o <<"H", "F", "Q">>
    [] o.op = "iter_exhaust" ->
         IF o.fail \in {"no", "finfail"} THEN <<"C">> \o Rep("R", NFrames) \o <<"F", "Q">>
         ELSE <<"C">> \o Rep("R", o.k) \o <<"F", "Q">>
    [] o.op \in {"iter_close", "iter_drop"} -> <<"C">> \o Rep("R", o.k) \o <<"F", "Q">>
    [] o.op = "owned_exhaust" ->
         IF o.fail = "no" THEN <<"C">> \o Rep("R", NFrames) \o <<"Qkept">>
         ELSE <<"C">> \o Rep("R", o.k) \o <<"Qkept">>
    [] o.op \in {"owned_close", "owned_drop"} -> <<"C">> \o Rep("R", o.k) \o <<"Qkept">>
    [] OTHER -> <<"Q">>

\* Finalization is prompt (before E) everywhere except where draw() rejects the size: there
\* the data is only finalized when it is garbage-collected (documented deviation, DESIGN 2.5).
Prog(o) ==
  LET core == ProgCore(o) n == Len(core) IN
  \* incompatible render arguments are rejected BEFORE any render data is created
  IF o.fail = "badargs" THEN <<"E", "Q">>
  ELSE IF o.fail = "validation" THEN <<"C", "E", "F", "Q">>
  \* an abandoned, unfinished iterator is only closed by the (cyclic) garbage collector
  ELSE IF o.op = "iter_drop" THEN SubSeq(core, 1, n - 2) \o <<"E", "F", "Q">>
  ELSE SubSeq(core, 1, n - 1) \o <<"E", core[n]>>

(* ---- lifecycle automaton ---- *)
LStep(st, e) ==
  \* st = <<lifecycle, error>> ; returns the next pair
  LET lc == st[1] IN
  IF st[2] # "" THEN st
  ELSE CASE e = "C" -> IF lc = "none" THEN <<"live", "">> ELSE <<lc, "data created twice">>
         [] e = "R" -> IF lc = "live" THEN st
                       ELSE IF lc = "final" THEN <<lc, "frame rendered with finalized data">>
                       ELSE <<lc, "render without data">>
         [] e = "H" -> IF lc = "live" THEN st
                       ELSE IF lc = "final" THEN <<lc, "finalized data handed to the interrupted-draw handler">>
                       ELSE <<lc, "handler without data">>
         [] e = "F" -> IF lc = "live" THEN <<"final", "">>
                       ELSE IF lc = "final" THEN <<lc, "finalized more than once">>
                       ELSE <<lc, "finalize without data">>
         [] e = "E" -> st
         [] e = "Q" -> IF lc \in {"final", "none"} THEN <<"none", "">> ELSE <<lc, "not finalized at quiescence">>
         [] e = "Qkept" -> IF lc = "live" THEN <<"none", "">>
                           ELSE <<lc, "caller-owned data was finalized by the library">>
         [] OTHER -> <<lc, "unknown event">>

RECURSIVE Fold(_, _, _)
Fold(st, evs, i) == IF i > Len(evs) THEN st ELSE Fold(LStep(st, evs[i]), evs, i + 1)

LifecycleOK(evs) == Fold(<<"none", "">>, evs, 1) = <<"none", "">>
=============================================================================
