-------------------------- MODULE MC_ActiveTerminal --------------------------
EXTENDS ActiveTerminal
C(o, i, e, t) == [out |-> o, in |-> i, err |-> e, ctty |-> t]
\* every subset of {stdout, stdin, stderr, controlling terminal} being a terminal, each its own device
Distinct == {C(o, i, e, t) : o \in {0, 1}, i \in {0, 2}, e \in {0, 3}, t \in {0, 4}}
\* the usual arrangements: one terminal behind everything; output redirected; only the controlling one
Shared == {C(1, 1, 1, 1), C(0, 1, 1, 1), C(0, 0, 1, 1), C(1, 1, 1, 0), C(0, 2, 2, 1)}
QuickConfs == {C(1, 2, 3, 4), C(0, 2, 3, 4), C(0, 0, 3, 4), C(0, 0, 0, 4), C(0, 0, 0, 0), C(1, 0, 0, 0),
               C(0, 2, 0, 0), C(1, 1, 1, 1), C(0, 1, 1, 1), C(0, 2, 2, 1)}
AllConfs == Distinct \cup Shared
=============================================================================
