------------------------------ MODULE CtlSeqs ------------------------------
(***************************************************************************)
(* X05: the control-sequence VOCABULARY of term-image                       *)
(* (src/term_image/_ctlseqs.py), written from the documents the module      *)
(* itself cites: xterm's ctlseqs ("CSI Ps A", "CSI ? Pm h", "OSC Ps ; Pt    *)
(* ST", XTWINOPS 14/16, XTVERSION, DA1), the synchronized-output proposal   *)
(* (mode 2026), the kitty graphics protocol (APC G <control> ; <payload>    *)
(* ST, a=d with d=A/C/Z, a=q, m=0/1) and iTerm2's inline images (OSC 1337 ; *)
(* File=...).                                                               *)
(*                                                                         *)
(* A byte string is a sequence of SYMBOLS: a printable ASCII character is   *)
(* the one-character string, control characters have names ("ESC", "BEL",   *)
(* "LF", ...).  An operation of the vocabulary is a record                  *)
(*     [name, n, s]    name = the Python name, n = the integer arguments,   *)
(*                     s = the text arguments (symbol sequences)            *)
(* and the module gives, for every name of the Python module,               *)
(*   Bytes(op)    the documented byte string                                *)
(*   Want(op)     the token(s) the terminal's parser must see, in the       *)
(*                conventions of harness/lexer.py (= VT.tla events + the     *)
(*                parameter conventions of Terminal.tla)                    *)
(*   Effect(op,T) the documented effect on a Terminal.tla terminal          *)
(* plus a symbol-level parser (ParseVT: VT.tla's Step folded over byte      *)
(* classes) and a single-sequence lexer (LexOne) that are the Python-free   *)
(* judges of "exactly ONE complete sequence of the intended kind with the   *)
(* intended parameters, back in ground state".                              *)
(***************************************************************************)
EXTENDS Terminal

VTP == INSTANCE VT

(* ======================================================================= *)
(* 1. symbols                                                              *)
(* ======================================================================= *)
Digits == <<"0", "1", "2", "3", "4", "5", "6", "7", "8", "9">>
Digit == {Digits[i] : i \in 1..10}
Upper == {"A", "B", "C", "D", "E", "F", "G", "H", "I", "J", "K", "L", "M", "N", "O", "P", "Q",
          "R", "S", "T", "U", "V", "W", "X", "Y", "Z"}
Lower == {"a", "b", "c", "d", "e", "f", "g", "h", "i", "j", "k", "l", "m", "n", "o", "p", "q",
          "r", "s", "t", "u", "v", "w", "x", "y", "z"}
HexDigit == Digit \cup {"a", "b", "c", "d", "e", "f", "A", "B", "C", "D", "E", "F"}
WordCh == Digit \cup Upper \cup Lower \cup {"_"}
ParCh == Digit \cup {":", ";", "<", "=", ">", "?"}                              \* 0x30-0x3F
IntCh == {" ", "!", "\"", "#", "$", "%", "&", "'", "(", ")", "*", "+", ",", "-", ".", "/"}  \* 0x20-0x2F
FinCh == (Upper \cup Lower \cup {"@", "^", "`", "{", "|", "}", "~"}) \ {"P"}  \* 0x40-0x7E minus the named ones
C0Ch == {"NUL", "BS", "HT", "LF", "CR", "SO", "SI"}
Printable == ParCh \cup IntCh \cup FinCh \cup {"P", "[", "]", "_", "\\"}

\* the byte class of VT.tla a symbol belongs to
ClassOf(c) ==
  CASE c = "ESC" -> "ESC"
    [] c = "BEL" -> "BEL"
    [] c \in {"CAN", "SUB"} -> "CAN"
    [] c \in C0Ch -> "C0"
    [] c = "[" -> "LB"
    [] c = "]" -> "RB"
    [] c = "_" -> "US"
    [] c = "P" -> "DP"
    [] c = "\\" -> "BSL"
    [] c \in ParCh -> "PAR"
    [] c \in IntCh -> "INT"
    [] c \in FinCh -> "FIN"
    [] OTHER -> "PR"

DigitVal(c) == CHOOSE d \in 0..9 : Digits[d + 1] = c

RECURSIVE DecNat(_)
DecNat(n) == IF n < 10 THEN <<Digits[n + 1]>> ELSE DecNat(n \div 10) \o <<Digits[(n % 10) + 1]>>
\* the decimal numeral printf's %d produces
Dec(n) == IF n < 0 THEN <<"-">> \o DecNat(0 - n) ELSE DecNat(n)

AllDigits(q) == q # <<>> /\ \A i \in 1..Len(q) : q[i] \in Digit
RECURSIVE NatVal(_)
NatVal(q) == IF q = <<>> THEN 0 ELSE NatVal(SubSeq(q, 1, Len(q) - 1)) * 10 + DigitVal(q[Len(q)])
IsInt(q) == AllDigits(q) \/ (Len(q) > 1 /\ q[1] = "-" /\ AllDigits(Tail(q)))
IntOr(q, dflt) == IF AllDigits(q) THEN NatVal(q)
                  ELSE IF IsInt(q) THEN 0 - NatVal(Tail(q)) ELSE dflt

RECURSIVE Str(_)
Str(q) == IF q = <<>> THEN "" ELSE q[1] \o Str(Tail(q))

RECURSIVE SplitR(_, _, _, _, _)
SplitR(s, seps, i, cur, acc) ==
  IF i > Len(s) THEN Append(acc, cur)
  ELSE IF s[i] \in seps THEN SplitR(s, seps, i + 1, <<>>, Append(acc, cur))
  ELSE SplitR(s, seps, i + 1, Append(cur, s[i]), acc)
Split(s, seps) == SplitR(s, seps, 1, <<>>, <<>>)      \* like str.split: "" -> <<"">>

Has(s, c) == \E i \in 1..Len(s) : s[i] = c
IndexOf(s, c) == IF Has(s, c) THEN CHOOSE i \in 1..Len(s) : s[i] = c /\ \A j \in 1..(i - 1) : s[j] # c ELSE 0
Before(s, c) == IF Has(s, c) THEN SubSeq(s, 1, IndexOf(s, c) - 1) ELSE s       \* str.partition
After(s, c) == IF Has(s, c) THEN SubSeq(s, IndexOf(s, c) + 1, Len(s)) ELSE <<>>
HasPrefix(s, p) == Len(s) >= Len(p) /\ SubSeq(s, 1, Len(p)) = p
Range(q) == {q[i] : i \in DOMAIN q}

RECURSIVE JoinWith(_, _)
JoinWith(parts, sep) ==
  IF parts = <<>> THEN <<>>
  ELSE IF Len(parts) = 1 THEN parts[1]
  ELSE parts[1] \o sep \o JoinWith(Tail(parts), sep)

(* ======================================================================= *)
(* 2. the parser of VT.tla folded over a symbol string                      *)
(* ======================================================================= *)
RECURSIVE VTRun(_, _, _, _, _)
VTRun(s, i, st, k, ev) ==
  IF i > Len(s) THEN [st |-> st, k |-> k, ev |-> ev]
  ELSE LET r == VTP!Step(st, k, ClassOf(s[i])) IN VTRun(s, i + 1, r[1], r[2], ev \o r[3])
ParseVT(s) == VTRun(s, 1, "ground", "", <<>>)

Ground == [st |-> "ground", k |-> ""]
EndOf(s) == LET p == ParseVT(s) IN [st |-> p.st, k |-> p.k]

\* exactly one complete sequence that is dispatched / terminated, nothing else, back in ground
OneSequence(s, event) == LET p == ParseVT(s) IN p.st = "ground" /\ p.ev = <<event>>

(* ======================================================================= *)
(* 3. tokens (conventions of harness/lexer.py) and the single-sequence lexer *)
(* ======================================================================= *)
Tok(k, n, m, g, p, x) == [k |-> k, n |-> n, m |-> m, g |-> g, p |-> p, x |-> x]
Simple(k) == Tok(k, -1, -1, "", <<>>, 0)
Num(k, n) == Tok(k, n, -1, "", <<>>, 0)
Unknown == Tok("unknown", -1, -1, "?", <<>>, 0)

\* the graphics-command record of the lexer (the decoder-filled fields are not part of it)
GfxNone ==
  [proto |-> "", a |-> "", f |-> -1, t |-> "", s |-> -1, v |-> -1, z |-> 0, zset |-> FALSE,
   zok |-> TRUE, o |-> "", C |-> -1, c |-> -1, r |-> -1, m |-> -1, q |-> -1, d |-> "", i |-> -1,
   x0 |-> 0, keys |-> <<>>, nkeys |-> 0, b64len |-> 0, b64ok |-> TRUE,
   size |-> -1, width |-> "", height |-> "", par |-> -1, inline |-> -1, dnmc |-> -1,
   wcells |-> -1, hcells |-> -1]

NoGfx == <<GfxNone>>       \* entry 1 is the dummy (index 0 on the Python side)
W0 == [toks |-> <<>>, gfx |-> NoGfx]
W1(t) == [toks |-> <<t>>, gfx |-> NoGfx]
WG(kind, g) == [toks |-> <<Tok(kind, -1, -1, "", <<>>, 1)>>, gfx |-> <<GfxNone, g>>]

\* two graphics records denote the same command: the ORDER of the control keys is free
GfxSame(a, b) == [a EXCEPT !.keys = <<>>] = [b EXCEPT !.keys = <<>>] /\ Range(a.keys) = Range(b.keys)
SameTokens(a, b) ==
  /\ a.toks = b.toks
  /\ Len(a.gfx) = Len(b.gfx)
  /\ \A i \in 1..Len(a.gfx) : GfxSame(a.gfx[i], b.gfx[i])

CsiSimple == [c \in {"A", "B", "C", "D", "X", "K", "J", "@", "P", "G", "d", "E", "F", "S", "T", "L", "M"} |->
  CASE c = "A" -> "cuu" [] c = "B" -> "cud" [] c = "C" -> "cuf" [] c = "D" -> "cub"
    [] c = "X" -> "ech" [] c = "K" -> "el" [] c = "J" -> "ed" [] c = "@" -> "ich" [] c = "P" -> "dch"
    [] c = "G" -> "cha" [] c = "d" -> "vpa" [] c = "E" -> "cnl" [] c = "F" -> "cpl"
    [] c = "S" -> "su" [] c = "T" -> "sd" [] c = "L" -> "il" [] c = "M" -> "dl"]

\* params / inter: the parameter (0x30-0x3F) and intermediate (0x20-0x2F) bytes collected
CsiTok(params, inter, final) ==
  LET priv == IF params # <<>> /\ params[1] \in {"<", "=", ">", "?"} THEN params[1] ELSE ""
      ps == IF priv = "" THEN params ELSE Tail(params)
  IN
  IF Has(ps, ":") /\ final = "m" /\ priv = "" THEN
    \* colon sub-parameters 38:2::r:g:b (ITU T.416): absent = -1
    LET f == Split(ps, {";", ":"}) IN
    Tok("sgr", -1, -1, "colon", [i \in 1..Len(f) |-> IF f[i] = <<>> THEN -1 ELSE IntOr(f[i], 0)], 0)
  ELSE
    LET f == IF ps = <<>> THEN <<>> ELSE Split(ps, {";"})
        pl == [i \in 1..Len(f) |-> IF f[i] = <<>> THEN -1 ELSE IF AllDigits(f[i]) THEN NatVal(f[i]) ELSE -2]
        first == IF Len(pl) >= 1 THEN pl[1] ELSE -1
        second == IF Len(pl) >= 2 THEN pl[2] ELSE -1
    IN
    IF (\E i \in 1..Len(pl) : pl[i] = -2) \/ inter # <<>> THEN Unknown
    ELSE IF priv = "" THEN
      IF final \in DOMAIN CsiSimple THEN Num(CsiSimple[final], first)
      ELSE IF final \in {"H", "f"} THEN Tok("cup", first, second, "", <<>>, 0)
      ELSE IF final = "m" THEN
        Tok("sgr", -1, -1, "", IF pl = <<>> THEN <<0>> ELSE [i \in 1..Len(pl) |-> IF pl[i] = -1 THEN 0 ELSE pl[i]], 0)
      ELSE IF final = "c" THEN Num("da1", first)
      ELSE IF final = "t" THEN Tok("xtwinops", first, -1, "", pl, 0)
      ELSE IF final = "r" THEN Tok("decstbm", first, second, "", <<>>, 0)
      ELSE IF final = "h" THEN Num("sm", first)
      ELSE IF final = "l" THEN Num("rm", first)
      ELSE Unknown
    ELSE IF priv = "?" /\ final \in {"h", "l"} THEN
      Tok(IF final = "h" THEN "decset" ELSE "decrst", first, -1, "", pl, 0)
    ELSE IF priv = ">" /\ final = "q" THEN Simple("xtversion")
    ELSE Unknown

B64Ch == Upper \cup Lower \cup Digit \cup {"+", "/"}
B64Ok(p) == \E k \in 0..2 :
  /\ k <= Len(p)
  /\ \A i \in 1..(Len(p) - k) : p[i] \in B64Ch
  /\ \A i \in (Len(p) - k + 1)..Len(p) : p[i] = "="

KittyIntKeys == {"f", "s", "v", "C", "c", "r", "m", "q", "i"}
KittyStrKeys == {"a", "t", "o", "d"}

RECURSIVE KittyItems(_, _, _)
KittyItems(rec, items, i) ==
  IF i > Len(items) THEN rec
  ELSE
    LET key == Str(Before(items[i], "="))
        val == After(items[i], "=")
        r1 == [rec EXCEPT !.keys = Append(@, key), !.nkeys = @ + 1]
        r2 == IF key \in KittyIntKeys THEN [r1 EXCEPT ![key] = IntOr(val, -2)]
              ELSE IF key \in KittyStrKeys THEN [r1 EXCEPT ![key] = Str(val)]
              ELSE IF key = "z" THEN
                IF IsInt(val) THEN [r1 EXCEPT !.zset = TRUE, !.z = IntOr(val, 0)]
                ELSE [r1 EXCEPT !.zset = TRUE, !.zok = FALSE, !.z = 0]
              ELSE r1
    IN KittyItems(r2, items, i + 1)

\* body = what stands between "ESC _ G" and ST
ParseKitty(body) ==
  LET control == Before(body, ";")
      payload == After(body, ";")
      items == IF control = <<>> THEN <<>> ELSE Split(control, {","})
  IN [KittyItems([GfxNone EXCEPT !.proto = "kitty"], items, 1) EXCEPT
        !.b64len = Len(payload), !.b64ok = B64Ok(payload)]

ItermPrefix == <<"1", "3", "3", "7", ";", "F", "i", "l", "e", "=">>

RECURSIVE ItermItems(_, _, _)
ItermItems(rec, items, i) ==
  IF i > Len(items) THEN rec
  ELSE
    LET key == Str(Before(items[i], "="))
        val == After(items[i], "=")
        r1 == [rec EXCEPT !.keys = Append(@, key), !.nkeys = @ + 1]
        r2 == CASE key = "size" -> [r1 EXCEPT !.size = IntOr(val, -2)]
                [] key = "width" -> [r1 EXCEPT !.width = Str(val), !.wcells = IntOr(val, -2)]
                [] key = "height" -> [r1 EXCEPT !.height = Str(val), !.hcells = IntOr(val, -2)]
                [] key = "preserveAspectRatio" -> [r1 EXCEPT !.par = IntOr(val, -2)]
                [] key = "inline" -> [r1 EXCEPT !.inline = IntOr(val, -2)]
                [] key = "doNotMoveCursor" -> [r1 EXCEPT !.dnmc = IntOr(val, -2)]
                [] OTHER -> r1
    IN ItermItems(r2, items, i + 1)

\* body = what stands between "ESC ] 1337;File=" and ST / BEL
ParseIterm(body) ==
  LET control == Before(body, ":")
      payload == After(body, ":")
      items == IF control = <<>> THEN <<>> ELSE Split(control, {";"})
  IN [ItermItems([GfxNone EXCEPT !.proto = "iterm2"], items, 1) EXCEPT
        !.b64len = Len(payload), !.b64ok = B64Ok(payload) /\ Has(body, ":")]

StringTok(kind, body) ==
  IF kind = "apc" /\ body # <<>> /\ body[1] = "G" THEN WG("kitty", ParseKitty(Tail(body)))
  ELSE IF kind = "osc" /\ HasPrefix(body, ItermPrefix) THEN
    WG("iterm", ParseIterm(SubSeq(body, Len(ItermPrefix) + 1, Len(body))))
  ELSE IF kind = "osc" THEN
    W1(Tok("osc", IntOr(Before(body, ";"), -1), -1, Str(After(body, ";")), <<>>, 0))
  ELSE W1(Tok(kind, -1, -1, Str(body), <<>>, 0))

\* The tokens of a string that is (at most) ONE sequence; anything else lexes to Unknown.
\* end = the parser state the string leaves behind.
LexOne(s) ==
  LET p == ParseVT(s)
      n == Len(s)
      w == IF s = <<>> THEN W0
           ELSE IF p.ev = <<"csid">> /\ p.st = "ground" /\ n >= 3 /\ s[1] = "ESC" /\ s[2] = "[" THEN
             LET body == SubSeq(s, 3, n - 1)
                 IsParam(c) == c \in ParCh
                 IsInter(c) == c \in IntCh
             IN W1(CsiTok(SelectSeq(body, IsParam), SelectSeq(body, IsInter), s[n]))
           ELSE IF p.ev = <<"strend">> /\ p.st = "ground" /\ n >= 3 /\ s[1] = "ESC" /\ s[2] \in {"]", "_", "P"} THEN
             LET kind == IF s[2] = "]" THEN "osc" ELSE IF s[2] = "_" THEN "apc" ELSE "dcs"
                 body == IF s[n] = "BEL" /\ kind = "osc" THEN SubSeq(s, 3, n - 1) ELSE SubSeq(s, 3, n - 2)
             IN StringTok(kind, body)
           ELSE IF p.ev = <<"st">> /\ s = <<"ESC", "\\">> THEN W1(Simple("st"))
           ELSE IF s = <<"BEL">> THEN W1(Simple("bel"))
           ELSE IF p.ev = <<>> THEN W0         \* an introducer: nothing dispatched yet
           ELSE W1(Unknown)
  IN [toks |-> w.toks, gfx |-> w.gfx, end |-> [st |-> p.st, k |-> p.k]]

(* ======================================================================= *)
(* 4. the vocabulary                                                       *)
(* ======================================================================= *)
Op(name, n, s) == [name |-> name, n |-> n, s |-> s]
Op0(name) == Op(name, <<>>, <<>>)
OpN(name, n) == Op(name, n, <<>>)
OpS(name, s) == Op(name, <<>>, s)

\* C1 controls, 7-bit forms (ECMA-48 5.3)
ESCb == <<"ESC">>
BELb == <<"BEL">>
APCb == <<"ESC", "_">>
CSIb == <<"ESC", "[">>
DCSb == <<"ESC", "P">>
OSCb == <<"ESC", "]">>
STb == <<"ESC", "\\">>

CsiSeq(params, final) == CSIb \o params \o <<final>>
DecMode(n, final) == CSIb \o <<"?">> \o Dec(n) \o <<final>>
OscSeq(body) == OSCb \o body \o STb
KittyStart == APCb \o <<"G">>
KittySeq(control, payload) == KittyStart \o control \o <<";">> \o payload \o STb
KV(key, val) == <<key, "=">> \o val
Ctl(items) == JoinWith(items, <<",">>)

Semis(ns) == JoinWith([i \in 1..Len(ns) |-> Dec(ns[i])], <<";">>)
Colons(ns) == JoinWith([i \in 1..Len(ns) |-> Dec(ns[i])], <<":">>)

AAAA == <<"A", "A", "A", "A">>

\* the documented support query: transmit one 1x1 RGB pixel as a QUERY (a=q), image id 31,
\* with every key the library's real transmissions use
SupportQueryCtl ==
  Ctl(<<KV("a", <<"q">>), KV("t", <<"d">>), KV("i", Dec(31)), KV("f", Dec(24)), KV("s", Dec(1)),
        KV("v", Dec(1)), KV("C", Dec(1)), KV("c", Dec(1)), KV("r", Dec(1))>>)
SupportQueryGfx ==
  [GfxNone EXCEPT !.proto = "kitty", !.a = "q", !.t = "d", !.i = 31, !.f = 24, !.s = 1, !.v = 1,
                  !.C = 1, !.c = 1, !.r = 1,
                  !.keys = <<"a", "t", "i", "f", "s", "v", "C", "c", "r">>, !.nkeys = 9,
                  !.b64len = 4]

\* A structured kitty transmission (for the generic template KITTY_TRANSMISSION):
\*   kind "place": a=T, one 1x1 RGB pixel, over c x r cells, z-index z, C=1 (cursor stays),
\*                 m=more;  kind "chunk": m=more only
KPlaceCtl(c, r, z, more) ==
  Ctl(<<KV("a", <<"T">>), KV("f", Dec(24)), KV("s", Dec(1)), KV("v", Dec(1)), KV("z", Dec(z)),
        KV("C", Dec(1)), KV("c", Dec(c)), KV("r", Dec(r)), KV("m", Dec(more))>>)
KPlaceGfx(c, r, z, more) ==
  [GfxNone EXCEPT !.proto = "kitty", !.a = "T", !.f = 24, !.s = 1, !.v = 1, !.z = z, !.zset = TRUE,
                  !.C = 1, !.c = c, !.r = r, !.m = more,
                  !.keys = <<"a", "f", "s", "v", "z", "C", "c", "r", "m">>, !.nkeys = 9, !.b64len = 4]
KChunkCtl(more) == Ctl(<<KV("m", Dec(more))>>)
KChunkGfx(more, len) ==
  [GfxNone EXCEPT !.proto = "kitty", !.m = more, !.keys = <<"m">>, !.nkeys = 1, !.b64len = len]
KPlaceOp(c, r, z, more) == OpS("KITTY_TRANSMISSION", <<KPlaceCtl(c, r, z, more), AAAA>>)
KChunkOp(more) == OpS("KITTY_TRANSMISSION", <<KChunkCtl(more), IF more = 1 THEN AAAA ELSE <<>>>>)

KDelGfx(d) ==
  [GfxNone EXCEPT !.proto = "kitty", !.a = "d", !.d = d, !.keys = <<"a", "d">>, !.nkeys = 2]
KDelZGfx(d, z) ==
  [GfxNone EXCEPT !.proto = "kitty", !.a = "d", !.d = d, !.z = z, !.zset = TRUE,
                  !.keys = <<"a", "d", "z">>, !.nkeys = 3]

(* ---- generic templates: the rows the table instantiates them with ------- *)
\* SGR % Pt
SgrTexts == <<
  [s |-> <<>>, p |-> <<0>>],
  [s |-> <<"0">>, p |-> <<0>>],
  [s |-> <<"1", ";", "4">>, p |-> <<1, 4>>],
  [s |-> <<"3", "9", ";", "4", "9">>, p |-> <<39, 49>>],
  [s |-> <<"3", "8", ";", "5", ";", "1", "9", "6">>, p |-> <<38, 5, 196>>],
  [s |-> <<"4", "8", ";", "2", ";", "1", ";", "2", ";", "3">>, p |-> <<48, 2, 1, 2, 3>>]>>
\* TEXT_PARAM_SET % (Ps, Pt)
RgbFFFF == <<"r", "g", "b", ":", "f", "f", "f", "f", "/", "0", "0", "0", "0", "/", "8", "0", "8", "0">>
SetTexts == <<
  [n |-> 0, s |-> <<"t", "i", "t", "l", "e">>],
  [n |-> 10, s |-> RgbFFFF],
  [n |-> 11, s |-> <<"#", "0", "0", "0", "0", "0", "0">>],
  [n |-> 2, s |-> <<>>]>>
\* KITTY_TRANSMISSION % (Pt, Pt)
KittyRows == <<
  [op |-> KPlaceOp(1, 1, 0, 0), g |-> KPlaceGfx(1, 1, 0, 0)],
  [op |-> KPlaceOp(2, 1, 5, 0), g |-> KPlaceGfx(2, 1, 5, 0)],
  [op |-> KPlaceOp(1, 2, 5, 0), g |-> KPlaceGfx(1, 2, 5, 0)],
  [op |-> KPlaceOp(2, 2, -1, 0), g |-> KPlaceGfx(2, 2, -1, 0)],
  [op |-> KPlaceOp(1, 1, 5, 1), g |-> KPlaceGfx(1, 1, 5, 1)],
  [op |-> KPlaceOp(2, 1, 0, 1), g |-> KPlaceGfx(2, 1, 0, 1)],
  [op |-> KChunkOp(1), g |-> KChunkGfx(1, 4)],
  [op |-> KChunkOp(0), g |-> KChunkGfx(0, 0)],
  [op |-> OpS("KITTY_TRANSMISSION", <<SupportQueryCtl, AAAA>>), g |-> SupportQueryGfx]>>
\* KITTY_DELETE_EXTRA % (C, Pt)
DeleteExtraRows == <<
  [op |-> OpS("KITTY_DELETE_EXTRA", <<<<"Z">>, KV("z", Dec(5))>>), g |-> KDelZGfx("Z", 5)],
  [op |-> OpS("KITTY_DELETE_EXTRA", <<<<"z">>, KV("z", Dec(-1))>>), g |-> KDelZGfx("z", -1)],
  [op |-> OpS("KITTY_DELETE_EXTRA", <<<<"I">>, KV("i", Dec(31))>>),
   g |-> [GfxNone EXCEPT !.proto = "kitty", !.a = "d", !.d = "I", !.i = 31,
                         !.keys = <<"a", "d", "i">>, !.nkeys = 3]]>>

RowsGfx(rows, op) == LET i == CHOOSE j \in 1..Len(rows) : rows[j].op = op IN rows[i].g
InRows(rows, op) == \E j \in 1..Len(rows) : rows[j].op = op
SgrP(op) == LET i == CHOOSE j \in 1..Len(SgrTexts) : SgrTexts[j].s = op.s[1] IN SgrTexts[i].p

(* ---- names ---------------------------------------------------------------- *)
Placeholders == {"C", "Ps", "Pt", "Pm"}
Fragments == {"BEL", "ESC", "APC", "CSI", "DCS", "OSC", "ST", "ITERM2_START", "KITTY_START"}
Constants == {"DA1", "XTVERSION", "SGR_DEFAULT", "SHOW_CURSOR", "HIDE_CURSOR",
              "BEGIN_SYNCED_UPDATE", "END_SYNCED_UPDATE", "TEXT_AREA_SIZE_PX", "CELL_SIZE_PX",
              "TEXT_FG_QUERY", "TEXT_BG_QUERY", "KITTY_SUPPORT_QUERY", "KITTY_END_CHUNKED",
              "KITTY_DELETE_ALL", "KITTY_DELETE_CURSOR"}
Templates == {"ERASE_CHARS", "CURSOR_UP", "CURSOR_DOWN", "CURSOR_FORWARD", "CURSOR_BACKWARD",
              "SGR", "SGR_BG_DIRECT", "SGR_BG_DIRECT_2", "SGR_FG_DIRECT", "SGR_FG_DIRECT_2",
              "DECSET", "DECRST", "XTWINOPS_1", "TEXT_PARAM_SET", "TEXT_PARAM_QUERY",
              "KITTY_TRANSMISSION", "KITTY_DELETE", "KITTY_DELETE_EXTRA", "KITTY_DELETE_Z_INDEX"}
Builders == {"cursor_up", "cursor_down", "cursor_forward", "cursor_backward"}
Functions == Builders \cup {"x_parse_color"}
Patterns == {"RGB_SPEC_re", "XTVERSION_re", "TEXT_AREA_SIZE_PX_re", "CELL_SIZE_PX_re",
             "KITTY_RESPONSE_re"}
\* every name that has a bytes twin  <name>_b
Encoded == Fragments \cup Constants \cup Templates
Names == Placeholders \cup Encoded \cup Functions \cup Patterns

Sort(name) ==
  CASE name \in Placeholders -> "placeholder"
    [] name \in Fragments -> "fragment"
    [] name \in Constants -> "constant"
    [] name \in Templates -> "template"
    [] name \in Functions -> "function"
    [] name \in Patterns -> "pattern"
    [] name = "type" -> "environment"
    [] OTHER -> "unknown"

\* how the real module's value is turned into the string of an operation
How(name) ==
  CASE name = "Pm" -> "pm"                          \* Pm(len(n)) % n
    [] name \in Builders -> "call"                  \* f(n)
    [] name = "x_parse_color" -> "value"            \* f(text) -> tuple
    [] name \in Placeholders \cup Templates -> "format"      \* value % (n..., s...)
    [] OTHER -> "plain"                             \* the value itself

FinalOf(name) ==
  CASE name \in {"CURSOR_UP", "cursor_up"} -> "A"
    [] name \in {"CURSOR_DOWN", "cursor_down"} -> "B"
    [] name \in {"CURSOR_FORWARD", "cursor_forward"} -> "C"
    [] name \in {"CURSOR_BACKWARD", "cursor_backward"} -> "D"
    [] name = "ERASE_CHARS" -> "X"
KindOf(name) ==
  CASE name \in {"CURSOR_UP", "cursor_up"} -> "cuu"
    [] name \in {"CURSOR_DOWN", "cursor_down"} -> "cud"
    [] name \in {"CURSOR_FORWARD", "cursor_forward"} -> "cuf"
    [] name \in {"CURSOR_BACKWARD", "cursor_backward"} -> "cub"
    [] name = "ERASE_CHARS" -> "ech"

(* ---- the documented byte string of every operation ------------------------ *)
Bytes(op) ==
  LET nm == op.name IN
  CASE nm = "C" -> op.s[1]                                   \* printf %c
    [] nm = "Ps" -> Dec(op.n[1])                             \* printf %d
    [] nm = "Pt" -> op.s[1]                                  \* printf %s
    [] nm = "Pm" -> Semis(op.n)                              \* Ps ; Ps ; ...
    [] nm = "type" -> <<"x">>                                \* environment: an ordinary character
    [] nm = "BEL" -> BELb
    [] nm = "ESC" -> ESCb
    [] nm = "APC" -> APCb
    [] nm = "CSI" -> CSIb
    [] nm = "DCS" -> DCSb
    [] nm = "OSC" -> OSCb
    [] nm = "ST" -> STb
    [] nm = "DA1" -> CsiSeq(<<>>, "c")                       \* CSI c
    [] nm = "XTVERSION" -> CsiSeq(<<">">>, "q")              \* CSI > q
    [] nm \in {"ERASE_CHARS", "CURSOR_UP", "CURSOR_DOWN", "CURSOR_FORWARD", "CURSOR_BACKWARD"} ->
         CsiSeq(Dec(op.n[1]), FinalOf(nm))                   \* CSI Ps X / A / B / C / D
    [] nm \in Builders -> IF op.n[1] > 0 THEN CsiSeq(Dec(op.n[1]), FinalOf(nm)) ELSE <<>>
    [] nm = "SGR" -> CsiSeq(op.s[1], "m")                    \* CSI Pm m
    [] nm = "SGR_DEFAULT" -> CsiSeq(<<>>, "m")
    [] nm = "SGR_FG_DIRECT" -> CsiSeq(<<"3", "8", ";", "2", ";">> \o Semis(op.n), "m")
    [] nm = "SGR_BG_DIRECT" -> CsiSeq(<<"4", "8", ";", "2", ";">> \o Semis(op.n), "m")
    [] nm = "SGR_FG_DIRECT_2" -> CsiSeq(<<"3", "8", ":", "2", ":", ":">> \o Colons(op.n), "m")
    [] nm = "SGR_BG_DIRECT_2" -> CsiSeq(<<"4", "8", ":", "2", ":", ":">> \o Colons(op.n), "m")
    [] nm = "DECSET" -> DecMode(op.n[1], "h")                \* CSI ? Pm h
    [] nm = "DECRST" -> DecMode(op.n[1], "l")                \* CSI ? Pm l
    [] nm = "SHOW_CURSOR" -> DecMode(25, "h")                \* DECTCEM
    [] nm = "HIDE_CURSOR" -> DecMode(25, "l")
    [] nm = "BEGIN_SYNCED_UPDATE" -> DecMode(2026, "h")
    [] nm = "END_SYNCED_UPDATE" -> DecMode(2026, "l")
    [] nm = "XTWINOPS_1" -> CsiSeq(Dec(op.n[1]), "t")        \* CSI Ps t
    [] nm = "TEXT_AREA_SIZE_PX" -> CsiSeq(Dec(14), "t")
    [] nm = "CELL_SIZE_PX" -> CsiSeq(Dec(16), "t")
    [] nm = "TEXT_PARAM_SET" -> OscSeq(Dec(op.n[1]) \o <<";">> \o op.s[1])    \* OSC Ps ; Pt ST
    [] nm = "TEXT_PARAM_QUERY" -> OscSeq(Dec(op.n[1]) \o <<";", "?">>)
    [] nm = "TEXT_FG_QUERY" -> OscSeq(Dec(10) \o <<";", "?">>)
    [] nm = "TEXT_BG_QUERY" -> OscSeq(Dec(11) \o <<";", "?">>)
    [] nm = "ITERM2_START" -> OSCb \o ItermPrefix
    [] nm = "KITTY_START" -> KittyStart
    [] nm = "KITTY_TRANSMISSION" -> KittySeq(op.s[1], op.s[2])
    [] nm = "KITTY_DELETE" -> KittySeq(Ctl(<<KV("a", <<"d">>), KV("d", op.s[1])>>), <<>>)
    [] nm = "KITTY_DELETE_EXTRA" -> KittySeq(Ctl(<<KV("a", <<"d">>), KV("d", op.s[1]), op.s[2]>>), <<>>)
    [] nm = "KITTY_SUPPORT_QUERY" -> KittySeq(SupportQueryCtl, AAAA)
    [] nm = "KITTY_END_CHUNKED" -> KittySeq(Ctl(<<KV("q", Dec(1)), KV("m", Dec(0))>>), <<>>)
    [] nm = "KITTY_DELETE_ALL" -> KittySeq(Ctl(<<KV("a", <<"d">>), KV("d", <<"A">>)>>), <<>>)
    [] nm = "KITTY_DELETE_CURSOR" -> KittySeq(Ctl(<<KV("a", <<"d">>), KV("d", <<"C">>)>>), <<>>)
    [] nm = "KITTY_DELETE_Z_INDEX" ->
         KittySeq(Ctl(<<KV("a", <<"d">>), KV("d", <<"Z">>), KV("z", Dec(op.n[1]))>>), <<>>)

(* ---- the token(s) every operation must be lexed to ------------------------- *)
Want(op) ==
  LET nm == op.name IN
  CASE nm \in {"ERASE_CHARS", "CURSOR_UP", "CURSOR_DOWN", "CURSOR_FORWARD", "CURSOR_BACKWARD"} ->
         W1(Num(KindOf(nm), op.n[1]))
    [] nm \in Builders -> IF op.n[1] > 0 THEN W1(Num(KindOf(nm), op.n[1])) ELSE W0
    [] nm = "type" -> W1(Tok("print", 1, 120, "ch", <<>>, 0))
    [] nm = "BEL" -> W1(Simple("bel"))
    [] nm = "ST" -> W1(Simple("st"))
    [] nm \in {"ESC", "APC", "CSI", "DCS", "OSC", "ITERM2_START", "KITTY_START"} -> W0
    [] nm = "DA1" -> W1(Simple("da1"))
    [] nm = "XTVERSION" -> W1(Simple("xtversion"))
    [] nm = "SGR" -> W1(Tok("sgr", -1, -1, "", SgrP(op), 0))
    [] nm = "SGR_DEFAULT" -> W1(Tok("sgr", -1, -1, "", <<0>>, 0))
    [] nm = "SGR_FG_DIRECT" -> W1(Tok("sgr", -1, -1, "", <<38, 2>> \o op.n, 0))
    [] nm = "SGR_BG_DIRECT" -> W1(Tok("sgr", -1, -1, "", <<48, 2>> \o op.n, 0))
    [] nm = "SGR_FG_DIRECT_2" -> W1(Tok("sgr", -1, -1, "colon", <<38, 2, -1>> \o op.n, 0))
    [] nm = "SGR_BG_DIRECT_2" -> W1(Tok("sgr", -1, -1, "colon", <<48, 2, -1>> \o op.n, 0))
    [] nm = "DECSET" -> W1(Tok("decset", op.n[1], -1, "", op.n, 0))
    [] nm = "DECRST" -> W1(Tok("decrst", op.n[1], -1, "", op.n, 0))
    [] nm = "SHOW_CURSOR" -> W1(Tok("decset", 25, -1, "", <<25>>, 0))
    [] nm = "HIDE_CURSOR" -> W1(Tok("decrst", 25, -1, "", <<25>>, 0))
    [] nm = "BEGIN_SYNCED_UPDATE" -> W1(Tok("decset", 2026, -1, "", <<2026>>, 0))
    [] nm = "END_SYNCED_UPDATE" -> W1(Tok("decrst", 2026, -1, "", <<2026>>, 0))
    [] nm = "XTWINOPS_1" -> W1(Tok("xtwinops", op.n[1], -1, "", op.n, 0))
    [] nm = "TEXT_AREA_SIZE_PX" -> W1(Tok("xtwinops", 14, -1, "", <<14>>, 0))
    [] nm = "CELL_SIZE_PX" -> W1(Tok("xtwinops", 16, -1, "", <<16>>, 0))
    [] nm = "TEXT_PARAM_SET" -> W1(Tok("osc", op.n[1], -1, Str(op.s[1]), <<>>, 0))
    [] nm = "TEXT_PARAM_QUERY" -> W1(Tok("osc", op.n[1], -1, "?", <<>>, 0))
    [] nm = "TEXT_FG_QUERY" -> W1(Tok("osc", 10, -1, "?", <<>>, 0))
    [] nm = "TEXT_BG_QUERY" -> W1(Tok("osc", 11, -1, "?", <<>>, 0))
    [] nm = "KITTY_TRANSMISSION" -> WG("kitty", RowsGfx(KittyRows, op))
    [] nm = "KITTY_DELETE" -> WG("kitty", KDelGfx(op.s[1][1]))
    [] nm = "KITTY_DELETE_EXTRA" -> WG("kitty", RowsGfx(DeleteExtraRows, op))
    [] nm = "KITTY_SUPPORT_QUERY" -> WG("kitty", SupportQueryGfx)
    [] nm = "KITTY_END_CHUNKED" ->
         WG("kitty", [GfxNone EXCEPT !.proto = "kitty", !.q = 1, !.m = 0, !.keys = <<"q", "m">>, !.nkeys = 2])
    [] nm = "KITTY_DELETE_ALL" -> WG("kitty", KDelGfx("A"))
    [] nm = "KITTY_DELETE_CURSOR" -> WG("kitty", KDelGfx("C"))
    [] nm = "KITTY_DELETE_Z_INDEX" -> WG("kitty", KDelZGfx("Z", op.n[1]))

\* the parser state the operation leaves behind
WantEnd(op) ==
  LET nm == op.name IN
  CASE nm = "ESC" -> [st |-> "esc", k |-> ""]
    [] nm = "CSI" -> [st |-> "csi", k |-> ""]
    [] nm \in {"OSC", "ITERM2_START"} -> [st |-> "str", k |-> "osc"]
    [] nm \in {"APC", "KITTY_START"} -> [st |-> "str", k |-> "apc"]
    [] nm = "DCS" -> [st |-> "str", k |-> "dcs"]
    [] OTHER -> Ground

(* ---- completions of the introducers (fragment + suffix = one sequence) ------ *)
ItermBody == <<"s", "i", "z", "e", "=", "3", ";", "w", "i", "d", "t", "h", "=", "2", ";",
               "h", "e", "i", "g", "h", "t", "=", "1", ";", "i", "n", "l", "i", "n", "e", "=", "1",
               ":", "A", "A", "A", "A">>
ItermGfx ==
  [GfxNone EXCEPT !.proto = "iterm2", !.size = 3, !.width = "2", !.wcells = 2, !.height = "1",
                  !.hcells = 1, !.inline = 1, !.keys = <<"size", "width", "height", "inline">>,
                  !.nkeys = 4, !.b64len = 4]
Completions == <<
  [op |-> Op0("ESC"), suf |-> <<"[", "2", "A">>, want |-> W1(Num("cuu", 2))],
  [op |-> Op0("ESC"), suf |-> <<"\\">>, want |-> W1(Simple("st"))],
  [op |-> Op0("CSI"), suf |-> <<"3", "C">>, want |-> W1(Num("cuf", 3))],
  [op |-> Op0("CSI"), suf |-> <<"?", "2", "5", "l">>, want |-> W1(Tok("decrst", 25, -1, "", <<25>>, 0))],
  [op |-> Op0("OSC"), suf |-> <<"1", "0", ";", "?">> \o STb, want |-> W1(Tok("osc", 10, -1, "?", <<>>, 0))],
  [op |-> Op0("OSC"), suf |-> <<"1", "1", ";", "?", "BEL">>, want |-> W1(Tok("osc", 11, -1, "?", <<>>, 0))],
  [op |-> Op0("APC"), suf |-> <<"x", "y">> \o STb, want |-> W1(Tok("apc", -1, -1, "xy", <<>>, 0))],
  [op |-> Op0("APC"), suf |-> <<"G">> \o Ctl(<<KV("a", <<"d">>), KV("d", <<"A">>)>>) \o <<";">> \o STb,
   want |-> WG("kitty", KDelGfx("A"))],
  [op |-> Op0("DCS"), suf |-> <<">", "|", "x">> \o STb, want |-> W1(Tok("dcs", -1, -1, ">|x", <<>>, 0))],
  [op |-> Op0("KITTY_START"), suf |-> Ctl(<<KV("a", <<"d">>), KV("d", <<"C">>)>>) \o <<";">> \o STb,
   want |-> WG("kitty", KDelGfx("C"))],
  [op |-> Op0("KITTY_START"), suf |-> KChunkCtl(0) \o <<";">> \o STb, want |-> WG("kitty", KChunkGfx(0, 0))],
  [op |-> Op0("ITERM2_START"), suf |-> ItermBody \o STb, want |-> WG("iterm", ItermGfx)],
  [op |-> Op0("ITERM2_START"), suf |-> ItermBody \o BELb, want |-> WG("iterm", ItermGfx)]>>

(* ======================================================================= *)
(* 5. the documented effect on the terminal of Terminal.tla                 *)
(* ======================================================================= *)
\* what is compared between terminals: the bookkeeping counters are not state
Norm(T) ==
  [T EXCEPT !.ntok = 0, !.syncs = 0, !.wraps = 0, !.scrolls = 0, !.lfs = 0,
            !.err = IF @ = "" THEN "" ELSE "error",
            !.pl = [i \in DOMAIN @ |-> [@[i] EXCEPT !.x = 0]],
            !.rxctl = IF T.rx = 0 THEN @ ELSE [@ EXCEPT !.x0 = 0]]

RECURSIVE FoldToks(_, _, _, _)
FoldToks(T, toks, gfx, i) == IF i > Len(toks) THEN T ELSE FoldToks(Apply(T, toks[i], gfx), toks, gfx, i + 1)
Feed(T, w) == Norm(FoldToks(T, w.toks, w.gfx, 1))
Run(T, op) == Feed(T, Want(op))

AtLeast1(n) == IF n <= 0 THEN 1 ELSE n        \* ECMA-48: a zero or absent count means 1
MoveTo(T, r, c) == [T EXCEPT !.r = r, !.c = c, !.pw = FALSE]
Broken(T) == [T EXCEPT !.err = "error"]

CursorCell(T) == <<AbsRow(T), T.c>>
Covers(p, cell) ==
  /\ cell[1] \in p.row..(p.row + p.h - 1)
  /\ cell[2] \in p.col..(p.col + p.w - 1)

Place(T, g) ==
  \* kitty a=T with C=1: a placement of g.c x g.r cells at the cursor, cursor unmoved
  [T EXCEPT !.pl = Append(@, [row |-> AbsRow(T), col |-> T.c, w |-> IF g.c > 0 THEN g.c ELSE 1,
                              h |-> IF g.r > 0 THEN g.r ELSE 1, z |-> g.z, x |-> 0, proto |-> "kitty"]),
            !.pw = FALSE]

\* a kitty command that is not a continuation chunk, arriving inside a chunked transfer,
\* is a protocol error ("the client must send the rest of the chunks with only the m key")
KittyCmd(T, eff) == IF T.rx = 1 THEN Broken(T) ELSE eff

Effect(op, T) ==
  LET nm == op.name
      k == IF Len(op.n) >= 1 THEN op.n[1] ELSE 0
  IN
  CASE nm = "type" -> PrintRun(T, "ch", 120, 1)
    [] nm = "cursor_up" -> IF k <= 0 THEN T ELSE MoveTo(T, Max(T.r - k, 0), T.c)
    [] nm = "cursor_down" -> IF k <= 0 THEN T ELSE MoveTo(T, Min(T.r + k, T.rows - 1), T.c)
    [] nm = "cursor_forward" -> IF k <= 0 THEN T ELSE MoveTo(T, T.r, Min(T.c + k, T.cols - 1))
    [] nm = "cursor_backward" -> IF k <= 0 THEN T ELSE MoveTo(T, T.r, Max(T.c - k, 0))
    [] nm = "CURSOR_UP" -> MoveTo(T, Max(T.r - AtLeast1(k), 0), T.c)
    [] nm = "CURSOR_DOWN" -> MoveTo(T, Min(T.r + AtLeast1(k), T.rows - 1), T.c)
    [] nm = "CURSOR_FORWARD" -> MoveTo(T, T.r, Min(T.c + AtLeast1(k), T.cols - 1))
    [] nm = "CURSOR_BACKWARD" -> MoveTo(T, T.r, Max(T.c - AtLeast1(k), 0))
    [] nm = "ERASE_CHARS" ->
         \* ECH: Ps cells from the cursor on (not past the margin) become blank in the current
         \* background; the cursor and its pending-wrap state stay
         LET span == {<<AbsRow(T), x>> : x \in T.c..(Min(T.c + AtLeast1(k), T.cols) - 1)} IN
         [T EXCEPT !.cells = [p \in (DOMAIN T.cells) \cup span |->
                                IF p \in span THEN BlankCell(T.bg) ELSE T.cells[p]]]
    [] nm \in {"SGR_FG_DIRECT", "SGR_FG_DIRECT_2"} -> [T EXCEPT !.fg = op.n]
    [] nm \in {"SGR_BG_DIRECT", "SGR_BG_DIRECT_2"} -> [T EXCEPT !.bg = op.n]
    [] nm = "SGR_DEFAULT" -> [T EXCEPT !.fg = DefaultColor, !.bg = DefaultColor, !.attrs = {}]
    [] nm = "SGR" -> Norm(Sgr(T, SgrP(op), 1))            \* generic: Terminal.tla's SGR table
    [] nm = "SHOW_CURSOR" -> [T EXCEPT !.vis = TRUE]
    [] nm = "HIDE_CURSOR" -> [T EXCEPT !.vis = FALSE]
    [] nm = "BEGIN_SYNCED_UPDATE" -> [T EXCEPT !.sync = @ + 1]
    [] nm = "END_SYNCED_UPDATE" -> IF T.sync = 0 THEN Broken(T) ELSE [T EXCEPT !.sync = @ - 1]
    [] nm = "DECSET" -> IF k = 25 THEN [T EXCEPT !.vis = TRUE]
                        ELSE IF k = 2026 THEN [T EXCEPT !.sync = @ + 1] ELSE T
    [] nm = "DECRST" -> IF k = 25 THEN [T EXCEPT !.vis = FALSE]
                        ELSE IF k = 2026 THEN (IF T.sync = 0 THEN Broken(T) ELSE [T EXCEPT !.sync = @ - 1])
                        ELSE T
    \* requests and text parameters: nothing on the screen changes
    [] nm \in {"DA1", "XTVERSION", "XTWINOPS_1", "TEXT_AREA_SIZE_PX", "CELL_SIZE_PX", "TEXT_PARAM_SET",
               "TEXT_PARAM_QUERY", "TEXT_FG_QUERY", "TEXT_BG_QUERY", "BEL", "ST"} -> T
    [] nm = "KITTY_SUPPORT_QUERY" -> KittyCmd(T, T)
    [] nm = "KITTY_DELETE_ALL" -> KittyCmd(T, [T EXCEPT !.pl = <<>>])
    [] nm = "KITTY_DELETE_CURSOR" ->
         LET Keep(p) == ~Covers(p, CursorCell(T)) IN KittyCmd(T, [T EXCEPT !.pl = SelectSeq(@, Keep)])
    [] nm = "KITTY_DELETE_Z_INDEX" ->
         LET Keep(p) == ~(p.proto = "kitty" /\ p.z = k) IN KittyCmd(T, [T EXCEPT !.pl = SelectSeq(@, Keep)])
    [] nm = "KITTY_DELETE" ->
         LET d == op.s[1][1]
             Keep(p) == ~Covers(p, CursorCell(T)) IN
         KittyCmd(T, IF d \in {"A", "a"} THEN [T EXCEPT !.pl = <<>>]
                     ELSE IF d \in {"C", "c"} THEN [T EXCEPT !.pl = SelectSeq(@, Keep)]
                     ELSE Broken(T))
    [] nm = "KITTY_DELETE_EXTRA" ->
         LET g == RowsGfx(DeleteExtraRows, op)
             Keep(p) == ~(p.proto = "kitty" /\ p.z = g.z) IN
         KittyCmd(T, IF g.d \in {"Z", "z"} THEN [T EXCEPT !.pl = SelectSeq(@, Keep)] ELSE Broken(T))
    [] nm = "KITTY_END_CHUNKED" ->
         \* the last (empty) chunk: closes an open transfer - which then takes effect -, and is
         \* nothing when no transfer is open
         IF T.rx = 0 THEN T
         ELSE LET T1 == [T EXCEPT !.rx = 0, !.rxctl = <<>>] IN
              IF T.rxctl.a = "T" THEN Place(T1, T.rxctl) ELSE T1
    [] nm = "KITTY_TRANSMISSION" ->
         LET g == RowsGfx(KittyRows, op) IN
         IF g.nkeys = 1 THEN                                    \* m=... only: a continuation chunk
           IF T.rx = 0 THEN (IF g.m = 1 THEN Broken(T) ELSE T)
           ELSE IF g.m = 1 THEN T
           ELSE LET T1 == [T EXCEPT !.rx = 0, !.rxctl = <<>>] IN
                IF T.rxctl.a = "T" THEN Place(T1, T.rxctl) ELSE T1
         ELSE KittyCmd(T, IF g.a = "q" THEN T
                          ELSE IF g.m = 1 THEN [T EXCEPT !.rx = 1, !.rxctl = g]
                          ELSE Place(T, g))

\* operations whose effect is defined above (introducers and placeholders have none)
HasEffect(name) == name \in (Constants \cup Templates \cup Builders \cup {"BEL", "ST", "type"})
(* ======================================================================= *)
(* 6. rows of the table and the observable projection of a terminal         *)
(* ======================================================================= *)
\* a row = an operation, possibly (for an introducer) completed by a suffix
IsValue(r) == r.op.name = "x_parse_color"
IsText(r) == r.op.name \in Placeholders
RowBytes(r) == IF IsValue(r) THEN <<>> ELSE Bytes(r.op) \o r.suf
RowWant(r) ==
  IF r.suf # <<>> THEN
    LET i == CHOOSE j \in 1..Len(Completions) : Completions[j].op = r.op /\ Completions[j].suf = r.suf
    IN Completions[i].want
  ELSE IF IsValue(r) \/ IsText(r) THEN W0
  ELSE Want(r.op)
RowEnd(r) == IF r.suf # <<>> \/ IsValue(r) \/ IsText(r) THEN Ground ELSE WantEnd(r.op)

CellJ(S, rr, cc) ==
  LET p == <<S.top + rr, cc>> IN
  IF p \in DOMAIN S.cells THEN <<S.cells[p].g, S.cells[p].ch, S.cells[p].fg, S.cells[p].bg>> ELSE <<>>
Obs(S) ==
  [r |-> S.r, c |-> S.c, pw |-> S.pw, fg |-> S.fg, bg |-> S.bg,
   attrs |-> [x \in 1..9 |-> x \in S.attrs], vis |-> S.vis, sync |-> S.sync, rx |-> S.rx,
   rxc |-> IF S.rx = 1 THEN <<S.rxctl.c, S.rxctl.r, S.rxctl.z>> ELSE <<>>,
   err |-> S.err # "",
   cells |-> [rr \in 1..S.rows |-> [cc \in 1..S.cols |-> CellJ(S, rr - 1, cc - 1)]],
   pl |-> IF S.pl = <<>> THEN <<>>
          ELSE [i \in DOMAIN S.pl |-> <<S.pl[i].row, S.pl[i].col, S.pl[i].w, S.pl[i].h, S.pl[i].z>>]]
=============================================================================
