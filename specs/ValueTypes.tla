----------------------------- MODULE ValueTypes -----------------------------
(***************************************************************************)
(* X01: state machine over ValueTypesCore.  The state is the caller's view: *)
(* a store S of at most N objects (variables holding paddings, sizes,       *)
(* colours, strings).  Every action is one API operation applied to stored  *)
(* objects; an operation that returns an object binds it to a slot (a new   *)
(* one, or - Overwrite - an existing one).  Value types never change: all   *)
(* that evolves is which objects exist and which variables are the SAME      *)
(* object (resolve() of an absolute padding and to_exact() of an exact one   *)
(* may return the operand itself or an equal new instance: both are named    *)
(* actions).  Refused operations are steps too: they must leave S as it is.  *)
(*                                                                         *)
(* Two families per behaviour: "pad" (paddings and sizes - a padded size     *)
(* computed by one padding can be the render size given to the next) and     *)
(* "color" (colours and hex strings).                                       *)
(***************************************************************************)
EXTENDS ValueTypesCore, TLC, Json

CONSTANTS
  N,             \* store capacity
  ScratchMax,    \* objects may be created from literals only while Len(S) < ScratchMax
                 \* (all later objects are DERIVED from stored ones)
  Overwrite,     \* TRUE: a returned object may also be bound to an existing slot
  ProbeAll,      \* TRUE: immutability / refusal probes on every stored object, else only on
                 \* the most recently bound slot
  Fams,          \* subset of {"pad", "color"}
  Subs,          \* TRUE: subclasses (SubAligned, SubExact, SubSize, SubColor) and the user-written
                 \* CustomPadding take part
  AlignedSeeds,  \* {<<w, h, ha, va, fill>>}
  AlignedDefaultSeeds,  \* {<<w, h>>}   AlignedPadding(w, h)
  ExactSeeds,    \* {<<l, t, r, b, fill>>}, negative dimensions included
  Terms,         \* {<<tw, th>>}  terminal sizes for resolve()
  RSs,           \* {<<rw, rh>>}  literal render sizes
  RebuildInts,   \* replacement values for integer fields of paddings
  Fills,         \* replacement fills
  SizeSeeds,     \* {<<w, h>>} for Size / RawSize / _new, non-positive included
  SizeReplace,   \* replacement values for Size._replace
  ColorSeeds,    \* {<<r, g, b, a>>}, out-of-range channels included
  RgbSeeds,      \* {<<r, g, b>>}
  ChanReplace,   \* replacement values for Color._replace
  StrSeeds       \* {symbol sequences}

VARIABLES fam, S, out
vars == <<fam, S, out>>
View == <<fam, S>>

SubOf(c) == CASE c = "AlignedPadding" -> "SubAligned" [] c = "ExactPadding" -> "SubExact"
              [] c = "Size" -> "SubSize" [] c = "Color" -> "SubColor"
Sub(c) == IF Subs THEN {c, SubOf(c)} ELSE {c}

NoOp == Op("init", 0, 0, 0, "", <<>>, <<>>)
Init ==
  /\ fam \in Fams
  /\ S = <<>>
  /\ out = [act |-> "Init", op |-> NoOp, res |-> "ok", val |-> <<>>, var |-> ""]

\* one step: operation `op`, whose documented outcome is e (an Ev... operator of the core)
\* var: "" or, where the documentation permits both, "self" (the operand itself is returned)
\* / "copy" (an equal new instance is returned)
StepV(act, op, e, var) ==
  /\ S' = ApplyE(S, op, e)
  /\ out' = [act |-> act, op |-> op, res |-> e.res, val |-> e.val, var |-> var]
  /\ UNCHANGED fam
Step(act, op, e) == StepV(act, op, e, "")

Slots == DOMAIN S
Dsts == (IF Len(S) < N THEN {Len(S) + 1} ELSE {}) \cup (IF Overwrite THEN Slots ELSE {})
Spare == Len(S) + 1        \* where the result of an operation that must be refused would go
Scratch == Len(S) < ScratchMax
RejectAt == Len(S) <= ScratchMax     \* where refused constructor calls are tried
Pad == fam = "pad"
Col == fam = "color"
Of(k) == {i \in Slots : S[i].k = k}
Pads == {i \in Slots : IsPad(S[i])}
RenderSizes == {i \in Slots : IsRenderSize(S[i])}
Seq2(t) == <<t[1], t[2]>>
Probed == IF ProbeAll THEN Slots ELSE {i \in Slots : i = Len(S)}
SzOf(t) == P!Sz(t[1], t[2])

(* ---- padding family: one named action per API operation / documented branch ---- *)
NewAligned == Pad /\ Scratch /\ \E t \in AlignedSeeds, c \in Sub("AlignedPadding"), d \in Dsts :
  LET op == Op("new_aligned", 0, 0, d, c, <<t[1], t[2]>>, <<t[3], t[4], t[5]>>) IN
  Step("NewAligned", op, EvNewAligned(op))

NewAlignedDefault == Pad /\ Scratch /\ \E t \in AlignedDefaultSeeds, d \in Dsts :
  LET op == Op("new_aligned_default", 0, 0, d, "AlignedPadding", Seq2(t), <<>>) IN
  Step("NewAlignedDefault", op, EvNewAlignedDefault(op))

NewExact == Pad /\ Scratch /\ \E t \in ExactSeeds, d \in Dsts :
  \E c \in Sub("ExactPadding") \cup (IF Subs THEN {"CustomPadding"} ELSE {}) :
  LET op == Op("new_exact", 0, 0, d, c, <<t[1], t[2], t[3], t[4]>>, <<t[5]>>) IN
  P!ValidExact(t[1], t[2], t[3], t[4]) /\ Step("NewExact", op, EvNewExact(op))

NewExactRejected == Pad /\ RejectAt /\ \E t \in ExactSeeds, c \in Sub("ExactPadding") :
  LET op == Op("new_exact", 0, 0, Spare, c, <<t[1], t[2], t[3], t[4]>>, <<t[5]>>) IN
  ~P!ValidExact(t[1], t[2], t[3], t[4]) /\ Step("NewExactRejected", op, EvNewExact(op))

\* the abstract base class itself cannot be instantiated
NewAbstract == Pad /\ RejectAt /\ \E f \in {<<>>} \cup {<<x>> : x \in Fills} :
  Step("NewAbstract", Op("new_abstract", 0, 0, Spare, "Padding", <<>>, f), EvNewAbstract)

NewExactDefault == Pad /\ Scratch /\ \E d \in Dsts :
  LET op == Op("new_exact_default", 0, 0, d, "ExactPadding", <<>>, <<>>) IN
  Step("NewExactDefault", op, EvNewExactDefault(op))

ResolveRelative == \E i \in Of("aligned"), t \in Terms, d \in Dsts :
  LET op == Op("resolve", i, 0, d, "", Seq2(t), <<>>) IN
  Rel(S[i]) /\ Step("ResolveRelative", op, EvResolve(S[i], op))

ResolveAbsolute == \E i \in Of("aligned"), t \in Terms, d \in Dsts :
  LET op == Op("resolve", i, 0, d, "", Seq2(t), <<>>) IN
  ~Rel(S[i]) /\ StepV("ResolveAbsolute", op, EvResolve(S[i], op), "self")

\* ... or an equal new instance: equally "an instance with equivalent absolute dimensions"
ResolveAbsoluteCopy == \E i \in Of("aligned"), t \in Terms, d \in Dsts :
  LET op == Op("resolve", i, 0, d, "", Seq2(t), <<>>) IN
  ~Rel(S[i]) /\ d # i /\ StepV("ResolveAbsoluteCopy", op, CopyOf(S[i], S[i].cls), "copy")

ToExactAligned == \E i \in Of("aligned"), r \in RSs, d \in Dsts :
  LET op == Op("to_exact", i, 0, d, "", Seq2(r), <<>>) IN
  ~Rel(S[i]) /\ Step("ToExactAligned", op, EvToExact(S[i], SzOf(r), op))

ToExactExact == \E i \in Of("exact"), r \in RSs, d \in Dsts :
  LET op == Op("to_exact", i, 0, d, "", Seq2(r), <<>>) IN
  ~IsCustom(S[i]) /\ StepV("ToExactExact", op, EvToExact(S[i], SzOf(r), op), "self")

\* ... or an equal new ExactPadding: equally "an equivalent exact padding"
ToExactExactCopy == \E i \in Of("exact"), r \in RSs, d \in Dsts :
  LET op == Op("to_exact", i, 0, d, "", Seq2(r), <<>>) IN
  ~IsCustom(S[i]) /\ d # i /\ StepV("ToExactExactCopy", op, CopyOf(S[i], "ExactPadding"), "copy")

\* a padding class that is not an ExactPadding is converted through its _get_exact_dimensions_
ToExactCustom == \E i \in Of("exact"), r \in RSs, d \in Dsts :
  LET op == Op("to_exact", i, 0, d, "", Seq2(r), <<>>) IN
  IsCustom(S[i]) /\ Step("ToExactCustom", op, EvToExact(S[i], SzOf(r), op))

GetPaddedSize == \E i \in Pads, r \in RSs, d \in Dsts :
  LET op == Op("get_padded_size", i, 0, d, "", Seq2(r), <<>>) IN
  ~Rel(S[i]) /\ Step("GetPaddedSize", op, EvGetPaddedSize(S[i], SzOf(r)))

ExactDims == \E i \in Pads, r \in RSs :
  LET op == Op("exact_dims", i, 0, 0, "", Seq2(r), <<>>) IN
  ~Rel(S[i]) /\ Step("ExactDims", op, EvExactDims(S[i], SzOf(r)))

PadOutput == \E i \in Pads, r \in RSs :
  LET op == Op("pad", i, 0, 0, "", Seq2(r), <<>>) IN
  ~Rel(S[i]) /\ Step("PadOutput", op, EvPad(S[i], SzOf(r)))

\* "calling any method other than resolve()" on a relative instance
RelativeRefused == \E i \in Of("aligned") \cap Probed, r \in RSs :
  Rel(S[i]) /\
  \/ Step("RelativeRefused", Op("to_exact", i, 0, Spare, "", Seq2(r), <<>>), EvToExact(S[i], SzOf(r), NoOp))
  \/ Step("RelativeRefused", Op("get_padded_size", i, 0, Spare, "", Seq2(r), <<>>), EvGetPaddedSize(S[i], SzOf(r)))
  \/ Step("RelativeRefused", Op("exact_dims", i, 0, 0, "", Seq2(r), <<>>), EvExactDims(S[i], SzOf(r)))
  \/ Step("RelativeRefused", Op("pad", i, 0, 0, "", Seq2(r), <<>>), EvPad(S[i], SzOf(r)))

\* the render size is a stored Size object (e.g. the padded size computed by another padding)
ChainRenderSize == \E i \in Pads, j \in RenderSizes :
  LET rs == P!Sz(S[j].n[1], S[j].n[2]) IN
  \/ \E d \in Dsts : LET op == Op("to_exact", i, j, d, "", <<>>, <<>>)
                          e == EvToExact(S[i], rs, op) IN
                      StepV("ChainRenderSize", op, e, IF e.alias > 0 THEN "self" ELSE "")
  \/ \E d \in Dsts : Step("ChainRenderSize", Op("get_padded_size", i, j, d, "", <<>>, <<>>), EvGetPaddedSize(S[i], rs))
  \/ Step("ChainRenderSize", Op("pad", i, j, 0, "", <<>>, <<>>), EvPad(S[i], rs))

Dimensions == \E i \in Of("exact") : ~IsCustom(S[i]) /\ Step("Dimensions", Op("dimensions", i, 0, 0, "", <<>>, <<>>), EvDimensions(S[i]))

MinSize == \E i \in Of("aligned"), d \in Dsts : Step("MinSize", Op("min_size", i, 0, d, "", <<>>, <<>>), EvMinSize(S[i]))

Built == {i \in Pads : ~IsCustom(S[i])}      \* the library's own padding classes
RebuildSame == \E i \in Built, d \in Dsts :
  LET op == Op("rebuild", i, 0, d, "", <<>>, <<"none">>) IN Step("RebuildSame", op, EvRebuild(S[i], op))

RebuildInt == \E i \in Built, d \in Dsts, x \in RebuildInts : \E fi \in DOMAIN IntFields(S[i]) :
  LET op == Op("rebuild", i, 0, d, "", <<x>>, <<IntFields(S[i])[fi]>>) IN Step("RebuildInt", op, EvRebuild(S[i], op))

RebuildStr == \E i \in Built, d \in Dsts :
  \E f \in ({<<"fill", x>> : x \in Fills}
            \cup (IF S[i].k = "aligned" THEN {<<"h_align", a>> : a \in HNames} \cup {<<"v_align", a>> : a \in VNames}
                  ELSE {})) :
    LET op == Op("rebuild", i, 0, d, "", <<>>, f) IN Step("RebuildStr", op, EvRebuild(S[i], op))

NewSize == Pad /\ Scratch /\ \E t \in SizeSeeds, c \in Sub("Size") \cup {"RawSize"}, d \in Dsts :
  LET op == Op("new_size", 0, 0, d, c, Seq2(t), <<>>) IN
  (c \in CheckedSizeClasses => t[1] >= 1 /\ t[2] >= 1) /\ Step("NewSize", op, EvNewSize(op))

NewSizeRejected == Pad /\ RejectAt /\ \E t \in SizeSeeds, c \in Sub("Size") :
  LET op == Op("new_size", 0, 0, Spare, c, Seq2(t), <<>>) IN
  (t[1] < 1 \/ t[2] < 1) /\ Step("NewSizeRejected", op, EvNewSize(op))

\* cls._new(...): "alternate constructor for internal use only" - no validation
BypassSize == Pad /\ Scratch /\ \E t \in SizeSeeds, c \in Sub("Size") \cup {"RawSize"}, d \in Dsts :
  LET op == Op("bypass", 0, 0, d, c, Seq2(t), <<>>) IN Step("BypassSize", op, EvBypass(op))

(* ---- tuples (both families) ------------------------------------------------------ *)
\* namedtuple._replace: a new instance of the same class; like _new it does not validate
Replace == \E i \in Of("size") \cup Of("color"), d \in Dsts :
  \E fi \in DOMAIN IntFields(S[i]), x \in (IF S[i].k = "size" THEN SizeReplace ELSE ChanReplace) :
    LET op == Op("replace", i, 0, d, "", <<x>>, <<IntFields(S[i])[fi]>>) IN Step("Replace", op, EvReplace(S[i], op))

SetAttr == \E i \in Probed : S[i].k # "str" /\ ~IsCustom(S[i]) /\ \E a \in AttrNames(S[i]) :
  Step("SetAttr", Op("setattr", i, 0, 0, "", <<>>, <<a>>), EvProbe)
DelAttr == \E i \in Probed : S[i].k # "str" /\ ~IsCustom(S[i]) /\ \E a \in AttrNames(S[i]) :
  Step("DelAttr", Op("delattr", i, 0, 0, "", <<>>, <<a>>), EvProbe)

(* ---- colour family ------------------------------------------------------------------ *)
AllChan(t) == \A i \in 1..4 : Chan(t[i])
NewColor == Col /\ Scratch /\ \E t \in ColorSeeds, c \in Sub("Color"), d \in Dsts :
  LET op == Op("new_color", 0, 0, d, c, t, <<>>) IN AllChan(t) /\ Step("NewColor", op, EvNewColor(op))

NewColorRejected == Col /\ RejectAt /\ \E t \in ColorSeeds, c \in Sub("Color") :
  LET op == Op("new_color", 0, 0, Spare, c, t, <<>>) IN ~AllChan(t) /\ Step("NewColorRejected", op, EvNewColor(op))

\* Color(r, g, b): alpha defaults to 255 (out-of-range seeds are refused)
NewColorRGB == Col /\ Scratch /\ \E t \in RgbSeeds, d \in Dsts :
  LET op == Op("new_color_rgb", 0, 0, d, "Color", t, <<>>) IN Step("NewColorRGB", op, EvNewColorRGB(op))

BypassColor == Col /\ Scratch /\ \E t \in ColorSeeds, c \in Sub("Color"), d \in Dsts :
  LET op == Op("bypass", 0, 0, d, c, t, <<>>) IN Step("BypassColor", op, EvBypass(op))

Hex == \E i \in Of("color"), d \in Dsts :
  ValidObj(S[i]) /\ Step("Hex", Op("hex", i, 0, d, "", <<>>, <<>>), EvHex(S[i]))
RgbHex == \E i \in Of("color"), d \in Dsts :
  ValidObj(S[i]) /\ Step("RgbHex", Op("rgb_hex", i, 0, d, "", <<>>, <<>>), EvRgbHex(S[i]))
Rgb == \E i \in Of("color") : ValidObj(S[i]) /\ Step("Rgb", Op("rgb", i, 0, 0, "", <<>>, <<>>), EvRgb(S[i]))

NewStr == Col /\ Scratch /\ \E q \in StrSeeds, d \in Dsts :
  LET op == Op("new_str", 0, 0, d, "str", q, <<>>) IN Step("NewStr", op, EvNewStr(op))

FromHex == \E i \in Of("str"), c \in Sub("Color"), f \in Forms, d \in Dsts :
  LET op == Op("from_hex", i, 0, d, c, <<>>, <<f>>) IN
  ParseHex(Transform(S[i].n, f)) # <<>> /\ Step("FromHex", op, EvFromHex(S[i], op))

FromHexRejected == \E i \in Of("str"), c \in Sub("Color"), f \in Forms :
  LET op == Op("from_hex", i, 0, Spare, c, <<>>, <<f>>) IN
  ParseHex(Transform(S[i].n, f)) = <<>> /\ Step("FromHexRejected", op, EvFromHex(S[i], op))

Next ==
  \/ NewAligned \/ NewAlignedDefault \/ NewExact \/ NewExactRejected \/ NewExactDefault \/ NewAbstract
  \/ ResolveRelative \/ ResolveAbsolute \/ ResolveAbsoluteCopy \/ ToExactAligned \/ ToExactExact
  \/ ToExactExactCopy \/ ToExactCustom \/ GetPaddedSize
  \/ ExactDims \/ PadOutput \/ RelativeRefused \/ ChainRenderSize \/ Dimensions \/ MinSize
  \/ RebuildSame \/ RebuildInt \/ RebuildStr \/ NewSize \/ NewSizeRejected \/ BypassSize
  \/ Replace \/ SetAttr \/ DelAttr
  \/ NewColor \/ NewColorRejected \/ NewColorRGB \/ BypassColor \/ Hex \/ RgbHex \/ Rgb
  \/ NewStr \/ FromHex \/ FromHexRejected
Spec == Init /\ [][Next]_vars

ActionNames == {"NewAbstract", "ToExactCustom", "NewAligned", "NewAlignedDefault", "NewExact", "NewExactRejected", "NewExactDefault",
  "ResolveRelative", "ResolveAbsolute", "ResolveAbsoluteCopy", "ToExactAligned", "ToExactExact",
  "ToExactExactCopy", "GetPaddedSize", "ExactDims",
  "PadOutput", "RelativeRefused", "ChainRenderSize", "Dimensions", "MinSize", "RebuildSame", "RebuildInt",
  "RebuildStr", "NewSize", "NewSizeRejected", "BypassSize", "Replace", "SetAttr", "DelAttr", "NewColor",
  "NewColorRejected", "NewColorRGB", "BypassColor", "Hex", "RgbHex", "Rgb", "NewStr", "FromHex",
  "FromHexRejected"}

(* ================= the laws: state invariants ================================= *)
TypeOK ==
  /\ fam \in {"pad", "color"}
  /\ Len(S) <= N /\ WFStore(S)
  /\ \A i \in Slots : IsCustom(S[i]) => Subs
  /\ \A i \in Slots : S[i].k \in (IF Pad THEN {"aligned", "exact", "size"} ELSE {"color", "str"})
  /\ out.res \in {"ok", "ValueError", RelErr, "AttributeError", "TypeError"}
  /\ out.act \in ActionNames \cup {"Init"}

\* one object = one record; identical objects are equal; == is an equivalence where it is decided
IdentityAndEquality ==
  \A i, j \in Slots :
    /\ S[i].id = S[j].id => Eq3(S[i], S[j]) = (IF IsCustom(S[i]) THEN "U" ELSE "T")
    /\ Eq3(S[i], S[i]) = (IF IsCustom(S[i]) THEN "U" ELSE "T")
    /\ Eq3(S[i], S[j]) = Eq3(S[j], S[i])
    /\ \A m \in Slots : Eq3(S[i], S[j]) = "T" /\ Eq3(S[j], S[m]) = "T" => Eq3(S[i], S[m]) = "T"

\* paddings of one class: equal exactly when all fields are equal (fill included)
EqualFieldsEqualPaddings ==
  \A i, j \in Built : S[i].cls = S[j].cls =>
     (Eq3(S[i], S[j]) = "T") = (S[i].n = S[j].n /\ S[i].s = S[j].s)

\* `relative` is True exactly when a minimum dimension is non-positive
RelativeFlag ==
  \A i \in Of("aligned") : Rel(S[i]) = (S[i].n[1] <= 0 \/ S[i].n[2] <= 0)

\* every colour string the API produces parses back to the colour (all spellings)
HexRoundTrip ==
  \A i \in Of("color") : ValidObj(S[i]) =>
    LET c == S[i].n IN
      /\ \A f \in Forms : ParseHex(Transform(HexOf(c), f)) = c
      /\ \A f \in Forms : ParseHex(Transform(RgbHexOf(c), f)) = <<c[1], c[2], c[3], 255>>
      /\ Len(HexOf(c)) = 9 /\ Len(RgbHexOf(c)) = 7
      /\ \A m \in 2..9 : HexOf(c)[m] \in 0..15          \* lowercase digits only

\* a string that IS a hex colour, written back by `hex`, is its lowercase "#rrggbbaa" form
ParseNormalForm ==
  \A i \in Of("str") :
    LET c == ParseHex(S[i].n) IN
    c # <<>> =>
      LET low == MapSeq(LowerSym, DropPound(S[i].n)) IN
      HexOf(c) = <<Pound>> \o low \o (IF Len(low) = 6 THEN <<15, 15>> ELSE <<>>)

(* ================= the laws: action properties ================================== *)
o2 == out'.op
Src == S[o2.i]
Dst == S'[o2.dst]
Accepted == out'.res = "ok"
Named(names) == o2.name \in names
RSof == RS(S, o2)
SameButId(a, b) == Strip(a) = Strip(b)

\* every action is a well-formed operation of the core, with the outcome the core's dispatcher
\* (used to validate recorded histories) gives for it
ActionsAreCoreStep ==
  /\ WFOp(S, o2)
  /\ LET e0 == Eval(S, o2)
         e == IF out'.var = "copy" THEN CopyOf(S[o2.i], IF o2.name = "to_exact" THEN "ExactPadding" ELSE S[o2.i].cls)
              ELSE e0
     IN /\ out'.res = e.res /\ out'.val = e.val /\ S' = ApplyE(S, o2, e)
        /\ (out'.var # "") = (e0.alias > 0)          \* exactly the operations that may return the operand
ActionsAreCoreOps == [][ActionsAreCoreStep]_vars

\* a refused operation and an operation returning a plain value leave every object as it was
RejectedChangesNothing == [][~Accepted => S' = S]_vars
ValueOpsChangeNothing == [][Named(ValueOps \cup ProbeOps) => S' = S]_vars

\* immutability: every attribute assignment / deletion is refused
MutationRefused == [][Named(ProbeOps) => out'.res # "ok"]_vars

\* binding a result touches that one variable: all other variables keep their object, and
\* which of them are the same object
OnlyDstChangesStep ==
  Accepted /\ Named(ObjectOps) =>
    /\ Len(S') = (IF o2.dst = Len(S) + 1 THEN Len(S) + 1 ELSE Len(S))
    /\ \A m \in DOMAIN S : m # o2.dst => SameButId(S'[m], S[m])
    /\ \A m, q \in DOMAIN S : m # o2.dst /\ q # o2.dst => (S'[m].id = S'[q].id) = (S[m].id = S[q].id)
OnlyDstChanges == [][OnlyDstChangesStep]_vars

\* an object outside its class's documented domain can only come from _new / _replace
OnlyBypassMakesInvalidStep ==
  Accepted /\ Named(ObjectOps) /\ ~ValidObj(Dst) => Named({"bypass", "replace"})
OnlyBypassMakesInvalid == [][OnlyBypassMakesInvalidStep]_vars

\* resolve(): absolute instance -> itself; relative -> same class, alignments and fill, absolute
\* dimensions kept, relative ones = max(terminal + d, 1); never relative; idempotent
ResolveStep ==
  Accepted /\ Named({"resolve"}) =>
    /\ ~Rel(Dst)
    /\ ~Rel(Src) => SameButId(Dst, Src)
    /\ ~Rel(Src) /\ o2.dst # o2.i => (Dst.id = S'[o2.i].id) = (out'.var = "self")
    /\ Rel(Src) =>
         /\ o2.dst # o2.i => Dst.id # S'[o2.i].id
         /\ Dst.cls = Src.cls /\ Dst.s = Src.s
         /\ \A ax \in 1..2 : Dst.n[ax] = IF Src.n[ax] > 0 THEN Src.n[ax]
                                         ELSE P!PMax(o2.n[ax] + Src.n[ax], 1)
    /\ \A t \in Terms : P!Resolve(AsPad(Dst), P!Sz(t[1], t[2])) = AsPad(Dst)
ResolveLaw == [][ResolveStep]_vars

\* to_exact(rs): an ExactPadding with the same fill that pads a render of size rs exactly as the
\* operand does; an ExactPadding is returned as it is
ToExactStep ==
  Accepted /\ Named({"to_exact"}) =>
    /\ Dst.k = "exact" /\ Fill(Dst) = Fill(Src)
    /\ Src.k = "exact" => Dst.n = Src.n /\ Dst.s = Src.s /\ Dst.cls \in CopyClasses(Src, "to_exact")
    /\ Src.k = "exact" /\ ~IsCustom(Src) /\ o2.dst # o2.i => (Dst.id = S'[o2.i].id) = (out'.var = "self")
    /\ Src.k = "aligned" \/ IsCustom(Src) => Dst.cls = "ExactPadding" /\ (o2.dst # o2.i => Dst.id # S'[o2.i].id)
    /\ P!Dims(AsPad(Dst), RSof) = P!Dims(AsPad(Src), RSof)
    /\ P!PaddedSize(AsPad(Dst), RSof) = P!PaddedSize(AsPad(Src), RSof)     \* the commuting law
ToExactLaw == [][ToExactStep]_vars

\* get_padded_size(rs): a valid Size, never smaller than the render size;
\* aligned: max(render, minimum) per axis; exact: the margins added
PaddedSizeStep ==
  Accepted /\ Named({"get_padded_size"}) =>
    /\ Dst.k = "size" /\ Dst.cls = "Size" /\ IsRenderSize(Dst)
    /\ Dst.n[1] >= RSof.w /\ Dst.n[2] >= RSof.h
    /\ Src.k = "aligned" => Dst.n = <<P!PMax(Src.n[1], RSof.w), P!PMax(Src.n[2], RSof.h)>>
    /\ Src.k = "exact" => Dst.n = <<Src.n[1] + RSof.w + Src.n[3], Src.n[2] + RSof.h + Src.n[4]>>
PaddedSizeLaw == [][PaddedSizeStep]_vars

\* the padded output has exactly the advertised size
PadMatchesPaddedSizeStep ==
  Accepted /\ Named({"pad"}) =>
    LET z == P!PaddedSize(AsPad(Src), RSof) IN out'.val = <<z.h, z.w>>
PadMatchesPaddedSize == [][PadMatchesPaddedSizeStep]_vars

\* alignment: LEFT/TOP nothing before, RIGHT/BOTTOM nothing after, CENTER/MIDDLE the odd one after
AlignmentSplitStep ==
  Accepted /\ Named({"exact_dims"}) /\ Src.k = "aligned" =>
    LET d == out'.val
        hs == P!PMax(Src.n[1] - RSof.w, 0)
        vs == P!PMax(Src.n[2] - RSof.h, 0)
    IN /\ d[1] + d[3] = hs /\ d[2] + d[4] = vs /\ \A m \in 1..4 : d[m] >= 0
       /\ Src.s[1] = "LEFT" => d[1] = 0
       /\ Src.s[1] = "RIGHT" => d[3] = 0
       /\ Src.s[1] = "CENTER" => d[3] - d[1] \in {0, 1} /\ (d[3] - d[1] = 1) = (hs % 2 = 1)
       /\ Src.s[2] = "TOP" => d[2] = 0
       /\ Src.s[2] = "BOTTOM" => d[4] = 0
       /\ Src.s[2] = "MIDDLE" => d[4] - d[2] \in {0, 1} /\ (d[4] - d[2] = 1) = (vs % 2 = 1)
AlignmentSplit == [][AlignmentSplitStep]_vars

\* every operation but resolve() is refused on a relative padding
RelativeRefusedStep ==
  Named({"to_exact", "get_padded_size", "exact_dims", "pad"}) => (out'.res = RelErr) = Rel(Src)
RelativeIsRefused == [][RelativeRefusedStep]_vars

\* constructing again from the attributes: a different object that is equal;
\* with one field changed: not equal
RebuildStep ==
  Accepted /\ Named({"rebuild"}) =>
    /\ o2.dst # o2.i => Dst.id # S'[o2.i].id
    /\ Dst.cls = Src.cls
    /\ (Eq3(Dst, Src) = "T") = (Dst.n = Src.n /\ Dst.s = Src.s)
    /\ o2.s[1] = "none" => Eq3(Dst, Src) = "T"
RebuildLaw == [][RebuildStep]_vars

\* from_hex: the class it was called on; 6 digits -> alpha 255; its hex is the normal form
FromHexStep ==
  Accepted /\ Named({"from_hex"}) =>
    LET txt == DropPound(Transform(Src.n, o2.s[1])) IN      \* the digits of the text as offered
    /\ Dst.k = "color" /\ Dst.cls = o2.cls /\ ValidObj(Dst)
    /\ Len(txt) = 6 => Dst.n[4] = 255
    /\ HexOf(Dst.n) = <<Pound>> \o MapSeq(LowerSym, txt) \o (IF Len(txt) = 6 THEN <<15, 15>> ELSE <<>>)
FromHexLaw == [][FromHexStep]_vars

\* hex / rgb_hex / rgb: the string parses back to the colour; rgb = the first three channels
HexStep ==
  Accepted /\ Named({"hex", "rgb_hex"}) =>
    /\ Dst.k = "str"
    /\ ParseHex(Dst.n) = (IF o2.name = "hex" THEN Src.n ELSE <<Src.n[1], Src.n[2], Src.n[3], 255>>)
    /\ Len(Dst.n) = (IF o2.name = "hex" THEN 9 ELSE 7) /\ Dst.n[1] = Pound
HexLaw == [][HexStep]_vars

(* ================= bounds / dump ================================================== *)
KeyStr(s) == ToString(<<fam, s>>)

OpOut(o, s2) == [act |-> o.act, name |-> o.op.name, i |-> o.op.i, j |-> o.op.j, dst |-> o.op.dst, cls |-> o.op.cls,
                 n |-> o.op.n, s |-> o.op.s, res |-> o.res, val |-> o.val, var |-> o.var, exp |-> Obs(s2)]

Dump == PrintT(<<"EDGE", ToJson([from |-> KeyStr(S), op |-> OpOut(out', S'), to |-> KeyStr(S'),
                                 fam |-> fam])>>)
InitDump == TLCGet("level") = 1 => PrintT(<<"INIT", ToJson(KeyStr(S))>>)
=============================================================================
