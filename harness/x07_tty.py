"""X07: a REAL process whose standard streams / controlling terminal are real pseudo-terminals.

``TtyWorld(conf, size0)`` starts ``x07_ttyworker.py`` in a new session with

* stdout / stdin / stderr = the slave of pty ``conf[stream]`` (ids 1..4; several streams may
  share one pty) or a pipe / ``/dev/null`` when ``0``;
* the controlling terminal = pty ``conf["ctty"]`` (the worker, a session leader without
  terminal, acquires it with ``TIOCSCTTY`` before anything else) or none.

The worker then executes commands sent over a pipe: ``load`` imports ``term_image.utils`` (the
package discovers its *active terminal* during that import), ``query`` calls
``utils.get_terminal_size()``, ``env`` sets / removes ``COLUMNS`` and ``LINES``.  The parent plays
the terminal emulators: ``resize`` = ``TIOCSWINSZ`` on a master, ``hangup`` = closing a master.
Nothing is substituted on the library's side.
"""

from __future__ import annotations

import fcntl
import json
import os
import select
import struct
import subprocess
import sys
import termios
import threading
import time
from pathlib import Path

from .tlc import MachineryError

# A child forked by ANOTHER thread holds copies of every descriptor of this process until it
# execs: a pty master closed in that window is not really closed and the terminal does not hang
# up yet.  Creating processes and closing masters therefore exclude each other.
_FDS = threading.Lock()

WORKER = str(Path(__file__).with_name("x07_ttyworker.py"))
STREAMS = ("out", "in", "err")


def set_winsize(fd: int, cols: int, rows: int) -> None:
    fcntl.ioctl(fd, termios.TIOCSWINSZ, struct.pack("HHHH", rows, cols, 0, 0))


class TtyWorld:
    def __init__(self, conf: dict, size0: list, src: str | None = None, timeout: float = 20.0):
        self.conf = conf
        self.timeout = timeout
        self.masters: dict[int, int] = {}
        self.names: dict[str, int] = {}
        slaves: dict[int, int] = {}
        for t in sorted({conf[k] for k in (*STREAMS, "ctty")} - {0}):
            m, s = os.openpty()
            set_winsize(m, size0[t - 1][0], size0[t - 1][1])
            self.masters[t] = m
            slaves[t] = s
            self.names[os.ttyname(s)] = t
        c_r, c_w = os.pipe()
        r_r, r_w = os.pipe()
        devnull = os.open(os.devnull, os.O_RDWR)
        keep = [c_r, r_w]
        argv = [sys.executable, WORKER, str(c_r), str(r_w)]
        if conf["ctty"]:
            keep.append(slaves[conf["ctty"]])
            argv.append(str(slaves[conf["ctty"]]))
        env = {k: v for k, v in os.environ.items() if k not in ("COLUMNS", "LINES")}
        env["X07_SRC"] = src or str(Path(os.environ.get("VERIF_REPO") or "/repo") / "src")
        env["PYTHONWARNINGS"] = "ignore::ResourceWarning"

        def fd_of(stream):
            return slaves[conf[stream]] if conf[stream] else devnull

        _FDS.acquire()
        try:
            self.p = subprocess.Popen(
                argv, stdin=fd_of("in"), stdout=fd_of("out"),
                stderr=fd_of("err") if conf["err"] else subprocess.PIPE,
                pass_fds=keep, close_fds=True, start_new_session=True, env=env)
        finally:
            _FDS.release()
            for fd in (c_r, r_w, devnull):
                os.close(fd)
        self.slaves = slaves  # kept: the parent's own view of each terminal (is it hung up yet?)
        self.cw = os.fdopen(c_w, "w")
        self.rr = r_r
        self.buf = b""
        self.closed = False

    # ------------------------------------------------------------------ protocol
    def _ask(self, **cmd):
        self.cw.write(json.dumps(cmd) + "\n")
        self.cw.flush()
        while b"\n" not in self.buf:
            ready, _, _ = select.select([self.rr], [], [], self.timeout)
            if not ready:
                raise MachineryError(f"x07 tty worker did not answer {cmd} within {self.timeout}s")
            chunk = os.read(self.rr, 65536)
            if not chunk:
                err = ""
                if self.p.stderr:
                    try:
                        err = self.p.stderr.read().decode(errors="replace")[-800:]
                    except Exception:
                        pass
                raise MachineryError(f"x07 tty worker died on {cmd} (rc={self.p.poll()}): {err}")
            self.buf += chunk
        line, _, self.buf = self.buf.partition(b"\n")
        ans = json.loads(line)
        if isinstance(ans, dict) and ans.get("machinery"):
            raise MachineryError(f"x07 tty worker: {ans['machinery']}")
        return ans

    def _result(self, a: dict) -> dict:
        name = a.get("name")
        if name is None:
            act, via = 0, 0
        elif name == "/dev/tty":
            act, via = self.conf["ctty"], 4
        else:
            act = self.names.get(name, -1)
            via = next((i + 1 for i, s in enumerate(STREAMS) if self.conf[s] == act), 0)
        return {"cols": a["size"][0], "lines": a["size"][1], "act": act, "via": via,
                "warned": bool(a.get("warned", False)), "exc": a.get("exc", "")}

    def do(self, op: dict) -> dict:
        """op = {k, t, c, l}; returns the observation r = {cols, lines, act, via, warned}."""
        k = op["k"]
        if k == "load":
            return self._result(self._ask(op="load"))
        if k == "resize":
            set_winsize(self.masters[op["t"]], op["c"], op["l"])
        elif k == "hangup":
            with _FDS:
                os.close(self.masters.pop(op["t"]))
            # any other forked-not-yet-exec'ed child of this process (e.g. a TLC being started)
            # may still hold a copy of the master for a moment: wait until the device IS hung up
            deadline = time.time() + 10
            while True:
                try:
                    os.get_terminal_size(self.slaves[op["t"]])
                except OSError:
                    break
                if time.time() > deadline:
                    raise MachineryError("x07 tty: a closed pty master did not hang the terminal up")
                time.sleep(0.002)
        elif k == "env":
            self._ask(op="env", COLUMNS=op["c"] or None, LINES=op["l"] or None)
        elif k != "query":
            raise MachineryError(f"x07 tty: unknown operation {k}")
        return self._result(self._ask(op="query"))

    def close(self) -> None:
        if self.closed:
            return
        self.closed = True
        try:
            self.cw.close()
        except Exception:
            pass
        try:
            self.p.wait(timeout=10)
        except subprocess.TimeoutExpired:
            self.p.kill()
            self.p.wait()
        for fd in (self.rr, *self.masters.values(), *self.slaves.values()):
            try:
                os.close(fd)
            except OSError:
                pass
        if self.p.stderr:
            self.p.stderr.close()
