---------------------------- MODULE MC_BlockLine ----------------------------
(* Constants for the exhaustive (free-mode) and the dump configurations of   *)
(* BlockLine.  Three opaque colours so that, whatever the terminal           *)
(* background is, two colours differ from it; the transparent pixels carry   *)
(* two RGB variants, one of which coincides with an opaque colour.  The two  *)
(* known terminal backgrounds exercise both branches of the kitty            *)
(* adjustment (r < 255: r + 1, r = 255: r - 1).                              *)
EXTENDS BlockLine

MC_Colours == {<<10, 20, 30>>, <<16, 32, 48>>, <<255, 64, 0>>}
MC_TColours == {<<16, 32, 48>>, <<0, 0, 1>>}
MC_TermBgs == {<<>>, <<16, 32, 48>>, <<255, 64, 0>>}
=============================================================================
