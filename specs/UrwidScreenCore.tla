-------------------------- MODULE UrwidScreenCore --------------------------
(***************************************************************************)
(* C18 - functional core shared by UrwidScreen (design-level model, TLC     *)
(* exhaustive) and Trace_UrwidScreen (judge of real UrwidImageScreen        *)
(* output).  No variables, no constants: everything is an operator.        *)
(*                                                                         *)
(* 1. Layout semantics.  A layout is a tree of urwid containers:           *)
(*      [k |-> "txt",  ch]                 SolidFill / Divider              *)
(*      [k |-> "img",  wid]                UrwidImage (box, or flow inside  *)
(*                                          "list" / "fill")                *)
(*      [k |-> "pile", items |-> <<[n, c]>>]   Pile of (n rows, child)      *)
(*      [k |-> "cols", items |-> <<[n, c]>>]   Columns of (n cols, child)   *)
(*      [k |-> "over", top, bot, ox, oy, ow, oh]   Overlay                  *)
(*      [k |-> "list", items |-> <<child>>, off]   ListBox scrolled by off  *)
(*      [k |-> "fill", c, va]              Filler around a flow image       *)
(*    Sem(wd, n, x, y, w, h) is the set of PIECES (canvas views) the       *)
(*    rendered canvas consists of: which leaf canvas is visible where, and *)
(*    which part of it (trim left / trim top / cols / rows).  It mirrors   *)
(*    how urwid composes CompositeCanvas shards (an Overlay cuts EVERY     *)
(*    bottom piece into above / left / right / below parts).               *)
(* 2. ImpliedBy: the graphics placements a terminal must show for a piece  *)
(*    set ("the images in the canvas just drawn").                         *)
(* 3. The library side (cviews difference, deletes, disguise) as a pure    *)
(*    function LibDiff, and urwid's line cache as RowSig.                  *)
(* 4. Clause predicates over a redraw's token list (bracketing, order).    *)
(* 5. The z-index allocator.                                               *)
(*                                                                         *)
(* wd ("widget data") is a function wid -> [style, nw, nh, z, gen]:        *)
(* style in {"kitty","iterm2","block"}; nw x nh = natural size in cells    *)
(* (images are never upscaled and always get at least their natural size,  *)
(* so the rendered image is nw x nh, centred in its canvas); z = z-index   *)
(* (model: small integer; traces: interned id of the real value); gen =    *)
(* canvas generation (changes when the widget is invalidated and rendered  *)
(* again: a new canvas OBJECT, which is what the screen compares).         *)
(***************************************************************************)
EXTENDS Terminal

(* ---------------------------------------------------------------- pieces *)

\* fl = 1: the leaf was rendered as a FLOW widget (size (cols,)), 0: as a box widget - urwid
\* caches the two renders separately, so they are different canvas objects even at equal size
LeafF(kind, wid, ch, x, y, cw, chh, fl) ==
  IF cw <= 0 \/ chh <= 0 THEN {}
  ELSE {[kind |-> kind, w |-> wid, ch |-> ch, row |-> y, col |-> x, tl |-> 0, tt |-> 0,
         cols |-> cw, rows |-> chh, cw |-> cw, chh |-> chh, fl |-> fl]}
Leaf(kind, wid, ch, x, y, cw, chh) == LeafF(kind, wid, ch, x, y, cw, chh, 0)

\* part of piece p inside screen rows r1..r2-1 and columns c1..c2-1
Clip(p, r1, r2, c1, c2) ==
  LET a1 == Max(p.row, r1)
      a2 == Min(p.row + p.rows, r2)
      b1 == Max(p.col, c1)
      b2 == Min(p.col + p.cols, c2)
  IN IF a1 >= a2 \/ b1 >= b2 THEN {}
     ELSE {[p EXCEPT !.row = a1, !.col = b1, !.tt = p.tt + (a1 - p.row),
                     !.tl = p.tl + (b1 - p.col), !.rows = a2 - a1, !.cols = b2 - b1]}

ClipAll(P, r1, r2, c1, c2) == UNION {Clip(p, r1, r2, c1, c2) : p \in P}

RECURSIVE SumN(_, _)
SumN(items, i) == IF i > Len(items) THEN 0 ELSE items[i].n + SumN(items, i + 1)

FlowRows(wd, n) == IF n.k = "img" THEN wd[n.wid].nh ELSE 1

RECURSIVE SumFlow(_, _, _)
SumFlow(wd, items, i) ==
  IF i > Len(items) THEN 0 ELSE FlowRows(wd, items[i]) + SumFlow(wd, items, i + 1)

RECURSIVE Sem(_, _, _, _, _, _)
RECURSIVE SemPile(_, _, _, _, _, _)
RECURSIVE SemCols(_, _, _, _, _, _)
RECURSIVE SemList(_, _, _, _, _, _, _, _)

FlowLeaf(wd, n, x, y, w) ==
  IF n.k = "img" THEN LeafF("img", n.wid, 0, x, y, w, wd[n.wid].nh, 1)
  ELSE LeafF("txt", 0, n.ch, x, y, w, 1, 1)

Sem(wd, n, x, y, w, h) ==
  CASE n.k = "txt" -> Leaf("txt", 0, n.ch, x, y, w, h)
    [] n.k = "img" -> Leaf("img", n.wid, 0, x, y, w, h)
    [] n.k = "pile" -> SemPile(wd, n.items, 1, x, y, w)
    [] n.k = "cols" -> SemCols(wd, n.items, 1, x, y, h)
    [] n.k = "over" ->
         LET B == Sem(wd, n.bot, x, y, w, h)
             Tp == Sem(wd, n.top, x + n.ox, y + n.oy, n.ow, n.oh)
             ya == y + n.oy
             yb == y + n.oy + n.oh
             xa == x + n.ox
             xb == x + n.ox + n.ow
         IN ClipAll(B, y, ya, x, x + w) \cup ClipAll(B, ya, yb, x, xa)
              \cup ClipAll(B, ya, yb, xb, x + w) \cup ClipAll(B, yb, y + h, x, x + w) \cup Tp
    [] n.k = "list" ->
         \* virtual column of flow items scrolled up by n.off rows, cut to the window
         ClipAll(SemList(wd, n.items, 1, x, y - n.off, w, y, y + h), y, y + h, x, x + w)
    [] n.k = "fill" ->
         LET fh == FlowRows(wd, n.c)
             top == IF n.va = "top" THEN 0
                    ELSE IF n.va = "bottom" THEN h - fh ELSE (h - fh) \div 2
         IN Leaf("txt", 0, 32, x, y, w, top) \cup FlowLeaf(wd, n.c, x, y + top, w)
              \cup Leaf("txt", 0, 32, x, y + top + fh, w, h - top - fh)

SemPile(wd, items, i, x, y, w) ==
  IF i > Len(items) THEN {}
  ELSE Sem(wd, items[i].c, x, y, w, items[i].n) \cup SemPile(wd, items, i + 1, x, y + items[i].n, w)

SemCols(wd, items, i, x, y, h) ==
  IF i > Len(items) THEN {}
  ELSE Sem(wd, items[i].c, x, y, items[i].n, h) \cup SemCols(wd, items, i + 1, x + items[i].n, y, h)

SemList(wd, items, i, x, y, w, wtop, wbot) ==
  IF i > Len(items) THEN Leaf("txt", 0, 32, x, Max(y, wtop), w, wbot - Max(y, wtop))
  ELSE FlowLeaf(wd, items[i], x, y, w)
         \cup SemList(wd, items, i + 1, x, y + FlowRows(wd, items[i]), w, wtop, wbot)

(* well-formedness of a layout for a w x h box: what the driver may build *)
RECURSIVE WF(_, _, _, _)
RECURSIVE WFItems(_, _, _, _, _)
WFFlow(wd, n, w) == (n.k = "txt") \/ (n.k = "img" /\ wd[n.wid].nw <= w)
WF(wd, n, w, h) ==
  /\ w >= 1 /\ h >= 1
  /\ CASE n.k = "txt" -> TRUE
       [] n.k = "img" -> wd[n.wid].nw <= w /\ wd[n.wid].nh <= h
       [] n.k = "pile" -> Len(n.items) >= 1 /\ SumN(n.items, 1) = h /\ WFItems(wd, n.items, 1, w, TRUE)
       [] n.k = "cols" -> Len(n.items) >= 1 /\ SumN(n.items, 1) = w /\ WFItems(wd, n.items, 1, h, FALSE)
       [] n.k = "over" -> /\ n.ox >= 0 /\ n.oy >= 0 /\ n.ow >= 1 /\ n.oh >= 1
                          /\ n.ox + n.ow <= w /\ n.oy + n.oh <= h
                          /\ WF(wd, n.bot, w, h) /\ WF(wd, n.top, n.ow, n.oh)
       [] n.k = "list" -> /\ Len(n.items) >= 1
                          /\ \A i \in DOMAIN n.items : WFFlow(wd, n.items[i], w)
                          /\ n.off >= 0 /\ n.off + h <= SumFlow(wd, n.items, 1)
       [] n.k = "fill" -> WFFlow(wd, n.c, w) /\ FlowRows(wd, n.c) <= h
                          /\ n.va \in {"top", "middle", "bottom"}
       [] OTHER -> FALSE
WFItems(wd, items, i, other, vertical) ==
  IF i > Len(items) THEN TRUE
  ELSE /\ items[i].n >= 1
       /\ IF vertical THEN WF(wd, items[i].c, other, items[i].n) ELSE WF(wd, items[i].c, items[i].n, other)
       /\ WFItems(wd, items, i + 1, other, vertical)

\* widgets occurring in a layout
RECURSIVE WidgetsOf(_)
RECURSIVE WidgetsOfItems(_, _, _)
WidgetsOf(n) ==
  CASE n.k = "txt" -> {}
    [] n.k = "img" -> {n.wid}
    [] n.k \in {"pile", "cols"} -> WidgetsOfItems(n.items, 1, TRUE)
    [] n.k = "over" -> WidgetsOf(n.top) \cup WidgetsOf(n.bot)
    [] n.k = "list" -> WidgetsOfItems(n.items, 1, FALSE)
    [] n.k = "fill" -> WidgetsOf(n.c)
WidgetsOfItems(items, i, wrapped) ==
  IF i > Len(items) THEN {}
  ELSE WidgetsOf(IF wrapped THEN items[i].c ELSE items[i]) \cup WidgetsOfItems(items, i + 1, wrapped)

\* a top-level leaf renders to a NON-composite canvas (SolidCanvas / UrwidImageCanvas)
TopLeaf(n) == n.k \in {"txt", "img"}

(* ----------------------------------------------------- implied placements *)

\* KittyImage.is_supported() (kitty, Konsole) or KittyImage.forced_support on any other terminal that
\* implements the protocol ("forced": identity wezterm + forced support)
Supported(ident) == ident \in {"kitty", "konsole", "forced"}
Tracked(ident, style) == style = "kitty" \/ (style = "iterm2" /\ ident = "konsole")

PadL(g, p) == (p.cw - g.nw) \div 2
PadT(g, p) == (p.chh - g.nh) \div 2
HTrimmed(p) == p.tl # 0 \/ p.cols # p.cw

\* canvas lines of piece p that are visible and carry an image line
ImageLines(g, p) == (p.tt..(p.tt + p.rows - 1)) \cap (PadT(g, p)..(PadT(g, p) + g.nh - 1))

ImpliedOf(ident, wd, p) ==
  IF p.kind # "img" THEN {}
  ELSE LET g == wd[p.w] IN
    IF ~Tracked(ident, g.style) \/ HTrimmed(p) THEN {}
    ELSE {[proto |-> IF g.style = "kitty" THEN "kitty" ELSE "iterm2",
           z |-> IF g.style = "kitty" THEN g.z ELSE 0,
           row |-> p.row + (L - p.tt), col |-> p.col + PadL(g, p), w |-> g.nw, h |-> 1,
           wid |-> p.w, strip |-> L - PadT(g, p)] : L \in ImageLines(g, p)}

ImpliedBy(ident, wd, P) == UNION {ImpliedOf(ident, wd, p) : p \in P}

\* what a Terminal record shows, in the same vocabulary (gfx carries wid/strip/zid of a transmission)
Shown(T, gfx) ==
  {[proto |-> T.pl[i].proto,
    z |-> IF T.pl[i].proto = "kitty" THEN gfx[T.pl[i].x + 1].zid ELSE 0,
    row |-> T.pl[i].row, col |-> T.pl[i].col, w |-> T.pl[i].w, h |-> T.pl[i].h,
    wid |-> gfx[T.pl[i].x + 1].wid, strip |-> gfx[T.pl[i].x + 1].strip] : i \in DOMAIN T.pl}

(* -------------------------------------------------- library side: cviews *)

\* (widget, row, col, trim_left, trim_top, cols, rows) + canvas identity (cw, chh, fl, gen); 1-based row/col
ViewOf(wd, p) ==
  [w |-> p.w, row |-> p.row + 1, col |-> p.col + 1, tl |-> p.tl, tt |-> p.tt, cols |-> p.cols,
   rows |-> p.rows, cw |-> p.cw, chh |-> p.chh, fl |-> p.fl, gen |-> wd[p.w].gen]

ViewsOf(ident, wd, P) ==
  {ViewOf(wd, p) : p \in {q \in P : q.kind = "img" /\ Tracked(ident, wd[q.w].style)}}

\* Result of UrwidImageScreen._ti_clear_images for a new screen canvas made of pieces P.
\*   delall: delete-all emitted (+ canvas-class disguise change)
\*   delw:   widgets whose images are deleted by z-index (+ per-widget disguise change)
LibDiff(ident, wd, cviews, P, topleaf) ==
  LET new == ViewsOf(ident, wd, P)
      gone == cviews \ new
      nonkitty == \E v \in gone : wd[v.w].style # "kitty"
  IN IF ~Supported(ident) THEN [cviews |-> cviews, delall |-> FALSE, delw |-> {}]
     ELSE IF topleaf /\ new = {} THEN
            \* non-composite canvas without tracked images: everything on screen goes
            [cviews |-> {}, delall |-> cviews # {}, delw |-> {}]
     ELSE IF nonkitty THEN [cviews |-> new, delall |-> TRUE, delw |-> {}]
     ELSE [cviews |-> new, delall |-> FALSE, delw |-> {v.w : v \in gone}]

Bump(d) == (d + 1) % 3

(* ------------------------------------------------ urwid's line cache model *)

\* What urwid compares per screen row: the list of (attr, charset, bytes) segments.
\* dis = [c |-> canvas-class disguise, w |-> per-widget disguise]
SegSig(ident, wd, dis, p, y) ==
  IF p.kind = "txt" THEN <<"t", p.ch, p.cols>>
  ELSE LET g == wd[p.w]
           line == p.tt + (y - p.row)
       IN IF g.style = "block" THEN <<"k", p.w, line, p.tl, p.cols, p.cw, p.chh>>
          ELSE IF HTrimmed(p) THEN <<"b", 32, p.cols>>
          ELSE <<"g", p.w, line, p.cw, p.chh,
                 IF Tracked(ident, g.style) THEN dis.c + dis.w[p.w] ELSE 0>>

PieceAt(P, y, c) ==
  CHOOSE p \in P : p.row <= y /\ y < p.row + p.rows /\ p.col <= c /\ c < p.col + p.cols

Covers(P, y, c) ==
  \E p \in P : p.row <= y /\ y < p.row + p.rows /\ p.col <= c /\ c < p.col + p.cols

\* the pieces tile the w x h screen exactly (no gap, no overlap)
Tiles(P, w, h) ==
  \A y \in 0..(h - 1), c \in 0..(w - 1) :
     Cardinality({p \in P : p.row <= y /\ y < p.row + p.rows /\ p.col <= c /\ c < p.col + p.cols}) = 1

RECURSIVE RowPieces(_, _, _, _)
RowPieces(P, y, c, w) ==
  IF c >= w THEN <<>>
  ELSE LET p == PieceAt(P, y, c) IN <<p>> \o RowPieces(P, y, p.col + p.cols, w)

RowSig(ident, wd, dis, P, y, w) ==
  LET ps == RowPieces(P, y, 0, w) IN [i \in DOMAIN ps |-> SegSig(ident, wd, dis, ps[i], y)]

ScreenSig(ident, wd, dis, P, w, h) == [r \in 1..h |-> RowSig(ident, wd, dis, P, r - 1, w)]

(* --------------------------------------------- clauses over a token list *)

IsSyncBegin(t) == t.k = "decset" /\ t.n = 2026
IsSyncEnd(t) == t.k = "decrst" /\ t.n = 2026
CountToks(toks, Pred(_)) == Cardinality({i \in DOMAIN toks : Pred(toks[i])})

\* exactly one begin ... end pair, first and last token of the update
Bracketed(toks) ==
  /\ Len(toks) >= 2
  /\ IsSyncBegin(toks[1]) /\ IsSyncEnd(toks[Len(toks)])
  /\ CountToks(toks, IsSyncBegin) = 1 /\ CountToks(toks, IsSyncEnd) = 1

IsDeleteAll(t, gfx) == t.k = "kitty" /\ gfx[t.x + 1].a = "d" /\ gfx[t.x + 1].d \in {"A", "a"}
IsDeleteZ(t, gfx) == t.k = "kitty" /\ gfx[t.x + 1].a = "d" /\ gfx[t.x + 1].d \in {"Z", "z"}
IsTransmit(t, gfx) ==
  \/ t.k = "iterm"
  \/ t.k = "kitty" /\ gfx[t.x + 1].a \in {"T", "t"}

\* screen-level deletions (all / by z-index) come before any image transmission
DeletesFirst(toks, gfx) ==
  \A i, j \in DOMAIN toks :
     (IsDeleteAll(toks[i], gfx) \/ IsDeleteZ(toks[i], gfx)) /\ IsTransmit(toks[j], gfx) => i < j

HasDeleteAll(toks, gfx) == \E i \in DOMAIN toks : IsDeleteAll(toks[i], gfx)
DeletedZ(toks, gfx) == {gfx[toks[i].x + 1].zid : i \in {j \in DOMAIN toks : IsDeleteZ(toks[j], gfx)}}
NoGraphics(toks) == \A i \in DOMAIN toks : toks[i].k \notin {"kitty", "iterm"}

\* urwid slides the bottom-right character into place under insert mode (SM 4 ... RM 4);
\* IRM only shifts cells of that row, the cursor moves as usual: cells are not judged here.
ApplyX(T, t, gfx) ==
  IF t.k \in {"sm", "rm"} /\ t.n = 4 THEN [T EXCEPT !.ntok = @ + 1] ELSE Apply(T, t, gfx)

\* left fold of the token list (SequencesExt!FoldLeft is evaluated iteratively by TLC: no recursion
\* depth proportional to the length of the output); the last argument is kept for readability
SeqX == INSTANCE SequencesExt
Fold(T, toks, gfx, i) == SeqX!FoldLeft(LAMBDA acc, t : ApplyX(acc, t, gfx), T, toks)

(* ----------------------------------------------------- z-index allocator *)

\* index space of `bits` bits: usable z are -(2^(bits-1)-1) .. 2^(bits-1)-1 without 0 in the
\* allocation order 1, -1, 2, -2, ...;  next = 2^(bits-1) means "fresh indexes exhausted".
RECURSIVE Pow2(_)
Pow2(n) == IF n <= 0 THEN 1 ELSE 2 * Pow2(n - 1)
ZLimit(bits) == Pow2(bits - 1)
ZRange(bits) == (-(ZLimit(bits) - 1))..(ZLimit(bits) - 1)
ZCapacity(bits) == 2 * (ZLimit(bits) - 1)
NextAfter(z) == IF z > 0 THEN -z ELSE -z + 1

\* possible outcomes of one allocation from [next, free]: a set of [z, next, free] or {} = error
AllocOutcomes(bits, next, free) ==
  IF free # {} THEN {[z |-> z, next |-> next, free |-> free \ {z}] : z \in free}
  ELSE IF next = ZLimit(bits) THEN {}
  ELSE {[z |-> next, next |-> NextAfter(next), free |-> free]}

=============================================================================
