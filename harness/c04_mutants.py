"""C04 self-test helper: seeded mutations of the sizing code (does the alarm ring?).

    /venv/bin/python -m harness.c04_mutants            # list
    /venv/bin/python -m harness.c04_mutants NAME...    # build /tmp/c04mut/NAME, run the quick check, remove
    /venv/bin/python -m harness.c04_mutants --all

Each mutant is one textual replacement in a scratch copy of /repo/src (never /repo itself);
the quick check is run with VERIF_REPO pointing at the copy and must exit 1 for every
mutant listed in MUST_CATCH.  INSIDE lists mutants that change the numbers but stay inside the
property as stated (less than one cell from the exact value): the check must NOT alarm on them.
"""

from __future__ import annotations

import os
import shutil
import subprocess
import sys
from pathlib import Path

VERIF = Path(__file__).resolve().parent.parent
ROOT = Path("/tmp/c04mut")
C = "src/term_image/image/common.py"

MUTS = {
    # DESIGN.md "Must catch"
    "m1a_or1_fit": (C, """                self._pixels_cols(pixels=width_px) or 1,
                self._pixels_lines(pixels=height_px) or 1,""", """                self._pixels_cols(pixels=width_px),
                self._pixels_lines(pixels=height_px),"""),
    "m1b_or1_final": (C, "        return (width or 1, height or 1)", "        return (width, height)"),
    "m1c_or1_original": (C, """                    self._pixels_cols(pixels=ori_width) or 1,
                    self._pixels_lines(pixels=round(ori_height * self._pixel_ratio))
                    or 1,""", """                    self._pixels_cols(pixels=ori_width),
                    self._pixels_lines(pixels=round(ori_height * self._pixel_ratio)),"""),
    "m2_clamp_h": (C, "                height_px = min(_height_px, frame_height)", "                height_px = _height_px"),
    "m2b_clamp_w": (C, "                width_px = min(_width_px, frame_width)", "                width_px = _width_px"),
    "m3_swap_fit": (C, "                _width_px = _width_px / self._pixel_ratio",
                    "                _width_px = _width_px * self._pixel_ratio"),
    "m3b_swap_given_h": (C, """                self._width_height_px(h=self._pixels_lines(lines=height))
                / self._pixel_ratio""", """                self._width_height_px(h=self._pixels_lines(lines=height))
                * self._pixel_ratio"""),
    "m4_auto_round": (C, "                        or round(ori_height * self._pixel_ratio) > frame_height",
                      "                        or ori_height * self._pixel_ratio > frame_height"),
    "m5_no_restore": (C, """            if isinstance(_size, Size):
                self.size = _size

    def _valid_size(""", """            if isinstance(_size, Size):
                pass

    def _valid_size("""),
    "m6_fit_dynamic": (C, "        self._size = self._valid_size(width, height, frame_size)\n",
                       "        if width is Size.FIT and height is None:\n            self._size = Size.FIT\n"
                       "            return\n        self._size = self._valid_size(width, height, frame_size)\n"),
    # own
    "m7_cols_index": (C, "            ceil(pixels // (get_cell_size() or (1, 2))[0])",
                      "            ceil(pixels // (get_cell_size() or (1, 2))[1])"),
    "m8_frame_rel": (C, "                frame_dim if frame_dim > 0 else max(terminal_dim + frame_dim, 1)",
                     "                frame_dim if frame_dim > 0 else max(terminal_dim - frame_dim, 1)"),
    "m9_pixel_ratio": (C, "    _pixel_ratio = property(lambda _: get_cell_ratio() * 2)",
                       "    _pixel_ratio = property(lambda _: get_cell_ratio())"),
    "m10_rows_no_original": ("src/term_image/widget/_urwid.py", """            n_rows = (
                ori_size[1]
                if ori_size[0] <= fit_size[0] and ori_size[1] <= fit_size[1]
                else fit_size[1]
            )""", """            n_rows = fit_size[1]"""),
    "m11_size_setter_fixed": (C, """        if isinstance(size, Size):
            self._size = size
        elif isinstance(size, tuple):""", """        if isinstance(size, Size):
            self.set_size(size)
        elif isinstance(size, tuple):"""),
    "m13_fit_to_width_w": (C, """                    self._pixels_cols(pixels=frame_width) or 1,
                    self._pixels_lines(""", """                    self._pixels_cols(pixels=ori_width) or 1,
                    self._pixels_lines("""),
    "m14_rel_frame_noclamp": (C, "                frame_dim if frame_dim > 0 else max(terminal_dim + frame_dim, 1)",
                              "                frame_dim if frame_dim > 0 else terminal_dim + frame_dim"),
    # stays inside the property (floor instead of ceil when converting pixels to lines: still less
    # than one cell from the exact value) - must NOT be reported
    "m12_floor_lines": ("src/term_image/image/block.py",
                        "        return ceil(pixels / 2) if pixels is not None else lines * 2",
                        "        return pixels // 2 if pixels is not None else lines * 2"),
}
INSIDE = {"m12_floor_lines"}
MUST_CATCH = [n for n in MUTS if n not in INSIDE]


def build(name: str) -> Path:
    f, old, new = MUTS[name]
    d = ROOT / name
    shutil.rmtree(d, ignore_errors=True)
    d.mkdir(parents=True)
    subprocess.run(["rsync", "-a", "/repo/src", str(d) + "/"], check=True)
    p = d / f
    s = p.read_text()
    if s.count(old) != 1:
        raise SystemExit(f"{name}: anchor text found {s.count(old)} times in {f} (the code changed; update the mutant)")
    p.write_text(s.replace(old, new))
    return d


def run(name: str, keep: bool = False) -> int:
    d = build(name)
    try:
        p = subprocess.run(["./check", "C04", "--tier", "quick"], cwd=VERIF, env=dict(os.environ, VERIF_REPO=str(d)),
                           stdout=subprocess.PIPE, stderr=subprocess.STDOUT, text=True, timeout=1800)
    finally:
        if not keep:
            shutil.rmtree(d, ignore_errors=True)
    sigs = sorted({line.strip() for line in p.stdout.splitlines() if line.strip().startswith("signature:")})
    want = 0 if name in INSIDE else 1
    print(f"{name}: exit {p.returncode} (expected {want}) {'OK' if p.returncode == want else 'UNEXPECTED'}")
    for s in sigs[:6]:
        print("   ", s)
    return 0 if p.returncode == want else 1


def main(argv):
    if not argv:
        for n in MUTS:
            print(n, "(inside the property: must pass)" if n in INSIDE else "")
        return 0
    names = list(MUTS) if argv == ["--all"] else argv
    bad = sum(run(n) for n in names)
    shutil.rmtree(ROOT, ignore_errors=True) if argv == ["--all"] else None
    return 1 if bad else 0


if __name__ == "__main__":
    sys.exit(main(sys.argv[1:]))
