"""Real-pty runs (C12 code->spec, C13 fault replay): a worker process whose controlling /
"active" terminal is a pty slave, with the parent playing the terminal on the master.

parent  : :class:`PtySession` - owns the master, a responder thread that answers the
          requests it sees with the scenario's replies after real delays, sends SIGINT for
          the signal variant, writes the end-of-stream sentinel.
worker  : ``python -m harness.env.termsim <slave path>`` - makes the slave its controlling
          terminal, points ``term_image.utils._tty_fd`` at its own O_RDWR descriptor of the
          slave, installs the recording seams of ``vtty.py`` over the REAL os / termios /
          select / fcntl (clock quantized to 2^-12 s ticks so that timeout arithmetic is
          exact), runs one operation per job and reports: call log, outcome,
          ``termios.tcgetattr`` before / after, bytes left readable on the slave.

Jobs and results are JSON lines over the worker's stdin / stdout pipes.
"""

from __future__ import annotations

import json
import os
import select
import signal
import subprocess
import sys
import threading
import time
from pathlib import Path

VERIF = Path(__file__).resolve().parent.parent.parent
SENTINEL = b"\xfe"


# ======================================================================================
# worker side
# ======================================================================================
class RealBackend:
    def __init__(self, fd: int, pred: dict):
        import fcntl
        import termios

        self.fd = fd
        self.termios, self.fcntl = termios, fcntl
        self.pred = pred
        self.t0 = time.monotonic()

    def tcgetattr(self, fd):
        return self.termios.tcgetattr(fd)

    def tcsetattr(self, fd, when, attr):
        return self.termios.tcsetattr(fd, when, attr)

    def tcdrain(self, fd):
        return self.termios.tcdrain(fd)

    def write(self, fd, data):
        return os.write(fd, data)

    def read(self, fd, n):
        return os.read(fd, n)

    def select(self, r, w, x, t):
        return select.select(r, w, x, t)

    def monotonic(self):
        from . import vtty

        return vtty.BASE + int((time.monotonic() - self.t0) * vtty.TICK_HZ) / vtty.TICK_HZ

    def ioctl(self, fd, req, buf):
        return self.fcntl.ioctl(fd, req, buf)

    def get_terminal_size(self, fd):
        return os.get_terminal_size(fd)

    def more(self, data: bytes, idx: int) -> bool:
        from . import vtty

        if idx == self.pred["raiseAt"]:
            raise vtty.PredicateError("predicate raised")
        return len(data) < self.pred["stop"]


def _say(obj) -> None:
    sys.__stdout__.write(json.dumps(obj, separators=(",", ":")) + "\n")
    sys.__stdout__.flush()


def _hear() -> dict | None:
    line = sys.__stdin__.readline()
    return json.loads(line) if line else None


def _fionread(fd) -> int:
    import array
    import fcntl
    import termios

    buf = array.array("i", [0])
    fcntl.ioctl(fd, termios.FIONREAD, buf)
    return buf[0]


def _raw_word(termios, fd):
    a = termios.tcgetattr(fd)
    a[3] &= ~(termios.ICANON | termios.ECHO)
    a[6][termios.VMIN] = 0
    a[6][termios.VTIME] = 0
    return a


def _attr_bytes(a) -> list:
    return [*a[:6], [c if isinstance(c, int) else c[0] for c in a[6]]]


def worker_main(slave_path: str) -> None:
    import array
    import fcntl
    import termios
    import warnings

    warnings.simplefilter("ignore")
    os.setsid()
    fd = os.open(slave_path, os.O_RDWR)  # first tty opened by a session leader: controlling tty
    try:
        fcntl.ioctl(fd, termios.TIOCSCTTY, 0)
    except OSError:
        pass
    signal.signal(signal.SIGINT, signal.SIG_IGN)
    from . import vtty

    import term_image.utils  # noqa: F401  (finds the pty through /dev/tty; redirected below)

    _say({"hello": os.getpid(), "tty_at_import": term_image.utils._tty_fd != -1})
    while True:
        job = _hear()
        if job is None or job.get("quit"):
            return
        try:
            _say(_do_job(job, fd, vtty, termios, fcntl, array))
        except KeyboardInterrupt:
            signal.signal(signal.SIGINT, signal.SIG_IGN)
            _say({"stray_sigint": True})


def _do_job(job, fd, vtty, termios, fcntl, array) -> dict:
    scn = job["scn"]
    codec = vtty.AttrCodec()
    # 1. clean slate: raw, nothing queued
    termios.tcsetattr(fd, termios.TCSANOW, _raw_word(termios, fd))
    termios.tcflush(fd, termios.TCIFLUSH)
    win = scn["win"]
    fcntl.ioctl(fd, termios.TIOCSWINSZ, array.array("H", [win["rows"], win["cols"], win["xpx"], win["ypx"]]))
    # 2. input typed before the call
    if scn["preload"]:
        _say({"want": "preload"})
        deadline = time.monotonic() + 5
        while _fionread(fd) < len(scn["preload"]):
            if time.monotonic() > deadline:
                return {"error": "preload did not arrive"}
            time.sleep(0.0005)
    # 3. the attribute word at entry (what the kernel made of it is what counts)
    termios.tcsetattr(fd, termios.TCSANOW, codec.from_record(scn["attr0"]))
    before_raw = termios.tcgetattr(fd)
    before = codec.to_record(before_raw)
    op = dict(vtty.NO_OP, **scn["opx"])
    if op["name"] == "history" and op["more"] == "always":
        op["more"] = scn["inner"]
    backend = RealBackend(fd, scn.get("pred") or {"stop": 0, "raiseAt": 0})
    rec = vtty.Recorder(backend, codec, job.get("fault"), quiet=("termsize",) if op["name"] == "draw" else ())
    vtty.install(rec, fd)
    vtty.reset_library(scn["enabled"], scn["swap"], scn["tmo"], scn.get("term"))
    old_stdout = sys.stdout
    real_stream = None
    if op["name"] == "draw":
        real_stream = open(fd, "w", closefd=False)
        sys.stdout = vtty.Stream(rec, fd, real_stream)
    _say({"want": "go"})
    if not _hear().get("go"):
        return {"error": "protocol"}
    t0 = time.monotonic()
    sig = {"where": ""}

    def on_sigint(signum, frame):
        sig["where"] = sig["where"] or ("in_call" if rec.in_call else "between")
        raise KeyboardInterrupt

    signal.signal(signal.SIGINT, on_sigint)
    # watchdog inside the worker: the operation sends at most two queries, each bounded by its
    # timeout; long after that, the next intercepted call raises StillWaiting inside the library
    total_s = 2 * max(scn["tmo"], op["tmo"], 1) / vtty.TICK_HZ
    rec.wall_deadline = t0 + min(12.0, 4 * total_s + 2.0)
    hang = ""
    try:
        try:
            with vtty.watch_threads(rec):
                final = vtty.run_op(rec, op)
        except vtty.Hang as h:
            hang = str(h)
            final = {"status": "hung", "kind": type(h).__name__, "rb": [], "rnone": True, "val": dict(vtty.NOVAL)}
    finally:
        signal.signal(signal.SIGINT, signal.SIG_IGN)
        elapsed = time.monotonic() - t0
        sys.stdout = old_stdout
    # 4. observations
    after_raw = termios.tcgetattr(fd)  # at the moment the call returned
    vtty.settle(rec)  # then the work it left behind (intercepted timers) runs
    final.update(spawned=list(rec.spawned), late=list(rec.late),
                 attr_settled=codec.to_record(termios.tcgetattr(fd)))
    _say({"want": "sentinel"})
    termios.tcsetattr(fd, termios.TCSANOW, _raw_word(termios, fd))
    residual = bytearray()
    deadline = time.monotonic() + 5
    while not residual.endswith(SENTINEL):
        if time.monotonic() > deadline:
            return {"error": "sentinel did not arrive"}
        if len(residual) > 1 << 20:
            return {"error": "more than 1 MiB left on the slave"}
        if select.select([fd], [], [], 0.05)[0]:
            residual += os.read(fd, 4096)
    final.update(hang=hang, residual=list(residual[:-1]), attr=codec.to_record(after_raw),
                 elapsed=int(elapsed * vtty.TICK_HZ) + 1, slack=job.get("slack", 0))
    return {"events": rec.events, "final": final, "fired": rec.fired, "op": op, "before": before, "sig": sig["where"],
            "raw_equal": _attr_bytes(before_raw) == _attr_bytes(after_raw),
            "raw_before": _attr_bytes(before_raw), "raw_after": _attr_bytes(after_raw)}


# ======================================================================================
# parent side
# ======================================================================================
class PtyError(RuntimeError):
    pass


class NoReturn(PtyError):
    """The operation did not come back within the (very generous) limit."""


class PtySession:
    def __init__(self, repo_src: str):
        self.repo_src = repo_src
        self.master = -1
        self.proc: subprocess.Popen | None = None
        self._lock = threading.Lock()
        self._serve_lock = threading.Lock()  # held while the responder answers a request
        self._seen = bytearray()
        self._stop = False
        self._thread: threading.Thread | None = None
        self._plan: dict | None = None
        self.start()

    # -- life cycle --------------------------------------------------------------------
    def start(self) -> None:
        import pty

        self.master, slave = pty.openpty()
        path = os.ttyname(slave)
        env = dict(os.environ)
        env["PYTHONPATH"] = f"{self.repo_src}:{VERIF}"
        env.pop("TERM_PROGRAM", None)
        env.pop("TERM_PROGRAM_VERSION", None)
        self.proc = subprocess.Popen(
            [sys.executable, "-m", "harness.env.termsim", path],
            cwd=VERIF, env=env, stdin=subprocess.PIPE, stdout=subprocess.PIPE, stderr=subprocess.PIPE,
            bufsize=0,
        )
        self._rbuf = bytearray()
        self._slave_keepalive = slave  # keep the pty alive across worker restarts
        self._stop = False
        self._seen = bytearray()
        self._thread = threading.Thread(target=self._responder, daemon=True)
        self._thread.start()
        hello = self._recv(20)
        if "hello" not in hello:
            raise PtyError(f"worker did not start: {hello}")
        self.pid = hello["hello"]

    def close(self) -> None:
        self._stop = True
        if self.proc:
            try:
                self.proc.stdin.write((json.dumps({"quit": True}) + "\n").encode())
                self.proc.wait(timeout=3)
            except Exception:
                pass
            if self.proc.poll() is None:
                self.proc.kill()
                self.proc.wait()
        for fd in (self.master, getattr(self, "_slave_keepalive", -1)):
            try:
                os.close(fd)
            except OSError:
                pass
        self.proc = None

    def restart(self) -> None:
        self.close()
        if self._thread:
            self._thread.join(timeout=2)
        self.start()

    # -- pipes -------------------------------------------------------------------------
    def _send(self, obj) -> None:
        assert self.proc and self.proc.stdin
        self.proc.stdin.write((json.dumps(obj, separators=(",", ":")) + "\n").encode())

    def _recv(self, timeout: float) -> dict:
        assert self.proc and self.proc.stdout
        deadline = time.monotonic() + timeout
        while b"\n" not in self._rbuf:
            left = deadline - time.monotonic()
            # even when the deadline has passed (this process may have been stalled itself), look once
            r = select.select([self.proc.stdout], [], [], max(left, 0))[0]
            if not r:
                raise NoReturn(f"worker silent for {timeout}s")
            chunk = os.read(self.proc.stdout.fileno(), 1 << 20)
            if not chunk:
                err = self.proc.stderr.read().decode(errors="replace") if self.proc.stderr else ""
                raise PtyError(f"worker died: {err[-2000:]}")
            self._rbuf += chunk
        line, _, rest = bytes(self._rbuf).partition(b"\n")
        self._rbuf = bytearray(rest)
        return json.loads(line)

    # -- the terminal ------------------------------------------------------------------
    def _responder(self) -> None:
        """Reads everything the worker writes to its terminal; answers the armed plan."""
        master = self.master
        while not self._stop:
            try:
                r, _, _ = select.select([master], [], [], 0.05)
                if not r:
                    continue
                data = os.read(master, 65536)
            except OSError:
                return
            if not data:
                return
            with self._lock:
                self._seen += data
                plan = self._plan
            if plan is not None:
                with self._serve_lock:
                    if self._plan is plan:
                        self._serve(plan)

    def _serve(self, plan: dict) -> None:
        while plan["next"] < len(plan["requests"]):
            req = plan["requests"][plan["next"]]
            with self._lock:
                i = self._seen.find(req, plan["pos"])
                if i < 0:
                    return
                plan["pos"] = i + len(req)
            bursts = plan["bursts"][plan["next"]]
            plan["next"] += 1
            plan["saw_request"].set()
            for delay_s, data in bursts:
                if delay_s:
                    time.sleep(delay_s)
                os.write(self.master, data)
                plan["sent"] += data

    # -- one job -----------------------------------------------------------------------
    def run(self, scn: dict, *, requests: list[bytes] = (), bursts: list[list[tuple[float, bytes]]] = (),
            fault: dict | None = None, sigint_after: float | None = None, limit: float = 15.0,
            slack: int = 0, retry_silence: bool = True) -> dict:
        """scn: {opx, attr0, win, preload, enabled, swap, tmo(ticks), pred}.  `requests[i]` is the
        i-th request the terminal expects, `bursts[i]` its answer as (real delay s, bytes)."""
        res = {}
        silent = 0
        for attempt in range(5):
            try:
                res = self._run_once(scn, list(requests), [list(b) for b in bursts], fault, sigint_after, limit, slack)
            except NoReturn:
                # a call that really blocks does so again: only a second silence in a row counts
                # (the session has been restarted)
                silent += 1
                if silent > 1 or not retry_silence:
                    raise
                self.stalls = getattr(self, "stalls", 0) + 1
                continue
            if res.get("stray_sigint"):
                continue
            if sigint_after is None or res.get("sig") == "in_call":
                return res
        # the signal never landed inside a blocking call (finished first / landed between two
        # calls, where the statement it interrupted cannot be told from the log): not judged
        res["sig_failed"] = True
        return res

    def _run_once(self, scn, requests, bursts, fault, sigint_after, limit, slack) -> dict:
        with self._lock:
            del self._seen[:]  # what earlier jobs wrote to their terminal is of no interest any more
            plan = {"requests": requests, "bursts": bursts, "next": 0, "pos": 0, "sent": bytearray(),
                    "saw_request": threading.Event()}
        self._send({"scn": scn, "fault": fault, "slack": slack})
        timer = None
        try:
            while True:
                msg = self._recv(limit)
                want = msg.get("want")
                if want == "preload":
                    os.write(self.master, bytes(scn["preload"]))
                elif want == "go":
                    with self._lock:
                        plan["pos"] = len(self._seen)
                        self._plan = plan
                    self._send({"go": True})
                    if sigint_after is not None:
                        pid = self.pid

                        def fire():
                            if requests:
                                plan["saw_request"].wait(5)
                            time.sleep(sigint_after)
                            try:
                                os.kill(pid, signal.SIGINT)
                            except ProcessLookupError:
                                pass

                        timer = threading.Thread(target=fire, daemon=True)
                        timer.start()
                elif want == "sentinel":
                    with self._lock:
                        self._plan = None
                    with self._serve_lock:  # no answer is under way any more
                        os.write(self.master, SENTINEL)
                else:
                    break
        except NoReturn:
            self.restart()
            raise
        finally:
            with self._lock:
                self._plan = None
        if timer:
            timer.join(timeout=6)
        if "error" in msg:
            raise PtyError(msg["error"])
        msg["sent"] = list(plan["sent"])
        msg["requests_seen"] = plan["next"]
        return msg


if __name__ == "__main__":
    worker_main(sys.argv[1])
