SPECIFICATION Spec
CONSTANTS
  N = 3
  ScratchMax = 1
  Overwrite = FALSE
  ProbeAll = FALSE
  Fams = {"pad", "color"}
  Subs = TRUE
  AlignedSeeds <- E_AlignedSeeds
  AlignedDefaultSeeds <- E_AlignedDefaultSeeds
  ExactSeeds <- E_ExactSeeds
  Terms <- TermsAll
  RSs <- RSsAll
  RebuildInts <- E_RebuildInts
  Fills <- E_Fills
  SizeSeeds <- E_SizeSeeds
  SizeReplace <- E_SizeReplace
  ColorSeeds <- E_ColorSeeds
  RgbSeeds <- E_RgbSeeds
  ChanReplace <- E_ChanReplace
  StrSeeds <- E_StrSeeds
VIEW View
INVARIANT TypeOK
INVARIANT IdentityAndEquality
INVARIANT EqualFieldsEqualPaddings
INVARIANT RelativeFlag
INVARIANT HexRoundTrip
INVARIANT ParseNormalForm
PROPERTY ActionsAreCoreOps
PROPERTY RejectedChangesNothing
PROPERTY ValueOpsChangeNothing
PROPERTY MutationRefused
PROPERTY OnlyDstChanges
PROPERTY OnlyBypassMakesInvalid
PROPERTY ResolveLaw
PROPERTY ToExactLaw
PROPERTY PaddedSizeLaw
PROPERTY PadMatchesPaddedSize
PROPERTY AlignmentSplit
PROPERTY RelativeIsRefused
PROPERTY RebuildLaw
PROPERTY FromHexLaw
PROPERTY HexLaw
CHECK_DEADLOCK FALSE
