----------------------------- MODULE RenderData -----------------------------
(***************************************************************************)
(* C16, data side: a set of render data (RenderData) and its MUTABLE        *)
(* namespaces (DataNamespace), from the documentation.                      *)
(*                                                                          *)
(*  * class tree t = [par, has] as in RenderArgs.tla; here t.has are the    *)
(*    classes owning a DATA namespace; class k has NF(k) fields f1..,       *)
(*    class 0 (`Renderable`) owns RenderableData, whose fields are not      *)
(*    modelled (only that set[Renderable] exists).                          *)
(*  * a set for class cls is d[k] = <<field values>> for k in its data-MRO  *)
(*    (<<>> otherwise); a value is 0, 1 or U = uninitialized (every field   *)
(*    is uninitialized after instantiation).                                *)
(*  * DExpected(t, cls, d, op) = [exc, ret, d2]: the documented exception   *)
(*    class ("" = none), the returned value, and the state afterwards.      *)
(*    THE RULE: an operation that raises leaves every field of every        *)
(*    namespace unchanged (d2 = d) - in particular an update() naming an    *)
(*    unknown field is rejected as a whole, wherever the unknown name is.   *)
(***************************************************************************)
EXTENDS RenderArgs

U == 2
Fresh(t, cls) ==
  [k \in 1..NCls(t) |-> IF k \in AMRO(t, cls) THEN [f \in 1..NF(k) |-> U] ELSE <<>>]

DGetItem(t, cls, c) ==
  IF ~IsSub(t, cls, c) THEN "ValueError"
  ELSE IF c # 0 /\ c \notin t.has THEN "NoDataNamespaceError"
  ELSE ""

Res(exc, ret, d2) == [exc |-> exc, ret |-> ret, d2 |-> d2]

\* op = [op, k, f, v, kw]; k in the data-MRO of cls except for GetItem
DExpected(t, cls, d, op) ==
  CASE op.op = "GetItem" -> Res(DGetItem(t, cls, op.k), <<>>, d)
    [] op.op = "Update" ->
         IF KwUnknown(op.k, op.kw) THEN Res("UnknownDataFieldError", <<>>, d)
         ELSE Res("", <<>>, [d EXCEPT ![op.k] = ApplyKw(d[op.k], op.kw)])
    [] op.op = "Set" ->
         IF op.f > NF(op.k) THEN Res("UnknownDataFieldError", <<>>, d)
         ELSE Res("", <<>>, [d EXCEPT ![op.k][op.f] = op.v])
    [] op.op = "Get" ->
         IF op.f > NF(op.k) THEN Res("UnknownDataFieldError", <<>>, d)
         ELSE IF d[op.k][op.f] = U THEN Res("UninitializedDataFieldError", <<>>, d)
         ELSE Res("", <<d[op.k][op.f]>>, d)
    [] op.op = "Del" -> Res("AttributeError", <<>>, d)
    [] op.op = "AsDict" ->
         IF \E f \in 1..NF(op.k) : d[op.k][f] = U THEN Res("UninitializedDataFieldError", <<>>, d)
         ELSE Res("", d[op.k], d)
    [] op.op = "GetFields" -> Res("", <<NF(op.k)>>, d)
=============================================================================
