---------------------------- MODULE UrwidScreen ----------------------------
(***************************************************************************)
(* C18 - design-level model of UrwidImageScreen + the terminal it writes to *)
(*                                                                         *)
(* Terminal side: a Terminal record T (specs/Terminal.tla); the model emits *)
(* the graphics-relevant tokens of every operation (CUP, kitty a=T / d=A /  *)
(* d=Z / d=C, iTerm2 File= with doNotMoveCursor, DECSET/RST 2026) and folds  *)
(* them through Terminal!Apply, so placements are created "at the cursor"   *)
(* and removed by d=A, d=Z,z=n, d=C exactly as the shared terminal model    *)
(* says.                                                                   *)
(* Library side: cv (image canvas views on screen after the last draw),     *)
(* disguise counters (canvas class: cdis, per widget: wdis), urwid's line   *)
(* cache scr (what urwid believes each row shows; <<>> = no cache), the     *)
(* z-index allocator (nxt, free) and three widget slots.                    *)
(*                                                                         *)
(* One named action per API operation: Start, Stop, Clear, Redraw (a new    *)
(* canvas), RedrawSame (the canvas object drawn last), RedrawBad (canvas    *)
(* whose row count differs from the size given: urwid raises ValueError),   *)
(* NewWidget, DropWidget, (invalidation of a widget = argument of Redraw).  *)
(*                                                                         *)
(* This is the INTENDED design: every widget whose view set changed is      *)
(* deleted by z-index and gets ONE disguise change, a non-composite image   *)
(* canvas is tracked like any other.  Deviations of the real code are found *)
(* by Trace_UrwidScreen on real output.                                     *)
(***************************************************************************)
EXTENDS UrwidScreenCore, Json

CONSTANTS Ident,      \* "kitty" | "konsole" | "forced" (other terminal, KittyImage.forced_support) | "other"
          Style3,     \* style of widget slot 3: "block" | "iterm2" | "kitty"
          Bits,       \* z-index space (see AllocOutcomes)
          Fams,       \* layout families explored, subset of {"P","Q","R","S","O","L","F","T","I"}
          WithBad,    \* explore RedrawBad
          WithInv,    \* explore redraws after invalidating one of the widgets shown
          Dyn,        \* explore NewWidget / DropWidget (otherwise all three widgets live from the start)
          WithDC,     \* explore direct user calls of clear_images([widget], now=...) between redraws
          WithWinch   \* explore SIGWINCH pending: frames dropped by urwid until the resize is handled

ScrW == 8
ScrH == 5
Slots == 1..3
\* a terminal without graphics support cannot even construct kitty / iterm2 images: block only
StyleOf(w) == IF Ident = "other" THEN "block" ELSE IF w = 3 THEN Style3 ELSE "kitty"
NatW(w) == IF w = 2 THEN 2 ELSE 4
NatH(w) == IF w = 1 THEN 3 ELSE 2
MaxStrip == 3

\* held: the application still holds a reference to the canvas object it passed to draw_screen last
\* (object LIFETIME: urwid keeps a canvas it painted, nobody but the caller keeps a frame that was dropped
\* or that failed - once released, that object is dead and its address may be handed to the next canvas)
VARIABLES T, cv, cdis, wdis, scr, started, last, ulast, same, wdt, nxt, free, ok, taint, dc, rs, held, out
vars == <<T, cv, cdis, wdis, scr, started, last, ulast, same, wdt, nxt, free, ok, taint, dc, rs, held, out>>

(* ------------------------------------------------------------- layouts *)

Txt(c) == [k |-> "txt", ch |-> c]
Img(w) == [k |-> "img", wid |-> w]
It(n, c) == [n |-> n, c |-> c]
NonEmpty(items) == SelectSeq(items, LAMBDA it : it.n > 0)
Pile(items) == [k |-> "pile", items |-> NonEmpty(items)]
ColsOf(items) == [k |-> "cols", items |-> NonEmpty(items)]

NoneP == [f |-> "-", a |-> 0, b |-> 0, c |-> 0, d |-> 0]
Par(f, a, b, c, d) == [f |-> f, a |-> a, b |-> b, c |-> c, d |-> d]

\* P: text / [tall image | text, small image, text] / text  - images appear, move, vanish
LayP(a, b, c, d) ==
  Pile(<<It(a, Txt(97)),
         It(3, ColsOf(<<It(4, IF c = 1 THEN Img(1) ELSE Txt(65)),
                        It(4, Pile(<<It(b, Txt(98)),
                                     It(2, CASE d = 0 -> Txt(66) [] d = 1 -> Img(2) [] d = 2 -> Img(3)),
                                     It(1 - b, Txt(99))>>))>>)),
         It(2 - a, Txt(100))>>)

\* S: two full-height columns holding image 1 / image 3 / text (same widget twice allowed)
ColItem(a) == CASE a = 0 -> Txt(67) [] a = 1 -> Img(1) [] a = 2 -> Img(3)
LayS(a, b) == ColsOf(<<It(4, ColItem(a)), It(4, ColItem(b))>>)

\* O: an overlay (text or image 3) over P(1, 0, 1, 1)
OvRect == <<[x |-> 0, y |-> 2, w |-> 2, h |-> 1], [x |-> 1, y |-> 2, w |-> 2, h |-> 1],
            [x |-> 0, y |-> 2, w |-> 8, h |-> 1], [x |-> 2, y |-> 1, w |-> 4, h |-> 2],
            [x |-> 3, y |-> 2, w |-> 4, h |-> 3], [x |-> 0, y |-> 0, w |-> 8, h |-> 5],
            [x |-> 0, y |-> 1, w |-> 4, h |-> 2]>>
LayO(a, c) ==
  [k |-> "over", top |-> IF c = 1 THEN Img(3) ELSE Txt(111), bot |-> LayP(1, 0, 1, 1),
   ox |-> OvRect[a].x, oy |-> OvRect[a].y, ow |-> OvRect[a].w, oh |-> OvRect[a].h]

\* L: a list box over image 1, text, image 2, text, image 3 scrolled by a rows
LayL(a) == [k |-> "list", items |-> <<Img(1), Txt(45), Img(2), Txt(61), Img(3)>>, off |-> a]

\* F: a filler around image 2
LayF(a) == [k |-> "fill", c |-> Img(2), va |-> CASE a = 0 -> "top" [] a = 1 -> "middle" [] a = 2 -> "bottom"]

Lay(p) ==
  CASE p.f = "P" -> LayP(p.a, p.b, p.c, p.d)
    [] p.f = "Q" -> LayP(p.a, p.b, p.c, p.d)      \* a small sub-family of P
    [] p.f = "R" -> LayP(p.a, p.b, p.c, p.d)      \* a smaller one (tall image always shown)
    [] p.f = "S" -> LayS(p.a, p.b)
    [] p.f = "O" -> LayO(p.a, p.c)
    [] p.f = "L" -> LayL(p.a)
    [] p.f = "F" -> LayF(p.a)
    [] p.f = "T" -> Txt(46)          \* top-level SolidFill: a non-composite canvas
    [] p.f = "I" -> Img(p.a)         \* top-level image widget: a non-composite image canvas

AllParams ==
  {Par("P", a, b, c, d) : a \in 0..2, b \in 0..1, c \in 0..1, d \in 0..2}
    \cup {Par("Q", a, 0, c, d) : a \in 0..1, c \in 0..1, d \in 0..1}
    \cup {Par("R", a, 0, 1, d) : a \in 0..1, d \in 0..1}
    \cup {Par("S", a, b, 0, 0) : a \in 0..2, b \in 0..2}
    \cup {Par("O", a, 0, c, 0) : a \in 1..Len(OvRect), c \in 0..1}
    \cup {Par("L", a, 0, 0, 0) : a \in 0..4}
    \cup {Par("F", a, 0, 0, 0) : a \in 0..2}
    \cup {Par("T", 0, 0, 0, 0)}
    \cup {Par("I", a, 0, 0, 0) : a \in 1..3}

\* natural sizes only: enough for Sem / WF (z, gen do not matter there)
WD0 == [w \in Slots |-> [style |-> StyleOf(w), nw |-> NatW(w), nh |-> NatH(w), z |-> 0, gen |-> 0]]

Params == TLCEval({p \in AllParams : p.f \in Fams /\ WF(WD0, Lay(p), ScrW, ScrH)})

\* constant-level: evaluated once by TLC
PiecesOf == TLCEval([p \in Params |-> Sem(WD0, Lay(p), 0, 0, ScrW, ScrH)])
UsesOf == TLCEval([p \in Params |-> WidgetsOf(Lay(p))])
AllTile == \A p \in Params : Tiles(PiecesOf[p], ScrW, ScrH)
ASSUME AllTile
RowPsOf == TLCEval([p \in Params |-> [r \in 1..ScrH |-> RowPieces(PiecesOf[p], r - 1, 0, ScrW)]])
TopLeafOf == TLCEval([p \in Params |-> TopLeaf(Lay(p))])

(* ----------------------------------------------- the model's gfx table *)

ZSeq == TLCEval([i \in 1..ZCapacity(Bits) |-> IF i % 2 = 1 THEN (i + 1) \div 2 ELSE -(i \div 2)])
NZ == ZCapacity(Bits)
ZIdx(z) == IF z > 0 THEN 2 * z - 1 ELSE 2 * (-z)

KRec(a, d, z, c) ==
  [proto |-> "kitty", a |-> a, d |-> d, z |-> z, zid |-> z, c |-> c, r |-> 1, C |-> 1, m |-> 0,
   keys |-> <<"a">>, nkeys |-> 1, x0 |-> 0, wid |-> 0, strip |-> 0,
   inline |-> -1, wcells |-> -1, hcells |-> -1, dnmc |-> -1]

XDelAll == 1
XDelCur == 2
XDelZ(z) == 2 + ZIdx(z)
XKitty(w, strip, z) == 2 + NZ + ((w - 1) * MaxStrip + strip) * NZ + ZIdx(z)
XITermBase == 2 + NZ + 3 * MaxStrip * NZ
XITerm(w, strip) == XITermBase + (w - 1) * MaxStrip + strip + 1
NGfx == XITermBase + 3 * MaxStrip

GfxRec(x) ==
  IF x = 0 THEN KRec("", "", 0, -1)
  ELSE IF x = XDelAll THEN KRec("d", "A", 0, -1)
  ELSE IF x = XDelCur THEN KRec("d", "C", 0, -1)
  ELSE IF x <= 2 + NZ THEN KRec("d", "Z", ZSeq[x - 2], -1)
  ELSE IF x <= XITermBase THEN
    LET y == x - 2 - NZ - 1
        zi == (y % NZ) + 1
        ws == y \div NZ
        w == (ws \div MaxStrip) + 1
        strip == ws % MaxStrip
    IN [KRec("T", "", ZSeq[zi], NatW(w)) EXCEPT !.wid = w, !.strip = strip]
  ELSE
    LET y == x - XITermBase - 1
        w == (y \div MaxStrip) + 1
        strip == y % MaxStrip
    IN [KRec("", "", 0, -1) EXCEPT !.proto = "iterm2", !.inline = 1, !.wcells = NatW(w), !.hcells = 1,
                                    !.dnmc = 1, !.wid = w, !.strip = strip]

GFX == TLCEval([i \in 1..(NGfx + 1) |-> GfxRec(i - 1)])

Tok(k, n, m, x) == [k |-> k, n |-> n, m |-> m, g |-> "", p |-> <<>>, x |-> x]
KTok(x) == Tok("kitty", -1, -1, x)
SyncBegin == Tok("decset", 2026, -1, 0)
SyncEnd == Tok("decrst", 2026, -1, 0)

(* -------------------------------------------------------------- helpers *)

\* canvas generation: only "the widget was invalidated since the canvas on screen was rendered"
\* matters, so stored views always carry gen 0 and a re-rendered widget's new views carry gen 1
WDg(inv) == [w \in Slots |-> [style |-> StyleOf(w), nw |-> NatW(w), nh |-> NatH(w), z |-> wdt[w].z,
                              gen |-> IF w = inv THEN 1 ELSE 0]]
WD == WDg(0)
ResetGen(views) == {[v EXCEPT !.gen = 0] : v \in views}
Dis == [c |-> cdis, w |-> wdis]

RECURSIVE SetToSeq(_)
SetToSeq(S) == IF S = {} THEN <<>> ELSE LET x == CHOOSE x \in S : TRUE IN <<x>> \o SetToSeq(S \ {x})

DelToks(wd, d) ==
  IF d.delall THEN <<KTok(XDelAll)>>
  ELSE LET ws == SetToSeq(d.delw) IN [i \in DOMAIN ws |-> KTok(XDelZ(wd[ws[i]].z))]

\* tokens urwid writes for one screen row that it (re)draws: only what concerns graphics
SegToks(wd, p, y) ==
  IF p.kind # "img" THEN <<>>
  ELSE LET g == wd[p.w]
           line == p.tt + (y - p.row)
       IN IF g.style = "block" \/ HTrimmed(p) \/ line \notin ImageLines(g, p) THEN <<>>
          ELSE LET strip == line - PadT(g, p)
                   cup == Tok("cup", y + 1, p.col + PadL(g, p) + 1, 0)
               IN IF g.style = "kitty"
                    THEN <<cup>> \o (IF Ident # "konsole" THEN <<KTok(XDelCur)>> ELSE <<>>)
                               \o <<KTok(XKitty(p.w, strip, g.z))>>
                    ELSE <<cup, Tok("iterm", -1, -1, XITerm(p.w, strip))>>

RECURSIVE Concat(_, _)
Concat(ss, i) == IF i > Len(ss) THEN <<>> ELSE ss[i] \o Concat(ss, i + 1)

RowToks(wd, p, r) == LET ps == RowPsOf[p][r] IN Concat([i \in DOMAIN ps |-> SegToks(wd, ps[i], r - 1)], 1)

SigOf(wd, p, dis) ==
  [r \in 1..ScrH |-> LET ps == RowPsOf[p][r] IN [i \in DOMAIN ps |-> SegSig(Ident, wd, dis, ps[i], r - 1)]]

\* rows urwid draws: all without a cache, otherwise those whose segment list changed
DrawToks(wd, p, sig, cache) ==
  Concat([r \in 1..ScrH |-> IF cache = <<>> \/ cache[r] # sig[r] THEN RowToks(wd, p, r) ELSE <<>>], 1)

Usable(p) == \A w \in UsesOf[p] : wdt[w].alive /\ ~wdt[w].dropped

Refd(lst, ulst, cvs) ==
  (IF lst = NoneP THEN {} ELSE UsesOf[lst]) \cup (IF ulst = NoneP THEN {} ELSE UsesOf[ulst])
    \cup {v.w : v \in cvs}

\* dropped widgets die (and release their z-index) once nothing on the screen refers to them
Reaped(wt, refd) ==
  [w \in Slots |-> IF wt[w].alive /\ wt[w].dropped /\ w \notin refd
                     THEN [wt[w] EXCEPT !.alive = FALSE, !.dropped = FALSE] ELSE wt[w]]
Freed(wt, refd) ==
  {wt[w].z : w \in {v \in Slots : wt[v].alive /\ wt[v].dropped /\ v \notin refd /\ StyleOf(v) = "kitty"}}

ImpliedNow == IF ulast = NoneP THEN {} ELSE ImpliedBy(Ident, WD, PiecesOf[ulast])

(* ---------------------------------------------------------------- spec *)

Init ==
  /\ T = NewTerminal(ScrW, ScrH, 0, 0)
  /\ cv = {} /\ cdis = 0 /\ wdis = [w \in Slots |-> 0]
  /\ scr = <<>> /\ started = FALSE
  /\ last = NoneP /\ ulast = NoneP /\ same = FALSE
  /\ IF Dyn THEN /\ wdt = [w \in Slots |-> [alive |-> FALSE, dropped |-> FALSE, z |-> 0]]
                 /\ nxt = 1
            ELSE /\ wdt = [w \in Slots |-> [alive |-> TRUE, dropped |-> FALSE,
                                           z |-> IF StyleOf(w) = "kitty" THEN ZSeq[w] ELSE 0]]
                 /\ nxt = IF Style3 = "kitty" THEN -2 ELSE 2
  /\ free = {}
  /\ ok = FALSE /\ taint = FALSE /\ dc = FALSE /\ rs = FALSE /\ held = FALSE
  /\ out = [op |-> "init", arg |-> NoneP, toks |-> <<>>, res |-> ""]

ClearImages(n) == IF Supported(Ident) THEN [i \in 1..n |-> KTok(XDelAll)] ELSE <<>>
BumpN(d, n) == IF Supported(Ident) THEN (d + n) % 3 ELSE d

Start ==
  /\ ~started /\ ~dc /\ ~rs
  /\ started' = TRUE
  /\ T' = Fold(T, ClearImages(1), GFX, 1)
  /\ cdis' = BumpN(cdis, 1)
  /\ ok' = FALSE
  /\ out' = [op |-> "start", arg |-> NoneP, toks |-> ClearImages(1), res |-> ""]
  /\ UNCHANGED <<cv, wdis, scr, last, ulast, same, wdt, nxt, free, taint, dc, rs, held>>

Stop ==
  /\ started /\ ~dc /\ ~rs
  /\ started' = FALSE
  /\ T' = Fold(T, ClearImages(2), GFX, 1)
  /\ cdis' = BumpN(cdis, 2)
  /\ scr' = <<>>
  /\ ok' = FALSE
  /\ out' = [op |-> "stop", arg |-> NoneP, toks |-> ClearImages(2), res |-> ""]
  /\ taint' = FALSE
  /\ UNCHANGED <<cv, wdis, last, ulast, same, wdt, nxt, free, dc, rs, held>>

Clear ==
  /\ started /\ ~dc /\ ~rs
  /\ T' = Fold(T, ClearImages(1), GFX, 1)
  /\ cdis' = BumpN(cdis, 1)
  /\ scr' = <<>>
  /\ ok' = FALSE
  /\ out' = [op |-> "clear", arg |-> NoneP, toks |-> ClearImages(1), res |-> ""]
  /\ taint' = FALSE
  /\ UNCHANGED <<cv, wdis, started, last, ulast, same, wdt, nxt, free, dc, rs, held>>

\* (values used more than once are bound through singleton sets: TLC evaluates them once)
DoRedraw(p, bad, inv) ==
  \E wd \in {WDg(inv)} :
  \E d \in {LibDiff(Ident, wd, cv, PiecesOf[p], TopLeafOf[p])} :
  \E cv1 \in {ResetGen(d.cviews)} :
  \E cdis1 \in {IF d.delall THEN Bump(cdis) ELSE cdis} :
  \E wdis1 \in {[w \in Slots |-> IF w \in d.delw THEN Bump(wdis[w]) ELSE wdis[w]]} :
  \E sig \in {SigOf(wd, p, [c |-> cdis1, w |-> wdis1])} :
  \E lost \in {rs} :   \* SIGWINCH pending: urwid returns before painting, the frame is dropped
  \E toks \in {<<SyncBegin>> \o DelToks(wd, d) \o (IF bad \/ lost THEN <<>> ELSE DrawToks(wd, p, sig, scr)) \o <<SyncEnd>>} :
  \E ulast1 \in {IF bad \/ lost THEN ulast ELSE p} :
  \E refd \in {Refd(p, ulast1, cv1)} :
     /\ T' = Fold(T, toks, GFX, 1)
     /\ cv' = cv1 /\ cdis' = cdis1 /\ wdis' = wdis1
     /\ scr' = IF bad \/ lost THEN scr ELSE sig
     /\ last' = p /\ ulast' = ulast1 /\ same' = (~bad /\ ~lost)
     /\ wdt' = Reaped(wdt, refd)
     /\ free' = free \cup Freed(wdt, refd)
     /\ taint' = (taint \/ bad)
     /\ ok' = (~bad /\ ~lost /\ ~taint)
     /\ dc' = FALSE
     /\ held' = TRUE   \* a NEW canvas object, whatever became of the earlier ones
     /\ out' = [op |-> IF bad THEN "bad" ELSE IF lost THEN "lost" ELSE "redraw", arg |-> [p EXCEPT !.d = p.d + 10 * inv], toks |-> toks,
                res |-> IF bad THEN "ValueError" ELSE ""]
     /\ UNCHANGED <<started, nxt, rs>>

\* inv = 0: widgets keep their cached canvases; inv = w: widget w was invalidated before rendering
Redraw == \E p \in Params : started /\ Usable(p) /\ \E inv \in {0} \cup (IF WithInv THEN UsesOf[p] ELSE {}) : DoRedraw(p, FALSE, inv)

\* A draw_screen call that fails inside urwid (canvas rows # size given: ValueError) still ran the
\* cviews diff and its deletions.  Two such failures in a row can bring a widget's disguise back to
\* the value urwid cached (found by TLC), so the exactness claim is suspended (taint) until the
\* next clear()/stop() drops urwid's line cache; bracketing is required regardless.
RedrawBad == WithBad /\ ~dc /\ ~rs /\ \E p \in Params : started /\ Usable(p) /\ DoRedraw(p, TRUE, 0)

\* draw_screen with the very canvas object passed last: no cviews diff; urwid returns early if
\* its cache belongs to that canvas, otherwise draws the rows that differ from its cache
RedrawSame ==
  /\ started /\ last # NoneP /\ ~dc /\ ~rs
  /\ held   \* the canvas object must still exist: the caller passes it again
  /\ \E wd \in {WD} :
     \E quick \in {scr # <<>> /\ same} :
     \E sig \in {SigOf(wd, last, Dis)} :
     \E toks \in {<<SyncBegin>> \o (IF quick THEN <<>> ELSE DrawToks(wd, last, sig, scr)) \o <<SyncEnd>>} :
     \E refd \in {Refd(last, last, cv)} :
        /\ T' = Fold(T, toks, GFX, 1)
        /\ scr' = IF quick THEN scr ELSE sig
        /\ ulast' = last /\ same' = TRUE
        /\ wdt' = Reaped(wdt, refd)
        /\ free' = free \cup Freed(wdt, refd)
        /\ ok' = IF quick THEN ok ELSE ~taint
        /\ out' = [op |-> "same", arg |-> last, toks |-> toks, res |-> ""]
  /\ UNCHANGED <<cv, cdis, wdis, started, last, nxt, taint, dc, rs, held>>

\* cls: the widget is an instance of UrwidImage itself (0), of a subclass (1) or of a subclass of a
\* subclass (2): the allocator is ONE counter and ONE free pool shared by all of them
\* uz: the widget's format spec carries a z-index field (documented as ignored: the allocated index is used)
NewWidget ==
  Dyn /\ ~dc /\ ~rs /\ \E w \in Slots, cls \in 0..2, uz \in 0..1 :
    /\ ~wdt[w].alive
    /\ IF StyleOf(w) # "kitty"
         THEN /\ wdt' = [wdt EXCEPT ![w] = [alive |-> TRUE, dropped |-> FALSE, z |-> 0]]
              /\ out' = [op |-> "new", arg |-> Par("w", w, 0, cls, uz), toks |-> <<>>, res |-> ""]
              /\ UNCHANGED <<nxt, free>>
         ELSE IF AllocOutcomes(Bits, nxt, free) = {}
           THEN /\ out' = [op |-> "new", arg |-> Par("w", w, 0, cls, uz), toks |-> <<>>, res |-> "UrwidImageError"]
                /\ UNCHANGED <<wdt, nxt, free>>
           ELSE \E o \in AllocOutcomes(Bits, nxt, free) :
                  /\ wdt' = [wdt EXCEPT ![w] = [alive |-> TRUE, dropped |-> FALSE, z |-> o.z]]
                  /\ nxt' = o.next /\ free' = o.free
                  /\ out' = [op |-> "new", arg |-> Par("w", w, o.z, cls, uz), toks |-> <<>>, res |-> ""]
    /\ wdis' = [wdis EXCEPT ![w] = 0]
    /\ UNCHANGED <<T, cv, cdis, scr, started, last, ulast, same, ok, taint, dc, rs, held>>

DropWidget ==
  Dyn /\ ~dc /\ ~rs /\ \E w \in Slots :
    /\ wdt[w].alive /\ ~wdt[w].dropped
    /\ \E wt \in {[wdt EXCEPT ![w].dropped = TRUE]} :
       \E refd \in {Refd(last, ulast, cv)} :
         /\ wdt' = Reaped(wt, refd)
         /\ free' = free \cup Freed(wt, refd)
    /\ out' = [op |-> "drop", arg |-> Par("w", w, 0, 0, 0), toks |-> <<>>, res |-> ""]
    /\ UNCHANGED <<T, cv, cdis, wdis, scr, started, last, ulast, same, nxt, ok, taint, dc, rs, held>>

\* Direct user calls between redraws: screen.clear_images(now=...) deletes every image and changes the
\* canvas-class disguise; screen.clear_images(widget, now=...) deletes the images of one kitty widget
\* and changes that widget's disguise - whether the delete command is written at once (now=True, straight
\* to the tty) or with the screen's buffered output.  urwid's line cache is NOT dropped: only the changed
\* disguise makes the next redraw send the image lines again.  Explored one call at a time (dc): the
\* call is followed by a Redraw with a NEW canvas (three calls in a row would bring the modulo-3
\* disguise back; drawing the SAME canvas object again makes urwid return early - both outside the claim;
\* for the same reason the canvas on screen must be composite: a bare leaf widget rendered again
\* yields its cached canvas, i.e. the same object).
ClearImagesAll ==
  /\ WithDC /\ started /\ ~dc /\ ~rs /\ last # NoneP /\ ~TopLeafOf[last]
  /\ \E now \in BOOLEAN :
       /\ T' = Fold(T, ClearImages(1), GFX, 1)
       /\ cdis' = BumpN(cdis, 1)
       /\ out' = [op |-> "climg", arg |-> Par("c", 0, IF now THEN 1 ELSE 0, 0, 0), toks |-> ClearImages(1), res |-> ""]
  /\ dc' = TRUE /\ ok' = FALSE
  /\ UNCHANGED <<cv, wdis, scr, started, last, ulast, same, wdt, nxt, free, taint, rs, held>>

ClearImagesOf ==
  /\ WithDC /\ started /\ ~dc /\ ~rs /\ last # NoneP /\ ~TopLeafOf[last] /\ Supported(Ident)
  /\ \E w \in Slots, now \in BOOLEAN :
       /\ wdt[w].alive /\ ~wdt[w].dropped /\ StyleOf(w) = "kitty"
       /\ T' = Fold(T, <<KTok(XDelZ(wdt[w].z))>>, GFX, 1)
       /\ wdis' = [wdis EXCEPT ![w] = Bump(@)]
       /\ out' = [op |-> "climg", arg |-> Par("c", w, IF now THEN 1 ELSE 0, 0, 0),
                  toks |-> <<KTok(XDelZ(wdt[w].z))>>, res |-> ""]
  /\ dc' = TRUE /\ ok' = FALSE
  /\ UNCHANGED <<cv, cdis, scr, started, last, ulast, same, wdt, nxt, free, taint, rs, held>>

\* Environment: the terminal was resized (SIGWINCH).  urwid sets _resized and drops its line cache; every
\* draw_screen until the resize is handled (get_input / parse_input resets the flag) returns before
\* painting: the frame is dropped - but UrwidImageScreen has already recorded the canvas and run the
\* cviews bookkeeping for it (deletions included).  When the size in cells did not change, the topmost
\* widget's render returns the same cached canvas object, which is then painted in full (RedrawSame):
\* the terminal must show exactly that canvas's images.
Sigwinch ==
  /\ WithWinch /\ started /\ ~dc /\ ~rs /\ last # NoneP
  /\ rs' = TRUE /\ scr' = <<>> /\ ok' = FALSE
  /\ out' = [op |-> "winch", arg |-> NoneP, toks |-> <<>>, res |-> ""]
  /\ UNCHANGED <<T, cv, cdis, wdis, started, last, ulast, same, wdt, nxt, free, taint, dc, held>>

ResizeHandled ==
  /\ rs /\ rs' = FALSE
  /\ out' = [op |-> "handled", arg |-> NoneP, toks |-> <<>>, res |-> ""]
  /\ UNCHANGED <<T, cv, cdis, wdis, scr, started, last, ulast, same, wdt, nxt, free, ok, taint, dc, held>>

\* Object lifetime of the screen canvases.  The application drops its reference to the canvas it passed to
\* draw_screen last (urwid's MainLoop does so on return from every draw_screen).  urwid itself keeps the canvas
\* it PAINTED last; a frame it dropped (resize pending) or that failed is kept by nobody: the object dies and
\* its address may be given to the very next canvas.  The design does not care: the next Redraw passes a NEW
\* canvas and the bookkeeping runs for it (TracksLastCanvas) - "the same canvas as last time" can only be said
\* of an object that still exists (RedrawSame requires held).  Nothing is written, nothing else changes.
\* Explored where it ends the object's life: the canvas passed last was not painted (~same: a dropped or a
\* failing frame; a painted canvas lives on in urwid's _screen_buf_canvas whoever else lets go of it).
ReleaseCanvas ==
  /\ (WithWinch \/ WithBad) /\ started /\ ~dc /\ last # NoneP /\ held /\ ~same
  /\ held' = FALSE
  /\ out' = [op |-> "release", arg |-> NoneP, toks |-> <<>>, res |-> ""]
  /\ UNCHANGED <<T, cv, cdis, wdis, scr, started, last, ulast, same, wdt, nxt, free, ok, taint, dc, rs>>

Next == ReleaseCanvas \/ Sigwinch \/ ResizeHandled \/ ClearImagesAll \/ ClearImagesOf \/ Start \/ Stop \/ Clear \/ Redraw \/ RedrawSame \/ RedrawBad \/ NewWidget \/ DropWidget
Spec == Init /\ [][Next]_vars

(* ---------------------------------------------------------- properties *)

\* after every successful redraw the terminal shows exactly the images of the canvas just drawn
PlacementsExact == ok => Shown(T, GFX) = ImpliedNow

\* every terminal but Konsole stacks a line sent twice at the same cell and z-index (the widget renders
\* with blend=False there: each strip first deletes what the cursor cell holds): no image line twice
NoDuplicates == Ident # "konsole" => Len(T.pl) = Cardinality(Shown(T, GFX))

IsRedrawOp == out.op \in {"redraw", "same", "bad", "lost"}
OutputBracketed == IsRedrawOp => Bracketed(out.toks) /\ T.sync = 0
DeletionsFirst == IsRedrawOp => DeletesFirst(out.toks, GFX)
ClearedOnStartStopClear ==
  out.op \in {"start", "stop", "clear"} /\ Supported(Ident) => HasDeleteAll(out.toks, GFX) /\ T.pl = <<>>
ClearedByDirectCall ==
  out.op = "climg" /\ Supported(Ident) =>
    IF out.arg.a = 0 THEN T.pl = <<>>
    ELSE \A i \in DOMAIN T.pl : ~(T.pl[i].proto = "kitty" /\ T.pl[i].z = wdt[out.arg.a].z)
NoGraphicsIfUnsupported == ~Supported(Ident) => T.pl = <<>> /\ NoGraphics(out.toks)
TerminalSane == T.err = "" /\ T.scrolls = 0 /\ T.sync = 0

LiveKitty == {w \in Slots : wdt[w].alive /\ StyleOf(w) = "kitty"}
DistinctZ ==
  /\ \A a, b \in LiveKitty : a # b => wdt[a].z # wdt[b].z
  /\ \A a \in LiveKitty : wdt[a].z \in ZRange(Bits) \ {0}
AllocatorSound ==
  /\ free \cap {wdt[w].z : w \in LiveKitty} = {}
  /\ out.res = "UrwidImageError" => Cardinality(LiveKitty) = ZCapacity(Bits)
\* no placement carries a z-index that no live widget holds (a freed index is clean when reused)
NoOrphanZ == \A i \in DOMAIN T.pl : T.pl[i].proto = "kitty" => \E w \in LiveKitty : wdt[w].z = T.pl[i].z

\* the screen's bookkeeping always describes the canvas passed to draw_screen LAST - also when that frame was
\* dropped or failed, and whether or not any earlier canvas object still exists (canvas lifetime)
TracksLastCanvas ==
  Supported(Ident) /\ last # NoneP => ResetGen(cv) = ResetGen(ViewsOf(Ident, WD, PiecesOf[last]))

(* ------------------------------------------------------------ TLC plumbing *)

PlSet == Shown(T, GFX)
View == <<PlSet, cv, cdis, wdis, scr, started, last, ulast, same, wdt, nxt, free, ok, taint, dc, rs, held>>

\* Edge dump for spec -> code replay (MC_UrwidScreen_edges.cfg): explored under a COARSE view
\* (layout drawn last x started x urwid has a line cache x liveness of the widgets), so that every
\* pair (layout on screen, next operation / next layout) is generated once.  The replay needs the
\* operation sequences only - each real step is judged by Trace_UrwidScreen, not by the edge.
CoarseObs == [last |-> last, started |-> started, cache |-> scr # <<>>, taint |-> taint, dc |-> dc, rs |-> rs, same |-> same, held |-> held,
              live |-> [w \in Slots |-> IF ~wdt[w].alive THEN 0 ELSE IF wdt[w].dropped THEN 2 ELSE 1]]
CoarseView == CoarseObs
Dump == PrintT(<<"EDGE", ToJson([from |-> CoarseObs, op |-> [op |-> out'.op, arg |-> out'.arg, res |-> out'.res],
                                  to |-> CoarseObs'])>>)
\* in the edge dump a direct clear is followed by a NEW canvas of the SAME layout (image lines
\* textually unchanged: the case in which only the disguise can make urwid send them again)
\* after a dropped frame only the handling of the resize, then the painting of the SAME canvas
\* canvas lifetime: instead of painting the SAME canvas after a dropped frame, the application may have
\* released it; the next frame is then a NEW canvas (whose address may be the dead one's).  RelFams bounds
\* the layouts between which this is replayed (quick: Q; thorough: RelFamsT by cfg override).
RelFams == {"Q"}
RelFamsT == {"O", "L", "F"}
DumpL == /\ (dc /\ out'.op = "redraw" => out'.arg = last)
         /\ (rs /\ ~same => out'.op = "handled")
         /\ (~rs /\ ~same /\ last # NoneP /\ ~taint /\ held => out'.op = "same" \/ (out'.op = "release" /\ last.f \in RelFams))
         /\ (out'.op = "release" => ~rs /\ ~same)
         /\ (~held /\ last # NoneP => out'.op = "redraw" /\ out'.arg.f \in RelFams)
         /\ Dump
\* the layouts themselves, printed once: the driver builds the real urwid trees from these
LayoutTable == \A p \in Params : PrintT(<<"LAYOUT", ToJson([p |-> p, lay |-> Lay(p)])>>)
InitDump == Init /\ LayoutTable /\ PrintT(<<"INIT", ToJson(CoarseObs)>>)
SpecDump == InitDump /\ [][Next]_vars
=============================================================================
