--------------------------- MODULE Trace_FormatSpec ---------------------------
(***************************************************************************)
(* C19: code -> spec.  One trace = one specifier string s together with     *)
(* what the REAL code did with it, per render style (1 block, 2 kitty,      *)
(* 3 iterm2) and per entry point                                            *)
(*   1 cls._check_format_spec(s)           (under terminal A and B)         *)
(*   2 format(image, s)                    (+ draw() with the explicit      *)
(*                                            parameters, when sampled)     *)
(*   3 ImageIterator(image, format_spec=s)                                  *)
(*   4 UrwidImage(image, s)                                                 *)
(*                                                                         *)
(*   [s |-> <<"<", "5", ...>>,  t |-> <<colsA, linesA, colsB, linesB>>,      *)
(*    e |-> "default" | name of the non-default class/instance settings     *)
(*          state (jpeg_quality, read_from_file, render method, ...) the    *)
(*          observations were made under.  The judgement does not read it:  *)
(*          Parse(style, s) has no settings parameter, i.e. a specifier     *)
(*          must be accepted and denote the same under every setting.       *)
(*    u |-> <<obs, ...>>            the distinct observations                *)
(*    x |-> <<<<i,i,i,i>>, <<...>>, <<...>>>>   x[style][entry] indexes u]   *)
(*   obs, rejected:  <<exception class, snapshot unchanged>>                *)
(*   obs, accepted:  <<"ok", snapshot unchanged, h_align, width, width@B,   *)
(*                     v_align, height, height@B, alpha kind, alpha,        *)
(*                     method, z_index, mix, compress, other style args>>   *)
(*                   ("~" = not observable at this entry point)             *)
(*   obs, format():  <<"ok", snapshot unchanged, digest of the output,      *)
(*                     "~" | "out" | "raise", digest of draw()'s output     *)
(*                     minus its trailer | exception class>>                *)
(*   obs, format() not run (padding of millions of cells): <<"unobserved">> *)
(* TLC evaluates Parse(style, s) and compares; the verdict names the first  *)
(* differing field.                                                         *)
(***************************************************************************)
EXTENDS FormatSpec, Json, IOUtils

Traces == JsonDeserialize(IOEnv.TRACE_FILE)

VARIABLES tid, l, res
vars == <<tid, l, res>>

Names == <<"result", "snapshot", "h_align", "width", "width@B", "v_align", "height",
           "height@B", "alpha-kind", "alpha", "method", "z_index", "mix", "compress",
           "extra-style-args">>

DigitChar == <<"0", "1", "2", "3", "4", "5", "6", "7", "8", "9">>
RECURSIVE NatDigits(_)
NatDigits(n) == IF n < 10 THEN <<DigitChar[n + 1]>>
                ELSE Append(NatDigits(n \div 10), DigitChar[(n % 10) + 1])
\* canonical digit sequence q (no leading zeros) denotes a number > n
Exceeds(q, n) == LET d == NatDigits(n) IN
                 Len(q) > Len(d) \/ (Len(q) = Len(d) /\ q # d /\ LexLE(d, q))

\* absent = the terminal width / the terminal height - 2; zero = the terminal dimension
PadW(P, cols)  == IF P.w \in {"default", "zero"} THEN ToString(cols) ELSE P.w
PadH(P, lines) == IF P.ht = "default" THEN ToString(IF lines > 3 THEN lines - 2 ELSE 1)
                  ELSE IF P.ht = "zero" THEN ToString(lines) ELSE P.ht

AlphaKindObs(P) == IF P.ak = "threshold" THEN "float"
                   ELSE IF P.ak \in {"termbg", "hex"} THEN "str" ELSE P.ak
AlphaObs(P) == IF P.ak = "threshold" THEN P.ad
               ELSE IF P.ak = "termbg" THEN "#"
               ELSE IF P.ak = "hex" THEN "#" \o P.ad ELSE ""

\* what each entry point lets us see of the denoted record
Expect(entry, P, t) ==
  LET full == <<"ok", TRUE, P.h, PadW(P, t[1]), PadW(P, t[3]), P.v, PadH(P, t[2]), PadH(P, t[4]),
                AlphaKindObs(P), AlphaObs(P), P.m, P.z, P.x, P.c, "">>
      hide == IF entry = 1 THEN {}
              ELSE IF entry = 3 THEN {5, 8}                 \* built under terminal A only
              ELSE {4, 5, 7, 8, 12}                          \* urwid: padding size and z-index ignored
  IN [i \in 1..15 |-> IF i \in hide THEN "~" ELSE full[i]]

FirstDiff(exp, got) ==
  LET bad == {i \in 3..15 : exp[i] # "~" /\ exp[i] # got[i]}
  IN IF bad = {} THEN 0 ELSE CHOOSE i \in bad : \A j \in bad : i <= j

Good == [v |-> "ok", exp |-> "", got |-> ""]

RECURSIVE JoinSet(_)
JoinSet(S) == IF S = {} THEN "" ELSE LET x == CHOOSE y \in S : TRUE IN x \o "|" \o JoinSet(S \ {x})

JudgeObs(style, entry, obs, P, t, s) ==
  IF obs[1] = "unobserved" THEN
    \* the driver did not run format() (padding rectangle too large to build): no judgement
    \* at that entry point; any other entry point must always be observed
    (IF entry = 2 THEN Good ELSE [v |-> "unobserved-entry", exp |-> "observation", got |-> "none"])
  ELSE IF obs[1] = "ok" THEN
    IF ~P.ok THEN
      [v   |-> IF OnlyBareDot(style, s) THEN "accepts-bare-dot:" \o BareDotClass(style, s)
               ELSE "accepts-non-sentence",
       exp |-> "reject(" \o P.kind \o ")", got |-> "accepted"]
    ELSE IF entry = 2 THEN
      (IF obs[4] = "~" THEN Good
       ELSE IF obs[4] = "raise" THEN
         \* draw() documents one more limit than the grammar: pad_width <= terminal width
         (IF P.w \notin {"default", "zero"} /\ Exceeds(P.wq, t[1]) THEN Good
          ELSE [v |-> "draw-refuses-equivalent-parameters", exp |-> "output", got |-> obs[5]])
       ELSE IF obs[3] = obs[5] THEN Good
       ELSE [v |-> "format-differs-from-draw", exp |-> obs[5], got |-> obs[3]])
    ELSE LET exp == Expect(entry, P, t)
             i   == FirstDiff(Expect(entry, P, t), obs)
         IN IF i = 0 THEN Good
            ELSE [v |-> "denotes:" \o Names[i], exp |-> exp[i], got |-> obs[i]]
  ELSE
    IF P.ok THEN [v |-> "rejects-sentence", exp |-> "accepted", got |-> obs[1]]
    ELSE IF obs[1] \notin P.classes
      THEN [v |-> "wrong-error", exp |-> JoinSet(P.classes), got |-> obs[1]]
    ELSE IF obs[2] # TRUE
      THEN [v |-> "side-effect-on-reject", exp |-> "snapshot unchanged", got |-> "snapshot changed"]
    ELSE Good

\* ------------------------------------------------------------------------
Tr == Traces[tid]

\* tr.x[si][ei] = index into tr.u of the observation made for style si at entry point ei
Obs(tr, si, ei) == tr.u[tr.x[si][ei]]

None == [v |-> "ok", exp |-> "", got |-> "", style |-> "", entry |-> 0]

RECURSIVE FirstBadEntry(_, _, _, _)
FirstBadEntry(tr, si, P, ei) ==
  IF ei > 4 THEN None
  ELSE LET r == JudgeObs(StyleIdx[si], ei, Obs(tr, si, ei), P, tr.t, tr.s)
       IN IF r.v # "ok" THEN r @@ [style |-> StyleIdx[si], entry |-> ei]
          ELSE FirstBadEntry(tr, si, P, ei + 1)

RECURSIVE FirstBadStyle(_, _, _)
FirstBadStyle(tr, P, si) ==
  IF si > 3 THEN None
  ELSE LET r == FirstBadEntry(tr, si, P[si], 1)
       IN IF r.v # "ok" THEN r ELSE FirstBadStyle(tr, P, si + 1)

\* first failing (style, entry); sentence = the styles for which the documented grammar
\* accepts s
JudgeTraceRec(tr) ==
  LET P == [si \in 1..3 |-> Parse(StyleIdx[si], tr.s)]
  IN FirstBadStyle(tr, P, 1) @@ [sentence |-> {si \in 1..3 : P[si].ok}]

Init == /\ tid \in 1..Len(Traces)
        /\ l = 0
        /\ res = [v |-> "pending", exp |-> "", got |-> "", style |-> "", entry |-> 0, sentence |-> {}]

Judge == /\ l = 0
         /\ l' = 1
         /\ res' = JudgeTraceRec(Tr)
         /\ UNCHANGED tid

Next == Judge
Spec == Init /\ [][Next]_vars

Done == l = 1
Report == Done => PrintT(<<"VERDICT", ToJson([tid |-> tid, verdict |-> res.v, style |-> res.style,
                                              entry |-> res.entry, exp |-> res.exp, got |-> res.got, env |-> Tr.e,
                                              sentence |-> res.sentence])>>)
=============================================================================
