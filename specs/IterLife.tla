------------------------------ MODULE IterLife ------------------------------
(***************************************************************************)
(* X09: the argument / life-cycle state machine of ImageIterator over      *)
(* IterLifeCore: one animated image with N frames and the iterators held   *)
(* in `Slots` (one slot for the replayed model; two for the aliasing       *)
(* model: several iterators over the SAME image).  One NAMED action per    *)
(* API call and per way of being rejected; documented-vs-actual deviations *)
(* are actions of their own (marked DEVIATION).  The laws are the named    *)
(* invariants / action properties at the end.                              *)
(***************************************************************************)
EXTENDS IterLifeCore, Json

CONSTANTS
  Ns,          \* frame counts explored
  Reps,        \* repeat counts offered to the accepted constructor
  CachedKinds, \* subset of {"F", "T", "n-1", "n"}: cached = False / True / N-1 / N
  SlotSet,     \* iterator slots
  Rich         \* TRUE: the large argument alphabets

VARIABLES c, s, out
vars == <<c, s, out>>
View == <<c, s>>

---------------------------------------------------------------------------
(* Alphabets                                                                *)
CachedArg(kind) ==
  CASE kind = "F" -> BoolV(FALSE) [] kind = "T" -> BoolV(TRUE)
    [] kind = "n-1" -> IntV(c.n - 1) [] kind = "n" -> IntV(c.n)
CachedGood == {CachedArg(kind) : kind \in CachedKinds}
SpecGood == IF Rich THEN {StrV("fmt"), StrV("plain")} ELSE {StrV("fmt")}
BadImages == {"nonimage"}
BadRepTypes == {FloatV("2.0")} \cup (IF Rich THEN {StrV("1"), NoneV} ELSE {})
BadSpecTypes == {BytesV} \cup (IF Rich THEN {NoneV, IntV(1)} ELSE {})
BadCachedTypes == {FloatV("1.0")} \cup (IF Rich THEN {NoneV, StrV("1")} ELSE {})
BadCachedValues == {IntV(0)} \cup (IF Rich THEN {IntV(-1), IntV(-100)} ELSE {})
SeekBadTypes == {StrV("1")} \cup (IF Rich THEN {FloatV("1.0"), NoneV} ELSE {})
SeekBadValues == {IntV(c.n)} \cup (IF Rich THEN {IntV(-1), IntV(c.n + 3)} ELSE {})
Frames == 0..(c.n - 1)
\* a constructor call all of whose arguments are fine (used as the frame for ONE bad argument)
Fine(k, img, a, b, cc) == NewOp(k, img, a, b, cc)
FineRep == IntV(2)
FineSpec == StrV("plain")
FineCached == BoolV(FALSE)

---------------------------------------------------------------------------
NoOut == [act |-> "Init", o |-> Op0("init", 0), res |-> {"ok"}, ret |-> "-", frame |-> -1, rend |-> {0},
          opens |-> OpensNone]

Init ==
  /\ c \in {[n |-> n] : n \in Ns}
  /\ s = State0(SlotSet)
  /\ out = NoOut

Do(name, o) ==
  /\ Enabled(c, s, o)
  /\ LET r == Step(c, s, o) IN
       /\ s' = r.st
       /\ out' = [act |-> name, o |-> o, res |-> r.res, ret |-> r.ret, frame |-> r.frame, rend |-> r.rend,
                  opens |-> r.opens]
  /\ UNCHANGED c

Ph(k) == s.its[k].ph

\* --- construction -----------------------------------------------------------
New == \E k \in SlotSet, r \in Reps, cc \in CachedGood, sp \in SpecGood :
         Ph(k) = "none" /\ Do("New", NewOp(k, "good", IntV(r), sp, cc))
\* ImageIterator(image): repeat = -1, format_spec = "", cached = 100 (the documented defaults)
NewDefaults == \E k \in SlotSet : Ph(k) = "none" /\ Do("NewDefaults", NewOp(k, "good", AbsentV, AbsentV, AbsentV))
NewSomeDefaults == \E k \in SlotSet, r \in (IF Rich THEN Reps ELSE {2}) :
         Ph(k) = "none" /\ Do("NewSomeDefaults", NewOp(k, "good", IntV(r), AbsentV, AbsentV))
\* iter(image): "an ImageIterator instance with a repeat count of 1, hence caching is disabled"
NewViaIter == \E k \in SlotSet : Ph(k) = "none" /\ Do("NewViaIter", IterOp(k))
\* DEVIATION: "A negative value implies infinite repetition" and loop_no is "always -1" for
\* infinite iteration - but the property shows the negative number that was GIVEN (-3 here)
NewInfiniteOther == \E k \in SlotSet :
         Ph(k) = "none" /\ Do("NewInfiniteOther", NewOp(k, "good", IntV(-3), FineSpec, BoolV(TRUE)))
\* rejected forms: offered in EVERY state (also while the slot holds a live iterator)
AnyPhase(k) == Ph(k) \in {"none", "fresh", "started"} \cup Ended
NewBadImage == \E k \in SlotSet, x \in BadImages :
         AnyPhase(k) /\ Do("NewBadImage", Fine(k, x, FineRep, FineSpec, FineCached))
NewNotAnimated == \E k \in SlotSet : AnyPhase(k) /\ Do("NewNotAnimated", Fine(k, "still", FineRep, FineSpec, FineCached))
NewFinalizedImage == \E k \in SlotSet, cc \in {FineCached, IntV(5)} :
         AnyPhase(k) /\ Do("NewFinalizedImage", Fine(k, "finalized", FineRep, FineSpec, cc))
NewBadRepeatType == \E k \in SlotSet, a \in BadRepTypes :
         AnyPhase(k) /\ Do("NewBadRepeatType", Fine(k, "good", a, FineSpec, FineCached))
NewZeroRepeat == \E k \in SlotSet : AnyPhase(k) /\ Do("NewZeroRepeat", Fine(k, "good", IntV(0), FineSpec, FineCached))
NewBadSpecType == \E k \in SlotSet, b \in BadSpecTypes :
         AnyPhase(k) /\ Do("NewBadSpecType", Fine(k, "good", FineRep, b, FineCached))
NewBadSpec == \E k \in SlotSet : AnyPhase(k) /\ Do("NewBadSpec", Fine(k, "good", FineRep, StrV("bad"), FineCached))
NewBadStyleSpec == \E k \in SlotSet : AnyPhase(k) /\ Do("NewBadStyleSpec", Fine(k, "good", FineRep, StrV("badstyle"), FineCached))
NewBadCachedType == \E k \in SlotSet, cc \in BadCachedTypes :
         AnyPhase(k) /\ Do("NewBadCachedType", Fine(k, "good", FineRep, FineSpec, cc))
NewBadCachedValue == \E k \in SlotSet, cc \in BadCachedValues :
         AnyPhase(k) /\ Do("NewBadCachedValue", Fine(k, "good", FineRep, FineSpec, cc))
\* several arguments wrong at once: any of the documented classes
SeveralBad == {<<"still", IntV(0), BytesV, IntV(0)>>}
              \cup (IF Rich THEN {<<"nonimage", FloatV("2.0"), StrV("badstyle"), NoneV>>,
                                  <<"good", IntV(0), StrV("bad"), FloatV("1.0")>>,
                                  <<"finalized", IntV(2), StrV("bad"), BoolV(TRUE)>>} ELSE {})
NewSeveralBad == \E k \in SlotSet, t \in SeveralBad :
         AnyPhase(k) /\ Do("NewSeveralBad", Fine(k, t[1], t[2], t[3], t[4]))

\* --- iteration --------------------------------------------------------------
It_(k) == s.its[k]
AtEnd(k) == It_(k).ph = "started" /\ It_(k).n = c.n
LastLoop(k) == It_(k).left = 1
Stored(k) == It_(k).ceff /\ It_(k).n \in It_(k).filled
NextFirst == \E k \in SlotSet : Ph(k) = "fresh" /\ Do("NextFirst", Op0("next", k))
NextFrame == \E k \in SlotSet : Ph(k) = "started" /\ ~AtEnd(k) /\ ~Stored(k) /\ Do("NextFrame", Op0("next", k))
NextCacheHit == \E k \in SlotSet :
         Ph(k) = "started" /\ ~AtEnd(k) /\ Stored(k) /\ It_(k).later /\ Do("NextCacheHit", Op0("next", k))
\* DEVIATION (tolerated either way): a seek() back to a stored frame within the first loop
NextSeekBackFirstLoop == \E k \in SlotSet :
         Ph(k) = "started" /\ ~AtEnd(k) /\ Stored(k) /\ ~It_(k).later /\ Do("NextSeekBackFirstLoop", Op0("next", k))
NextNewLoop == \E k \in SlotSet : AtEnd(k) /\ ~LastLoop(k) /\ Do("NextNewLoop", Op0("next", k))
NextExhausts == \E k \in SlotSet : AtEnd(k) /\ LastLoop(k) /\ Do("NextExhausts", Op0("next", k))
NextAfterEnd == \E k \in SlotSet : Ph(k) \in Ended /\ Do("NextAfterEnd", Op0("next", k))

Seek == \E k \in SlotSet, p \in Frames : Ph(k) = "started" /\ Do("Seek", Op1("seek", k, IntV(p)))
SeekBadType == \E k \in SlotSet, a \in SeekBadTypes : Live(It_(k)) /\ Do("SeekBadType", Op1("seek", k, a))
SeekOutOfRange == \E k \in SlotSet, a \in SeekBadValues : Live(It_(k)) /\ Do("SeekOutOfRange", Op1("seek", k, a))
SeekNotStarted == \E k \in SlotSet, p \in Frames : Ph(k) = "fresh" /\ Do("SeekNotStarted", Op1("seek", k, IntV(p)))
SeekAfterEnd == \E k \in SlotSet, p \in Frames : Ph(k) \in Ended /\ Do("SeekAfterEnd", Op1("seek", k, IntV(p)))

Close == \E k \in SlotSet : Ph(k) \in {"fresh", "started"} /\ Do("Close", Op0("close", k))
CloseAgain == \E k \in SlotSet : Ph(k) \in Ended /\ Do("CloseAgain", Op0("close", k))
IterSelf == \E k \in SlotSet : Live(It_(k)) /\ Do("IterSelf", Op0("iter", k))
SetLoopNo == \E k \in SlotSet : Live(It_(k)) /\ Do("SetLoopNo", Op0("setln", k))
Drop == \E k \in SlotSet : Live(It_(k)) /\ Do("Drop", Op0("drop", k))
\* the caller moves the image's own seek position
ImageSeek == \E p \in Frames : p # s.tell /\ Do("ImageSeek", Op1("imgseek", 0, IntV(p)))

Next ==
  \/ New \/ NewDefaults \/ NewSomeDefaults \/ NewViaIter \/ NewInfiniteOther
  \/ NewBadImage \/ NewNotAnimated \/ NewFinalizedImage \/ NewBadRepeatType \/ NewZeroRepeat
  \/ NewBadSpecType \/ NewBadSpec \/ NewBadStyleSpec \/ NewBadCachedType \/ NewBadCachedValue \/ NewSeveralBad
  \/ NextFirst \/ NextFrame \/ NextCacheHit \/ NextSeekBackFirstLoop \/ NextNewLoop \/ NextExhausts \/ NextAfterEnd
  \/ Seek \/ SeekBadType \/ SeekOutOfRange \/ SeekNotStarted \/ SeekAfterEnd
  \/ Close \/ CloseAgain \/ IterSelf \/ SetLoopNo \/ Drop \/ ImageSeek

Spec == Init /\ [][Next]_vars

ActionNames ==
  {"New", "NewDefaults", "NewSomeDefaults", "NewViaIter", "NewInfiniteOther", "NewBadImage", "NewNotAnimated",
   "NewFinalizedImage", "NewBadRepeatType", "NewZeroRepeat", "NewBadSpecType", "NewBadSpec", "NewBadStyleSpec",
   "NewBadCachedType", "NewBadCachedValue", "NewSeveralBad", "NextFirst", "NextFrame", "NextCacheHit",
   "NextSeekBackFirstLoop", "NextNewLoop", "NextExhausts", "NextAfterEnd", "Seek", "SeekBadType",
   "SeekOutOfRange", "SeekNotStarted", "SeekAfterEnd", "Close", "CloseAgain", "IterSelf", "SetLoopNo", "Drop",
   "ImageSeek"}

---------------------------------------------------------------------------
(* The meaning of the constructor arguments (checked once, over all         *)
(* alphabets): "If repeat equals 1, caching is disabled"; cached as a       *)
(* positive integer: "caching is enabled only if the framecount of the      *)
(* image is less than or equal to the given number"; the defaults.          *)
ASSUME \A n \in 2..6 : \A cc \in {BoolV(TRUE), BoolV(FALSE), IntV(1), IntV(n), IntV(100)} : ~CEff(n, 1, cc)
ASSUME \A n \in 2..6, r \in {-3, -1, 2, 3} :
         /\ CEff(n, r, BoolV(TRUE)) /\ ~CEff(n, r, BoolV(FALSE))
         /\ CEff(n, r, IntV(n)) /\ CEff(n, r, IntV(n + 1)) /\ ~CEff(n, r, IntV(n - 1)) /\ ~CEff(n, r, IntV(1))
ASSUME LET d == Fresh([n |-> 3], NewOp(1, "good", AbsentV, AbsentV, AbsentV)) IN
         d.rep0 = -1 /\ d.spec = "plain" /\ d.ceff
ASSUME LET d == Fresh([n |-> 3], IterOp(1)) IN d.rep0 = 1 /\ ~d.ceff

---------------------------------------------------------------------------
(* State invariants                                                         *)
ItTypeOK(it) ==
  /\ it.ph \in {"none", "fresh", "started"} \cup Ended
  /\ it.n \in 0..c.n /\ it.filled \subseteq Frames /\ it.cnt >= 0
  /\ it.ph = "none" => it = Blank
  /\ it.ph \in Ended => it = EndedIt(it, it.ph, it.ln)
  /\ ~it.ceff => it.filled = {} /\ ~it.later
TypeOK ==
  /\ s.tell \in Frames
  /\ \A k \in SlotSet : ItTypeOK(s.its[k])
  /\ out.act \in ActionNames \cup {"Init"}
  /\ out.res # {}

\* loop_no: "None, if iteration hasn't started.  Otherwise, the current iteration repeat
\* countdown value ... When iteration has ended, the value is zero"
LoopNoLaw ==
  \A k \in SlotSet : LET it == s.its[k] IN
    /\ it.ph \in {"none", "fresh"} => it.ln = "None"
    /\ it.ph = "started" => /\ it.ln = ToString(it.left)
                            /\ IF it.rep0 < 0 THEN it.left = it.rep0 ELSE it.left \in 1..it.rep0
    /\ it.ph = "exhausted" => it.ln = "0"
    /\ it.ph = "closed" => it.ln # "0"        \* close() is not the END of the iteration
\* "... except for infinite iteration where it's always -1" (for the documented way of asking
\* for it, repeat = -1; see DEVIATION NewInfiniteOther for other negative numbers)
InfiniteAlwaysMinusOne ==
  \A k \in SlotSet : s.its[k].rep0 = -1 /\ s.its[k].ph = "started" => s.its[k].ln = "-1"
\* a finite iteration never yields more than repeat x N frames unless seek() was used
NeverMoreThanRepeatLoops ==
  \A k \in SlotSet : LET it == s.its[k] IN
    it.ph = "started" /\ it.rep0 > 0 /\ ~it.sk => it.cnt <= it.rep0 * c.n /\ it.cnt = (it.rep0 - it.left) * c.n + it.n
\* the cache only ever holds frames that were yielded
CacheOnlyWhenInForce ==
  \A k \in SlotSet : s.its[k].filled # {} => s.its[k].ceff /\ s.its[k].ph = "started"

---------------------------------------------------------------------------
(* Action properties                                                        *)
K == out'.o.k
Rejected == out'.res \cap {"ok", "frame", "stop"} = {}
OnSlot == out'.o.op # "imgseek"

\* a rejected call - constructor or method - leaves everything as it was
RejectedChangesNothing == [][Rejected => s' = s]_vars
\* an operation on one iterator never changes another iterator over the same image
OtherIteratorsUntouched ==
  [][\A j \in SlotSet : (~OnSlot \/ j # K) => s'.its[j] = s.its[j]]_vars
\* "Directly adjusting the seek position of the image doesn't affect iteration"
ImageSeekDoesNotAffectIteration == [][out'.o.op = "imgseek" => s'.its = s.its]_vars
\* ... and the only things that move the image's seek position are next() and the caller
OnlyNextMovesTheImage == [][s'.tell # s.tell => out'.o.op \in {"next", "imgseek"}]_vars
\* close(): "Does not reset the frame number of the underlying image"; idempotent; never fails
CloseLaw ==
  [][out'.o.op \in {"close", "drop"} =>
       /\ ~Rejected /\ s'.tell = s.tell
       /\ (out'.o.op = "close" => s'.its[K].ph \in Ended /\ s'.its[K].ln = s.its[K].ln)
       /\ (out'.o.op = "close" /\ s.its[K].ph \in Ended => s' = s)]_vars
\* next() after exhaustion / close raises StopIteration for ever; an ended iterator stays ended
StopIsForEver ==
  [][OnSlot /\ s.its[K].ph \in Ended =>
       /\ (out'.o.op = "next" => out'.res = {"stop"} /\ s' = s)
       /\ (s'.its[K].ph = s.its[K].ph \/ out'.o.op = "drop")]_vars
\* seek(): TermImageError unless iteration is under way; an accepted seek sets the next frame
\* "without affecting the repeat count" and without touching the image
SeekLaw ==
  [][out'.o.op = "seek" =>
       IF Rejected THEN (s.its[K].ph # "started" /\ PosErrs(c, out'.o.a) = {} => out'.res = {"TermImageError"})
       ELSE /\ s.its[K].ph = "started" /\ s'.its[K].n = out'.o.a.i
            /\ s'.its[K].left = s.its[K].left /\ s'.its[K].ln = s.its[K].ln /\ s'.tell = s.tell]_vars
\* which frame next() yields: frame 0 first, then the frame after the last one (or the one seek()
\* asked for), frame 0 again when a loop is complete; "The number of the last yielded frame is set
\* as the image's seek position"; "After the iterator is exhausted, the underlying image is set to
\* frame 0"
YieldedFrameLaw ==
  [][out'.o.op = "next" /\ s.its[K].ph \notin Ended =>
       LET it == s.its[K] IN
       /\ (out'.frame >= 0 => out'.frame = (IF it.ph = "fresh" \/ it.n = c.n THEN 0 ELSE it.n) /\ s'.tell = out'.frame)
       /\ (out'.frame < 0 => out'.res = {"stop"} /\ s'.its[K].ph = "exhausted" /\ s'.tell = 0)]_vars
\* the countdown changes only on the first frame of a loop (or when the iteration ends)
CountdownChangesOnFirstFrameOfALoop ==
  [][OnSlot /\ out'.o.op \notin {"new", "drop"} /\ s'.its[K].ln # s.its[K].ln =>
       /\ out'.o.op = "next"
       /\ \/ out'.frame = 0 /\ (s.its[K].ph = "fresh" \/ s.its[K].n = c.n)
          \/ out'.res = {"stop"} /\ s'.its[K].ln = "0"]_vars
\* "repeat: the number of times to go over the entire image": without seek() the iteration ends
\* after exactly repeat x N frames
FullLoops ==
  [][out'.o.op = "next" /\ s.its[K].ph = "started" /\ s'.its[K].ph = "exhausted" /\ ~s.its[K].sk =>
       s.its[K].cnt = s.its[K].rep0 * c.n]_vars
\* an infinite iteration never ends by itself
InfiniteNeverExhausts == [][OnSlot /\ s.its[K].rep0 < 0 => s'.its[K].ph # "exhausted"]_vars
\* a freshly constructed iterator always starts at frame 0, wherever the image stands
StartsAtFrameZero == [][out'.o.op = "next" /\ s.its[K].ph = "fresh" => out'.frame = 0]_vars
\* a rejected construction opens no file
RejectedConstructionOpensNothing ==
  [][out'.o.op = "new" /\ Rejected => out'.opens = OpensNone]_vars
\* what caching means for the number of renders (its invisibility is C09's)
CachingLaw ==
  [][out'.o.op = "next" /\ out'.frame >= 0 =>
       /\ (~s.its[K].ceff => out'.rend = {1})
       /\ (out'.frame \notin s.its[K].filled => out'.rend = {1})
       /\ (s.its[K].ceff /\ out'.frame \in s.its[K].filled /\ s'.its[K].later => out'.rend = {0})]_vars

---------------------------------------------------------------------------
(* Dumps for the replay (spec -> code)                                      *)
ItKey(it) == <<it.ph, it.n, it.left, it.ln, it.rep0, it.spec, it.via, it.ceff, it.later, it.filled, it.cnt, it.sk>>
Key(k, st) == <<k.n, st.tell, [j \in SlotSet |-> ItKey(st.its[j])]>>
Dump == PrintT(<<"EDGE", ToJson([from |-> Key(c, s), op |-> out', to |-> Key(c, s')])>>)
StateDump == PrintT(<<"STATE", ToJson([key |-> Key(c, s), obs |-> Obs(s)])>>)
InitDump == TLCGet("level") = 1 => PrintT(<<"INIT", ToJson(Key(c, s))>>)
=============================================================================
