"""Spec -> code replay of RenderableSeek.tla (Renderable.seek / tell / frame_count incl.
POSTPONED evaluation) - behaviour beyond the listed properties that the specification covers."""

from __future__ import annotations

from . import graph, iterkit, tlc
from .core import Report

CONFIGS = [(3, False), (3, True), (0, False), (0, True), (1, False)]


def _make(n, postponed):
    from term_image.renderable import FrameCount

    Probe = iterkit.classes()["Probe"]

    class P(Probe):
        evals = 0

        def _get_frame_count_(self):
            type(self).evals += 1
            return n if n else FrameCount.INDEFINITE

    P.evals = 0
    if not postponed:
        return P(n if n else 0), P
    p = P(2)  # any animated count; replaced by POSTPONED below, as the constructor would
    p._frame_count = FrameCount.POSTPONED
    try:
        from term_image.renderable import Renderable

        q = P.__new__(P)
        Renderable.__init__(q, FrameCount.POSTPONED, 50)
        q.k, q.pos, q.size, q.renders, q.fail_next = 0, 0, p.size, [], None
        return q, P
    except Exception:  # pragma: no cover
        return p, P


def _apply(p, op):
    from term_image.renderable import FrameCount, Seek

    try:
        if op["name"] == "seek":
            return {"res": "ok", "v": p.seek(op["off"], Seek[op["whence"]])}
        if op["name"] == "tell":
            return {"res": "ok", "v": p.tell()}
        fc = p.frame_count
        return {"res": "ok", "v": 0 if fc is FrameCount.INDEFINITE else fc}
    except Exception as e:  # noqa: BLE001
        return {"res": type(e).__name__}


def run(rep: Report) -> None:
    for n, postponed in CONFIGS:
        cfg = f"MC_RenderableSeek_{n}_{'TRUE' if postponed else 'FALSE'}.cfg"
        res = tlc.run("MC_RenderableSeek", cfg, workers=1, timeout=300)
        rep.add_tlc(res)
        if res.violated:
            rep.violation(f"design:RenderableSeek:{res.violated}", res.error_text[:1200], {"kind": "design"})
            continue
        g = graph.from_result(res)
        for wi, walk in enumerate(g.walks(max_len=25)):
            p, cls = _make(n, postponed)
            rep.traces_validated += 1
            rep.distinct.add(("seek", n, postponed, wi))
            for i, e in enumerate(walk):
                op, exp, to = e["op"]["op"], e["op"]["r"], e["to"]
                real = _apply(p, op)
                rep.evaluations += 1
                bad = None
                if real["res"] != exp["res"] or real.get("v") != exp.get("v"):
                    bad = f"{op}: spec {exp}, code {real}"
                elif p.tell() != to["frame"]:
                    bad = f"{op}: tell() is {p.tell()}, spec frame {to['frame']}"
                elif postponed and cls.evals != to["evals"]:
                    bad = f"{op}: POSTPONED frame count evaluated {cls.evals} times, spec {to['evals']}"
                if bad:
                    rep.violation(
                        f"Renderable:{op['name']}:{'postponed' if postponed else 'plain'}",
                        f"{bad} (N={n}, postponed={postponed}) after "
                        + " ; ".join(str(x["op"]["op"]) for x in walk[: i + 1]),
                        {"kind": "seek", "n": n, "postponed": postponed,
                         "ops": [x["op"] for x in walk[: i + 1]]},
                    )
                    break
