---------------------------- MODULE MC_AnimTimingT ----------------------------
(* Thorough scenario families of AnimTiming (X11); see MC_AnimTiming.tla. *)
EXTENDS MC_AnimTiming

ScenThorough ==
  ScenQuick
  \cup TimingDef("new", {2}, {1, 2, 4}, {0, 1, 2, 4}, {0, 1, 2, 5}, {0, 1})
  \cup TimingDef("new", {3}, {2, 4}, {0, 4}, {0, 2, 5}, {0, 1})
  \cup TimingDef("old", {2, 3}, {1, 2, 4}, {}, {0, 2, 5}, {0, 1})
  \cup TimingIndef({0, 1, 2, 3}, {2}, {0, 1, 4}, {0, 2, 5}, {0, 2}, {0, 1})
  \cup Cuts("new", {2, 3}, DC2 \cup DC3, {0, 5}, 7) \cup Cuts("old", {2, 3}, DC2 \cup DC3, {0, 5}, 7)
  \cup CutsIndef({0, 1, 2, 3}, {0, 5}, 4)
  \cup Changes("new", {2, 3}, {0, 1, 5}) \cup Changes("old", {2, 3}, {0, 1, 5})
=============================================================================
