"""Design-level model of draw(): specs/Draw.tla checked by TLC (MC_Draw.cfg)."""

from __future__ import annotations

from . import tlc
from .core import Report


def check(rep: Report) -> None:
    if not (tlc.SPECS / "MC_Draw.cfg").exists():
        rep.notes.append("Draw.tla design model not built yet")
        return
    res = tlc.run("MC_Draw", "MC_Draw.cfg", workers=8, timeout=900)
    rep.add_tlc(res)
    rep.extra["mc_draw"] = {"states": res.distinct, "generated": res.generated}
    if res.violated:
        rep.violation(f"design:Draw:{res.violated}", res.error_text[:2000], {"kind": "design"})
