SPECIFICATION Spec
CONSTANTS
  MaxLen = 4
  Prune = TRUE
  Alphabet = {"<", "|", ">", "^", "-", "_", ".", "#", "+", "0", "1", "5", "a", "f", "L", "W", "A", "z", "m", "c", "4"}
INVARIANT MachineTypeOK
CHECK_DEADLOCK FALSE
