"""C09, the iterator that ``Renderable.draw()`` / ``_animate_()`` builds (DrawCacheCore.tla).

design:       MC_DrawCache.cfg - draw() as a transition system (frame writes, Ctrl-C) over the
              decision table (loops, cache, frame_count) -> caching on / off; invariants
              RenderOncePerFrame, UncachedRendersEveryWrite, ReturnsAfterAllLoops, ...
code -> spec: the REAL ``draw()`` of an animated probe renderable (frame duration 1 ms) writes
              to a fake non-tty output that raises KeyboardInterrupt upon its k-th frame write
              (k = 0: never); recorded per frame write: the frame shown, the number of
              ``_render_`` calls since the previous write, and whether the text equals what the
              uncached twin (same call with cache=False) wrote there.  Grid: loops in
              {1, 2, 3, -1 (infinite: draw()'s default)} x cache in {True, False, ints around
              frame_count, 100} x interruption points in all loops, + seeded random cases.
              Trace_DrawCache.tla judges (verdicts draw:NoRerender, draw:not-rendered,
              draw:frame-count, draw:frame-number, draw:uncached-twin, draw:raises, ...).
"""

from __future__ import annotations

import io
import random
import re
import sys
from concurrent.futures import ThreadPoolExecutor

from . import iterkit, tlc
from .core import Report

CFG = """SPECIFICATION TSpec
CONSTANTS
  N = {n}
  K = 0
  LoopsSet = {{1}}
  CacheSet = {{TRUE}}
  OwnSet = {{"caller"}}
  Sizes = {{1}}
  Durs = {{1}}
  ArgsSet = {{"a0"}}
  Pads = {{1}}
  SeekOffs = {{0}}
  TW = 8
  TH = 6
  Terms = {{}}
  MaxDepth = 1
INVARIANT Report
CHECK_DEADLOCK FALSE
"""

_CSI = re.compile(r"\x1b\[[0-9;?]*[ -/]*[@-~]")


class _Out(io.StringIO):
    """stdout stand-in (not a tty): logs every frame write together with the number of renders
    done so far; simulates Ctrl-C upon the ``interrupt_at``-th frame write (0 = never)."""

    def __init__(self, probe, interrupt_at: int):
        super().__init__()
        self.probe = probe
        self.interrupt_at = interrupt_at
        self.frames: list[tuple[str, int]] = []
        self.interrupted = False

    def isatty(self):
        return False

    def write(self, s):
        text = _CSI.sub("", s)
        if any(c.isalpha() for c in text):
            self.frames.append((text, len(self.probe.renders)))
            if len(self.frames) == self.interrupt_at:
                self.interrupted = True
                raise KeyboardInterrupt
        return super().write(s)


def _cache_value(c: dict):
    return c["b"] if c["kind"] == "bool" else c["n"]


def draw_once(n: int, loops: int, cache: dict, at: int):
    """One real draw(); -> (frame writes [(text, renders so far)], how it ended, total renders)."""
    from term_image.padding import ExactPadding

    iterkit.set_terminal()
    probe = iterkit.classes()["Probe"](n)
    probe.frame_duration = 1
    out = _Out(probe, at)
    stdout, sys.stdout = sys.stdout, out
    try:
        probe.draw(padding=ExactPadding(), loops=loops, cache=_cache_value(cache))
        how = "interrupt" if out.interrupted else "returned"
    except BaseException as e:  # noqa: BLE001 - the exception class is the observation
        how = type(e).__name__
    finally:
        sys.stdout = stdout
    return out.frames, how, len(probe.renders)


def _num(text: str) -> int:
    dec = iterkit.decode_output(text.strip("\n"))
    if dec is None or dec[0] == "irregular":
        return -1
    name, num = iterkit.decode_letter(dec[2])
    return num if name == "a0" else -1


def record(case: dict, twin=None):
    """-> (trace record for Trace_DrawCache.tla, the frame texts written)."""
    n, loops, cache, at = case["n"], case["loops"], case["cache"], case["at"]
    frames, how, total = draw_once(n, loops, cache, at)
    events = []
    prev = 0
    for i, (text, renders) in enumerate(frames):
        same = True if twin is None else (i < len(twin) and twin[i] == text)
        events.append({"num": _num(text), "nr": renders - prev, "same": same})
        prev = renders
    tr = {"n": n, "loops": loops, "cache": cache, "at": at, "events": events,
          "end": {"how": how, "extra": total - prev}}
    return tr, [t for t, _ in frames]


B = lambda b: {"kind": "bool", "b": b, "n": 0}  # noqa: E731
I = lambda k: {"kind": "int", "b": False, "n": k}  # noqa: E731, E741


def cases(rep: Report) -> list[tuple[dict, list[dict]]]:
    """[(base case (n, loops, at), cache arguments to try)]"""
    quick = rep.tier == "quick"
    out = []
    for n in (2, 3) if quick else (2, 3, 5, 12):
        caches = [B(True), I(n - 1), I(n), I(n + 1), I(100)] + ([I(1)] if n > 2 else [])
        for loops in (1, 2, 3, -1) if quick else (1, 2, 3, 4, -1, -7):
            reach = 3 * n + 2 if loops < 0 else loops * n
            ats = {1, n, n + 1, 2 * n, 2 * n + 1, 3 * n + 1} if quick else set(range(1, reach + 1))
            ats = sorted(a for a in ats if a <= reach)
            if loops > 0:
                ats.append(0)  # never interrupted: draw() returns by itself
            for at in ats:
                out.append(({"n": n, "loops": loops, "at": at}, caches))
    rng = random.Random(rep.seed * 7919 + 9)
    for _ in range(30 if quick else 600):
        n = rng.choice((2, 3) if quick else (2, 3, 5, 12))
        loops = rng.choice([-1, -1, -3, 1, 2, 3, 4, 5])
        at = rng.randrange(1, (4 * n + 2 if loops < 0 else loops * n) + 1)
        if loops > 0 and rng.random() < 0.25:
            at = 0
        c = rng.choice([B(True), I(max(1, n + rng.choice([-2, -1, 0, 1, 7]))), I(100)])
        out.append(({"n": n, "loops": loops, "at": at}, [c]))
    return out


def design(rep: Report) -> None:
    res = tlc.run("MC_DrawCache", "MC_DrawCache.cfg", workers=1, timeout=300, deadlock=False, coverage=True)
    rep.add_tlc(res)
    if res.violated:
        rep.violation(f"design:DrawCache:{res.violated}",
                      f"MC_DrawCache.cfg violates {res.violated}:\n{res.error_text[:1500]}",
                      {"kind": "design", "cfg": "MC_DrawCache.cfg"})
        return
    cov = res.coverage or {}
    if res.distinct < 200 or any(cov.get(a, (0, 0))[0] == 0 for a in ("WriteFrame", "Interrupt")):
        raise tlc.MachineryError(f"vacuous draw() model: {res.distinct} states, coverage {cov}")


def _validate(rep: Report, groups: dict[int, list], parallel=3):
    gen = tlc.OUT / "cfg" / str(__import__("os").getpid())
    gen.mkdir(parents=True, exist_ok=True)

    def one(item):
        n, traces = item
        cfg = gen / f"Trace_DC_{n}.cfg"
        cfg.write_text(CFG.format(n=n))
        return tlc.validate_traces("Trace_DrawCache", str(cfg), traces, batch=2000, parallel=1,
                                   workers=1, timeout=600, name=f"dc{n}")

    items = sorted(groups.items())
    with ThreadPoolExecutor(max_workers=parallel) as ex:
        results = list(ex.map(one, items))
    for (n, traces), (verdicts, st, trn) in zip(items, results):
        rep.states += st
        rep.transitions += trn
        rep.traces_validated += len(traces)
        for tr, v in zip(traces, verdicts):
            if v["verdict"] == "ok":
                continue
            clause = v["verdict"].split(":")[1].split(" ")[0]
            case = {k: tr[k] for k in ("n", "loops", "cache", "at")}
            rep.violation(
                f"Renderable.draw:{clause}",
                f"{v['verdict']} at frame write {v['at']} of draw(loops={tr['loops']}, "
                f"cache={_cache_value(tr['cache'])}) of a {n}-frame animation, Ctrl-C at frame write "
                f"{tr['at'] or 'never'}; per write (frame, renders): "
                + " ".join(f"({e['num']},{e['nr']})" for e in tr["events"][:20]),
                {"kind": "draw", "case": case},
            )


def run(rep: Report) -> None:
    ex = ThreadPoolExecutor(max_workers=1)
    fut = ex.submit(design, rep)  # the design-level model is checked while the real draws run
    try:
        _run(rep)
    finally:
        fut.result()
        ex.shutdown()


def _run(rep: Report) -> None:
    groups: dict[int, list] = {}
    n_draws = 0
    for base, caches in cases(rep):
        twin_tr, twin = record(dict(base, cache=B(False)))
        groups.setdefault(base["n"], []).append(twin_tr)
        n_draws += 1
        for c in caches:
            tr, _ = record(dict(base, cache=c), twin)
            groups[base["n"]].append(tr)
            n_draws += 1
            rep.distinct.add(("draw", base["n"], base["loops"], base["at"], c["kind"], c["b"], c["n"]))
    rep.evaluations += n_draws
    rep.extra["draw_calls"] = n_draws
    _validate(rep, groups)
    t0 = groups[min(groups)][1]
    rep.sample({"draw": {k: t0[k] for k in ("n", "loops", "cache", "at")},
                "writes (frame, renders)": [(e["num"], e["nr"]) for e in t0["events"]], "end": t0["end"]})


def replay_scenario(rep: Report, sc: dict) -> None:
    case = sc["case"]
    _, twin = record(dict(case, cache=B(False)))
    tr, _ = record(case, twin)
    rep.evaluations += 2
    _validate(rep, {case["n"]: [tr]}, parallel=1)
