----------------------------- MODULE TtyLockAbs -----------------------------
(***************************************************************************)
(* C14, property level: the occupancy automaton of the terminal's critical *)
(* section.  `h` is the thread inside (<<>> = nobody; a thread is a        *)
(* sequence, <<t>> in TtyLock, <<process, thread>> in recorded traces),    *)
(* `d` its nesting depth (re-entrant calls).  TtyLock.tla proves that the  *)
(* lock protocol projects onto this automaton (PROPERTY AbsStep);          *)
(* Trace_TtyLock.tla checks that the enter/exit stamps of real runs are    *)
(* behaviours of it.                                                       *)
(***************************************************************************)
EXTENDS Integers, Sequences

AbsFree == [h |-> <<>>, d |-> 0]

AbsEnterClause(s, who) ==
  IF s.h = <<>> \/ s.h = who THEN "ok"
  ELSE "MutualExclusion: a thread entered a synchronized body while another thread was inside one"

AbsEnter(s, who) == [h |-> who, d |-> s.d + 1]

AbsExitClause(s, who) ==
  IF s.h = who /\ s.d > 0 THEN "ok"
  ELSE "MutualExclusion: a thread left a synchronized body that it does not occupy alone"

AbsExit(s, who) == IF s.d <= 1 THEN AbsFree ELSE [h |-> s.h, d |-> s.d - 1]
=============================================================================
