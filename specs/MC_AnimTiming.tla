---------------------------- MODULE MC_AnimTiming ----------------------------
(* Scenario families of AnimTiming (X11).                                                     *)
(*   MC_AnimTiming.cfg        quick:    ScenQuick                                              *)
(*   MC_AnimTimingT.tla/.cfg  thorough: ScenThorough (own module: TLC evaluates every constant  *)
(*                            definition of a module at start-up)                               *)
(*   MC_AnimTiming_var.cfg    seeded regressions of the model (VARIANT from the environment)   *)
(* Every run is linear (Step is a function), so the state graph is a forest: one chain per     *)
(* scenario; EmitRun prints the complete behaviour of every chain.                             *)
EXTENDS AnimTiming

JMax == 12
Bounded == s.j < JMax            \* every scenario of the families ends (infinite loops by Ctrl-C)
Cut == s.j <= JMax

SeqsOf(S, n) == IF n = 0 THEN {<<>>} ELSE [1..n -> S]

Sc(api, indef, n, dyn, d, durs, costs, ec, loops, cache, w, ik, ia, chg, chgv) ==
  [api |-> api, indef |-> indef, n |-> n, dyn |-> dyn, d |-> d, durs |-> durs, costs |-> costs,
   ec |-> ec, loops |-> loops, cache |-> cache, w |-> w, ik |-> ik, ia |-> ia,
   chg |-> chg, chgv |-> chgv]

\* <<dyn, d, durs>>: static durations are positive; a frame's own duration may be 0
DurChoices(n, SD, DD) ==
  {<<FALSE, d, [i \in 1..n |-> d]>> : d \in SD} \cup {<<TRUE, 1, ds>> : ds \in SeqsOf(DD, n)}

LC == {<<1, FALSE>>, <<1, TRUE>>, <<2, FALSE>>, <<2, TRUE>>}
Intrs(m) == {<<k, a>> : k \in {"render", "write", "sleep"}, a \in 1..m}

\* A: timing without interruption, definite frame count
TimingDef(api, N, SD, DD, CS, WS) ==
  UNION {{Sc(api, FALSE, n, dc[1], dc[2], dc[3], cs, 0, lc[1], lc[2], w, "none", 0, 0, 0) :
            dc \in DurChoices(n, SD, IF api = "old" THEN {} ELSE DD), cs \in SeqsOf(CS, n),
            lc \in LC, w \in WS} : n \in N}

\* B: INDEFINITE frame count (new API): K frames then StopIteration; loops / cache are ignored
TimingIndef(K, SD, DD, CS, ECS, WS) ==
  UNION {{Sc("new", TRUE, n, dc[1], dc[2], dc[3], cs, ec, lc[1], lc[2], w, "none", 0, 0, 0) :
            dc \in DurChoices(n, SD, DD), cs \in SeqsOf(CS, n), ec \in ECS,
            lc \in (IF n = 1 THEN LC ELSE {<<1, FALSE>>}), w \in WS} : n \in K}

\* C: Ctrl-C at every point, also of infinite animations
Cuts(api, N, DCS, CS, m) ==
  UNION {{Sc(api, FALSE, n, dc[1], dc[2], dc[3], cs, 0, lc[1], lc[2], 1, ik[1], ik[2], 0, 0) :
            dc \in {x \in DCS : Len(x[3]) = n /\ (api = "old" => ~x[1])}, cs \in SeqsOf(CS, n),
            lc \in LC \cup {<<-1, FALSE>>, <<-1, TRUE>>},
            ik \in {x \in Intrs(m) : x[1] = "render" => x[2] <= n}} : n \in N}
CutsIndef(K, CS, m) ==
  UNION {{Sc("new", TRUE, n, TRUE, 1, [i \in 1..n |-> 2], cs, 2, 1, FALSE, 1, ik[1], ik[2], 0, 0) :
            cs \in SeqsOf(CS, n), ik \in Intrs(m)} : n \in K}

\* D: the user changes frame_duration while the animation runs
Changes(api, N, CS) ==
  UNION {{Sc(api, FALSE, n, FALSE, d, [i \in 1..n |-> d], cs, 0, lc[1], lc[2], 0, "none", 0, c, d + 2) :
            d \in {2, 4}, cs \in SeqsOf(CS, n), lc \in {<<1, FALSE>>, <<2, TRUE>>}, c \in 1..n} :
         n \in N}

\* E: loops = 0 is refused
Refused == {Sc(api, FALSE, 2, FALSE, 2, <<2, 2>>, <<1, 1>>, 0, 0, c, 0, "none", 0, 0, 0) :
              api \in {"new", "old"}, c \in BOOLEAN}

DC2 == {<<FALSE, 2, <<2, 2>>>>, <<TRUE, 1, <<1, 4>>>>, <<TRUE, 1, <<0, 2>>>>}
DC3 == {<<FALSE, 2, <<2, 2, 2>>>>, <<TRUE, 1, <<1, 4, 0>>>>}

ScenQuick ==
  TimingDef("new", {2}, {2, 4}, {0, 1, 4}, {0, 1, 2, 5}, {0, 1})
  \cup TimingDef("new", {3}, {2}, {0, 4}, {0, 5}, {1})
  \cup TimingDef("old", {2}, {2, 4}, {}, {0, 1, 2, 5}, {0, 1})
  \cup TimingIndef({0, 1, 2}, {2}, {0, 1, 4}, {0, 1, 5}, {0, 2}, {0, 1})
  \cup Cuts("new", {2}, DC2, {0, 2}, 4) \cup Cuts("old", {2}, DC2, {0, 2}, 4)
  \cup CutsIndef({0, 1, 2}, {0, 2}, 3)
  \cup Changes("new", {2}, {0, 5}) \cup Changes("old", {2}, {0, 5})
  \cup Refused

ScenVar ==
  TimingDef("new", {2}, {2, 4}, {0, 1, 4}, {0, 1, 5}, {0, 1})
  \cup TimingDef("old", {2}, {2, 4}, {}, {0, 1, 5}, {0, 1})
  \cup Changes("new", {2}, {0, 5})
=============================================================================
