"""Edge dump -> labelled graph -> covering walks (spec -> code replay, DESIGN 2.4).

A spec run with ``ACTION_CONSTRAINT Dump`` prints one ``EDGE`` line per generated
transition: ``{"from": <state projection>, "op": <operation with args and expected
observable result>, "to": <state projection>}`` and one ``INIT`` line per initial state.
``walks()`` returns a list of walks (each a list of edges starting in an initial state)
that together traverse **every** edge at least once; each walk is meant to be executed
on a fresh real object, comparing the real observation with ``op``/``to`` after every
step.
"""

from __future__ import annotations

import json
from collections import defaultdict, deque


def key(obj) -> str:
    return json.dumps(obj, sort_keys=True, separators=(",", ":"))


class Graph:
    def __init__(self, edges: list[dict], inits: list | None = None):
        self.out: dict[str, list[tuple[int, str]]] = defaultdict(list)
        self.edges: list[dict] = []
        seen = set()
        indeg = defaultdict(int)
        for e in edges:
            kf, kt = key(e["from"]), key(e["to"])
            ek = (kf, key(e["op"]), kt)
            if ek in seen:
                continue
            seen.add(ek)
            self.edges.append(e)
            self.out[kf].append((len(self.edges) - 1, kt))
            indeg[kt] += 1
            self.out.setdefault(kt, [])
        if inits is not None:
            self.inits = [key(i) for i in inits]
        else:
            self.inits = [k for k in self.out if indeg[k] == 0]
        self.inits = list(dict.fromkeys(self.inits))

    @property
    def nodes(self) -> int:
        return len(self.out)

    def walks(self, max_len: int = 40) -> list[list[dict]]:
        """Edge cover: for every node (in BFS order) that still has untraversed out-edges,
        take the BFS-tree path to it and then keep following untraversed edges (self-loops
        first, so that rejected/no-op operations are packed into the same walk)."""
        untrav: dict[str, list[int]] = {}
        dest: dict[int, str] = {}
        for k, outs in self.out.items():
            loops = [i for i, kt in outs if kt == k]
            moves = [i for i, kt in outs if kt != k]
            untrav[k] = moves[::-1] + loops[::-1]  # pop() takes self-loops first
            for i, kt in outs:
                dest[i] = kt
        # BFS tree
        prev: dict[str, tuple[str, int] | None] = {k: None for k in self.inits}
        order = list(self.inits)
        dq = deque(self.inits)
        while dq:
            u = dq.popleft()
            for i, v in self.out[u]:
                if v not in prev:
                    prev[v] = (u, i)
                    order.append(v)
                    dq.append(v)
        self.unreachable_edges = sum(len(v) for k, v in untrav.items() if k not in prev)
        walks: list[list[dict]] = []
        for start in order:
            while untrav[start]:
                path: list[int] = []
                u = start
                while prev[u] is not None:
                    pu, i = prev[u]  # type: ignore[misc]
                    path.append(i)
                    u = pu
                path.reverse()
                u = start
                n = 0
                while untrav[u] and n < max_len:
                    i = untrav[u].pop()
                    path.append(i)
                    n += 1
                    u = dest[i]
                walks.append([self.edges[i] for i in path])
        return walks


def from_result(res) -> Graph:
    edges = res.tagged("EDGE")
    inits = res.tagged("INIT")
    return Graph(edges, inits or None)
