--------------------------- MODULE MC_ValueTypes ---------------------------
(***************************************************************************)
(* X01: alphabets for the configurations of ValueTypes (cfg files cannot    *)
(* hold negative literals or tuples of strings).                            *)
(*   E_* small alphabets: complete edge dump, every edge replayed (quick)    *)
(*   M_* richer alphabets: exhaustive check of the laws, simulation          *)
(*   C_* tiny alphabets, deep store: chains resolve -> to_exact -> size ...   *)
(***************************************************************************)
EXTENDS ValueTypes

AllAligns == {<<ha, va>> : ha \in HNames, va \in VNames}
Diag == {<<"LEFT", "TOP">>, <<"CENTER", "MIDDLE">>, <<"RIGHT", "BOTTOM">>}
Prod(Ws, Hs, As, Fs) == {<<w, h, a[1], a[2], f>> : w \in Ws, h \in Hs, a \in As, f \in Fs}

(* terminals: 4x3 is smaller than the relative dimensions -5 / -3 (clamp to 1) *)
TermsAll == {<<4, 3>>, <<9, 6>>}
RSsAll == {<<1, 1>>, <<3, 2>>, <<6, 4>>}

\* ---- E: every edge replayed -------------------------------------------------
E_AlignedSeeds ==
  {<<0 - 5, 0 - 3, "LEFT", "TOP", " ">>, <<0, 5, "CENTER", "MIDDLE", "#">>,
   <<4, 0, "RIGHT", "BOTTOM", "">>, <<4, 5, "CENTER", "MIDDLE", " ">>,
   <<4, 5, "LEFT", "BOTTOM", "">>, <<7, 2, "RIGHT", "MIDDLE", "#">>,
   <<1, 1, "CENTER", "TOP", " ">>, <<0 - 1, 0 - 2, "CENTER", "BOTTOM", " ">>}
E_AlignedDefaultSeeds == {<<0, 0 - 2>>, <<4, 5>>}
E_ExactSeeds == {<<0, 0, 0, 0, " ">>, <<1, 2, 3, 4, "#">>, <<2, 0, 1, 0, "">>, <<0, 1, 0, 2, " ">>,
                 <<0 - 1, 0, 0, 0, " ">>, <<0, 0, 0, 0 - 1, "#">>, <<1, 0 - 2, 0 - 1, 1, " ">>}
E_RebuildInts == {0 - 1, 0, 1, 5}
E_Fills == {" ", "#", ""}
E_SizeSeeds == {<<1, 1>>, <<3, 2>>, <<0, 1>>, <<3, 0>>, <<2, 0 - 1>>, <<0, 0>>}
E_SizeReplace == {0, 3}

E_ColorSeeds == {<<0, 0, 0, 0>>, <<255, 255, 255, 255>>, <<1, 15, 16, 127>>, <<128, 254, 0, 255>>,
                 <<256, 0, 0, 0>>, <<0, 0 - 1, 0, 0>>, <<0, 0, 300, 0>>, <<0, 0, 0, 256>>,
                 <<0, 0, 0, 0 - 1>>, <<0 - 256, 256, 0, 0>>}
E_RgbSeeds == {<<0, 10, 127>>, <<255, 255, 255>>, <<0, 0, 256>>, <<0 - 1, 0, 0>>}
E_ChanReplace == {0, 255, 256, 0 - 1}

H == 22
Rep(c, k) == [i \in 1..k |-> c]
E_StrSeeds ==
  {<<H, 0, 0, 0, 10, 7, 15, 15, 15>>,            \* "#000a7fff"
   <<0, 0, 0, 10, 7, 15>>,                       \* "000a7f"
   <<H, 16, 17, 18, 19, 20, 21>>,                \* "#ABCDEF"
   <<10, 17, 12, 19, 14, 21, 1, 2>>,             \* "aBcDeF12"
   <<15, 15, 15, 15, 15, 15, 0, 0>>,             \* "ffffff00"
   <<>>, <<H>>,                                  \* "", "#"
   <<H, 0, 0, 0>>, <<H, 15, 15, 15, 15>>,        \* "#000", "#ffff"
   <<H, 1, 2, 3, 4, 5>>,                         \* "#12345"
   <<10, 11, 12, 13, 14, 15, 23>>,               \* "abcdefg"
   <<H, H, 0, 0, 0, 0, 0, 0>>,                   \* "##000000"
   <<H>> \o Rep(0, 7), <<H>> \o Rep(0, 9),       \* 7 and 9 digits
   <<24>> \o Rep(0, 6), Rep(0, 6) \o <<25>>,     \* " 000000", "000000\n"
   <<H, 0, 0, 0, 0, 0, 23>>, <<H, 0, 0, 0, 0, 0, 30>>,   \* "#00000g", "#00000G"
   <<0, 26, 0, 0, 0, 0>>,                        \* "0x0000"
   Rep(27, 6),                                   \* six fullwidth zeros
   <<28, 15, 0, 0, 0, 0>>, <<15, 29, 15, 0, 0, 0>>, <<24, 15, 0, 0, 0, 0>>,  \* "+f0000", "f_f000", " f0000"
   Rep(0, 6) \o <<H>>}                           \* "000000#"

ChanAlphabet == {0, 1, 15, 16, 127, 128, 254, 255}
ChanBad == {0 - 256, 0 - 1, 256, 511}

\* ---- Q: medium alphabets (laws, quick tier) -------------------------------------
Q_AlignedSeeds == Prod({0 - 5, 0, 4}, {0 - 3, 1, 5}, Diag \cup {<<"CENTER", "TOP">>, <<"LEFT", "MIDDLE">>}, {" ", ""})
Q_AlignedDefaultSeeds == {<<0, 0 - 2>>, <<4, 5>>, <<1, 1>>}
Q_ExactSeeds == {<<l, t, r, b, f>> : l \in {0 - 1, 0, 2}, t \in {0, 1}, r \in {0, 3}, b \in {0 - 2, 0, 2}, f \in {" ", ""}}
Q_RebuildInts == {0 - 6, 0 - 1, 0, 1, 5, 8}
Q_SizeSeeds == {<<w, h>> : w \in {0 - 2, 0, 1, 3}, h \in {0 - 1, 0, 1, 4}}
Q_SizeReplace == {0 - 1, 0, 1, 3}
Q_ColorSeeds ==
  {<<r, g, b, a>> : r \in {0, 255}, g \in {1, 128}, b \in {16, 254}, a \in {0, 127, 255}}
  \cup {<<x, 0, 0, 0>> : x \in ChanBad} \cup {<<0, x, 0, 0>> : x \in ChanBad}
  \cup {<<0, 0, x, 0>> : x \in ChanBad} \cup {<<0, 0, 0, x>> : x \in ChanBad}
  \cup {<<c, c, c, c>> : c \in ChanAlphabet}
Q_RgbSeeds == {<<c, 255 - c, c>> : c \in ChanAlphabet} \cup {<<0, 0, 256>>, <<0 - 1, 0, 0>>, <<0, 300, 0>>}
Q_ChanReplace == ChanAlphabet \cup ChanBad

\* ---- M: richer alphabets (laws, simulation) ------------------------------------
M_AlignedSeeds == Prod({0 - 5, 0 - 1, 0, 1, 4, 7}, {0 - 3, 0, 1, 2, 5}, AllAligns, {" ", "#", ""})
M_AlignedDefaultSeeds == {<<0, 0 - 2>>, <<4, 5>>, <<0 - 5, 0 - 3>>, <<1, 1>>}
M_ExactSeeds == {<<l, t, r, b, f>> : l \in {0 - 1, 0, 2}, t \in {0, 1}, r \in {0, 1, 3}, b \in {0 - 2, 0, 2},
                                      f \in {" ", "#", ""}}
M_RebuildInts == {0 - 6, 0 - 1, 0, 1, 2, 5, 8}
M_SizeSeeds == {<<w, h>> : w \in {0 - 2, 0, 1, 3, 6}, h \in {0 - 1, 0, 1, 2, 4}}
M_SizeReplace == {0 - 1, 0, 1, 3}
M_ColorSeeds ==
  {<<r, g, b, a>> : r \in {0, 15, 255}, g \in {1, 128}, b \in {16, 254}, a \in {0, 127, 255}}
  \cup {<<x, 0, 0, 0>> : x \in ChanBad} \cup {<<0, x, 0, 0>> : x \in ChanBad}
  \cup {<<0, 0, x, 0>> : x \in ChanBad} \cup {<<0, 0, 0, x>> : x \in ChanBad}
  \cup {<<c, c, c, c>> : c \in ChanAlphabet}
M_RgbSeeds == {<<c, 255 - c, c>> : c \in ChanAlphabet} \cup {<<0, 0, 256>>, <<0 - 1, 0, 0>>, <<0, 300, 0>>}
M_ChanReplace == ChanAlphabet \cup ChanBad

\* ---- C: tiny alphabets, deep store ----------------------------------------------
C_AlignedSeeds == {<<0 - 5, 0 - 3, "CENTER", "MIDDLE", "#">>, <<0, 5, "RIGHT", "TOP", "">>}
C_AlignedDefaultSeeds == {}
C_ExactSeeds == {<<1, 0, 2, 1, " ">>}
C_Terms == {<<4, 3>>, <<9, 6>>}
C_RSs == {<<3, 2>>}
C_RebuildInts == {0 - 1}
C_Fills == {"#"}
C_SizeSeeds == {<<2, 1>>}
C_SizeReplace == {0}
C_ColorSeeds == {<<1, 15, 16, 127>>, <<0, 0, 0, 256>>}
C_RgbSeeds == {<<255, 128, 0>>}
C_ChanReplace == {300}
C_StrSeeds == {<<H, 16, 17, 18, 19, 20, 21>>, <<0, 0, 0, 10, 7, 15, 1, 2>>, <<H, 0, 0, 0>>}
=============================================================================
