"""X05 (extension) - the control-sequence vocabulary of term-image (src/term_image/_ctlseqs.py).

model:     specs/CtlSeqs.tla (+ CtlSeqsPatterns.tla): for every name of the module the documented
           byte string, the token(s) VT.tla's parser must see, the documented effect on a
           Terminal.tla terminal; the languages of the compiled patterns.
           MC_CtlSeqsTable  one state per (name, arguments) row: static laws (one complete
                            sequence, intended kind/parameters, ground state) on the documented bytes
           MC_CtlSeqs       the vocabulary written to a terminal: one named action per name, the
                            dynamic laws (effects, inverses, frames, deletes, brackets)
           MC_CtlSeqsPat    documented answers + every one-symbol near-miss vs. the pattern languages
spec->code: every dumped table ROW is instantiated from the REAL module (str and bytes twin), lexed
           with harness/lexer.py and judged by TLC (Trace_CtlSeqs, kind row); every EDGE of the
           terminal model is replayed in covering walks: the real strings' tokens are folded through
           Terminal!Apply by TLC and compared with the dumped target state after every step
           (kind walk); every PAT row is run through the real compiled patterns.
code->spec: seeded random histories of operations with random arguments on larger terminals
           (kind walk, judged against Effect), seeded random edits of answers through the real
           patterns (kind match, judged against Match), the module's __all__ (kind names).
guards:    a name of the module that the spec does not know (or the reverse) -> exit 2; a tampered
           table row, a tampered edge, a corrupted history and a flipped pattern result must each be
           rejected by TLC, else exit 2.
"""

from __future__ import annotations

import json
import random
import time
from concurrent.futures import ThreadPoolExecutor

from .. import graph, tlc
from .. import x05_kit as K
from ..core import Report

ASSUMPTIONS = [
    "the documents the module cites are the oracle: xterm ctlseqs (CSI Ps A/B/C/D/X, CSI Pm m, CSI ? Pm h/l, "
    "CSI Ps t with reports 4/6 for requests 14/16, CSI c, CSI > q with DCS > | text ST, OSC Ps ; Pt ST|BEL), "
    "XParseColor (rgb:<r>/<g>/<b>, 1-4 hex digits, each scaled on its own), the synchronized-output "
    "proposal (mode 2026), the kitty graphics protocol and iTerm2's inline-images page",
    "terminal semantics are those of specs/Terminal.tla (shared with C01/C06/C17/C18): a count of 0 means 1 "
    "in CUU/CUD/CUF/CUB/ECH, movements clamp at the margins and clear the pending wrap, ECH erases in the "
    "current background without moving the cursor, kitty d=A/C/Z, a=q is invisible, a non-chunk command "
    "inside a chunked transfer is a protocol error",
    "equality of control sequences is equality of the lexed tokens (parameters included) and, for graphics "
    "commands, of the control keys as a SET (the protocol does not order them); the spelling of a number "
    "is not compared except for the printf placeholders C / Ps / Pt / Pm",
    "a pattern's language is what re.fullmatch accepts; the callers' use of re.match on a longer reply "
    "stream is covered by the in-context rows (documented answer followed by DA1's answer or by itself)",
    "x_parse_color: an 8-bit channel is acceptable when it is less than 1 away from 255 * v / (16^n - 1) "
    "(rounding direction is not documented); the pre-X11R5 '#rgb' syntax is documented as unsupported",
]

MC_ACTIONS = (
    "Type", "Bel", "St", "CursorUpFn", "CursorDownFn", "CursorForwardFn", "CursorBackwardFn", "CursorUp",
    "CursorDown", "CursorForward", "CursorBackward", "EraseChars", "SgrGeneric", "SgrDefaultC", "SgrFgDirect",
    "SgrBgDirect", "SgrFgDirect2", "SgrBgDirect2", "DecSet", "DecRst", "ShowCursor", "HideCursor",
    "BeginSyncedUpdate", "EndSyncedUpdate", "XtWinops1", "TextAreaSizePx", "CellSizePx", "Da1", "XtVersion",
    "TextParamSet", "TextParamQuery", "TextFgQuery", "TextBgQuery", "KittyTransmission", "KittyDeleteC",
    "KittyDeleteExtra", "KittySupportQuery", "KittyEndChunked", "KittyDeleteAll", "KittyDeleteCursor",
    "KittyDeleteZIndex",
)
PAT_ACTIONS = ("Drop", "Insert", "Change")
TRACE = ("Trace_CtlSeqs", "Trace_CtlSeqs.cfg")


# ------------------------------------------------------------------ helpers
def trace(kind: str, steps: list, cols=1, rows=1, r0=0, c0=0, whole=None) -> dict:
    return {"kind": kind, "cols": cols, "rows": rows, "r0": r0, "c0": c0, "whole": whole or [], "steps": steps}


def validate(traces: list[dict], name: str, batch: int, parallel: int = 3):
    if not traces:
        return [], 0, 0
    return tlc.validate_traces(*TRACE, traces, batch=batch, parallel=parallel, workers=2, timeout=1500, name=name)


def require_actions(res, actions, what: str) -> dict:
    vac = [a for a in actions if res.coverage.get(a, (0, 0))[1] == 0]
    if vac:
        raise tlc.MachineryError(f"x05: vacuous actions in {what}: {vac}")
    return {a: res.coverage[a][1] for a in actions}


def head(verdict: str) -> str:
    return verdict.split(":", 1)[0]


def signature(v: dict) -> str:
    return f"ctlseqs:{v['who']}:{head(v['verdict'])}"


def report(rep: Report, traces, scenarios, validated, origin: str, describe):
    verdicts, st, tr = validated
    rep.states += st
    rep.transitions += tr
    rep.traces_validated += len(traces)
    bad = 0
    for t, sc, v in zip(traces, scenarios, verdicts):
        if v["verdict"] == "ok":
            continue
        if head(v["verdict"]) == "lexer-disagrees":
            raise tlc.MachineryError(f"x05: {v['verdict']} ({origin}, {v['who']}, step {v['at']}): "
                                     f"{json.dumps(t['steps'][max(v['at'] - 1, 0)])[:600]}")
        if head(v["verdict"]) == "table-row-not-from-spec":
            raise tlc.MachineryError(f"x05: {v['verdict']} ({origin}, {v['who']})")
        bad += 1
        rep.violation(signature(v), f"[{origin}] {v['who']}: {v['verdict']} (step {v['at']})\n" + describe(t, v), sc)
    return bad


def must_reject(v: dict, want_head: str, what: str) -> str:
    if v["verdict"] == "ok" or head(v["verdict"]) != want_head:
        raise tlc.MachineryError(f"x05: {what} was not rejected as {want_head!r}: {v}")
    return v["verdict"]


# ------------------------------------------------------------------ descriptions
def show_op(op: dict) -> str:
    args = [str(x) for x in op["n"]] + [repr(K.text_of(x)) for x in op["s"]]
    return f"{op['name']}({', '.join(args)})"


def describe_row(t, v):
    e = t["steps"][0]
    lines = [f"  operation {show_op(e['op'])}" + (f" + {K.text_of(e['suf'])!r}" if e["suf"] else "")]
    if e["op"]["name"] == "x_parse_color":
        lines.append(f"  returned {e['val']}, table {e['vlo']}..{e['vhi']}")
    else:
        lines.append(f"  real string   {K.text_of(e['chars'])!r}")
        if e["hasb"]:
            lines.append(f"  real bytes    {K.text_of(e['bchars'])!r}")
        lines.append(f"  documented    {K.text_of(e['bytes'])!r}")
        lines.append(f"  lexed tokens  {[(x['k'], x['n'], x['p'], x['g']) for x in e['toks']]} end {e['end']}")
        lines.append(f"  table tokens  {[(x['k'], x['n'], x['p'], x['g']) for x in e['exp']['toks']]} end {e['exp']['end']}")
    return "\n".join(lines)


def describe_walk(t, v):
    at = v["at"]
    head_ = f"  terminal {t['cols']}x{t['rows']}, cursor starts at row {t['r0']} column {t['c0']}; last operations:"
    lines = []
    for i, e in enumerate(t["steps"][:at], 1):
        lines.append(f"  {i}. {show_op(e['op'])} -> {K.text_of(e['chars'])!r}")
    lines = lines[-7:]
    if 0 < at <= len(t["steps"]) and t["steps"][at - 1]["hasexp"]:
        lines.append(f"  dumped target state: {json.dumps(t['steps'][at - 1]['exp'])[:400]}")
    return "\n".join([head_] + lines)


def describe_match(t, v):
    e = t["steps"][0]
    lines = [f"  string {K.text_of(e['s'])!r}" + (f" followed by {K.text_of(e['ctx'])!r} (re.match)" if e["ctx"] else " (re.fullmatch)")]
    for name, r in zip(K.PATTERNS, e["res"]):
        lines.append(f"  {name}: {'groups ' + str([K.text_of(g) if g != K.ABSENT else None for g in r['g']]) if r['m'] else 'no match'}")
    return "\n".join(lines)


def describe_names(t, v):
    return f"  __all__ = {t['steps'][0]['all']}"


# ------------------------------------------------------------------ spec -> code: rows
def rows_part(rep: Report, mod, rows: list[dict], names: dict):
    # guard: no name of the module escapes the table, and the table names nothing that is not there
    have, exported = K.module_names(mod)
    want = set(names) | {n + "_b" for n, srt in names.items() if srt in ("fragment", "constant", "template")}
    if have != want:
        raise tlc.MachineryError(
            f"x05: the module's names and the specified vocabulary differ: not in specs/CtlSeqs.tla: "
            f"{sorted(have - want)}; specified but missing from the module: {sorted(want - have)}")
    by_name = {}
    for r in rows:
        by_name.setdefault(r["op"]["name"], []).append(r)
    missing = [n for n, srt in names.items() if srt != "pattern" and n not in by_name]
    if missing:
        raise tlc.MachineryError(f"x05: names without a table row: {missing}")
    traces = [trace("row", [K.row_step(mod, r)]) for r in rows]
    scen = [{"kind": "row", "row": r} for r in rows]
    traces.append(trace("names", [{"all": exported}]))
    scen.append({"kind": "names"})
    # canaries: a tampered table row (expected token parameter changed) and a real string whose bytes
    # twin differs must be rejected
    src = next(t for t in traces if t["steps"][0]["op"]["name"] == "CURSOR_DOWN" and t["steps"][0]["op"]["n"] == [2])
    tam = json.loads(json.dumps(src))
    tam["steps"][0]["exp"]["toks"][0]["n"] += 1
    twin = json.loads(json.dumps(src))
    twin["steps"][0]["bchars"][-1] = "A"
    return traces, scen, [tam, twin]


# ------------------------------------------------------------------ spec -> code: walks
def walks_part(mod, res_e, how: dict):
    geom = res_e.tagged("GEOM")
    # (several workers print the edges in varying order: sort, so that a seed determines the run)
    g = graph.Graph(sorted(res_e.tagged("EDGE"), key=graph.key), res_e.tagged("INIT") or None)
    if not g.edges or not geom:
        raise tlc.MachineryError("x05: the edge dump is empty")
    walks = g.walks(max_len=80)
    if g.unreachable_edges:
        raise tlc.MachineryError(f"x05: {g.unreachable_edges} dumped edges are unreachable")
    traces, scen = [], []
    for w in walks:
        t = build_walk(mod, how, geom[0]["cols"], geom[0]["rows"], 0, 0, [e["op"] for e in w], [e["to"] for e in w])
        traces.append(t)
        scen.append({"kind": "walk", "cols": t["cols"], "rows": t["rows"], "r0": 0, "c0": 0,
                     "ops": [e["op"] for e in w], "exp": [e["to"] for e in w]})
    # canary: a tampered edge (target cursor column changed) must be noticed
    src = next(t for t in traces if len(t["steps"]) >= 2)
    tam = json.loads(json.dumps(src))
    tam["steps"] = tam["steps"][:2]
    tam["whole"] = [x["k"] for s in tam["steps"] for x in s["toks"]]
    tam["steps"][1]["exp"]["c"] = (tam["steps"][1]["exp"]["c"] + 1) % tam["cols"]
    return g, walks, traces, scen, [tam]


def build_walk(mod, how, cols, rows, r0, c0, ops, exps=None) -> dict:
    steps, text = [], ""
    for i, op in enumerate(ops):
        st, tx = K.walk_step(mod, op, how[op["name"]], exps[i] if exps else None)
        steps.append(st)
        text += tx
    return trace("walk", steps, cols, rows, r0, c0, K.whole_kinds(text))


# ------------------------------------------------------------------ code -> spec: random histories
def gen_history(rng: random.Random, rows: list[dict], tier: str):
    cols, nrows = rng.randint(3, 12), rng.randint(2, 5)
    by = {}
    for r in rows:
        if not r["suf"]:
            by.setdefault(r["op"]["name"], []).append(r["op"])
    places = [o for o in by["KITTY_TRANSMISSION"] if K.text_of(o["s"][0]).startswith("a=T") and K.text_of(o["s"][0]).endswith("m=0")]
    firsts = [o for o in by["KITTY_TRANSMISSION"] if K.text_of(o["s"][0]).startswith("a=T") and K.text_of(o["s"][0]).endswith("m=1")]
    chunk = {K.text_of(o["s"][0]): o for o in by["KITTY_TRANSMISSION"] if K.text_of(o["s"][0]).startswith("m=")}
    sgr = [o for o in by["SGR"] if ";5;" not in K.text_of(o["s"][0])]
    zextra = [o for o in by["KITTY_DELETE_EXTRA"] if K.text_of(o["s"][0]) in "Zz"]

    def op(name, n=(), s=()):
        return {"name": name, "n": list(n), "s": [K.symbols(x) for x in s]}

    ops, depth, open_rx = [], 0, False
    length = rng.randint(10, 30) if tier == "quick" else rng.randint(20, 60)
    for _ in range(length):
        r = rng.random()
        if open_rx and r < 0.85:
            c = rng.random()
            ops.append(chunk["m=1"] if c < 0.4 else (chunk["m=0"] if c < 0.7 else op("KITTY_END_CHUNKED")))
            open_rx = c < 0.4
        elif r < 0.16:
            ops.append(op(rng.choice(["cursor_up", "cursor_down", "cursor_forward", "cursor_backward"]),
                          [rng.choice([-2, -1, 0, 0, 1, 1, 2, 3, rng.randint(1, cols + 2), 65535])]))
        elif r < 0.28:
            ops.append(op(rng.choice(["CURSOR_UP", "CURSOR_DOWN", "CURSOR_FORWARD", "CURSOR_BACKWARD"]),
                          [rng.choice([0, 1, 1, 2, 3, rng.randint(0, cols + 2), 65535])]))
        elif r < 0.36:
            ops.append(op("ERASE_CHARS", [rng.choice([0, 1, 2, rng.randint(0, cols + 2)])]))
        elif r < 0.50:
            ops.append(op("type"))
        elif r < 0.60:
            ops.append(op(rng.choice(["SGR_FG_DIRECT", "SGR_BG_DIRECT", "SGR_FG_DIRECT_2", "SGR_BG_DIRECT_2"]),
                          [rng.choice([0, 255, rng.randint(0, 255)]) for _ in range(3)]))
        elif r < 0.65:
            ops.append(rng.choice([op("SGR_DEFAULT")] + sgr))
        elif r < 0.70:
            ops.append(op(rng.choice(["HIDE_CURSOR", "SHOW_CURSOR"])))
        elif r < 0.75:
            if depth and rng.random() < 0.6:
                ops.append(rng.choice([op("END_SYNCED_UPDATE"), op("DECRST", [2026])]))
                depth -= 1
            else:
                ops.append(rng.choice([op("BEGIN_SYNCED_UPDATE"), op("DECSET", [2026])]))
                depth += 1
        elif r < 0.78:
            ops.append(op(rng.choice(["DECSET", "DECRST"]), [rng.choice([1, 7, 25, 1049])]))
        elif r < 0.83:
            ops.append(rng.choice([op("DA1"), op("XTVERSION"), op("TEXT_AREA_SIZE_PX"), op("CELL_SIZE_PX"),
                                   op("TEXT_FG_QUERY"), op("TEXT_BG_QUERY"), op("KITTY_SUPPORT_QUERY"), op("BEL"),
                                   op("ST"), op("XTWINOPS_1", [rng.choice([14, 16, 18])]),
                                   op("TEXT_PARAM_QUERY", [rng.choice([4, 10, 11, 12])]),
                                   op("TEXT_PARAM_SET", [rng.choice([0, 2, 10])], [rng.choice(["t", "rgb:1/2/3", ""])]),
                                   op("KITTY_END_CHUNKED")]))
        elif r < 0.91:
            if rng.random() < 0.25 and firsts:
                ops.append(rng.choice(firsts))
                open_rx = True
            else:
                ops.append(rng.choice(places))
        else:
            ops.append(rng.choice([op("KITTY_DELETE_ALL"), op("KITTY_DELETE_CURSOR"), op("KITTY_DELETE_CURSOR"),
                                   op("KITTY_DELETE_Z_INDEX", [rng.choice([0, 5, -1, 1, 2147483647])]),
                                   op("KITTY_DELETE", [], [rng.choice("AaCc")]), rng.choice(zextra)]))
    return cols, nrows, rng.randrange(nrows), rng.randrange(cols), ops


# ------------------------------------------------------------------ patterns
def pattern_rows(mod, rows: list[dict]):
    diffs = []
    for r in rows:
        real = K.run_patterns(mod, r["s"], r["ctx"])
        if real != r["res"]:
            diffs.append(trace("match", [{"s": r["s"], "ctx": r["ctx"], "res": real}]))
    return diffs


EDIT_ALPHABET = list("0123456789abcfgxGIPt;:,=/()[]_ ?>|\\-.") + ["ESC", "BEL", "LF", "CR", "U+00E9", "U+0663", "U+FF11"]


def random_matches(mod, rng: random.Random, rows: list[dict], count: int):
    seeds = [r["s"] for r in rows if not r["ctx"] and any(x["m"] for x in r["res"])]
    out = []
    hexd = "0123456789abcdefABCDEF"
    for i in range(count):
        kind = i % 6
        if kind == 0:  # fresh documented answers with random fields
            c = rng.random()
            if c < 0.3:
                s = f"\x1b[{rng.choice('46')};{rng.randrange(10 ** rng.randint(1, 9))};{rng.randrange(10 ** rng.randint(1, 9))}t"
            elif c < 0.6:
                comps = ["".join(rng.choice(hexd) for _ in range(rng.randint(1, 4))) for _ in range(3)]
                s = f"\x1b]{rng.choice([10, 11, 12, 4, 708])};rgb:{'/'.join(comps)}" + rng.choice(["\x1b\\", "\x07"])
            elif c < 0.8:
                name = "".join(rng.choice("abXYZ_09") for _ in range(rng.randint(1, 8)))
                ver = "".join(rng.choice("0123456789.-ab ") for _ in range(rng.randint(1, 10)))
                s = "\x1bP>|" + name + (f"({ver})" if rng.random() < 0.5 else f" {ver}") + "\x1b\\"
            else:
                msg = rng.choice(["OK", "ENOENT:no such file", "EINVAL:x;y,z", "E"])
                s = f"\x1b_Gi={rng.randrange(10 ** rng.randint(1, 9))}" + (f",I={rng.randrange(100)}" if rng.random() < 0.4 else "") + f";{msg}\x1b\\"
            s = K.symbols(s)
        else:
            s = list(rng.choice(seeds))
            for _ in range(rng.randint(1, 3)):
                e = rng.random()
                pos = rng.randrange(len(s) + 1)
                if e < 0.3 and s:
                    del s[min(pos, len(s) - 1)]
                elif e < 0.65:
                    s.insert(pos, rng.choice(EDIT_ALPHABET))
                elif s:
                    s[min(pos, len(s) - 1)] = rng.choice(EDIT_ALPHABET)
        out.append(trace("match", [{"s": s, "ctx": [], "res": K.run_patterns(mod, s, [])}]))
    return out


# ------------------------------------------------------------------ replay of one scenario
def _replay(rep: Report, sc: dict) -> None:
    mod = K.module()
    kind = sc.get("kind")
    if kind == "design":
        res = tlc.run(sc["spec"], sc["cfg"], workers=4, timeout=3000)
        rep.add_tlc(res)
        if res.violated:
            rep.violation(f"design:{sc['spec']}:{res.violated}", res.error_text[:1500], sc)
        return
    rt = tlc.run("MC_CtlSeqsTable", "MC_CtlSeqsTable.cfg", workers=2, timeout=600)
    how = rt.tagged("HOW")[0]
    if kind == "row":
        t, d = trace("row", [K.row_step(mod, sc["row"])]), describe_row
    elif kind == "names":
        t, d = trace("names", [{"all": K.module_names(mod)[1]}]), describe_names
    elif kind == "walk":
        t = build_walk(mod, how, sc["cols"], sc["rows"], sc["r0"], sc["c0"], sc["ops"], sc.get("exp"))
        d = describe_walk
    elif kind == "match":
        t = trace("match", [{"s": sc["s"], "ctx": sc["ctx"], "res": K.run_patterns(mod, sc["s"], sc["ctx"])}])
        d = describe_match
    else:
        raise tlc.MachineryError(f"x05: unknown replay scenario {kind!r}")
    rep.evaluations += len(t["steps"])
    report(rep, [t], [sc], validate([t], "x05-replay", 1), "replay", d)


# ------------------------------------------------------------------ main
def main(rep: Report, replay: dict | None) -> None:
    rep.assumptions += ASSUMPTIONS
    rep.rule = (
        "spec->code: every row of the dumped table (name x boundary arguments) instantiated from the real "
        "module and judged by TLC; every edge of the bounded terminal model replayed in covering walks; every "
        "enumerated answer / near-miss run through the real patterns; code->spec: seeded random histories and "
        "random edited answers; distinct_nontrivial = distinct table rows + distinct (state, operation) edges + "
        "distinct pattern strings + distinct random histories")
    if replay:
        _replay(rep, replay["scenario"])
        return
    quick = rep.tier == "quick"
    timing = rep.extra.setdefault("timing_s", {})
    t0 = time.time()

    def lap(name):
        nonlocal t0
        timing[name] = round(time.time() - t0, 1)
        t0 = time.time()

    mod = K.module()
    mc_cfg = "MC_CtlSeqs_quick.cfg" if quick else "MC_CtlSeqs_thorough.cfg"
    pat_cfg = "MC_CtlSeqsPat_quick.cfg" if quick else "MC_CtlSeqsPat_thorough.cfg"
    with ThreadPoolExecutor(max_workers=8) as ex:
        f_table = ex.submit(tlc.run, "MC_CtlSeqsTable", "MC_CtlSeqsTable.cfg", workers=2, timeout=600)
        f_edges = ex.submit(tlc.run, "MC_CtlSeqs", "MC_CtlSeqs_edges.cfg", workers=3, timeout=900, coverage=True)
        f_pat = ex.submit(tlc.run, "MC_CtlSeqsPat", pat_cfg, workers=2 if quick else 4, timeout=1500, coverage=True)
        f_mc = ex.submit(tlc.run, "MC_CtlSeqs", mc_cfg, workers=4 if quick else 8, timeout=600 if quick else 3000,
                         coverage=True)

        # ---- the table ---------------------------------------------------------------
        res_t = f_table.result()
        rep.add_tlc(res_t)
        if res_t.violated:
            rep.violation(f"design:MC_CtlSeqsTable:{res_t.violated}",
                          "the vocabulary in CtlSeqs.tla violates " + res_t.violated + "\n" + res_t.error_text[:1500],
                          {"kind": "design", "spec": "MC_CtlSeqsTable", "cfg": "MC_CtlSeqsTable.cfg"})
            return
        rows, names, how = sorted(res_t.tagged("ROW"), key=graph.key), res_t.tagged("NAMES"), res_t.tagged("HOW")
        if len(rows) != res_t.distinct // 2 or not names or not how:
            raise tlc.MachineryError(f"x05: table dump incomplete ({len(rows)} rows, {res_t.distinct} states)")
        names, how = names[0], how[0]
        lap("table")
        row_traces, row_scen, row_canaries = rows_part(rep, mod, rows, names)
        f_rows = ex.submit(validate, row_traces + row_canaries, "x05-rows", 300, 2)

        # ---- random histories (code -> spec) ------------------------------------------
        rng = random.Random(rep.seed * 7919 + 5)
        hist, hist_scen = [], []
        for _ in range(150 if quick else 2500):
            cols, nrows, r0, c0, ops = gen_history(rng, rows, rep.tier)
            hist.append(build_walk(mod, how, cols, nrows, r0, c0, ops))
            hist_scen.append({"kind": "walk", "cols": cols, "rows": nrows, "r0": r0, "c0": c0, "ops": ops})
        # canary: a recorded history with one real token altered must be rejected
        cor = build_walk(mod, how, 9, 9, 4, 4, [{"name": "CURSOR_UP", "n": [2], "s": []}])
        cor["steps"][0]["toks"][0]["k"] = "cud"
        cor["steps"][0]["chars"][-1] = "B"
        cor["whole"] = ["cud"]
        f_hist = ex.submit(validate, hist + [cor], "x05-hist", 80 if quick else 250, 2 if quick else 4)
        lap("record_histories")

        # ---- the edges ------------------------------------------------------------------
        res_e = f_edges.result()
        rep.add_tlc(res_e)
        lap("wait_edges")
        if res_e.violated:
            rep.violation(f"design:MC_CtlSeqs:{res_e.violated}",
                          "the terminal model of the vocabulary violates " + res_e.violated + "\n" + res_e.error_text[:1500],
                          {"kind": "design", "spec": "MC_CtlSeqs", "cfg": "MC_CtlSeqs_edges.cfg"})
            return
        cov_e = require_actions(res_e, MC_ACTIONS, "the edge dump")
        g, walks, walk_traces, walk_scen, walk_canaries = walks_part(mod, res_e, how)
        lap("build_walks")
        f_walks = ex.submit(validate, walk_traces + walk_canaries, "x05-walks", 700, 4)

        # ---- the patterns -----------------------------------------------------------------
        res_p = f_pat.result()
        rep.add_tlc(res_p)
        lap("wait_patterns")
        if res_p.violated:
            rep.violation(f"design:MC_CtlSeqsPat:{res_p.violated}",
                          "the pattern languages in CtlSeqsPatterns.tla violate " + res_p.violated + "\n" + res_p.error_text[:1500],
                          {"kind": "design", "spec": "MC_CtlSeqsPat", "cfg": pat_cfg})
            return
        cov_p = require_actions(res_p, PAT_ACTIONS, "the pattern enumeration")
        pats = sorted(res_p.tagged("PAT"), key=graph.key)
        if len(pats) < res_p.distinct:
            raise tlc.MachineryError(f"x05: pattern dump incomplete ({len(pats)} rows, {res_p.distinct} states)")
        diffs = pattern_rows(mod, pats)
        rnd = random_matches(mod, random.Random(rep.seed * 104729 + 55), pats, 3000 if quick else 60000)
        # canary: a flipped result must be rejected
        src = next(t for t in rnd if any(x["m"] for x in t["steps"][0]["res"]))
        flip = json.loads(json.dumps(src))
        i = next(j for j, x in enumerate(flip["steps"][0]["res"]) if x["m"])
        flip["steps"][0]["res"][i] = dict(K.NO_MATCH)
        f_match = ex.submit(validate, diffs + rnd + [flip], "x05-match", 1500, 2 if quick else 4)
        lap("replay_patterns")

        # ---- collect -----------------------------------------------------------------------
        rv = f_rows.result()
        twin_v, tam_v = rv[0].pop(), rv[0].pop()
        lap("wait_rows")
        hv = f_hist.result()
        cor_v = hv[0].pop()
        lap("wait_histories")
        wv = f_walks.result()
        edge_v = wv[0].pop()
        lap("wait_walks")
        mv = f_match.result()
        flip_v = mv[0].pop()
        lap("wait_matches")
        res_mc = f_mc.result()
        lap("wait_model_check")

    rep.extra["canary"] = {
        "tampered_table_row": must_reject(tam_v, "tokens", "a tampered table row"),
        "bytes_twin_changed": must_reject(twin_v, "bytes-variant", "a changed bytes twin"),
        "corrupted_history": must_reject(cor_v, "effect", "a corrupted history"),
        "tampered_edge": must_reject(edge_v, "edge", "a tampered edge"),
        "flipped_pattern_result": must_reject(flip_v, "pattern-rejects", "a flipped pattern result"),
    }
    for v in mv[0][: len(diffs)]:
        if v["verdict"] == "ok":
            raise tlc.MachineryError("x05: a pattern row differs from the real pattern but Trace_CtlSeqs accepts it")

    # ---- the model itself
    rep.add_tlc(res_mc)
    if res_mc.violated:
        rep.violation(f"design:MC_CtlSeqs:{res_mc.violated}",
                      "the terminal model of the vocabulary violates " + res_mc.violated + "\n" + res_mc.error_text[:1500],
                      {"kind": "design", "spec": "MC_CtlSeqs", "cfg": mc_cfg})
    cov_m = require_actions(res_mc, MC_ACTIONS, "the model-checking run")
    rep.extra["model"] = {
        "table": {"rows": len(rows), "names": len(names)},
        "terminal": {"cfg": mc_cfg, "states": res_mc.distinct, "transitions": res_mc.generated, "depth": res_mc.depth,
                     "wall_s": round(res_mc.wall_s, 1), "actions_generated": cov_m},
        "edges": {"cfg": "MC_CtlSeqs_edges.cfg", "states": res_e.distinct, "transitions": res_e.generated,
                  "actions_generated": cov_e},
        "patterns": {"cfg": pat_cfg, "strings": res_p.distinct, "actions_generated": cov_p},
    }
    rep.exhaustive = True
    rep.extra["exhaustive_space"] = (
        f"table: {len(rows)} rows = every name x its boundary arguments; terminal model: every state of weight <= "
        f"{'1 on 3x2 and <= 2 on 2x1' if quick else '2 on 3x2, two colours'} x every operation model-checked, every edge between states "
        "of weight <= 1 on 3x2 replayed; patterns: every documented/foreign answer of the instance list and every "
        f"one-symbol drop / insert / change over the {'small' if quick else 'full'} alphabet")

    # ---- verdicts
    n_bad = report(rep, row_traces, row_scen, rv, "spec->code table row", lambda t, v: describe_names(t, v) if t["kind"] == "names" else describe_row(t, v))
    n_bad += report(rep, walk_traces, walk_scen, wv, "spec->code edge walk", describe_walk)
    n_bad += report(rep, hist, hist_scen, hv, "code->spec history", describe_walk)
    match_traces = diffs + rnd
    match_scen = [{"kind": "match", "s": t["steps"][0]["s"], "ctx": t["steps"][0]["ctx"]} for t in match_traces]
    n_bad += report(rep, match_traces, match_scen, mv, "pattern", describe_match)
    rep.traces_validated += len(pats)

    steps = sum(len(t["steps"]) for t in walk_traces) + sum(len(t["steps"]) for t in hist)
    rep.evaluations += len(rows) + steps + len(pats) * len(K.PATTERNS) + len(rnd) * len(K.PATTERNS)
    for r in rows:
        rep.distinct.add(("row", graph.key(r["op"]), graph.key(r["suf"])))
    for e in g.edges:
        rep.distinct.add(("edge", graph.key(e["from"]), graph.key(e["op"])))
    for r in pats:
        rep.distinct.add(("pat", graph.key(r["s"]), graph.key(r["ctx"])))
    for t in rnd:
        rep.distinct.add(("pat", graph.key(t["steps"][0]["s"]), "[]"))
    for sc in hist_scen:
        rep.distinct.add(("hist", graph.key(sc)))
    rep.extra["replay"] = {
        "table_rows": len(rows), "edges": len(g.edges), "model_states": g.nodes, "walks": len(walks),
        "walk_steps": sum(len(w) for w in walks), "histories": len(hist), "history_steps": sum(len(t["steps"]) for t in hist),
        "pattern_rows": len(pats), "pattern_rows_differing": len(diffs), "random_pattern_strings": len(rnd),
        "rejected": n_bad,
    }
    rep.sample({"row": show_op(rows[len(rows) // 2]["op"]), "bytes": K.text_of(rows[len(rows) // 2]["bytes"]),
                "tokens": rows[len(rows) // 2]["want"]["toks"]})
    w0 = max(walks, key=lambda w: len({e["op"]["name"] for e in w[:10]}))
    rep.sample({"walk": [show_op(e["op"]) for e in w0[:8]]})
    rep.sample({"history": [show_op(o) for o in hist_scen[0]["ops"][:8]], "terminal": [hist_scen[0]["cols"], hist_scen[0]["rows"]]})
    m0 = next(r for r in pats if any(x["m"] for x in r["res"]))
    rep.sample({"pattern_string": K.text_of(m0["s"]), "result": [x["m"] for x in m0["res"]]})
