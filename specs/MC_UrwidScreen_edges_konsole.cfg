SPECIFICATION SpecDump
CONSTANTS
  Ident = "konsole"
  Style3 = "iterm2"
  Bits = 3
  Fams = {"R", "O", "T", "I"}
  WithBad = FALSE
  WithInv = FALSE
  Dyn = FALSE
  WithDC = TRUE
  WithWinch = FALSE
VIEW CoarseView
ACTION_CONSTRAINT DumpL
CHECK_DEADLOCK FALSE
