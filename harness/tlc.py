"""Run TLC / SANY and parse what they print.

Everything a check learns from TLC goes through this module:

* ``run()`` starts one TLC JVM under an outer timeout, with its own metadir under
  ``/verif/out/tlc`` (removed afterwards), and returns a :class:`TLCResult` holding the
  statistics, the coverage table, every tagged ``PrintT`` line and the violated
  property, if any.
* Tagged lines: specs print ``<<"TAG", ToJson(value)>>`` (module Json).  ``TLCResult.tagged(tag)``
  returns the decoded JSON values.  A tag whose payload is not valid JSON is a
  machinery failure, never a verdict.
* ``run_many()`` runs several independent TLC jobs concurrently (each with few
  workers) – used to validate trace batches in parallel.
"""

from __future__ import annotations

import json
import os
import re
import shutil
import subprocess
import time
import uuid
from concurrent.futures import ThreadPoolExecutor
from dataclasses import dataclass, field
from pathlib import Path

VERIF = Path(__file__).resolve().parent.parent
SPECS = VERIF / "specs"
OUT = VERIF / "out"
JAR = "/opt/veriftools/tla/tla2tools.jar"
DEPS = "/opt/veriftools/tla/CommunityModules-deps.jar"


class MachineryError(RuntimeError):
    """TLC crashed, timed out, or printed something we cannot interpret (exit 2)."""


@dataclass
class TLCResult:
    rc: int
    stdout: str
    wall_s: float
    generated: int = 0
    distinct: int = 0
    queue: int = 0
    depth: int = 0
    violated: str | None = None  # name of invariant / property, "deadlock", ...
    error_text: str = ""
    coverage: dict[str, tuple[int, int]] = field(default_factory=dict)
    cmd: list[str] = field(default_factory=list)
    _tag_cache: dict[str, list] = field(default_factory=dict, repr=False)

    @property
    def ok(self) -> bool:
        return self.rc == 0 and self.violated is None

    def tagged(self, tag: str) -> list:
        if tag in self._tag_cache:
            return self._tag_cache[tag]
        out = []
        pat = re.compile(r'<<"%s", "((?:[^"\\]|\\.)*)">>' % re.escape(tag))
        for m in pat.finditer(self.stdout):
            raw = m.group(1)
            # TLA+ string escape -> python string
            s = _unescape_tla(raw)
            try:
                out.append(json.loads(s))
            except json.JSONDecodeError as e:  # pragma: no cover - machinery
                raise MachineryError(f"undecodable {tag} payload: {s[:200]!r}: {e}")
        self._tag_cache[tag] = out
        return out

    def tagged_tuples(self, tag: str) -> list[list]:
        """Lines of the form <<"TAG", v1, v2, ...>> with int / string / bool fields."""
        out = []
        pat = re.compile(r'^<<"%s"(?:, (.*))?>>$' % re.escape(tag), re.M)
        for m in pat.finditer(self.stdout):
            out.append(_parse_tla_fields(m.group(1) or ""))
        return out


def _unescape_tla(raw: str) -> str:
    res = []
    i = 0
    while i < len(raw):
        c = raw[i]
        if c == "\\" and i + 1 < len(raw):
            n = raw[i + 1]
            res.append({"n": "\n", "t": "\t", "r": "\r", "f": "\f"}.get(n, n))
            i += 2
        else:
            res.append(c)
            i += 1
    return "".join(res)


def _parse_tla_fields(s: str) -> list:
    fields = []
    i = 0
    n = len(s)
    while i < n:
        if s[i] in ", ":
            i += 1
            continue
        if s[i] == '"':
            j = i + 1
            buf = []
            while j < n and s[j] != '"':
                if s[j] == "\\":
                    buf.append(s[j + 1])
                    j += 2
                else:
                    buf.append(s[j])
                    j += 1
            fields.append("".join(buf))
            i = j + 1
        else:
            j = i
            depth = 0
            while j < n and (depth or s[j] != ","):
                if s[j] in "<{[(":
                    depth += 1
                elif s[j] in ">}])":
                    depth -= 1
                j += 1
            tok = s[i:j].strip()
            if re.fullmatch(r"-?\d+", tok):
                fields.append(int(tok))
            elif tok in ("TRUE", "FALSE"):
                fields.append(tok == "TRUE")
            else:
                fields.append(tok)
            i = j
    return fields


_STATS = re.compile(
    r"(\d+) states generated, (\d+) distinct states found, (\d+) states left on queue"
)
_DEPTH = re.compile(r"The depth of the complete state graph search is (\d+)")
_COV = re.compile(
    r"^<(\w+) line \d+, col \d+ to line \d+, col \d+ of module (\w+)(?: \([\d ]+\))?>: (\d+):(\d+)", re.M
)
_SIM = re.compile(r"The number of states generated: (\d+)")


def _parse(res: TLCResult) -> None:
    out = res.stdout
    ms = list(_STATS.finditer(out))
    if ms:
        m = ms[-1]
        res.generated, res.distinct, res.queue = map(int, m.groups())
    else:
        m = _SIM.search(out)
        if m:
            res.generated = res.distinct = int(m.group(1))
    m = _DEPTH.search(out)
    if m:
        res.depth = int(m.group(1))
    for m in _COV.finditer(out):
        name, _mod, distinct, gen = m.groups()
        # TLC prints "<Action ...>: distinct:generated"
        res.coverage[name] = (int(distinct), int(gen))
    m = re.search(r"Error: Invariant (\S+) is violated", out)
    if m:
        res.violated = m.group(1).rstrip(".")
    elif (m := re.search(r"Error: Action property (\S+) is violated", out)) or (
        m := re.search(r"Error: Action property line .* is violated", out)
    ):
        res.violated = m.group(1) if m.groups() else "action-property"
    elif "Error: Deadlock reached" in out:
        res.violated = "deadlock"
    elif "Error: Temporal properties were violated" in out:
        res.violated = "temporal"
    elif re.search(r"Error: Evaluating (invariant|assumption)", out):
        res.violated = None
    if res.violated:
        i = out.find("Error:")
        res.error_text = out[i : i + 6000]


def java_cmd(main: str, jvm: list[str] | None = None) -> list[str]:
    return [
        "java",
        "-XX:+UseParallelGC",
        *(jvm or ["-Xmx6g", "-Xss64m"]),
        "-cp",
        f"{JAR}:{DEPS}",
        main,
    ]


def run(
    spec: str,
    cfg: str | None = None,
    *,
    workers: int | str = 16,
    timeout: float = 900,
    simulate: str | None = None,
    depth: int | None = None,
    seed: int | None = None,
    coverage: bool = False,
    env: dict[str, str] | None = None,
    extra: list[str] | None = None,
    deadlock: bool = True,
    jvm: list[str] | None = None,
    specdir: Path | None = None,
    check: bool = True,
) -> TLCResult:
    """Run TLC on ``specs/<spec>.tla`` with ``specs/<cfg>`` (default ``<spec>.cfg``)."""
    specdir = specdir or SPECS
    meta = OUT / "tlc" / uuid.uuid4().hex
    meta.mkdir(parents=True, exist_ok=True)
    jcmd = java_cmd("tlc2.TLC", jvm)
    # TLC leaves an empty tlc-<n> directory in java.io.tmpdir per run: keep it in the metadir
    jcmd.insert(1, f"-Djava.io.tmpdir={meta}")
    cmd = jcmd + [
        "-workers",
        str(workers),
        "-metadir",
        str(meta),
        "-noGenerateSpecTE",
    ]
    if cfg:
        cmd += ["-config", cfg]
    if simulate is not None:
        cmd += ["-simulate", simulate]
    if depth is not None:
        cmd += ["-depth", str(depth)]
    if seed is not None:
        cmd += ["-seed", str(seed)]
    if coverage:
        cmd += ["-coverage", "1"]
    if not deadlock:
        cmd += ["-deadlock"]
    cmd += list(extra or [])
    cmd += [spec]
    full_env = dict(os.environ)
    full_env.update(env or {})
    t0 = time.time()
    try:
        p = subprocess.run(
            cmd,
            cwd=specdir,
            env=full_env,
            stdout=subprocess.PIPE,
            stderr=subprocess.STDOUT,
            timeout=timeout,
            text=True,
            errors="replace",
        )
    except subprocess.TimeoutExpired as e:
        shutil.rmtree(meta, ignore_errors=True)
        raise MachineryError(f"TLC timed out after {timeout}s: {spec} {cfg}") from e
    finally:
        shutil.rmtree(meta, ignore_errors=True)
    res = TLCResult(rc=p.returncode, stdout=p.stdout, wall_s=time.time() - t0, cmd=cmd)
    _parse(res)
    if check and res.violated is None and res.rc != 0:
        i = res.stdout.find("Error:")
        if i < 0:
            i = res.stdout.find("Exception")
        body = res.stdout[i : i + 2500] if i >= 0 else "\n".join(res.stdout.splitlines()[-40:])
        raise MachineryError(f"TLC failed (rc={res.rc}) on {spec} {cfg}:\n{body}")
    return res


def run_many(jobs: list[dict], parallel: int = 4) -> list[TLCResult]:
    """Run several TLC jobs concurrently; each job is the kwargs of :func:`run`."""
    with ThreadPoolExecutor(max_workers=parallel) as ex:
        futs = [ex.submit(run, **j) for j in jobs]
        return [f.result() for f in futs]


def sany(spec: str, specdir: Path | None = None) -> None:
    p = subprocess.run(
        java_cmd("tla2sany.SANY") + [spec],
        cwd=specdir or SPECS,
        stdout=subprocess.PIPE,
        stderr=subprocess.STDOUT,
        text=True,
        timeout=120,
    )
    if p.returncode != 0 or "Semantic errors" in p.stdout or "***Parse Error***" in p.stdout:
        raise MachineryError(f"SANY rejects {spec}:\n{p.stdout[-3000:]}")


def write_json(path: Path, obj) -> Path:
    path.parent.mkdir(parents=True, exist_ok=True)
    with open(path, "w") as f:
        json.dump(obj, f, separators=(",", ":"))
    return path


def validate_traces(
    spec: str,
    cfg: str,
    traces: list,
    *,
    batch: int = 400,
    parallel: int = 8,
    workers: int = 2,
    timeout: float = 900,
    tag: str = "VERDICT",
    name: str = "traces",
    env: dict[str, str] | None = None,
) -> tuple[list[dict], int, int]:
    """Validate ``traces`` (JSON-able records) against a Trace spec.

    The spec reads ``IOEnv.TRACE_FILE`` (a JSON array), picks ``tid`` in ``Init`` and prints
    ``<<"VERDICT", ToJson([tid |-> tid, verdict |-> v, ...])>>`` once per trace.  Returns
    ``(verdicts in trace order, states, transitions)``; a trace without a verdict is a
    machinery failure.
    """
    rundir = OUT / "traces" / f"{name}-{uuid.uuid4().hex[:8]}"
    rundir.mkdir(parents=True, exist_ok=True)
    jobs = []
    chunks = []
    for i in range(0, len(traces), batch):
        chunk = traces[i : i + batch]
        f = write_json(rundir / f"b{i}.json", chunk)
        chunks.append((i, len(chunk)))
        e = {"TRACE_FILE": str(f)}
        e.update(env or {})
        jobs.append(
            dict(spec=spec, cfg=cfg, workers=workers, timeout=timeout, env=e, deadlock=False)
        )
    try:
        results = run_many(jobs, parallel=parallel)
    finally:
        shutil.rmtree(rundir, ignore_errors=True)
    verdicts: list[dict | None] = [None] * len(traces)
    states = trans = 0
    for (base, n), res in zip(chunks, results):
        if res.violated:
            raise MachineryError(
                f"trace spec {spec} itself failed ({res.violated}):\n{res.error_text[:3000]}"
            )
        states += res.distinct
        trans += res.generated
        for v in res.tagged(tag):
            tid = v["tid"]
            if not 1 <= tid <= n:
                raise MachineryError(f"verdict with tid {tid} outside batch of {n}")
            verdicts[base + tid - 1] = v
    missing = [i for i, v in enumerate(verdicts) if v is None]
    if missing:
        raise MachineryError(
            f"{len(missing)} traces got no verdict from {spec} (first: #{missing[0]})"
        )
    return verdicts, states, trans  # type: ignore[return-value]
