"""C02 - block renders show exactly the image's pixels (colour and transparency).

model:    specs/BlockLine (+ BlockSem, Terminal): BlockImage._render_image's run-length loop as a
          step machine; free mode (MC_BlockLine.cfg, VIEW hides the column counter -> every line
          length) checks RunUniform / Painted / Conservation / LineShape; seeded SPEC mutations
          (Variant) must be rejected by those invariants.
spec->code: dump mode (MC_BlockLineDump*.cfg): every 1-line image of width <= W over the pixel
          alphabet x {alpha, kitty, split, terminal background} plus seeded longer / multi-line
          images; TLC prints the token sequence of each; the real BlockImage renders the same
          pixels at native resolution and the lexed tokens must be equal.
code->spec: specs/Trace_Block: real renders (all modes / alpha settings / terminal identities /
          split-cells / sizes) are lexed; TLC folds the tokens through Terminal!Apply and
          compares the final cell grid, half by half, with the pixels at render resolution.
"""

from __future__ import annotations

import contextlib
import hashlib
import io
import itertools
import json
import os
import random
import shutil
import time
from decimal import Decimal
from fractions import Fraction
from pathlib import Path

from .. import imgs, lexer, tlc
from ..core import Report
from ..env import stubs

OUTDIR = tlc.OUT / "c02"

ASSUMPTIONS = [
    "terminal semantics of specs/Terminal.tla (SGR 38;2 / 48;2 direct colour, SGR 0 resets both; a "
    "printed cell records the colours in force; NUL is ignored) and specs/BlockSem.tla (upper half "
    "of a cell = foreground iff the glyph is U+2580, lower half = foreground iff U+2584, else "
    "background; only the DEFAULT background shows the terminal's own background)",
    "pixels at render resolution are obtained with Pillow exactly as documented: convert to "
    "RGB / RGBA, BOX resize to (columns, 2 x lines), alpha_composite over the requested colour "
    "('#' = terminal background, black if unknown) or - for a float threshold - over the terminal "
    "background (black if unknown); images whose pixel size equals the render resolution with "
    "bi-level alpha need none of this (expected = source pixels)",
    "alpha threshold (documented rule, exact arithmetic on the decimal fraction of the threshold's "
    "repr): a pixel is transparent iff alpha/255 is below the threshold, opaque iff above; exactly "
    "equal is accepted either way (DESIGN C02). No tolerance for the library's 8-bit quantisation "
    "of the threshold: a transparent pixel drawn opaque within half a level of the threshold is a "
    "violation with its own clause (threshold-rounded-down / threshold-tie-rounded-down)",
    "kitty workaround (documented deviation, DESIGN 2.5): on kitty with a known terminal "
    "background, a half-cell shown through the cell BACKGROUND whose colour equals the terminal "
    "background must be emitted with r+1 (r-1 for r=255); never otherwise",
    "BlockLine's VIEW hides the column counter and the absolute run length; transitions and "
    "invariants read them only through differences kept in the view (bisimulation quotient)",
]

MODES = ["1", "L", "LA", "P", "PA", "RGB", "RGBA", "CMYK", "HSV"]
ALPHAS = [None, 0.0, 0.001, 0.25, 0.3, 0.5, 0.9, 0.999, 40 / 255, "#", "#a0b1c2"]
THRESHOLDS = [a for a in ALPHAS if isinstance(a, float)] + [0.4, 0.05, 0.7]
TERM_BGS = [None, (16, 32, 48), (255, 64, 0), (0, 0, 0), (255, 255, 255)]
SPEC_MUTANTS = ["drop_t2o", "drop_o2t", "blank_without_bg", "kitty_always", "keep_n"]
NAMED_ACTIONS = [
    "StartLine", "ScanExtend", "ScanFlushTT", "ScanFlushTO", "ScanFlushOT", "ScanFlushSame",
    "ScanFlushDiff", "ScanFlushSameK", "ScanFlushDiffK", "EndLineMore", "EndLineLast",
]
# constants of specs/MC_BlockLine.tla (only used to size the enumeration and to concretise it)
MC_NCOL, MC_NTCOL, MC_NPAR_HALF = 3, 2, 12
T_VARIANT_A0 = (16, 32, 48)  # transparent RGB variant realised by source alpha 0
SRC_T_OTHER = (250, 250, 250, 100)  # source pixel realising every other transparent variant


# ----------------------------------------------------------------------------------------------
# environment
# ----------------------------------------------------------------------------------------------
_env_key = None


def setup():
    stubs.install()
    import term_image.image.block as B
    import term_image.image.common as C

    for mod in (B, C):
        if getattr(mod, "get_fg_bg_colors", None) is not stubs._get_fg_bg_colors:
            raise tlc.MachineryError(f"seam missing: {mod.__name__}.get_fg_bg_colors is not the stub")
    if not hasattr(C.TextImage, "_is_on_kitty"):
        raise tlc.MachineryError("seam missing: TextImage._is_on_kitty")


def set_env(kitty: bool, tbg):
    global _env_key
    key = (bool(kitty), tuple(tbg) if tbg else None)
    if key != _env_key:
        stubs.set_identity("kitty" if kitty else "other")
        stubs.set_term(size=(80, 30), cell=None, fg_bg=(None, key[1]))
        _env_key = key


def render_block(src, rw, rh, alpha, split, via):
    from term_image.image import BlockImage

    image = BlockImage(src, width=rw, height=rh)
    if tuple(image.rendered_size) != (rw, rh):
        raise tlc.MachineryError(f"rendered_size {image.rendered_size} != requested {(rw, rh)}")
    if via == "str":
        return str(image)
    if via == "format":
        return format(image, "1.1" + alpha_spec(alpha))
    if via == "draw":
        return drawn(image, alpha)
    kw = {"split_cells": True} if split else {}
    return image._renderer(image._render_image, alpha, **kw)


def drawn(image, alpha) -> str:
    """What BaseImage.draw() writes (no padding: padding smaller than the render has no effect)."""
    buf = io.StringIO()
    with contextlib.redirect_stdout(buf):
        image.draw(pad_width=1, pad_height=1, alpha=alpha, animate=False, check_size=False)
    return buf.getvalue()


def alpha_spec(alpha) -> str:
    if alpha is None:
        return "#"
    if isinstance(alpha, float):
        return "#" + repr(alpha)[1:]
    if alpha == "#":
        return "##"
    return "#" + alpha.lstrip("#")


def lex_checked(out: str, what) -> lexer.Stream:
    stream = lexer.lex(out)
    unk = lexer.unknowns(stream)
    if unk:
        raise tlc.MachineryError(f"lexer does not know {unk[:3]} in output of {what}")
    return stream


def pack_tokens(stream: lexer.Stream):
    return [[t["k"], t["n"], t["m"], t["g"], list(t["p"])] for t in stream.toks]


# ----------------------------------------------------------------------------------------------
# oracle: pixels at render resolution (documented Pillow calls only; no judgement)
# ----------------------------------------------------------------------------------------------
def has_alpha(img) -> bool:
    return img.mode in ("LA", "PA", "RGBA", "La", "RGBa") or (
        img.mode == "P" and "transparency" in img.info
    )


def thr_digits(alpha: float):
    """The threshold as the decimal digits after the point of its repr (exact; no rounding)."""
    text = format(Decimal(repr(float(alpha))), "f")
    whole, _, frac = text.partition(".")
    if whole != "0" or not 0 <= alpha < 1:
        raise tlc.MachineryError(f"alpha threshold {alpha!r} outside [0, 1)")
    return [int(ch) for ch in (frac or "0")]


def threshold_level(alpha: float) -> Fraction:
    """255 * threshold, exactly (only used by the pixel GENERATOR, never to judge)."""
    return Fraction(Decimal(repr(float(alpha)))) * 255


def hexcol(c) -> str:
    return "#%02x%02x%02x" % tuple(c)


def pixels_at_render_resolution(src, rw, rh, alpha, tbg):
    """-> (rows of (r, g, b, a) at (rw, 2*rh), thr) with thr = [num, den] or []."""
    from PIL import Image

    size = (rw, 2 * rh)
    if alpha is None or not has_alpha(src):
        im = src.convert("RGB") if src.mode != "RGB" else src
        if im.size != size:
            im = im.resize(size, Image.Resampling.BOX)
        flat = [(*p, 255) for p in im.getdata()]
        thr = []
    else:
        im = src.convert("RGBA") if src.mode != "RGBA" else src
        if im.size != size:
            im = im.resize(size, Image.Resampling.BOX)
        if isinstance(alpha, str):
            colour = alpha if alpha != "#" else (hexcol(tbg) if tbg else "#000000")
            bg = Image.new("RGBA", size, colour)
            bg.alpha_composite(im)
            flat = [(*p[:3], 255) for p in bg.getdata()]
            thr = []
        else:
            bg = Image.new("RGBA", size, hexcol(tbg) if tbg else "#000000")
            bg.alpha_composite(im)
            flat = [(*p[:3], a) for p, a in zip(bg.getdata(), im.getchannel("A").getdata())]
            thr = thr_digits(alpha)
    rows = [flat[y * rw : (y + 1) * rw] for y in range(2 * rh)]
    return rows, thr


def cells_of(rows, rw, rh):
    """pixel rows -> rows of cells [ur,ug,ub,ua, lr,lg,lb,la]."""
    return [
        [[*rows[2 * y][x], *rows[2 * y + 1][x]] for x in range(rw)]
        for y in range(rh)
    ]


# ----------------------------------------------------------------------------------------------
# spec -> code: dump of BlockLine, replayed into the real renderer
# ----------------------------------------------------------------------------------------------
def par_key(alpha, kitty, split, tbg, img):
    return json.dumps([bool(alpha), bool(kitty), bool(split), list(tbg or []), img], separators=(",", ":"))


def source_from_model_img(img):
    """Concretise a TLC-enumerated image: model cells -> RGBA source pixel rows.

    Opaque pixels keep their colour; the transparent RGB variants are realised by source alpha 0
    (composited colour = background) and by a translucent light pixel below the 0.5 threshold
    (composited colour differs from the background)."""
    rows = []
    for line in img:
        up, lo = [], []
        for c in line:
            for px, dest in ((c[0:4], up), (c[4:8], lo)):
                if px[3] == 255:
                    dest.append((px[0], px[1], px[2], 255))
                elif tuple(px[:3]) == T_VARIANT_A0:
                    dest.append((px[0], px[1], px[2], 0))
                else:
                    dest.append(SRC_T_OTHER)
        rows += [up, lo]
    return rows


def loop_level(rows, alpha_arg, mode, tbg):
    """What _get_render_data hands to the loop for a native-resolution source (documented
    compositing; bi-level alpha for the float path).  Returns (pixel rows, model_alpha)."""
    from PIL import Image

    h, w = len(rows), len(rows[0])
    if mode == "RGB" or alpha_arg is None:
        return [[(*p[:3], 255) for p in r] for r in rows], False
    src = Image.new("RGBA", (w, h))
    src.putdata([p for r in rows for p in r])
    if isinstance(alpha_arg, str):
        colour = alpha_arg if alpha_arg != "#" else (hexcol(tbg) if tbg else "#000000")
        bg = Image.new("RGBA", (w, h), colour)
        bg.alpha_composite(src)
        flat = [(*p[:3], 255) for p in bg.getdata()]
        model_alpha = False
    else:
        bg = Image.new("RGBA", (w, h), hexcol(tbg) if tbg else "#000000")
        bg.alpha_composite(src)
        cut = alpha_arg * 255
        flat = []
        for p, q in zip(bg.getdata(), src.getdata()):
            if abs(q[3] - cut) <= 1:
                raise tlc.MachineryError("extra image with a pixel at the alpha threshold")
            flat.append((*p[:3], 0 if q[3] < cut else 255))
        model_alpha = True
    return [flat[y * w : (y + 1) * w] for y in range(h)], model_alpha


def gen_extras(rng: random.Random, per_par: int):
    """Seeded longer / multi-line images: source pixel rows + the loop-level image for the model."""
    extras = []
    for kitty, split, tbg in itertools.product((False, True), (False, True), TERM_BGS[:3]):
        for flavour in ("rgb", "rgba-none", "rgba-hex", "rgba-hash", "thr", "thr", "thr"):
            for _ in range(per_par):
                # wider than the enumerated lines or multi-line (no overlap with the enumeration)
                h = rng.choice([1, 1, 1, 2, 3])
                w = rng.choice([4, 5, 6, 8, 12] if h == 1 else [1, 2, 3, 3, 4, 5, 6, 8])
                palette = [tuple(rng.randrange(256) for _ in range(3)) for _ in range(2)]
                palette += [(0, 0, 0), (255, 255, 255)] + ([tbg, tbg] if tbg else [])
                alphas = [0, 255, 255, 255, 100, 200] if flavour != "rgb" else [255]
                cur = (*rng.choice(palette), rng.choice(alphas))
                rows = []
                for _y in range(2 * h):
                    row = []
                    for _x in range(w):
                        roll = rng.random()
                        if roll < 0.2:
                            cur = (*rng.choice(palette), rng.choice(alphas))
                        elif roll < 0.4:
                            cur = (*cur[:3], rng.choice(alphas))
                        elif roll < 0.5:
                            cur = (*rng.choice(palette), cur[3])
                        row.append(cur)
                    rows.append(row)
                if rng.random() < 0.5:  # make the two pixel rows of a line agree often
                    for y in range(0, 2 * h, 2):
                        rows[y + 1] = [
                            p if rng.random() < 0.6 else q for p, q in zip(rows[y], rows[y + 1])
                        ]
                mode = "RGB" if flavour == "rgb" else "RGBA"
                alpha_arg = {
                    "rgb": rng.choice([None, 0.5, "#", "#123456"]),
                    "rgba-none": None,
                    "rgba-hex": "#c0ffee",
                    "rgba-hash": "#",
                    "thr": 0.5,
                }[flavour]
                extras.append(
                    dict(kitty=kitty, split=split, tbg=list(tbg or []), rows=rows, mode=mode,
                         alpha_arg=alpha_arg)
                )
    return extras


def replay_line(rec_par, rows, mode, alpha_arg, expected_toks):
    """Render source pixel rows with the real code; return None or a description of the mismatch."""
    from PIL import Image

    alpha, kitty, split, tbg = rec_par
    set_env(kitty, tbg)
    h2, w = len(rows), len(rows[0])
    src = Image.new("RGBA", (w, h2))
    src.putdata([tuple(p) for r in rows for p in r])
    if mode == "RGB":
        src = src.convert("RGB")
    out = render_block(src, w, h2 // 2, alpha_arg, split, "renderer")
    got = pack_tokens(lex_checked(out, ("line", rec_par, rows)))
    if got == expected_toks:
        return None
    i = next((i for i, (a, b) in enumerate(zip(got, expected_toks)) if a != b), min(len(got), len(expected_toks)))
    e = expected_toks[i] if i < len(expected_toks) else ["<end>"]
    g = got[i] if i < len(got) else ["<end>"]
    if e[0] != g[0]:
        cls = f"{e[0]}-expected-{g[0]}-emitted"
    elif e[0] == "print":
        cls = "run-glyph" if e[3] != g[3] else "run-length"
    elif e[0] == "sgr":
        cls = "sgr-kind" if e[4][:1] != g[4][:1] else "sgr-colour"
    else:
        cls = e[0]
    return cls, f"token {i}: model {e}, real {g}; model={expected_toks} real={got}"


def default_alpha_arg(i: int, model_alpha: bool):
    """Alpha argument / source mode used to realise a TLC-enumerated image."""
    if model_alpha:
        return "RGBA", 0.5
    return [("RGB", None), ("RGB", 0.5), ("RGB", "#"), ("RGBA", None), ("RGBA", "#"), ("RGBA", "#123456")][i % 6]


def spec_to_code(rep: Report, dump_res, extras, expect_enumerated: int | None):
    lines = dump_res.tagged("LINE")
    by_key = {}
    for i, e in enumerate(extras):
        by_key.setdefault(par_key(e["alpha"], e["kitty"], e["split"], e["tbg"], e["img"]), []).append(i)
    seen_extra = set()
    n_enum = 0
    work = []
    for rec in lines:
        k = par_key(rec["alpha"], rec["kitty"], rec["split"], rec["tbg"], rec["img"])
        par = (rec["alpha"], rec["kitty"], rec["split"], tuple(rec["tbg"]) or None)
        if k in by_key:
            for i in by_key[k]:
                seen_extra.add(i)
                e = extras[i]
                work.append((par, e["rows"], e["mode"], e["alpha_arg"], rec))
            continue
        n_enum += 1
        mode, alpha_arg = default_alpha_arg(n_enum, rec["alpha"])
        work.append((par, source_from_model_img(rec["img"]), mode, alpha_arg, rec))
    if len(seen_extra) != len(extras):
        raise tlc.MachineryError(f"TLC dumped {len(seen_extra)} of {len(extras)} extra images")
    if expect_enumerated is not None and n_enum != expect_enumerated:
        raise tlc.MachineryError(f"TLC dumped {n_enum} enumerated lines, expected {expect_enumerated}")
    work.sort(key=lambda w: (w[0][1], str(w[0][3])))  # few environment switches
    kinds = set()
    for par, rows, mode, alpha_arg, rec in work:
        rep.evaluations += 1
        try:
            bad = replay_line(par, rows, mode, alpha_arg, rec["toks"])
        except tlc.MachineryError:
            raise
        except Exception as e:
            bad = (f"raises-{type(e).__name__}", f"rendering raised {type(e).__name__}: {e}")
        rep.traces_validated += 1
        sig = hashlib.md5(json.dumps(rec["toks"]).encode()).hexdigest()
        if len(rec["toks"]) > 3:
            rep.distinct.add(("line", sig))
        kinds.update(t[0] + (":" + t[3] if t[0] == "print" else "") for t in rec["toks"])
        if bad:
            cls, detail = bad
            rep.violation(
                "BlockImage._render_image:replay:%s%s%s:%s"
                % ("alpha" if par[0] else "opaque", "+kitty" if par[1] and par[3] else "",
                   "+split" if par[2] else "", cls),
                "spec -> code: the real render of a concrete image differs from BlockLine's tokens; "
                f"alpha={par[0]} kitty={par[1]} split={par[2]} terminal bg={par[3]} "
                f"source mode={mode} alpha argument={alpha_arg!r} pixel rows={rows}\n{detail}",
                {"kind": "line", "par": [par[0], par[1], par[2], list(par[3] or [])], "rows": rows,
                 "mode": mode, "alpha_arg": alpha_arg},
            )
    rep.extra["replayed_lines"] = len(work)
    rep.extra["replayed_enumerated"] = n_enum
    rep.extra["replayed_extra"] = len(extras)
    rep.extra["token_kinds_in_dump"] = sorted(kinds)
    for want in ("print:up", "print:lo", "print:sp", "nul", "lf", "sgr"):
        if lines and want not in kinds and expect_enumerated:
            raise tlc.MachineryError(f"vacuous dump: no {want} token in any dumped line")
    return work


def prepare_extras(extras):
    """Fill in the loop-level image (what the model is given) of each extra."""
    for e in extras:
        e["rows"] = [[tuple(px) for px in r] for r in e["rows"]]  # (lists when read from JSON)
        rows, model_alpha = loop_level(e["rows"], e["alpha_arg"], e["mode"], e["tbg"] or None)
        h2, w = len(rows), len(rows[0])
        e["alpha"] = model_alpha
        e["img"] = cells_of(rows, w, h2 // 2)
    return extras


def extras_file(extras, name: str) -> Path:
    OUTDIR.mkdir(parents=True, exist_ok=True)
    return tlc.write_json(
        OUTDIR / name,
        [dict(alpha=e["alpha"], kitty=e["kitty"], split=e["split"], tbg=e["tbg"], img=e["img"]) for e in extras],
    )


def enumerated_count(w: int) -> int:
    a = (MC_NCOL + MC_NTCOL) ** 2
    o = MC_NCOL ** 2
    return MC_NPAR_HALF * (sum(a**k for k in range(1, w + 1)) + sum(o**k for k in range(1, w + 1)))


# ----------------------------------------------------------------------------------------------
# code -> spec: traces of real renders
# ----------------------------------------------------------------------------------------------
def make_source(rng: random.Random, mode: str, w: int, h: int, style: str):
    from PIL import Image

    if style == "bilevel":
        px = imgs.rgba_pixels(rng, w, h, "mixed")
        px = [(*p[:3], 0 if p[3] < 128 else 255) for p in px]
        im = Image.new("RGBA", (w, h))
        im.putdata(px)
        return im if mode == "RGBA" else im.convert("RGB")
    if style.startswith("boundary:"):
        # alphas exactly at floor / ceil of 255 * threshold and +-1 around them, inside colour runs
        lvl = threshold_level(float(style.split(":")[1]))
        lo, hi = lvl.__floor__(), lvl.__ceil__()
        alphas = sorted({min(255, max(0, x + k)) for x in (lo, hi) for k in (-1, 0, 1)})
        palette = [tuple(rng.randrange(256) for _ in range(3)) for _ in range(2)] + [(255, 255, 255)]
        px = []
        cur = rng.choice(palette)
        for _ in range(w * h):
            if rng.random() < 0.25:
                cur = rng.choice(palette)
            px.append((*cur, rng.choice(alphas + [0, 255])))
        for i, a in enumerate(alphas):  # every boundary alpha is present whenever there is room
            if i < len(px):
                px[(i * 7) % len(px)] = (*px[(i * 7) % len(px)][:3], a)
        im = Image.new("RGBA", (w, h))
        im.putdata(px)
        return im if mode == "RGBA" else im.convert(mode)
    return imgs.make_image(rng, mode, w, h, style)


def gen_cases(rng: random.Random, tier: str):
    sizes = [(w, h) for w in range(1, 9) for h in range(1, 6)]
    reps = 4 if tier == "quick" else 40
    combos = list(itertools.product(MODES, ALPHAS, (False, True), (False, True)))
    for mode, alpha, kitty, split in combos:
        for _ in range(reps):
            rw, rh = rng.choice(sizes)
            tbg = rng.choice(TERM_BGS)
            style = rng.choice(["mixed", "mixed", "noise"])
            src = rng.choice([[1, 1], [3, 5], [16, 9], [7, 13], [2 * rw, 4 * rh], [rw + 1, 2 * rh + 1]])
            yield dict(mode=mode, alpha=alpha, kitty=kitty, split=split, rw=rw, rh=rh,
                       tbg=tbg, style=style, src=src, seed=rng.randrange(1 << 30))
    # uniformly coloured images at every size
    for rw, rh in sizes:
        for _ in range(2 if tier == "quick" else 20):
            yield dict(mode=rng.choice(MODES), alpha=rng.choice(ALPHAS), kitty=rng.random() < 0.5,
                       split=rng.random() < 0.3, rw=rw, rh=rh, tbg=rng.choice(TERM_BGS),
                       style="uniform", src=rng.choice([[1, 1], [5, 3], [rw, 2 * rh], [13, 17]]),
                       seed=rng.randrange(1 << 30))
    # pixel size == render resolution: bi-level RGB(A) sources need no oracle at all
    for rw, rh in sizes:
        for _ in range(8 if tier == "quick" else 100):
            style = rng.choice(["bilevel", "bilevel", "mixed"])
            mode = rng.choice(["RGB", "RGBA", "RGBA"]) if style == "bilevel" else rng.choice(MODES)
            yield dict(mode=mode, alpha=rng.choice(ALPHAS), kitty=rng.random() < 0.5,
                       split=rng.random() < 0.3, rw=rw, rh=rh, tbg=rng.choice(TERM_BGS),
                       style=style, src=[rw, 2 * rh], seed=rng.randrange(1 << 30))


def gen_boundary_cases(rng: random.Random, tier: str):
    """Thresholds x every route, sources at native resolution whose alphas sit on the threshold level."""
    reps = 1 if tier == "quick" else 6
    for thr in THRESHOLDS:
        routes = ["format", "renderer", "draw", "split"] + (["str"] if thr == 40 / 255 else [])
        for route in routes:
            for _ in range(reps):
                rw, rh = rng.choice([(8, 1), (6, 2), (8, 3), (4, 2)])
                yield dict(mode=rng.choice(["RGBA", "RGBA", "LA"]), alpha=thr, kitty=rng.random() < 0.3,
                           split=route == "split", rw=rw, rh=rh, tbg=rng.choice(TERM_BGS),
                           style=f"boundary:{thr!r}", src=[rw, 2 * rh], seed=rng.randrange(1 << 30),
                           via="renderer" if route == "split" else route)


def choose_via(case, rng_bits: int) -> str:
    if case["split"]:
        return "renderer"
    if case["alpha"] == 40 / 255 and rng_bits % 2:
        return "str"
    return ("format", "renderer", "draw")[(rng_bits // 2) % 3]


def case_reference(case):
    """Source, expected pixels at render resolution, threshold, oracle kind and route of a case."""
    rng = random.Random(case["seed"])
    w, h = case["src"]
    src = make_source(rng, case["mode"], w, h, case["style"])
    rw, rh = case["rw"], case["rh"]
    tbg = tuple(case["tbg"]) if case["tbg"] else None
    set_env(case["kitty"], tbg)
    via = case.get("via") or choose_via(case, case["seed"])
    case["via"] = via
    if case["style"] == "bilevel" and (w, h) == (rw, 2 * rh):
        # expected = source pixels, no Pillow operation involved
        flat = list(src.getdata())
        transparent = src.mode == "RGBA" and isinstance(case["alpha"], float)
        composite = src.mode == "RGBA" and isinstance(case["alpha"], str)
        under = None
        if composite:
            under = tbg or (0, 0, 0)
            if case["alpha"] != "#":
                under = tuple(int(case["alpha"][i : i + 2], 16) for i in (1, 3, 5))
        px = []
        for p in flat:
            a = p[3] if len(p) == 4 else 255
            if composite and a == 0:
                px.append((*under, 255))
            elif transparent and a == 0:
                # "composited over the terminal background": nothing of the pixel is left
                px.append((*(tbg or (0, 0, 0)), 0))
            else:
                px.append((*p[:3], 255))
        rows = [px[y * rw : (y + 1) * rw] for y in range(2 * rh)]
        if transparent:
            thr = thr_digits(case["alpha"])
        else:
            thr = []
        oracle = "none"
    else:
        rows, thr = pixels_at_render_resolution(src, rw, rh, case["alpha"], tbg)
        oracle = "pillow"
    return src, rows, thr, oracle, via


def case_trace(case, src, handed, rows, thr, out):
    rw, rh = case["rw"], case["rh"]
    stream = lex_checked(out, case)
    return dict(rw=rw, rh=rh, kitty=bool(case["kitty"]), tbg=list(case["tbg"] or []), thr=thr,
                uniform=len(set(src.getdata())) == 1, exp=cells_of(rows, rw, rh),
                srcb=pil_shape(src), srca=pil_shape(handed),
                toks=stream.toks, gfx=[])


def trace_of(case):
    """Render one case with the real code; returns the trace record for Trace_Block."""
    src, rows, thr, oracle, via = case_reference(case)
    handed = src.copy()
    out = render_block(handed, case["rw"], case["rh"], case["alpha"], case["split"], via)
    return case_trace(case, src, handed, rows, thr, out), oracle


def pil_shape(img):
    return [img.size[0], img.size[1], img.mode]


# ----------------------------------------------------------------------------------------------
# code -> spec: multi-render histories on ONE image object (seeded/C02-w1)
# ----------------------------------------------------------------------------------------------
HIST_KINDS = ["pil-jpeg", "pil-png", "pil-gif", "pil-mem", "file-jpeg", "file-png", "file-gif"]
HIST_SHAPES = ["small-large", "large-small-large", "seek", "ratio"]
HIST_ALPHAS = [None, 40 / 255, 0.5, 0.25, 0.9, "#", "#a0b1c2"]


def gen_histories(rng: random.Random, tier: str):
    reps = 1 if tier == "quick" else 8
    for kind in HIST_KINDS:
        for shape in HIST_SHAPES:
            for r in range(reps * (2 if kind == "pil-jpeg" else 1)):
                yield dict(src=kind, shape=shape, seed=rng.randrange(1 << 30),
                           kitty=rng.random() < 0.4, tbg=rng.choice(TERM_BGS))


def hist_source(h, rng: random.Random):
    """Build the source of a history; returns (path or None, pristine PIL image or None, frames)."""
    from PIL import Image

    fmt = h["src"].split("-")[1]
    W, H = rng.choice([(32, 32), (24, 16), (16, 24), (40, 16)])
    d = OUTDIR / f"hist-{os.getpid()}"
    d.mkdir(parents=True, exist_ok=True)
    if fmt == "mem":
        return None, imgs.make_image(rng, rng.choice(MODES), W, H, "mixed"), 1
    if fmt == "gif":
        path = d / f"h{h['seed']}.gif"
        n = rng.choice([3, 4])
        imgs.make_animation(rng, path, n, W, H)
        return str(path), None, n
    if fmt == "jpeg":
        mode = rng.choice(["RGB", "RGB", "L", "CMYK"])
        base = Image.new("RGB", (W, H))
        base.putdata([  # coarse tiles + per-pixel detail: any rescaling of the decode is visible
            tuple(min(255, 60 * ((x // 4 + y // 4 + c) % 4) + rng.randrange(64)) for c in range(3))
            for y in range(H) for x in range(W)
        ])
        path = d / f"h{h['seed']}.jpg"
        base.convert(mode).save(path, "JPEG", quality=95, subsampling=0)
        return str(path), None, 1
    mode = rng.choice(["RGBA", "RGBA", "LA", "P", "RGB"])
    path = d / f"h{h['seed']}.png"
    imgs.make_image(rng, mode, W, H, "mixed").save(path)
    return str(path), None, 1


def hist_ops(h, rng: random.Random, W: int, H: int, frames: int):
    small = ("size", max(1, W // rng.choice([4, 8])), max(1, H // rng.choice([8, 16])))
    large = ("size", W, H // 2)  # render resolution == pixel size
    mid = ("size", max(1, W // 2), max(1, H // 4))
    shape = h["shape"]
    n = rng.randrange(1, frames) if frames > 1 else 0
    seek = (lambda k: [("seek", k)]) if frames > 1 else (lambda k: [])
    R = ("render",)
    if shape == "small-large":
        return [small, R, *seek(n), large, R]
    if shape == "large-small-large":
        return [large, R, small, R, *seek(n), large, R, mid, R]
    if shape == "seek":
        return [small, R, *seek(n), large, R, *seek(0), R, *seek(frames - 1), small, R, *seek(0), large, R]
    return [("ratio", 0.5), ("width", max(1, W // 4)), R, ("ratio", 1.0), ("width", W), R,
            *seek(n), ("ratio", 0.25), ("width", W), R, ("ratio", 0.5), large, R]


def history_traces(h):
    """Run one history on ONE image object; every render is a trace judged against a FRESH copy."""
    import term_image
    from PIL import Image
    from term_image.image import BlockImage

    rng = random.Random(h["seed"])
    path, pristine, frames = hist_source(h, rng)
    tbg = tuple(h["tbg"]) if h["tbg"] else None
    set_env(h["kitty"], tbg)

    def fresh(frame):
        im = Image.open(path) if path else pristine.copy()
        if frames > 1:
            im.seek(frame)
        return im

    first = fresh(0)
    W, H = first.size
    ops = hist_ops(h, rng, W, H, frames)
    caller = None
    if h["src"].startswith("pil-"):
        caller = Image.open(path) if path else pristine.copy()  # NOT loaded: as a user hands it over
        image = BlockImage(caller)
    else:
        image = BlockImage.from_file(path)
    out_traces = []
    try:
        for i, op in enumerate(ops):
            if op[0] == "size":
                image.set_size(op[1], op[2])
            elif op[0] == "width":
                image.set_size(width=op[1])
            elif op[0] == "ratio":
                term_image.set_cell_ratio(op[1])
            elif op[0] == "seek":
                image.seek(op[1])
            else:
                alpha = rng.choice(HIST_ALPHAS)
                split = rng.random() < 0.2
                via = "renderer" if split else rng.choice(
                    ["renderer", "format", "draw"] + (["str"] if alpha == 40 / 255 else []))
                frame = image.tell() if frames > 1 else 0
                rw, rh = image.rendered_size
                ref = fresh(frame)
                shape_ref = pil_shape(ref)
                rows, thr = pixels_at_render_resolution(ref, rw, rh, alpha, tbg)
                if via == "str":
                    out = str(image)
                elif via == "format":
                    out = format(image, "1.1" + alpha_spec(alpha))
                elif via == "draw":
                    out = drawn(image, alpha)
                else:
                    out = image._renderer(image._render_image, alpha, **({"split_cells": True} if split else {}))
                stream = lex_checked(out, h)
                tr = dict(rw=rw, rh=rh, kitty=bool(h["kitty"]), tbg=list(tbg or []), thr=thr,
                          uniform=False, exp=cells_of(rows, rw, rh), srcb=shape_ref,
                          srca=pil_shape(caller) if caller is not None else shape_ref,
                          toks=stream.toks, gfx=[])
                info = dict(step=i, ops=[list(o) for o in ops[: i + 1]], alpha=alpha, via=via, frame=frame,
                            pixel_size=[W, H], native=(rw, 2 * rh) == (W, H))
                out_traces.append((tr, info))
    finally:
        term_image.set_cell_ratio(0.5)
    return out_traces


# ----------------------------------------------------------------------------------------------
# code -> spec: interleaved renders (seeded/C02-y2)
# ----------------------------------------------------------------------------------------------
class Seam:
    """Makes the k-th call of a module-level name of term_image.image.block that render A looks up while
    it is in progress first perform ``action`` (a COMPLETE render of another BlockImage), then proceed.
    Deterministic stand-in for two overlapping renders (two threads): no thread, same interleaving on
    every run.  ``get_fg_bg_colors`` is called right after the output buffer is set up (the terminal
    colour query, a real blocking point); ``zip`` is looked up in the module's globals three times per
    line of the render (row pairing + the pixel loop), so its k-th call lies BETWEEN two lines A writes."""

    def __init__(self, name, k, action):
        self.name, self.k, self.action = name, k, action
        self.calls, self.busy, self.reached = 0, False, False

    def __enter__(self):
        import builtins
        import sys

        self.mod = sys.modules.get("term_image.image.block")
        if self.mod is None:
            raise tlc.MachineryError("seam module term_image.image.block is missing")
        self.had = self.name in vars(self.mod)
        self.orig = vars(self.mod).get(self.name, getattr(builtins, self.name, None))
        if not callable(self.orig) or (self.name != "zip" and not self.had):
            raise tlc.MachineryError(f"seam term_image.image.block.{self.name} is missing")

        def wrapper(*a, **kw):
            if not self.busy:
                self.calls += 1
                if self.calls == self.k:
                    self.busy = True
                    try:
                        self.reached = True
                        self.action()
                    finally:
                        self.busy = False
            return self.orig(*a, **kw)

        setattr(self.mod, self.name, wrapper)
        return self

    def __exit__(self, *exc):
        if self.had:
            setattr(self.mod, self.name, self.orig)
        else:
            delattr(self.mod, self.name)
        return False


def gen_interleaved(rng: random.Random, tier: str):
    sizes = [(w, h) for w in range(1, 9) for h in range(1, 6)]
    reps = 1 if tier == "quick" else 10

    def one():
        rw, rh = rng.choice(sizes)
        return dict(mode=rng.choice(MODES), alpha=rng.choice(ALPHAS), split=rng.random() < 0.3, rw=rw, rh=rh,
                    style=rng.choice(["mixed", "noise", "bilevel"]), seed=rng.randrange(1 << 30),
                    src=rng.choice([[rw, 2 * rh], [rw, 2 * rh], [7, 13], [16, 9]]))

    for seam in ("get_fg_bg_colors", "zip", "zip", "zip"):
        for same in (False, False, False, True):
            for via in ("renderer", "format", "draw", "str"):
                for _ in range(reps):
                    kitty, tbg = rng.random() < 0.4, rng.choice(TERM_BGS)
                    a, b = one(), one()
                    for c in (a, b):
                        c.update(kitty=kitty, tbg=tbg)
                        if c["style"] == "bilevel":
                            c["mode"], c["src"] = rng.choice(["RGB", "RGBA"]), [c["rw"], 2 * c["rh"]]
                    a["via"] = "renderer" if a["split"] else via
                    if a["via"] == "str":
                        a["alpha"] = 40 / 255
                    b["via"] = "renderer"
                    # zip is called once for the pairing of the rows and three times per line
                    k = 1 if seam != "zip" else 1 + 3 * rng.randrange(0, a["rh"]) + rng.choice([1, 2, 3])
                    yield dict(a=a, b=b, same=same, seam=seam, k=k)


def interleaved_traces(pair):
    """Render A is suspended at a seam inside BlockImage._render_image; render B (another image object,
    or the SAME one) runs to completion there; A continues.  Law: renders are independent - both outputs
    are judged on their own by Trace_Block against their own references."""
    from term_image.image import BlockImage

    a, b = pair["a"], pair["b"]
    set_env(a["kitty"], tuple(a["tbg"]) if a["tbg"] else None)
    src_a, rows_a, thr_a, _, via_a = case_reference(a)
    handed_a = src_a.copy()
    image_a = BlockImage(handed_a, width=a["rw"], height=a["rh"])
    if pair["same"]:
        b = dict(a, via="renderer", split=b["split"], alpha=b["alpha"], seed=a["seed"])
        src_b, rows_b, thr_b, _, _ = case_reference(b)  # same source (same seed), B's own alpha
        image_b, handed_b = image_a, handed_a
    else:
        src_b, rows_b, thr_b, _, _ = case_reference(b)
        handed_b = src_b.copy()
        image_b = BlockImage(handed_b, width=b["rw"], height=b["rh"])
    got = {}

    def render_b():
        kw = {"split_cells": True} if b["split"] else {}
        got["b"] = image_b._renderer(image_b._render_image, b["alpha"], **kw)

    with Seam(pair["seam"], pair["k"], render_b) as seam:
        if via_a == "str":
            out_a = str(image_a)
        elif via_a == "format":
            out_a = format(image_a, "1.1" + alpha_spec(a["alpha"]))
        elif via_a == "draw":
            out_a = drawn(image_a, a["alpha"])
        else:
            out_a = image_a._renderer(image_a._render_image, a["alpha"], **({"split_cells": True} if a["split"] else {}))
    if not seam.reached:
        return None
    return [(case_trace(a, src_a, handed_a, rows_a, thr_a, out_a), "A"),
            (case_trace(b, src_b, handed_b, rows_b, thr_b, got["b"]), "B")]


def alpha_kind(alpha) -> str:
    if alpha is None:
        return "none"
    if isinstance(alpha, float):
        return "threshold"
    return "bg-terminal" if alpha == "#" else "bg-colour"


def tamper(trace):
    """Two corruptions of a valid trace that Trace_Block must reject."""
    out = []
    t1 = json.loads(json.dumps(trace))
    cell = t1["exp"][-1][-1]
    cell[4] = (cell[4] + 97) % 256  # lower pixel red component
    cell[7] = 255
    t1["thr"] = []
    out.append(("expected-colour-altered", t1))
    t2 = json.loads(json.dumps(trace))
    for t in reversed(t2["toks"]):
        if t["k"] == "sgr" and len(t["p"]) == 5:
            t["p"][3] = (t["p"][3] + 5) % 256
            out.append(("emitted-colour-altered", t2))
            break
    return out


def code_to_spec(rep: Report, cases, histories=(), interleaved=()):
    traces, owners = [], []
    oracle_free = 0
    hist_kinds = set()
    n_single = 0
    n_inter = 0
    seams = {}
    for pair in interleaved:
        try:
            got = interleaved_traces(pair)
        except tlc.MachineryError:
            raise
        except Exception as e:
            rep.violation(
                f"block:interleaved:{pair['seam']}:render-raises:{type(e).__name__}",
                f"an interleaved render raised {type(e).__name__}: {e}; pair={json.dumps(pair)}",
                {"kind": "interleaved", "pair": pair},
            )
            continue
        if got is None:
            raise tlc.MachineryError(
                f"seam term_image.image.block.{pair['seam']} (call {pair['k']}) was never reached during the "
                f"outer render: {json.dumps(pair)}"
            )
        seams[pair["seam"]] = seams.get(pair["seam"], 0) + 1
        for tr, role in got:
            rep.evaluations += 1
            n_inter += 1
            traces.append(tr)
            c = pair["a"] if role == "A" else pair["b"]
            owners.append(dict(c, interleaved=pair, via=f"interleaved:{pair['seam']}:{role}"))
    if len(interleaved) >= 8 and not (seams.get("get_fg_bg_colors") and seams.get("zip")):
        raise tlc.MachineryError(f"vacuous: interleaved renders reached seams {seams} only")
    for h in histories:
        try:
            got = history_traces(h)
        except tlc.MachineryError:
            raise
        except Exception as e:
            rep.violation(
                f"block:history:{h['src']}:render-raises:{type(e).__name__}",
                f"a step of a multi-render history raised {type(e).__name__}: {e}; history={json.dumps(h)}",
                {"kind": "history", "hist": h},
            )
            continue
        for tr, info in got:
            rep.evaluations += 1
            traces.append(tr)
            owners.append(dict(h, history=info, alpha=info["alpha"], via="history:" + h["src"]))
            hist_kinds.add((h["src"], "native" if info["native"] else "scaled"))
    for case in cases:
        rep.evaluations += 1
        try:
            tr, oracle = trace_of(case)
        except tlc.MachineryError:
            raise
        except Exception as e:
            rep.violation(
                f"block:render-raises:{type(e).__name__}:{alpha_kind(case['alpha'])}",
                f"rendering raised {type(e).__name__}: {e}; case={json.dumps(case)}",
                {"kind": "trace", "case": case},
            )
            continue
        oracle_free += oracle == "none"
        traces.append(tr)
        owners.append(case)
        n_single += 1
    if histories and len(histories) >= len(HIST_KINDS):
        missing = [k for k in HIST_KINDS if (k, "native") not in hist_kinds or (k, "scaled") not in hist_kinds]
        if missing:
            raise tlc.MachineryError(f"vacuous: no native-resolution / scaled history render for {missing}")
    # self-test of the binding: corrupted copies of a valid trace must be rejected
    tampered = []
    base = next((t for t in traces if t["rw"] >= 2 and any(len(x["p"]) == 5 for x in t["toks"])), None)
    if base is not None:
        tampered = tamper(base)
    all_traces = traces + [t for _, t in tampered]
    verdicts, st, trn = tlc.validate_traces(
        "Trace_Block", "Trace_Block.cfg", all_traces, batch=400, parallel=8, workers=2, name="c02"
    )
    rep.states += st
    rep.transitions += trn
    rep.traces_validated += len(traces)
    for (what, _), v in zip(tampered, verdicts[len(traces):]):
        if v["verdict"] == "ok":
            raise tlc.MachineryError(f"Trace_Block accepted a corrupted trace ({what}): the binding is vacuous")
    rep.extra["corrupted_traces_rejected"] = len(tampered)
    bad_base = base is not None and verdicts[traces.index(base)]["verdict"] != "ok"
    if tampered and bad_base:
        rep.notes.append("the trace used for the corruption self-test was itself rejected")
    for v, tr, case in zip(verdicts, traces, owners):
        sig = hashlib.md5(json.dumps([tr["toks"], tr["exp"]]).encode()).hexdigest()
        if sum(t["k"] == "sgr" for t in tr["toks"]) > 2:
            rep.distinct.add(("trace", sig))
        if v["verdict"] == "ok":
            continue
        if v["verdict"].startswith("terminal: unsupported"):
            raise tlc.MachineryError(f"Terminal.tla: {v['verdict']} for {case}")
        clause = v["verdict"].split(":")[0]
        is_hist = "history" in case
        is_inter = "interleaved" in case
        rep.violation(
            f"block:{case['via']}:{clause}" + ("" if is_hist or is_inter else f":{alpha_kind(case['alpha'])}"),
            f"clause {v['verdict']!r} at cell row {v['row']} col {v['col']} ({v['half']} half) of a "
            f"{tr['rw']}x{tr['rh']} render; expected cell {tr['exp'][v['row']][v['col']]} "
            f"(ur,ug,ub,ua,lr,lg,lb,la), threshold {tr['thr']}, kitty={tr['kitty']}, "
            f"terminal bg={tr['tbg']}; caller's image handed over as {tr['srcb']}, afterwards {tr['srca']}; "
            + ("history on one image object (reference from a fresh copy of the source): " if is_hist else
               "interleaved renders (B runs to completion at a seam inside A's render; each judged alone): "
               if is_inter else "case=")
            + json.dumps(case),
            {"kind": "history", "hist": {k: case[k] for k in ("src", "shape", "seed", "kitty", "tbg")}}
            if is_hist else {"kind": "interleaved", "pair": case["interleaved"]}
            if is_inter else {"kind": "trace", "case": case},
        )
    rep.extra["traced_renders"] = n_single
    rep.extra["history_renders"] = len(traces) - n_single - n_inter
    rep.extra["interleaved_renders"] = n_inter
    rep.extra["interleaved_seams"] = seams
    rep.extra["histories"] = len(histories)
    rep.extra["traced_without_resampling_oracle"] = oracle_free
    for tr, case in itertools.islice(
            ((t, c) for t, c in zip(traces, owners) if "history" not in c and "interleaved" not in c), 3):
        rep.sample({"case": case, "expected_first_row": tr["exp"][0][:4],
                    "tokens": [[t["k"], t["n"], t["g"], t["p"]] for t in tr["toks"][:10]]})


# ----------------------------------------------------------------------------------------------
# model checking
# ----------------------------------------------------------------------------------------------
def mutant_cfg(variant: str) -> str:
    text = (tlc.SPECS / "MC_BlockLine.cfg").read_text()
    if 'Variant = "code"' not in text:
        raise tlc.MachineryError("MC_BlockLine.cfg does not set Variant = \"code\"")
    d = OUTDIR / "cfg"
    d.mkdir(parents=True, exist_ok=True)
    p = d / f"MC_BlockLine_{variant}-{os.getpid()}.cfg"
    p.write_text(text.replace('Variant = "code"', f'Variant = "{variant}"'))
    return str(p)


def model_jobs(tier: str, extras_path: Path, seed: int):
    dump_cfg = "MC_BlockLineDump.cfg" if tier == "quick" else "MC_BlockLineDump3.cfg"
    if tier == "quick":  # two per run, rotating with the seed; thorough runs all of them
        k = seed % len(SPEC_MUTANTS)
        mutants = [SPEC_MUTANTS[k], SPEC_MUTANTS[(k + 1) % len(SPEC_MUTANTS)]]
    else:
        mutants = list(SPEC_MUTANTS)
    jobs = [
        dict(spec="MC_BlockLine", cfg="MC_BlockLine.cfg", workers=8, timeout=900, coverage=True,
             deadlock=False),
        dict(spec="MC_BlockLine", cfg=dump_cfg, workers=4 if tier == "quick" else 8, timeout=1500,
             deadlock=False, env={"C02_EXTRA": str(extras_path)}, jvm=["-Xmx6g"]),
    ]
    for m in mutants:
        jobs.append(dict(spec="MC_BlockLine", cfg=mutant_cfg(m), workers=2, timeout=600,
                         deadlock=False, check=False))
    return jobs, mutants


def judge_models(rep: Report, results, mutants):
    mc, dump = results[0], results[1]
    for res, name in ((mc, "free"), (dump, "dump")):
        if res.violated:
            rep.violation(
                f"design:BlockLine:{res.violated}",
                f"the transcription of BlockImage._render_image in BlockLine.tla ({name} mode) violates "
                f"{res.violated}\n{res.error_text[:2500]}",
                {"kind": "design"},
            )
        rep.add_tlc(res)
    if not mc.violated:
        zero = [a for a in NAMED_ACTIONS if mc.coverage.get(a, (0, 0))[0] == 0]
        if zero:
            raise tlc.MachineryError(f"vacuous: actions never taken in MC_BlockLine: {zero}")
    rep.extra["mc_blockline"] = {"states": mc.distinct, "generated": mc.generated, "depth": mc.depth,
                                 "coverage": {a: mc.coverage.get(a) for a in NAMED_ACTIONS}}
    rep.extra["mc_blockline_dump"] = {"states": dump.distinct, "generated": dump.generated}
    caught = {}
    for m, res in zip(mutants, results[2:]):
        if not res.violated:
            raise tlc.MachineryError(
                f"spec mutation {m!r} of BlockLine is not rejected by any invariant (rc={res.rc}): "
                "the model-level properties do not bite"
            )
        caught[m] = res.violated
    rep.extra["spec_mutants_rejected"] = caught


# ----------------------------------------------------------------------------------------------
def main(rep: Report, replay: dict | None) -> None:
    try:
        _main(rep, replay)
    finally:  # scratch files of this process
        shutil.rmtree(OUTDIR / f"hist-{os.getpid()}", ignore_errors=True)
        for f in itertools.chain(OUTDIR.glob(f"*-{os.getpid()}.json"), (OUTDIR / "cfg").glob(f"*-{os.getpid()}.cfg")):
            f.unlink(missing_ok=True)


def _main(rep: Report, replay: dict | None) -> None:
    rep.assumptions += ASSUMPTIONS
    rep.rule = (
        "spec->code: every 1-line image of width <= W (quick 2, thorough 3) over 3 opaque colours + 2 "
        "transparent RGB variants x {alpha, kitty, split} x 3 terminal backgrounds, plus seeded images "
        "of width <= 12 / 1-3 lines; code->spec: factorial over (mode, alpha setting, kitty, split) x "
        "seeded draws of size 1x1..8x5, terminal background, source size, pixel style; uniform images "
        "and native-resolution images at every size. distinct_nontrivial = distinct token streams with "
        "more than one colour run (lines) / distinct (tokens, expected grid) pairs with > 2 SGR (traces)"
    )
    setup()
    OUTDIR.mkdir(parents=True, exist_ok=True)

    if replay:
        sc = replay["scenario"]
        if sc.get("kind") == "trace":
            code_to_spec(rep, [sc["case"]])
            return
        if sc.get("kind") == "history":
            code_to_spec(rep, [], [sc["hist"]])
            return
        if sc.get("kind") == "interleaved":
            code_to_spec(rep, [], [], [sc["pair"]])
            return
        if sc.get("kind") == "line":
            e = dict(kitty=sc["par"][1], split=sc["par"][2], tbg=sc["par"][3], rows=sc["rows"],
                     mode=sc["mode"], alpha_arg=sc["alpha_arg"])
            extras = prepare_extras([e])
            path = extras_file(extras, f"extras-replay-{os.getpid()}.json")
            zero = OUTDIR / "cfg" / f"MC_BlockLineDump0-{os.getpid()}.cfg"
            zero.parent.mkdir(parents=True, exist_ok=True)
            zero.write_text((tlc.SPECS / "MC_BlockLineDump.cfg").read_text().replace("W = 2", "W = 0"))
            res = tlc.run("MC_BlockLine", str(zero), workers=1, timeout=300, deadlock=False,
                          env={"C02_EXTRA": str(path)})
            rep.add_tlc(res)
            spec_to_code(rep, res, extras, None)
            return
        # design-level
        res = tlc.run("MC_BlockLine", "MC_BlockLine.cfg", workers=8, timeout=900, deadlock=False)
        if res.violated:
            rep.violation(f"design:BlockLine:{res.violated}", res.error_text[:2500], {"kind": "design"})
        rep.add_tlc(res)
        return

    t0 = time.time()
    timing = rep.extra.setdefault("timing_s", {})
    rng = random.Random(rep.seed * 104729 + 2)
    extras = prepare_extras(gen_extras(rng, 2 if rep.tier == "quick" else 20))
    path = extras_file(extras, f"extras-{rep.seed}-{os.getpid()}.json")
    jobs, mutants = model_jobs(rep.tier, path, rep.seed)
    results = tlc.run_many(jobs, parallel=len(jobs))
    judge_models(rep, results, mutants)
    timing["tlc_models"] = round(time.time() - t0, 1)
    timing["tlc_models_each"] = [round(r.wall_s, 1) for r in results]
    t0 = time.time()
    if not results[1].violated:
        spec_to_code(rep, results[1], extras, enumerated_count(2 if rep.tier == "quick" else 3))
        # a tampered model line must be noticed by the comparison
        probe = next((r for r in results[1].tagged("LINE") if len(r["toks"]) > 4), None)
        if probe is not None:
            toks = json.loads(json.dumps(probe["toks"]))
            toks[-2], toks[-3] = toks[-3], toks[-2]
            par = (probe["alpha"], probe["kitty"], probe["split"], tuple(probe["tbg"]) or None)
            mode, alpha_arg = default_alpha_arg(0, probe["alpha"])
            if toks != probe["toks"] and replay_line(par, source_from_model_img(probe["img"]), mode, alpha_arg, toks) is None:
                raise tlc.MachineryError("a tampered model line was accepted by the replay comparison")
            rep.extra["tampered_line_rejected"] = True
    path.unlink(missing_ok=True)
    timing["line_replay"] = round(time.time() - t0, 1)
    t0 = time.time()

    cases = list(gen_cases(random.Random(rep.seed * 7919 + 5), rep.tier))
    cases += list(gen_boundary_cases(random.Random(rep.seed * 32452843 + 3), rep.tier))
    histories = list(gen_histories(random.Random(rep.seed * 15485863 + 11), rep.tier))
    interleaved = list(gen_interleaved(random.Random(rep.seed * 49979687 + 7), rep.tier))
    code_to_spec(rep, cases, histories, interleaved)
    timing["traces"] = round(time.time() - t0, 1)
    rep.extra["exhaustive_parts"] = (
        "BlockLine free mode: all reachable loop states over the pixel alphabet for every line length; "
        "dump: every 1-line image of width <= W replayed into the real renderer"
    )
