"""Verdict protocol, evidence files, known findings, replay files (DESIGN 2.6, 2.7)."""

from __future__ import annotations

import fnmatch
import json
import os
import time
from dataclasses import dataclass, field
from pathlib import Path

VERIF = Path(__file__).resolve().parent.parent
OUT = VERIF / "out"
EVIDENCE = VERIF / "evidence"
KNOWN = VERIF / "known_findings.json"


@dataclass
class Violation:
    signature: str  # stable identification: api/call-site/clause/input-class
    detail: str  # human readable: what was expected, what was seen
    scenario: dict  # everything needed to replay


@dataclass
class Report:
    property_id: str
    tier: str
    seed: int
    level: str = "model_checking"
    states: int = 0
    transitions: int = 0
    traces_validated: int = 0
    evaluations: int = 0
    distinct: set = field(default_factory=set)  # signatures of distinct non-trivial cases
    rule: str = ""
    samples: list = field(default_factory=list)
    assumptions: list = field(default_factory=list)
    exhaustive: bool = False
    extra: dict = field(default_factory=dict)
    violations: list = field(default_factory=list)
    notes: list = field(default_factory=list)
    t0: float = field(default_factory=time.time)

    def add_tlc(self, res) -> None:
        self.states += res.distinct
        self.transitions += res.generated

    def violation(self, signature: str, detail: str, scenario: dict | None = None) -> None:
        self.violations.append(Violation(signature, detail, scenario or {}))

    def sample(self, obj, limit: int = 6) -> None:
        if len(self.samples) < limit:
            self.samples.append(obj)


def load_known() -> list[dict]:
    if not KNOWN.exists():
        return []
    data = json.loads(KNOWN.read_text())
    return data.get("findings", [])


def finish(rep: Report) -> int:
    """Print verdict lines, write evidence and replay files; return the exit code."""
    known = [
        k
        for k in load_known()
        if k.get("property") == rep.property_id and k.get("status") == "known"
    ]
    reported_known: set[str] = set()
    unknown: list[Violation] = []
    for v in rep.violations:
        hit = next((k for k in known if fnmatch.fnmatchcase(v.signature, k["signature"])), None)
        if hit:
            reported_known.add(hit["signature"])
        else:
            unknown.append(v)
    for k in known:
        if k["signature"] in reported_known:
            print(f"KNOWN-FINDING: property={rep.property_id} {k['what']}")
    rc = 0
    seen_sig: dict[str, int] = {}
    replay_dir = OUT / "replay"
    replay_dir.mkdir(parents=True, exist_ok=True)
    n = 0
    for v in unknown:
        seen_sig[v.signature] = seen_sig.get(v.signature, 0) + 1
        if seen_sig[v.signature] > 3:
            continue  # at most three replays per signature
        n += 1
        path = replay_dir / f"{rep.property_id}-{n}.json"
        path.write_text(
            json.dumps(
                {
                    "property": rep.property_id,
                    "signature": v.signature,
                    "detail": v.detail,
                    "scenario": v.scenario,
                    "tier": rep.tier,
                    "seed": rep.seed,
                },
                indent=1,
                default=str,
            )
        )
        print(f"VIOLATION property={rep.property_id} replay={path}")
        print(f"  signature: {v.signature}")
        for line in v.detail.splitlines()[:12]:
            print(f"  {line}")
        rc = 1
    if unknown and len(unknown) > n:
        print(f"  ({len(unknown)} violating cases in total; {n} replay files written)")
    if not rep.extra.get("replay_of"):
        # a --replay run re-executes ONE recorded scenario: it must not overwrite the coverage
        # record of the last full run
        write_evidence(rep, len(unknown), sorted(reported_known))
    return rc


def evidence_dir() -> Path:
    """evidence/ holds what the checks found on /repo itself; runs aimed at a scratch copy
    (VERIF_REPO, used by the self-test and the seeded regressions) write elsewhere."""
    repo = os.environ.get("VERIF_REPO") or "/repo"
    if os.path.realpath(repo) != "/repo":
        return OUT / "evidence-scratch"
    return EVIDENCE


def write_evidence(rep: Report, violations: int, known: list[str]) -> None:
    EVIDENCE = evidence_dir()
    if not rep.property_id.startswith("C"):
        # extension checks (./check X..: behaviour beyond the listed properties, DESIGN.md 8.5)
        # are not claimed in MANIFEST.json; their coverage record is kept apart
        EVIDENCE = EVIDENCE.parent / (EVIDENCE.name + "-ext")
    EVIDENCE.mkdir(parents=True, exist_ok=True)
    cov = {
        "states": rep.states,
        "transitions": rep.transitions,
        "traces_validated_against_impl": rep.traces_validated,
        "samples": rep.samples or ["(no sample recorded)"],
        "evaluations": rep.evaluations,
        "distinct_nontrivial": len(rep.distinct),
        "rule": rep.rule,
        "exhaustive": rep.exhaustive,
    }
    cov.update(rep.extra)
    if known:
        cov["known_findings_reobserved"] = known
    ev = {
        "property_id": rep.property_id,
        "tier": rep.tier,
        "seed": rep.seed,
        "level": rep.level,
        "coverage": cov,
        "assumptions": rep.assumptions,
        "wall_s": round(time.time() - rep.t0, 2),
        "violations": violations,
    }
    if rep.notes:
        ev["coverage"]["notes"] = rep.notes
    (EVIDENCE / f"{rep.property_id}.json").write_text(json.dumps(ev, indent=1, default=str))


def tier_seed(argv_tier: str | None) -> tuple[str, int]:
    tier = argv_tier or os.environ.get("VERIF_TIER") or "quick"
    if tier not in ("quick", "thorough"):
        tier = "quick"
    try:
        seed = int(os.environ.get("VERIF_SEED", "0"))
    except ValueError:
        seed = 0
    return tier, seed
