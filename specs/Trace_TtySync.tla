---------------------------- MODULE Trace_TtySync ----------------------------
(***************************************************************************)
(* C14, spec -> code for the SET of synchronized entry points (TtySync).    *)
(* One trace per member, recorded from the real code on a pty by            *)
(* harness/c14_sync_worker.py with a deterministic two-thread protocol:     *)
(*   hold     thread 1 is inside a probe decorated with the real lock_tty   *)
(*   call     thread 2 calls the member                                     *)
(*   wait     thread 2 was seen waiting for the terminal lock               *)
(*   touch    thread 2 reached the member's terminal-touching layer         *)
(*   release  thread 1 leaves the probe (only after thread 2 has touched,   *)
(*            returned or is waiting)                                       *)
(*   return   the member returned                                           *)
(* `hold`/`release` and `touch` are folded through the occupancy automaton  *)
(* TtyLockAbs (a touch is an enter immediately followed by an exit).        *)
(*                                                                         *)
(* Traces of kind "atomic" (the member's terminal accesses are ONE critical *)
(* section - e.g. a query and the read that drains the rest of its reply):  *)
(* nobody holds the lock; whenever thread 2 has fully released the terminal *)
(* lock during the call (`gap`), thread 3 runs the synchronized reader      *)
(* read_tty() to completion (`touch` by 3).  Thread 2 touching the terminal *)
(* again after thread 3 did is a second critical section.                   *)
(***************************************************************************)
EXTENDS TtySync, TLC, Json, IOUtils, FiniteSets

Traces == JsonDeserialize(IOEnv.TRACE_FILE)

ASSUME PrintT(<<"SYNCSET", ToJson(Synchronized)>>)

VARIABLES tid, l, s, verdict, at, touched, waited, returned, intruded
vars == <<tid, l, s, verdict, at, touched, waited, returned, intruded>>

Tr == Traces[tid]
Ev == Tr.ev
N == Len(Ev)
Holder == <<0, 1>>
Caller == <<0, 2>>

Clause(st, e) ==
  IF e.k = "hold" THEN AbsEnterClause(st, Holder)
  ELSE IF e.k = "release" THEN AbsExitClause(st, Holder)
  ELSE IF e.k = "touch" /\ e.t = 3 THEN "ok"
  ELSE IF e.k = "touch" /\ intruded THEN
    "not-atomic: the member released the terminal lock between two of its terminal accesses; another thread's synchronized read ran in between"
  ELSE IF e.k = "touch" THEN
    IF AbsEnterClause(st, Caller) = "ok" THEN "ok"
    ELSE "not-serialized: the member touched the terminal while another thread was inside a function synchronized with lock_tty"
  ELSE IF e.k \in {"call", "wait", "return", "gap"} THEN "ok"
  ELSE "malformed: unknown event"

Apply(st, e) ==
  IF e.k = "hold" /\ AbsEnterClause(st, Holder) = "ok" THEN AbsEnter(st, Holder)
  ELSE IF e.k = "release" /\ AbsExitClause(st, Holder) = "ok" THEN AbsExit(st, Holder)
  ELSE st  \* a touch is enter + exit of the caller

EndClause ==
  IF Tr.member \notin SyncNames THEN "malformed: not a member of Synchronized"
  ELSE IF ~returned THEN "Progress: the member never returned after the lock was released"
  ELSE IF ~touched THEN "vacuous: the member never reached its terminal-touching layer"
  ELSE IF s # AbsFree THEN "malformed: the holder never released"
  ELSE IF Tr.kind = "atomic" /\ ~intruded THEN "vacuous: no other thread got the terminal during or after the call"
  ELSE "ok"

Init ==
  /\ tid \in 1..Len(Traces)
  /\ l = 0 /\ s = AbsFree /\ verdict = "ok" /\ at = 0
  /\ touched = FALSE /\ waited = FALSE /\ returned = FALSE /\ intruded = FALSE

Consume ==
  /\ l < N
  /\ l' = l + 1
  /\ LET e == Ev[l + 1]
         v == IF verdict # "ok" THEN verdict ELSE Clause(s, e) IN
       /\ verdict' = v
       /\ at' = IF verdict = "ok" /\ v # "ok" THEN l + 1 ELSE at
       /\ s' = Apply(s, e)
       /\ touched' = (touched \/ (e.k = "touch" /\ e.t = 2))
       /\ waited' = (waited \/ (e.k = "wait" /\ s.h = Holder))
       /\ returned' = (returned \/ e.k = "return")
       /\ intruded' = (intruded \/ (e.k = "touch" /\ e.t = 3 /\ touched))
  /\ UNCHANGED tid

Finish ==
  /\ l = N
  /\ l' = N + 1
  /\ LET v == IF verdict # "ok" THEN verdict ELSE EndClause IN
       /\ verdict' = v
       /\ at' = IF verdict = "ok" /\ v # "ok" THEN N + 1 ELSE at
  /\ UNCHANGED <<tid, s, touched, waited, returned, intruded>>

Next == Consume \/ Finish
Spec == Init /\ [][Next]_vars

Done == l = N + 1
Report ==
  Done => PrintT(<<"VERDICT", ToJson([tid |-> tid, verdict |-> verdict, at |-> at, member |-> Tr.member, kind |-> Tr.kind,
                                        waited |-> waited,
                                        missing |-> SyncNames \ {Traces[i].member : i \in 1..Len(Traces)}])>>)
=============================================================================
