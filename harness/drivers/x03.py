"""X03 - the process-global configuration API (extension check, beyond the listed properties).

model:      specs/GlobalConfig.tla over specs/GlobalConfigCore.tla: state = (cell-ratio setting,
            AutoCellRatio.is_supported, queries enabled, win-size swap enabled, query timeout) + what the
            documented caching remembers + a scripted terminal; one named action per public operation
            incl. every way a call is rejected; 17 laws as invariants / action properties.
spec->code  TLC dumps every edge of the configuration graphs (MC_GlobalConfig_*_dump.cfg);
            harness/graph.py turns them into covering walks; every walk is executed from a reset module
            on the REAL functions over the virtual tty (harness/x03_world.py on env/vtty.py); after EACH
            operation result, exception, requests written, virtual time spent and the five settings are
            compared with the edge.
code->spec  seeded random histories (arbitrary ratios, timeouts, terminals) and one history on the
            freshly imported, never reset module are recorded and validated by TLC against
            specs/Trace_GlobalConfig.tla.  The law (= signature) of every disagreement - also of those found
            by the replay - comes from that TLA+ module.
"""

from __future__ import annotations

import copy
import gc
import json
import random
import time
from collections import Counter
from concurrent.futures import ThreadPoolExecutor

from .. import graph, tlc
from .. import x03_world as W
from ..core import Report

ASSUMPTIONS = [
    "the documented defaults are: cell ratio 0.5, AutoCellRatio.is_supported None, queries enabled, win-size "
    "swap disabled, timeout DEFAULT_QUERY_TIMEOUT = 0.1 s (docstrings; API page of DEFAULT_QUERY_TIMEOUT)",
    "'rejected' = the call raises; the class is checked where the documentation names it (ValueError for "
    "non-positive numbers, TermImageError for unsupported auto cell ratio); for non-numbers any exception counts",
    "the terminal is the virtual tty of env/vtty.py with replies scripted by request content: all replies to "
    "one request burst arrive together `delay` after it (or never), DA1 is always answered by a terminal that "
    "answers at all; reply delays never equal a timeout; time passes only inside select()",
    "bytes that arrive after a query has given up are consumed by the application before the next operation "
    "(FAQ 'garbage input'); the virtual clock restarts at every operation so that the library's float "
    "arithmetic on the non-dyadic default timeout is exact",
    "caching is modelled as documented ('re-determined only if the terminal size changes'; toggles that change "
    "a flag start afresh): its staleness properties are C15's, query parsing and timing are C12's",
    "the DYNAMIC mode, the two flags and the timeout have no public getter: after every call they are read from "
    "the module globals (seams: utils._queries_enabled, _swap_win_size, _query_timeout, term_image._cell_ratio); "
    "every setting is ALSO observed through its documented effect by the operations of the histories",
    "NaN arguments are accepted by set_cell_ratio() / set_query_timeout() although the documentation asks for "
    "positive numbers: modelled as named deviations (SetRatioNaN, SetTimeoutNaN), not flagged",
    "TLC's -coverage exhausts the heap on this module (cost-model construction over the shared step function); "
    "action coverage is measured from the dumped transitions instead (every generated transition is printed "
    "with its operation)",
]

LAWS = ["TypeOK", "Defaults", "UnsupportedRaises", "SetValueReturned", "DisabledQueries", "NoActiveTerminal",
        "WithinTimeout", "TimeoutApplies", "OnlyOwnSetting", "RejectedChangesNothing", "SetterStores", "SupportOnce",
        "SupportDetermination", "FixedSnapshot", "DynamicFollows", "DisabledUndetermined", "NoTerminalNoSupport",
        "SwapIsTranspose (ASSUME)"]
ACTIONS = ["Switch", "SetRatioFloat", "SetRatioNonPositive", "SetRatioWrongType", "SetRatioNaN", "SetRatioAuto",
           "GetRatio", "SetSupport", "GetCellSize", "EnableQueries", "DisableQueries", "EnableSwap", "DisableSwap",
           "SetTimeout", "SetTimeoutNonPositive", "SetTimeoutWrongType", "SetTimeoutNaN", "QueryTerminal",
           "GetColors", "GetName"]
VARIANTS = {
    "rejectwrites": "set_cell_ratio(<non-positive>) raises but stores a value",
    "supportredetermined": "is_supported is determined again at every auto request",
    "fixedisdynamic": "FIXED stores no snapshot (behaves as DYNAMIC)",
    "swaptouchesratio": "enable_win_size_swap() resets the cell ratio",
    "disabledasks": "query_terminal() queries although queries are disabled",
    "timeoutignored": "query_terminal() waits for the default timeout whatever was set",
}
QUICK_DUMPS = ["ratio", "ratiotmo", "query"]
THOROUGH_DUMPS = ["query_t", "ratio_t", "ratiotmo_t"]
DEFAULT_UNITS = 4096


# ------------------------------------------------------------------ comparing (dumb)
def same_ratio(a, b) -> bool:
    a, b = list(a), list(b)
    if not a or not b or a == [0, 0] or b == [0, 0]:
        return a == b
    return len(a) == 2 and len(b) == 2 and a[0] * b[1] == a[1] * b[0]


def settings_of(state: dict) -> dict:
    return {k: state[k] for k in ("cr", "sup", "queries", "swap", "tmo")}


def differs(op: dict, to: dict, got: dict, obs: dict) -> str:
    """'' if the real observation equals the edge, else the first field that differs."""
    if (got["err"] == "") if op["err"] == "rejected" else (got["err"] != op["err"]):
        return f"err: {got['err'] or 'no exception'}, spec {op['err'] or 'no exception'}"
    if op["op"] == "GetRatio":
        if not same_ratio(got["res"], op["res"]):
            return f"res: {got['res']}, spec {op['res']}"
    elif list(got["res"]) != list(op["res"]):
        return f"res: {got['res']}, spec {op['res']}"
    for k in ("rs", "w", "dt"):
        if got[k] != op[k]:
            return f"{k}: {got[k]!r}, spec {op[k]!r}"
    if obs["odd"]:
        return f"obs: {obs['odd']}"
    if not same_ratio(obs["cr"], to["cr"]):
        return f"setting cr: {obs['cr']}, spec {to['cr']}"
    for k in ("sup", "queries", "swap", "tmo"):
        if obs[k] != to[k]:
            return f"setting {k}: {obs[k]!r}, spec {to[k]!r}"
    return ""


def event_of(op: dict, got: dict, obs: dict) -> dict:
    return {"op": op["op"], "sub": op["sub"], "arg": list(op["arg"]), "res": list(got["res"]), "rs": got["rs"],
            "err": got["err"], "w": got["w"], "dt": got["dt"], "obs": obs}


def is_init(state: dict) -> bool:
    return (state["cr"] == [1, 2] and state["sup"] == "unknown" and state["queries"] is True
            and state["swap"] is False and state["tmo"] == DEFAULT_UNITS and state["det"] == []
            and state["memo"] == {"colors": "miss", "name": "miss"})


# ------------------------------------------------------------------ spec -> code
def replay_walks(lib: W.Lib, walks: list[list[dict]], stats: dict) -> list[dict]:
    """Execute every walk on the real module; returns the diverging prefixes as traces."""
    bad = []
    for wi, walk in enumerate(walks):
        first = walk[0]["from"]
        if not is_init(first):
            raise tlc.MachineryError(f"x03: walk {wi} does not start in an initial state: {first}")
        lib.reset(first["world"], first["term"])
        events = []
        obs0 = lib.observe()
        d0 = differs({"err": "", "op": "", "res": [], "rs": "", "w": 0, "dt": 0}, first, {"err": "", "res": [], "rs": "", "w": 0, "dt": 0}, obs0)
        if d0:
            bad.append({"world": first["world"], "term": first["term"], "dflt": DEFAULT_UNITS, "obs0": obs0, "ev": [],
                        "diff": d0, "walk": wi, "step": -1, "law": "Defaults"})
            stats["abandoned_edges"] += len(walk)
            continue
        for i, edge in enumerate(walk):
            op = edge["op"]
            got = lib.do(op["op"], op["sub"], op["arg"])
            obs = lib.observe()
            events.append(event_of(op, got, obs))
            stats["steps"] += 1
            d = differs(op, edge["to"], got, obs)
            if d:
                bad.append({"world": first["world"], "term": first["term"], "dflt": DEFAULT_UNITS, "obs0": obs0, "ev": events,
                            "diff": d, "walk": wi, "step": i, "law": op["law"]})
                stats["abandoned_edges"] += len(walk) - i - 1
                break
    return bad


def shortest_walk(g: graph.Graph, edge: dict) -> list[dict]:
    """BFS path from an initial state to the source of `edge`, then `edge` (a short reproduction)."""
    from collections import deque

    target = graph.key(edge["from"])
    prev: dict = {k: None for k in g.inits}
    dq = deque(g.inits)
    while dq and target not in prev:
        u = dq.popleft()
        for i, v in g.out[u]:
            if v not in prev:
                prev[v] = (u, i)
                dq.append(v)
    if target not in prev:
        return []
    path = []
    u = target
    while prev[u] is not None:
        u, i = prev[u]
        path.append(g.edges[i])
    return path[::-1] + [edge]


# ------------------------------------------------------------------ code -> spec
def rand_profile(rng: random.Random) -> dict:
    cols, rows = rng.randint(2, 200), rng.randint(2, 60)
    cw, ch = rng.randint(1, 24), rng.randint(1, 48)
    if rng.random() < 0.12:  # a window too small for its cells: a zero dimension
        xpx, ypx = rng.choice([(cols * cw, rng.randint(0, rows - 1)), (rng.randint(0, cols - 1), rows * ch), (0, 0)])
    else:
        xpx, ypx = cols * cw + rng.randint(0, cols - 1), rows * ch + rng.randint(0, rows - 1)
    delay = rng.choice([-1, 5, 15, 105, 645, 1285, 2565, 4095, 4105, 10245, 20485, 30005, 10 * rng.randint(0, 3000) + 5])
    return {"cols": cols, "rows": rows, "xpx": xpx, "ypx": ypx, "iopx": rng.random() < 0.3,
            "xt": rng.choice(["cell", "text", "text", "none"]), "delay": delay}


def rand_op(rng: random.Random, tty: bool, profiles: list[dict]) -> tuple[str, str, list]:
    r = rng.random()
    if r < 0.10 and tty:
        p = rng.choice(profiles) if rng.random() < 0.6 else rand_profile(rng)
        arg, sub = W.profile_arg(p)
        return "Switch", sub, arg
    if r < 0.19:
        n, d = rng.randint(1, 60), rng.randint(1, 60)
        if rng.random() < 0.15:
            return "SetRatioFloat", "int", [rng.randint(1, 9), 1]
        from fractions import Fraction

        f = Fraction(n, d)
        return "SetRatioFloat", "int" if f.denominator == 1 else "float", [f.numerator, f.denominator]
    if r < 0.24:
        return "SetRatioNonPositive", rng.choice(["zero", "negzero", "negative", "neginf", "negint"]), []
    if r < 0.28:
        return "SetRatioWrongType", rng.choice(["str", "none", "list", "complex"]), []
    if r < 0.30:
        return "SetRatioNaN", "nan", []
    if r < 0.42:
        return "SetRatioAuto", rng.choice(["FIXED", "DYNAMIC"]), []
    if r < 0.54:
        return "GetRatio", "", []
    if r < 0.58:
        return "SetSupport", rng.choice(["yes", "no", "unknown", "unknown"]), []
    if r < 0.66:
        return "GetCellSize", "", []
    if r < 0.70:
        return "EnableQueries", "", []
    if r < 0.74:
        return "DisableQueries", "", []
    if r < 0.78:
        return "EnableSwap", "", []
    if r < 0.81:
        return "DisableSwap", "", []
    if r < 0.87:
        return "SetTimeout", "", [rng.choice([10, 640, 1280, 2560, 4096, 4100, 10240, 20480, 10 * rng.randint(1, 4000)])]
    if r < 0.90:
        return "SetTimeoutNonPositive", rng.choice(["zero", "negzero", "negative", "neginf", "negint"]), []
    if r < 0.92:
        return "SetTimeoutWrongType", rng.choice(["str", "none", "list", "complex"]), []
    if r < 0.93:
        return "SetTimeoutNaN", "nan", []
    if r < 0.96:
        return "QueryTerminal", "", []
    if r < 0.98:
        return "GetColors", "", []
    return "GetName", "", []


def gen_history(rng: random.Random, length: int) -> dict:
    world = {"tty": rng.random() < 0.88, "termprog": rng.random() < 0.3}
    profiles = [rand_profile(rng) for _ in range(3)]
    # a second terminal of the same size in cells (documented caching) with other pixels / latency
    twin = dict(profiles[0], delay=rng.choice([-1, 5, 2565, 10245]), xpx=profiles[0]["xpx"] + profiles[0]["cols"])
    profiles.append(twin)
    return {"world": world, "term": profiles[0],
            "ops": [list(rand_op(rng, world["tty"], profiles)) for _ in range(length)]}


def record(lib: W.Lib, scn: dict, fresh: bool = False) -> dict:
    """Run a history on the real module and record it.  fresh: the module was imported but never reset."""
    if fresh:
        lib.install(scn["world"], scn["term"])
    else:
        lib.reset(scn["world"], scn["term"])
    obs0 = lib.observe()
    ev = []
    for name, sub, arg in scn["ops"]:
        got = lib.do(name, sub, arg)
        ev.append(event_of({"op": name, "sub": sub, "arg": arg}, got, lib.observe()))
    return {"world": scn["world"], "term": scn["term"], "dflt": DEFAULT_UNITS, "obs0": obs0, "ev": ev}


FRESH_OPS = [["QueryTerminal", "", []], ["GetRatio", "", []], ["GetCellSize", "", []], ["GetColors", "", []],
             ["SetRatioAuto", "DYNAMIC", []], ["GetRatio", "", []], ["GetName", "", []]]
FRESH_TERM = {"cols": 11, "rows": 4, "xpx": 99, "ypx": 72, "iopx": False, "xt": "text", "delay": 325}


# ------------------------------------------------------------------ verdicts
def _trace_json(t: dict) -> dict:
    return {k: t[k] for k in ("world", "term", "dflt", "obs0", "ev")}


def validate(traces: list[dict], name: str):
    if not traces:
        return [], 0, 0
    return tlc.validate_traces("Trace_GlobalConfig", "Trace_GlobalConfig.cfg", [_trace_json(t) for t in traces],
                               batch=150, parallel=4, workers=2, timeout=600, name=name)


def _scenario(t: dict, upto: int | None = None) -> dict:
    ev = t["ev"] if upto is None else t["ev"][:upto]
    return {"kind": "history", "world": t["world"], "term": t["term"], "fresh": bool(t.get("fresh")),
            "ops": [[e["op"], e["sub"], e["arg"]] for e in ev]}


def _describe(t: dict, v: dict, origin: str) -> str:
    at = v["at"]
    lines = [f"[{origin}] law {v['verdict']!r} at operation {at} of {len(t['ev'])}; world {t['world']}, "
             f"terminal at start {t['term']}" + (" (freshly imported module, never reset)" if t.get("fresh") else "")]
    if at == 0:
        shown = {k: v2 for k, v2 in t["obs0"].items() if k != "odd" or v2}
        lines.append(f"  settings observed before the first call: {shown}")
    for i, e in enumerate(t["ev"][max(0, at - 8):at], max(0, at - 8) + 1):
        res = e["err"] or e["rs"] or (e["res"] if e["res"] else "")
        lines.append(f"  {i}. {e['op']}({e['sub']}{' ' + str(e['arg']) if e['arg'] else ''}) -> {res} "
                     f"[requests {e['w']}, waited {e['dt']} units] settings {({k: v2 for k, v2 in e['obs'].items() if k != 'odd'})}")
    if t.get("diff"):
        lines.append(f"  replay difference at step {t['step'] + 1} of walk {t['walk']} of model {t.get('dump')}: {t['diff']}")
    return "\n".join(lines)


def report(rep: Report, traces: list[dict], validated, origin: str, expect_fail: bool = False):
    verdicts, st, tr = validated
    rep.states += st
    rep.transitions += tr
    for t, v in zip(traces, verdicts):
        if v["verdict"].startswith("malformed"):
            raise tlc.MachineryError(f"x03: {v['verdict']} at event {v['at']} ({origin})")
        if expect_fail and (v["verdict"] == "ok" or v["at"] != len(t["ev"])):
            raise tlc.MachineryError(
                f"x03: the replay saw a difference ({t.get('diff')}) at walk {t.get('walk')} step {t.get('step')} "
                f"that Trace_GlobalConfig does not confirm: {v}")
        if v["verdict"] != "ok":
            opname = t["ev"][v["at"] - 1]["op"] if v["at"] else ("import" if t.get("fresh") else "reset")
            rep.violation(f"{opname}:{v['verdict']}", _describe(t, v, origin), _scenario(t, v["at"]))
    return verdicts


# ------------------------------------------------------------------ main
def _replay(rep: Report, replay: dict) -> None:
    sc = replay["scenario"]
    if sc.get("kind") == "design":
        res = tlc.run("MC_GlobalConfig", sc["cfg"], workers=4, timeout=900)
        rep.add_tlc(res)
        if res.violated:
            rep.violation(f"design:GlobalConfig:{res.violated}", res.error_text[:1500], sc)
        return
    lib = W.Lib()
    t = record(lib, sc, fresh=sc.get("fresh", False))
    t["fresh"] = sc.get("fresh", False)
    rep.evaluations += len(t["ev"])
    rep.traces_validated += 1
    report(rep, [t], validate([t], "x03-replay"), "replay")


def main(rep: Report, replay: dict | None) -> None:
    rep.assumptions += ASSUMPTIONS
    rep.rule = (
        "spec->code: every edge of the dumped configuration graphs executed on the real module in covering walks "
        "from a reset module, outcome and settings compared after each step; code->spec: one trace per seeded "
        "random history + one history on the never-reset module; distinct_nontrivial = distinct model edges + "
        "distinct recorded histories"
    )
    rep.extra["laws"] = LAWS
    if replay:
        _replay(rep, replay)
        return
    quick = rep.tier == "quick"
    timing = rep.extra.setdefault("timing_s", {})
    t0 = time.time()

    def lap(name):
        nonlocal t0
        timing[name] = round(time.time() - t0, 1)
        t0 = time.time()

    lib = W.Lib()
    dumps = QUICK_DUMPS if quick else QUICK_DUMPS + THOROUGH_DUMPS
    mcs = list(dumps)
    with ThreadPoolExecutor(max_workers=4) as ex:
        f_dump = {d: ex.submit(tlc.run, "MC_GlobalConfig", f"MC_GlobalConfig_{d}_dump.cfg", workers=1,
                               timeout=300 if quick else 1500) for d in dumps}
        f_mc = {m: ex.submit(tlc.run, "MC_GlobalConfig", f"MC_GlobalConfig_{m}.cfg", workers=2 if quick else 4,
                             timeout=300 if quick else 1500) for m in mcs}
        f_var = {v: ex.submit(tlc.run, "MC_GlobalConfig", "MC_GlobalConfig_var.cfg", workers=1, timeout=300,
                              env={"VARIANT": v}) for v in VARIANTS}

        # ---- code -> spec: the never-reset module first, then seeded histories (while TLC runs)
        fresh = record(lib, {"world": {"tty": True, "termprog": False}, "term": FRESH_TERM, "ops": FRESH_OPS}, fresh=True)
        fresh["fresh"] = True
        rng = random.Random(rep.seed * 7919 + 3)
        nhist = 300 if quick else 3000
        recorded = [fresh]
        for _ in range(nhist):
            recorded.append(record(lib, gen_history(rng, rng.randint(15, 50) if quick else rng.randint(20, 120))))
        lap("record_histories")
        # guard: a corrupted copy of a recorded trace (one observed setting altered) must be rejected there
        src_i = next(i for i, t in enumerate(recorded) if any(e["op"] == "SetRatioNonPositive" for e in t["ev"]))
        canary = copy.deepcopy(_trace_json(recorded[src_i]))
        k = next(i for i, e in enumerate(canary["ev"]) if e["op"] == "SetRatioNonPositive")
        canary["ev"] = canary["ev"][: k + 1]
        canary["ev"][k]["obs"]["cr"] = [7, 9]
        f_hist = ex.submit(validate, recorded + [canary], "x03-c2s")

        # ---- spec -> code: every edge of every dumped graph
        stats = {"steps": 0, "abandoned_edges": 0}
        cover: Counter = Counter()
        mism: list[dict] = []
        nwalks = nedges = 0
        tampered_ok = None
        for d in dumps:
            res = f_dump[d].result()
            if res.violated:
                raise tlc.MachineryError(f"x03: edge dump {d} failed: {res.violated}\n{res.error_text[:1500]}")
            rep.add_tlc(res)
            g = graph.from_result(res)
            if not g.edges or not g.inits:
                raise tlc.MachineryError(f"x03: edge dump {d} is empty")
            walks = g.walks(max_len=80)
            if g.unreachable_edges:
                raise tlc.MachineryError(f"x03: {g.unreachable_edges} dumped edges of {d} are unreachable")
            gc.freeze()
            for e in g.edges:
                cover[e["op"]["op"]] += 1
            lap(f"dump_{d}")
            if tampered_ok is None:
                # guard: a tampered edge (expected setting altered) must be noticed at that edge - judged on
                # a walk the code under test follows faithfully (if there is none, the check fails anyway)
                tampered_ok = "not judged: the code diverges on every candidate walk"
                cands = [w for w in walks if any(e["op"]["op"] == "SetRatioFloat" for e in w)][:25]
                for cw in cands:
                    ti_ = next(i for i, e in enumerate(cw) if e["op"]["op"] == "SetRatioFloat")
                    tw = copy.deepcopy(cw[: ti_ + 1])
                    if replay_walks(lib, [tw], {"steps": 0, "abandoned_edges": 0}):
                        continue
                    tw[ti_]["to"]["cr"] = [tw[ti_]["to"]["cr"][0] + 1, tw[ti_]["to"]["cr"][1]]
                    tb = replay_walks(lib, [tw], {"steps": 0, "abandoned_edges": 0})
                    if not (tb and tb[0]["step"] == ti_):
                        raise tlc.MachineryError("x03: the replay did not notice a tampered edge")
                    tampered_ok = "noticed"
                    break
            bad = replay_walks(lib, walks, stats)
            # a short reproduction for (the first of each kind of) divergence
            kinds = set()
            for b in bad:
                b["dump"] = d
                kind = (b["ev"][-1]["op"] if b["ev"] else "", b["law"], b["diff"].split(":")[0])
                if kind in kinds or len(kinds) >= 12 or b["step"] < 0:
                    continue
                kinds.add(kind)
                sw = shortest_walk(g, walks[b["walk"]][b["step"]])
                if sw and len(sw) < b["step"] + 1:
                    sb = replay_walks(lib, [sw], {"steps": 0, "abandoned_edges": 0})
                    if sb and sb[0]["step"] == len(sw) - 1:
                        b.update(ev=sb[0]["ev"], obs0=sb[0]["obs0"], diff=sb[0]["diff"], step=sb[0]["step"], walk=f"{b['walk']} (shortest path)")
            mism += bad
            nwalks += len(walks)
            nedges += len(g.edges)
            rep.distinct.update((d, i) for i in range(len(g.edges)))
            rep.extra.setdefault("replay", {})[d] = {"states": g.nodes, "edges": len(g.edges), "inits": len(g.inits),
                                                     "walks": len(walks), "diverging_walks": len(bad)}
            if d == dumps[0] and walks:
                w0 = max(walks[:50], key=lambda w: len({e["op"]["op"] for e in w[:10]}))
                rep.sample({"walk": [[e["op"]["op"], e["op"]["sub"], e["op"]["arg"], e["op"]["err"] or e["op"]["rs"] or e["op"]["res"]]
                                     for e in w0[:10]], "model": d})
            lap(f"replay_{d}")
        rep.traces_validated += nwalks
        rep.evaluations += stats["steps"]
        rep.extra["replay_totals"] = {"edges": nedges, "walks": nwalks, "steps": stats["steps"],
                                      "edges_behind_a_divergence": stats["abandoned_edges"],
                                      "late_reply_bytes_discarded": lib.dev.discarded}
        vac = [a for a in ACTIONS if not cover.get(a)]
        if vac:
            raise tlc.MachineryError(f"x03: vacuous actions (no transition generated): {vac}")
        rep.extra["action_coverage"] = dict(cover)

        # ---- the model itself and its seeded regressions
        for m, f in f_mc.items():
            res = f.result()
            rep.add_tlc(res)
            rep.extra.setdefault("model", {})[m] = {"states": res.distinct, "transitions": res.generated,
                                                    "depth": res.depth, "wall_s": round(res.wall_s, 1)}
            if res.violated:
                rep.violation(f"design:GlobalConfig:{res.violated}",
                              f"the model in GlobalConfig.tla violates {res.violated} ({m})\n{res.error_text[:1500]}",
                              {"kind": "design", "cfg": f"MC_GlobalConfig_{m}.cfg"})
        for v, f in f_var.items():
            res = f.result()
            rep.add_tlc(res)
            if not res.violated:
                raise tlc.MachineryError(f"x03: model variant {v!r} ({VARIANTS[v]}) satisfies every law: the "
                                         f"specification no longer discriminates")
            rep.extra.setdefault("model_variants", {})[v] = f"{res.violated} after {res.distinct} states"
        lap("wait_model_check")

        hv, hst, htr = f_hist.result()
        lap("wait_validate_histories")
    cv = hv.pop()
    if hv[src_i]["verdict"] != "ok":
        rep.extra["guards"] = {"corrupted_trace_verdict": "not judged: its source history is itself rejected",
                               "tampered_edge": tampered_ok}
    else:
        if not cv["verdict"].startswith("RejectedChangesNothing") or cv["at"] != k + 1:
            raise tlc.MachineryError(f"x03: Trace_GlobalConfig did not reject a corrupted trace as expected: {cv}")
        rep.extra["guards"] = {"corrupted_trace_verdict": cv["verdict"], "tampered_edge": tampered_ok}

    # ---- replay differences, classified by the Trace spec
    if mism:
        seen = set()
        uniq = []
        for b in mism:
            key = (b["ev"][-1]["op"] if b["ev"] else "", b["law"], b["diff"].split(":")[0])
            if key not in seen and len(uniq) < 40:
                seen.add(key)
                uniq.append(b)
        report(rep, uniq, validate(uniq, "x03-s2c"), "spec->code replay", expect_fail=True)
        rep.extra["replay_totals"]["diverging_walks"] = len(mism)
    elif stats["abandoned_edges"]:
        raise tlc.MachineryError("x03: edges were skipped although no walk diverged")

    # ---- recorded histories
    verdicts = report(rep, recorded, (hv, hst, htr), "code->spec history")
    rep.traces_validated += len(recorded)
    rep.evaluations += sum(len(t["ev"]) for t in recorded)
    for t in recorded:
        rep.distinct.add(("hist", json.dumps(_scenario(t), sort_keys=True)))
    laws_seen = sorted({x for v in verdicts for x in v["laws"]})
    rep.extra["histories"] = {"recorded": len(recorded), "events": sum(v["events"] for v in verdicts),
                              "requests_written": sum(v["asked"] for v in verdicts), "laws_exercised": laws_seen,
                              "rejected": sum(1 for v in verdicts if v["verdict"] != "ok")}
    if not rep.violations:
        need = {"RejectedChangesNothing", "SetterStores", "UnsupportedRaises", "FixedSnapshot", "DynamicFollows",
                "SetValueReturned", "DisabledQueries", "NoActiveTerminal", "TimeoutApplies", "SwapEffect", "Remembered"}
        if not need <= set(laws_seen) or not rep.extra["histories"]["requests_written"]:
            raise tlc.MachineryError(f"x03: the recorded histories are vacuous: laws never exercised {sorted(need - set(laws_seen))}")
    rep.exhaustive = True
    rep.extra["exhaustive_over"] = (
        "all histories of the GlobalConfig configurations listed under extra.model (finite state graphs fully "
        "explored by TLC); every edge of the graphs under extra.replay executed on the real module; the recorded "
        "histories are samples")
    rep.sample({"history": _scenario(recorded[1])["ops"][:8], "world": recorded[1]["world"]})
    rep.sample({"fresh_import_history": [[e["op"], e["sub"], e["res"] or e["rs"], e["w"], e["dt"]] for e in fresh["ev"]]})
