"""C06 / TermSizeEnv: observe, in a chosen process environment, the terminal size the library
works with and whether draw() accepts / rejects renders sized against it.

Run as ``python -m harness.termenv_worker <job.json>`` in a NEW SESSION.  ``job``: ``slave``
(path of a pty slave whose master the driver holds and whose window size it has set), ``out`` /
``inp`` / ``err`` / ``ctty`` (which of stdout, stdin, stderr, /dev/tty is the terminal), ``decoy``
(COLUMNS, LINES to export; [0, 0] = unset), ``src``, ``result_file``.
"""

from __future__ import annotations

import json
import os
import signal
import sys


def main():
    job = json.load(open(sys.argv[1]))
    for sig in (signal.SIGHUP, signal.SIGTTOU, signal.SIGTTIN):
        signal.signal(sig, signal.SIG_IGN)
    null = os.open(os.devnull, os.O_RDWR)
    if job["ctty"]:
        os.close(os.open(job["slave"], os.O_RDWR))  # a session leader acquires the first tty it opens
    tty = os.open(job["slave"], os.O_RDWR | os.O_NOCTTY)
    for fdnum, key in ((0, "inp"), (1, "out"), (2, "err")):
        os.dup2(tty if job[key] else null, fdnum)
    os.close(tty)
    for k in ("COLUMNS", "LINES"):
        os.environ.pop(k, None)
    if job["decoy"] != [0, 0]:
        os.environ["COLUMNS"], os.environ["LINES"] = map(str, job["decoy"])
    res = {"env": {k: job[k] for k in ("out", "inp", "err", "ctty", "decoy", "tty")}}
    try:
        os.close(os.open("/dev/tty", os.O_RDWR | os.O_NOCTTY))
        res["has_ctty"] = True
    except OSError:
        res["has_ctty"] = False
    sys.path.insert(0, job["src"])
    import warnings

    warnings.simplefilter("ignore")
    from PIL import Image

    from term_image import utils
    from term_image.geometry import Size
    from term_image.image import BlockImage
    from term_image.renderable import Frame, Renderable

    cols, lines = utils.get_terminal_size()
    res["size"] = [cols, lines]

    class Box(Renderable):
        def __init__(self, w, h):
            super().__init__(1, 1)
            self._wh = (w, h)

        def _get_render_size_(self):
            return Size(*self._wh)

        def _render_(self, render_data, render_args):
            w, h = self._wh
            return Frame(0, None, Size(w, h), "\n".join("x" * w for _ in range(h)))

    def outcome(fn):
        try:
            fn()
            return "ok"
        except Exception as e:  # the exception class is the observation
            return type(e).__name__

    # sized against the size the SPEC expects, so that a wrong answer shows as a wrong outcome
    ecols = job["expect_cols"]
    res["new_fit"] = outcome(lambda: Box(ecols, 1).draw())
    res["new_over"] = outcome(lambda: Box(ecols + 1, 1).draw())

    def old(width):
        img = BlockImage(Image.new("RGB", (width, 2)))
        img.set_size(width=width)
        img.draw(pad_width=1, pad_height=1)

    res["old_fit"] = outcome(lambda: old(ecols))
    res["old_over"] = outcome(lambda: old(ecols + 1))
    with open(job["result_file"], "w") as f:
        json.dump(res, f)
    os._exit(0)


if __name__ == "__main__":
    main()
