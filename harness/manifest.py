"""Single source of truth for MANIFEST.json:  /venv/bin/python -m harness.manifest

Each entry of CHECKS is a property that has a working check; every property of
properties.jsonl that is not in CHECKS is listed under not_applicable with its reason
from PENDING (or a generic one), so the manifest is valid at any point of the build.
"""

from __future__ import annotations

import json
from pathlib import Path

VERIF = Path(__file__).resolve().parent.parent

LEVEL_NOTE = (
    "Trusted base: TLC 2026.09.04; harness/lexer.py (bound to specs/VT.tla); the terminal "
    "semantics stated in specs/Terminal.tla; Pillow for pixel decoding."
)

CHECKS: dict[str, dict] = {
    "C01": dict(
        technique="TLA+ terminal model (Terminal.tla) + TLC trace validation of real render outputs; "
        "TLC exhaustive check of the choreography spec (RenderShape.tla)",
        text="TLC checks the rectangle clauses on the design-level choreography for every style/method/"
        "quirk/size/start position (exhaustive, small bounds), and validates the token stream of "
        "thousands of real renders against the same clauses after every token.",
        design_ref="DESIGN.md 3 C01",
    ),
    "C02": dict(
        technique="TLA+ transcription of the block run-length loop (BlockLine.tla: RunUniform, Painted) explored by "
        "TLC with every enumerated line replayed into the real BlockImage; real renders validated cell for "
        "cell by TLC on Terminal.tla (Trace_Block.tla)",
        text="TLC saturates the state space of the run-length machine (every line length over the pixel alphabet) "
        "and checks that every flushed run paints exactly the displayed value of each of its cells; the token "
        "sequence of every enumerated line must equal the real renderer's; thousands of real renders over "
        "all modes / alpha settings / backgrounds / kitty workaround / split cells are interpreted by the "
        "terminal model and compared cell for cell with the source pixels.",
        design_ref="DESIGN.md 3 C02, notes/C02.md",
    ),
    "C03": dict(
        technique="TLA+ model of the kitty chunk producer composed with the protocol receiver (Gfx.tla, every payload "
        "length class) + render-loop model (MC_GfxRender); chunk sequences replayed into the real "
        "Transmission.get_chunks; command sequences of real renders judged by TLC (Trace_Gfx.tla) on "
        "decoded projections",
        text="TLC checks receiver-accepts and reassembled-length for every payload length through 3 chunks at the "
        "real chunk size and the framing/resolution/strip/size-key/read-from-file rules on a model of the "
        "render loops; all printed chunk sequences are replayed into the real code; thousands of real kitty "
        "and iterm2 renders (boundary payload sizes, all methods, compression, alpha, z, jpeg, "
        "read_from_file x source kind) are decoded by a dumb projection and judged by TLC.",
        design_ref="DESIGN.md 3 C03, notes/C03.md",
        level_note="Trusted base: TLC; harness/c03_project.py (base64/zlib/PNG/JPEG decoding and byte comparison "
        "with a Pillow BOX reference - no judgement); JPEG payloads are only required to decode to the "
        "right mode and dimensions.",
    ),
    "C04": dict(
        technique="integer-only TLA+ relation SizeRel + exact-rational transcription Algo (Sizing.tla): TLC checks "
        "Algo => SizeRel on the grid and the size-history machine; history edges replayed into real image "
        "objects; millions of real set_size/size=/rendered_size/rows() results judged by TLC against SizeRel",
        text="The property is a tolerance relation evaluated in exact integer arithmetic by TLC: on the model of the "
        "algorithm for every original/terminal/cell-size/ratio/frame/mode combination of the grid, and on "
        "the results of the real code for the same grid and for seeded large inputs; fixed-vs-dynamic size "
        "histories (set_size, resize, set_cell_ratio, render) are explored exhaustively and replayed.",
        design_ref="DESIGN.md 3 C04, notes/C04.md",
        level_note="Trusted base: TLC. The float arithmetic of _valid_size is not modelled bit for bit: the property "
        "is the relation, checked as such.",
    ),
    "C05": dict(
        technique="Padding.tla (dimension algebra, exhaustive) replayed into the real padding classes and the old-API "
        "argument rules; padded outputs of real code judged by TLC on two Terminal.tla instances "
        "(Trace_Pad.tla: inner render vs padded output)",
        text="TLC enumerates every padding x render size x terminal size within bounds and checks the size/offset "
        "laws; every table entry is replayed into resolve/get_padded_size/to_exact/_get_exact_dimensions_/"
        "_check_formatting; the outputs of Padding.pad, Renderable.render/draw, RenderIterator frames, "
        "format(image) and BaseImage.draw are interpreted by the terminal model and must contain the inner "
        "render unchanged at the dictated offset inside exactly the padded box.",
        design_ref="DESIGN.md 3 C05, notes/C05.md",
    ),
    "C06": dict(
        technique="Terminal.tla in absolute line coordinates + TLC trace validation of the bytes real draw() "
        "calls deliver (both APIs); Draw.tla / DrawOld.tla draw programs vs the real operation log; "
        "DrawValidate.tla table replayed into the real draw(); TermSizeEnv.tla: real get_terminal_size()/draw() in "
        "48 process environments",
        text="Every token of the output of ~2000 real draw() calls (render size x padding/alignment x frames x "
        "loops x start row incl. forced scrolling x tty/non-tty x block/kitty/iterm2 x terminal identity) "
        "is folded through the terminal model by TLC with the clauses 'nothing outside the padded region', "
        "'frames never leave the first frame's rectangle', 'last frame shown, padding blank, cursor visible "
        "at column 0 of the line below, exactly the necessary scrolling'; the documented validation table "
        "is enumerated by TLC and replayed (verdict class, nothing written before rejection); the terminal "
        "size those decisions use is bound by arranging every environment of TermSizeEnv.tla for a real process.",
        design_ref="DESIGN.md 3 C06, 8.2, 8.4",
    ),
    "C07": dict(
        category="fault_enumeration",
        technique="fault enumeration over every pre-clean-up write/flush/sleep/render of draw() x delivered "
        "prefix x {KeyboardInterrupt, Exception}; each faulted byte stream judged by TLC on Terminal.tla "
        "+ VT parser rules (Trace_Draw.tla, FaultEnd clauses)",
        text="The clean run of each scenario is recorded to enumerate the operations draw() issues; the scenario "
        "is re-run once per (operation, prefix class / character position, exception kind) against a "
        "faulting tty-like stdout with real termios calls on a pty; TLC checks cursor visible, attributes "
        "reset, no open control string / chunked transfer, termios restored, data finalized once, image "
        "size and frame unchanged, documented outcome.",
        design_ref="DESIGN.md 3 C07",
    ),
    "C08": dict(
        technique="TLA+ state machine of RenderIterator (RenderIter.tla) explored by TLC; every edge of the "
        "state graph replayed into the real iterator (spec->code) and random real histories validated "
        "by TLC (code->spec)",
        text="TLC enumerates every operation history up to a depth bound (definite and INDEFINITE sources, "
        "all loop/cache/ownership variants) and checks the action properties; all edges are executed "
        "on real RenderIterator objects comparing frames, loop, errors and the renderable's frame after "
        "every call; long random histories recorded from the real code are validated against the spec.",
        design_ref="DESIGN.md 3 C08",
    ),
    "C09": dict(
        technique="RenderIter.tla (cache model, NoRerender / FrameMatchesSettings) + replay on paired "
        "cached/uncached real iterators + TLC-validated paired histories",
        text="The cached model is explored exhaustively within bounds; every edge is replayed on a pair of "
        "real iterators (cache on/off) whose frames must be identical and whose render counts must "
        "follow the spec; random paired histories are validated by TLC.",
        design_ref="DESIGN.md 3 C09",
    ),
    "C10": dict(
        technique="RenderIter.tla ownership/finalization invariants + RenderOp.tla lifecycle automaton; "
        "edge replay with a finalization log and TLC-validated event logs",
        text="TLC checks finalize-exactly-once / never-after-final on every history with injected render "
        "failures, close and drop; the real code's per-data event log (created / rendered / finalized) "
        "must equal the specified program for every operation and failure point, and random operation "
        "logs are validated against the lifecycle automaton.",
        design_ref="DESIGN.md 3 C10",
    ),
    "C11": dict(
        technique="TLA+ model of images, iterators, open handles, temp files and injected failures (ImageIter.tla) "
        "explored by TLC; every edge and simulated deep behaviours replayed on real Block/Kitty/ITerm2 "
        "images from file, PIL and loopback-URL sources; recorded histories validated by TLC",
        text="TLC checks frame order/identity, tell(), handle and temp-file accounting, caller-image safety and "
        "size-setting preservation over all histories of format/str/draw/iterate/seek/close/drop with one "
        "injected conversion failure; the histories are executed on real images observing /proc/self/fd, "
        "the file objects Pillow opened, the temp directory and every frame, and judged by TLC.",
        design_ref="DESIGN.md 3 C11, notes/C11.md",
    ),
    "C12": dict(
        technique="TLA+ statement-level model of query_terminal/read_tty and their callers against a virtual-time "
        "tty (Tty.tla) explored by TLC; every explored schedule replayed into the real functions on a "
        "virtual-time device; syscall traces of virtual and real-pty runs validated by TLC (Trace_Tty.tla)",
        text="TLC explores reply partitions, delays, unsupported-query subsets and terminators and checks result = "
        "replies, nothing left unread, elapsed <= timeout; the environment schedule of every behaviour is "
        "replayed deterministically into the real code; colour replies over all component widths, identity "
        "/ version tables around the support thresholds and real pty runs are validated against the spec.",
        design_ref="DESIGN.md 3 C12, notes/C12.md",
    ),
    "C13": dict(
        category="fault_enumeration",
        technique="Tty.tla with a Fault action on every syscall (MC_TtyFault) + replay of every enumerated fault on "
        "a virtual tty and on a real pty (exceptions, KeyboardInterrupt, real SIGINT), call logs validated "
        "by TLC",
        text="TLC enumerates (operation, read mode, initial attribute word, syscall index, before/after, kind) and "
        "checks the attribute word at termination equals the one at entry; every enumerated fault is "
        "injected into the real code on a real pty and termios.tcgetattr before/after is compared byte for "
        "byte; draw()'s echo suppression included.",
        design_ref="DESIGN.md 3 C13, notes/C13.md",
    ),
    "C14": dict(
        technique="TLA+ model of the lock hand-over (TtyLock.tla: threads, starter, children, FIFO terminal) explored "
        "by TLC; every interleaving edge replayed into the real lock_tty/_process_start_wrapper/"
        "_process_run_wrapper under a cooperative scheduler; stamped traces of real thread x process runs "
        "(fork/spawn/forkserver) validated by TLC",
        text="TLC checks MutualExclusion, OwnReply and Reentrant on every interleaving of synchronized calls with "
        "Process.start() (incl. grandchildren) and shows the single-acquisition variant violates them; each "
        "explored interleaving is executed deterministically on the real code with the global read, acquire "
        "and release as scheduling points; real multi-process runs are validated as traces.",
        design_ref="DESIGN.md 3 C14, notes/C14.md",
    ),
    "C15": dict(
        technique="TLA+ model of the terminal-fact caches (TermCache.tla) and of the memoizing decorators (Memo.tla) "
        "explored by TLC; edges replayed on a real pty (TIOCSWINSZ, scripted responder) and under the "
        "cooperative scheduler; seeded histories validated by TLC",
        text="TLC checks that every get_* returns what a cache-less computation would (with the documented pixel-only "
        "exemption) after any history of resizes, swap/query toggles and ratio modes, and BodyOnce for "
        "concurrent first calls; every edge is replayed through the real public API on a real pty.",
        design_ref="DESIGN.md 3 C15, notes/C15.md",
    ),
    "C16": dict(
        technique="TLA+ heap model of render-argument objects over class trees (RenderArgs.tla: directional Value, "
        "Accepts, HeapImmutable) explored by TLC; every edge replayed on dynamically created render and "
        "namespace classes; recorded histories validated by TLC",
        text="For every class tree up to depth 3 / branching 2 TLC explores histories of constructor / update / "
        "convert / | / + operations over a heap with shared default sets and checks precedence, acceptance, "
        "Eq/hash consistency and that no existing object ever changes; every edge is executed on real "
        "dynamically created classes comparing values, exceptions, all live objects and pairwise ==/hash; "
        "the namespace-class rules are a replayed acceptance table.",
        design_ref="DESIGN.md 3 C16, notes/C16.md",
    ),
    "C17": dict(
        technique="TLA+ transcription of the canvas trim computation (UrwidCanvas.tla) checked exhaustively and "
        "replayed into the real _ti_calc_trim; every row of real canvas.content() calls judged by TLC on "
        "Terminal.tla against the crop of the untrimmed canvas (Trace_Canvas.tla)",
        text="TLC proves within bounds that the trim computation equals cutting the padded layout and that the "
        "content procedure equals cropping; all enumerated tuples are replayed into the real code; the rows "
        "returned for every sub-rectangle of real image-widget canvases (box/flow, alignments, alpha, "
        "block/kitty/iterm2, several terminal identities) are interpreted by the terminal model and must "
        "equal the crop, never bleed colours and have exactly the requested size.",
        design_ref="DESIGN.md 3 C17, notes/C17.md",
    ),
    "C18": dict(
        technique="TLA+ model of the urwid screen (UrwidScreen.tla on Terminal.tla placements: layouts, canvas views, "
        "disguise counters, urwid line cache, z-index allocator) explored by TLC; every edge replayed as "
        "real urwid widget trees through the real UrwidImageScreen.draw_screen; the emitted bytes (urwid's "
        "own output included) judged by TLC (Trace_UrwidScreen.tla)",
        text="TLC checks PlacementsExact, DeletionsFirst, OutputBracketed, ClearedOnStartStopClear, DistinctZ and the "
        "allocator laws over complete state graphs of layout histories (piles, columns, overlays, list "
        "scrolling, fillers, non-composite tops) for kitty, konsole+iterm2 and other terminals; every "
        "transition and seeded random widget-tree histories are executed on the real screen and the token "
        "stream of every redraw is folded through the terminal model: the placements present must be "
        "exactly those implied by the canvas just drawn.",
        design_ref="DESIGN.md 3 C18, notes/C18.md",
    ),
    "C19": dict(
        technique="the documented grammar as a TLA+ recogniser with denotation (FormatSpec.tla; three formulations "
        "checked equivalent and unambiguous by TLC); every string of the specifier alphabet up to a length "
        "bound fed to the real entry points and judged by TLC (Trace_FormatSpec.tla)",
        text="TLC checks that the recogniser, the declarative grammar and the production machine agree and that "
        "every production fires; all strings over the core alphabet up to length 4 (quick) / 5 (thorough), "
        "style suffixes, documentation examples, boundary literals and random near-sentences are passed to "
        "_check_format_spec, format(), ImageIterator and UrwidImage; accept/reject, error class, denoted "
        "values, absence of side effects and format == draw are judged against the spec.",
        design_ref="DESIGN.md 3 C19, notes/C19.md",
    ),
    "C20": dict(
        technique="TLA+ inheritance model of style settings (StyleSettings.tla) explored by TLC; every edge replayed "
        "on dynamically created subclasses of the real style classes; recorded set/unset histories "
        "validated by TLC",
        text="TLC enumerates set / unset / invalid / instance-level operations on a tree of style classes and "
        "instances for every inheritable setting and checks that only the node and its inheritors change; "
        "every edge is replayed on real subclasses reading the effective value at every class and instance "
        "(render method observed through the framing of actual renders).",
        design_ref="DESIGN.md 3 C20, notes/C20.md",
    ),
}

PENDING: dict[str, str] = {}


# additions of round 7 (DESIGN.md 8.4): what the deciding method gained, appended to the technique text
ROUND7 = {
    "C03": "; base64 encoder step machine over boundary payload sizes (MC_GfxB64) replayed into the real encoder",
    "C07": "; KittyCut.tla (payload class x cut point of an interrupted chunked transmission) realised against the real draw()",
    "C09": "; DrawCache.tla (cache decision of draw() and renders per frame) with TLC validation of recorded interrupted draws",
    "C14": "; thread creation and elapsing time as model actions, real-thread newcomer traces",
    "C15": "; fault actions (exception / Ctrl-C out of a cache-miss look-up) replayed on a pty by signal",
    "C16": "; identity tokens of held namespaces (HeldIsGiven) and unhashable field values",
    "C17": "; absent alignments (documented defaults) in the canvas model",
    "C18": "; canvas lifetime (ReleaseCanvas / TracksLastCanvas) with canvases the harness does not keep alive",
}


def build() -> dict:
    props = [json.loads(line) for line in (VERIF / "properties.jsonl").read_text().splitlines() if line.strip()]
    checks = []
    na = []
    for p in props:
        pid = p["id"]
        c = CHECKS.get(pid)
        if not c:
            na.append(
                {
                    "property_id": pid,
                    "reason": PENDING.get(
                        pid,
                        "check not built yet in this round (planned: see DESIGN.md section 3); "
                        "the technique applies, nothing is claimed until the check exists",
                    ),
                }
            )
            continue
        checks.append(
            {
                "property_id": pid,
                "quick_cmd": f"./check {pid} --tier quick",
                "thorough_cmd": f"./check {pid} --tier thorough",
                "evidence_file": f"/verif/evidence/{pid}.json",
                "replay_cmd_template": f"./check {pid} --replay {{path}}",
                "engine": "tlc",
                "level_claimed": {
                    "category": c.get("category", "model_checking"),
                    "text": c["text"],
                    "design_ref": c.get("design_ref", "DESIGN.md 3"),
                },
                "level_note": c.get("level_note", LEVEL_NOTE),
                "technique": c["technique"] + ROUND7.get(pid, ""),
            }
        )
    return {
        "version": 1,
        "setup_cmd": "./setup.sh",
        "hooks": {
            "guard": "TERM_IMAGE_VERIF",
            "enable": "no source hooks: checks substitute module-level seams of term_image.utils from "
            "outside (TERM_IMAGE_VERIF=1 is exported by ./check for future hooks)",
            "baseline_off_cmd": "cd /repo && env -u TERM_IMAGE_VERIF /venv/bin/python -m pytest -ra -q "
            "-p no:cacheprovider --timeout=900 --continue-on-collection-errors",
            "source_commits": [],
            "add_only": True,
        },
        "engines": [
            {
                "name": "tlc",
                "path": "/opt/veriftools/tla/tla2tools.jar",
                "serves_properties": sorted(CHECKS),
                "kind_free_text": "explicit-state model checker for the TLA+ specifications in /verif/specs "
                "(exhaustive design-level checks, edge dumps for spec->code replay, batched trace "
                "validation for code->spec)",
            }
        ],
        "checks": checks,
        "not_applicable": na,
        "notes": "All checks go through ./check (harness/cli.py). Exit 0 = held, 1 = VIOLATION line(s), "
        "2 = machinery failure. See DESIGN.md.",
    }


if __name__ == "__main__":
    m = build()
    (VERIF / "MANIFEST.json").write_text(json.dumps(m, indent=1) + "\n")
    try:
        import jsonschema

        jsonschema.validate(m, json.loads(Path("/root/.vp/MANIFEST.schema.json").read_text()))
        print("MANIFEST.json valid;", len(m["checks"]), "checks,", len(m["not_applicable"]), "not claimed")
    except ImportError:
        print("MANIFEST.json written (jsonschema not available to validate)")
