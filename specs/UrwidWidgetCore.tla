-------------------------- MODULE UrwidWidgetCore --------------------------
(***************************************************************************)
(* X04 - the urwid image WIDGET (term_image.widget.UrwidImage): functional  *)
(* core.  No variables.  Sizes come from Sizing.tla (C04): the widget is    *)
(* documented in terms of the image's own sizing ("upscaled to fit          *)
(* maximally within the available size ... preserving the aspect ratio,     *)
(* otherwise never upscaled"), so the expected size of a render is what     *)
(* Sizing!Algo gives for the corresponding request, and the LAWS are        *)
(* Sizing!SizeClause plus the widget's own clauses below.                   *)
(*                                                                         *)
(* A configuration C is constant during a history:                          *)
(*   style "block" | "kitty" | "iterm2";  fam "text" | "gfx" (Sizing)        *)
(*   ow, oh  source size in pixels;  cw, ch  cell size (0, 0 for text)       *)
(*   tc, tl  terminal size (only dynamic image sizes read it)               *)
(*   wp      <<p1, p2>> the construction arguments of the two widget slots: *)
(*           [cls 0 = UrwidImage | 1 = an application subclass, up (upscale),*)
(*            ha "" "<" "|" ">", va "" "^" "-" "_" (format_spec alignment),   *)
(*            me "lines" | "whole" (style-specific render method)]          *)
(*           padding numbers / a kitty z-index in the format spec are        *)
(*           documented as ignored: they are NOT part of p (the real widget  *)
(*           is nevertheless built with them, see the driver)               *)
(*                                                                         *)
(* A state s:                                                               *)
(*   isz    the image's size setting: Sizing!Fixed(w, h) | Dynamic(mode)     *)
(*   has    <<BOOLEAN, BOOLEAN>> which widget slots exist (slot 1 always)    *)
(*   cache  per slot: the canvas urwid's CanvasCache can hand back =         *)
(*          [sz, kind]: the size it was rendered for and what it shows       *)
(*          ("image" | "B1" | "B2" placeholder), or NoCanvas                 *)
(*   ph     <<base, sub>> error placeholder per widget CLASS: "none" |       *)
(*          "B1" | "B2" (box widgets) | "F" (a flow-only widget) and, for    *)
(*          the subclass, "inherit" (never set on it)                       *)
(*   fail   the image's render raises (its file is gone)                    *)
(*                                                                         *)
(* An operation op: [k, w, sz, f, a]  (w: slot or class; sz: urwid size      *)
(* <<>> | <<cols>> | <<cols, rows>>; f: focus; a: sequence of strings)       *)
(***************************************************************************)
EXTENDS Sizing, FiniteSets

RECURSIVE SetToSeq0(_)
SetToSeq0(Q) == IF Q = {} THEN <<>> ELSE LET q == CHOOSE q \in Q : TRUE IN <<q>> \o SetToSeq0(Q \ {q})

NoKey == <<0, 0, 0>>                       \* never a valid urwid size
NoCanvas == [sz |-> NoKey, kind |-> ""]
Canvas(sz, kind) == [sz |-> sz, kind |-> kind]

Op(k, w, sz, f, a) == [k |-> k, w |-> w, sz |-> sz, f |-> f, a |-> a]

\* the observable result of an operation (uniform fields)
R0 == [res |-> "ok", kind |-> "", cc |-> 0, cr |-> 0, iw |-> 0, ih |-> 0, pl |-> 0, pt |-> 0,
       reused |-> FALSE, nc |-> 0, z |-> 0, eq |-> TRUE, tie |-> FALSE]
Rej(exc) == [R0 EXCEPT !.res = exc]

FamOf(style) == IF style = "block" THEN "text" ELSE "gfx"

WFParams(p) ==
  /\ p.cls \in {0, 1} /\ p.up \in BOOLEAN
  /\ p.ha \in {"", "<", "|", ">"} /\ p.va \in {"", "^", "-", "_"}
  /\ p.me \in {"lines", "whole"}
WFConfig(C) ==
  /\ C.style \in {"block", "kitty", "iterm2"} /\ C.fam = FamOf(C.style)
  /\ C.ow >= 1 /\ C.oh >= 1 /\ C.tc >= 1 /\ C.tl >= 1
  /\ (C.fam = "text" => C.cw = 0 /\ C.ch = 0) /\ (C.fam = "gfx" => C.cw >= 1 /\ C.ch >= 1)
  /\ Len(C.wp) = 2 /\ WFParams(C.wp[1]) /\ WFParams(C.wp[2])
  /\ C.wp[1].cls = 0                       \* slot 1 is a plain UrwidImage
WFSize(sz) == Len(sz) <= 2 /\ \A i \in 1..Len(sz) : sz[i] >= 1

-----------------------------------------------------------------------------
(* Which size the image is rendered at                                       *)

ImgEnv(C, fc, fl) ==
  [fam |-> C.fam, ow |-> C.ow, oh |-> C.oh, tc |-> C.tc, tl |-> C.tl, fc |-> fc, fl |-> fl,
   cw |-> C.cw, ch |-> C.ch, rn |-> 1, rd |-> 2]

SizeRec(r) == [w |-> r.w, h |-> r.h, tie |-> r.tie]
OriSize(C) == SizeRec(Algo(Mode("ORIGINAL"), ImgEnv(C, DefFC, DefFL)))
WidthSize(C, c) == SizeRec(Algo(GivenW(c), ImgEnv(C, DefFC, DefFL)))

\* flow: "the height follows the width"; without upscale the original size is kept when it is
\* no larger than the size fitted to the width
FlowSize(C, up, c) ==
  LET fit == WidthSize(C, c)
      ori == OriSize(C)
      t == fit.tie \/ (~up /\ ori.tie)
  IN IF up THEN fit
     ELSE IF ori.w <= fit.w /\ ori.h <= fit.h THEN [ori EXCEPT !.tie = t]
     ELSE [fit EXCEPT !.tie = t]

\* box: fit inside the box; FIT (fill it) with upscale, AUTO (original if it fits) without
BoxMode(up) == Mode(IF up THEN "FIT" ELSE "AUTO")
BoxSize(C, up, c, r) == SizeRec(Algo(BoxMode(up), ImgEnv(C, c, r)))

ImgSize(C, p, sz) ==
  IF Len(sz) = 1 THEN FlowSize(C, p.up, sz[1]) ELSE BoxSize(C, p.up, sz[1], sz[2])
CanvasSize(sz, is) == IF Len(sz) = 1 THEN <<sz[1], is.h>> ELSE <<sz[1], sz[2]>>

\* "Any ample space in the widget's render size is filled with spaces", placed by the
\* alignment of the format specifier (default: centre / middle); the odd cell goes right / down
Pad(al, free) ==
  IF al \in {"<", "^"} THEN 0 ELSE IF al \in {">", "_"} THEN free ELSE free \div 2

\* graphics transmissions of a canvas: one per line (LINES) or one (WHOLE); none for text
NCmd(C, p, is) == IF C.fam = "text" THEN 0 ELSE IF p.me = "lines" THEN is.h ELSE 1
\* kitty: the z-index of the format spec is ignored, every widget draws with its OWN z-index
\* (observed as: whose z-index is it)
ZOf(C, w) == IF C.style = "kitty" THEN w ELSE 0

-----------------------------------------------------------------------------
(* THE LAWS about sizes (checked by TLC on every render of the model and by   *)
(* Trace_UrwidWidget on every real render)                                   *)

FitsCanvas(cc, cr, iw, ih) == iw <= cc /\ ih <= cr
NotUpscaled(C, iw, ih) == iw <= OriSize(C).w /\ ih <= OriSize(C).h
BoxLaw(C, up, c, r, iw, ih) == SizeClause(BoxMode(up), ImgEnv(C, c, r), iw, ih)
FlowLaw(C, up, c, iw, ih) ==
  LET ori == OriSize(C)
      asW == SizeClause(GivenW(c), ImgEnv(C, DefFC, DefFL), iw, ih)
  IN IF up THEN asW
     ELSE IF <<iw, ih>> = <<ori.w, ori.h>> /\ ori.w <= c THEN "ok"
     ELSE IF ori.w < c THEN "flow:original-fits-but-not-original-size"
     ELSE asW
SizeLaw(C, p, sz, cc, cr, iw, ih) ==
  IF iw < 1 \/ ih < 1 THEN "positive"
  ELSE IF ~FitsCanvas(cc, cr, iw, ih) THEN "image-larger-than-canvas"
  ELSE IF ~p.up /\ ~NotUpscaled(C, iw, ih) THEN "upscaled-without-upscale"
  ELSE IF Len(sz) = 2 THEN BoxLaw(C, p.up, sz[1], sz[2], iw, ih)
  ELSE IF cr # ih THEN "flow:canvas-height-is-not-image-height"
  ELSE FlowLaw(C, p.up, sz[1], iw, ih)

-----------------------------------------------------------------------------
(* Error placeholder: per widget class, nearest class wins                    *)

PhIdx(cls) == cls + 1
EffPh(s, cls) == IF cls = 1 /\ s.ph[2] # "inherit" THEN s.ph[2] ELSE s.ph[1]
\* the same by explicit search along the class chain (sub, base)
EffPhByChain(s, cls) ==
  LET chain == IF cls = 1 THEN <<s.ph[2], s.ph[1]>> ELSE <<s.ph[1]>>
      setAt == {i \in 1..Len(chain) : chain[i] # "inherit"}
  IN chain[CHOOSE i \in setAt : \A j \in setAt : i <= j]

PhValid == {"B1", "B2", "F"}
PhBad == {"bad:int", "bad:str", "bad:class", "bad:canvas"}

-----------------------------------------------------------------------------
(* Construction arguments: a = sequence of flaws (empty = all valid)          *)

FlawExc(f) ==
  CASE f \in {"image:path", "image:pil", "image:none"} -> "TypeError"
    [] f \in {"spec:none", "spec:int", "spec:bytes"} -> "TypeError"
    [] f \in {"spec:dot", "spec:plus", "spec:junk"} -> "ValueError"
    [] f = "spec:style" -> "StyleError"
    [] f \in {"upscale:none", "upscale:int", "upscale:str"} -> "TypeError"
    [] OTHER -> "unknown-flaw"
Flaws == {"image:path", "image:pil", "image:none", "spec:none", "spec:int", "spec:bytes",
          "spec:dot", "spec:plus", "spec:junk", "spec:style", "upscale:none", "upscale:int",
          "upscale:str"}
\* the documented exception classes a construction with these flaws may raise (the docs do not
\* fix the order in which arguments are validated)
AllowedExc(a) == {FlawExc(a[i]) : i \in 1..Len(a)}

-----------------------------------------------------------------------------
(* The application's own size changes of the image                            *)

IszAfterSet(C, op) ==
  IF op.a[1] = "width" THEN LET r == WidthSize(C, op.sz[1]) IN Fixed(r.w, r.h)
  ELSE Dynamic(op.a[1])
SetTie(C, op) == op.a[1] = "width" /\ WidthSize(C, op.sz[1]).tie

-----------------------------------------------------------------------------
(* Eval: result and next state of one operation                               *)

Params(C, op) == C.wp[op.w]

RenderKey(s, op) == s.cache[op.w].sz = op.sz

\* what a canvas freshly rendered for sz shows when the image render succeeds
ImageR(C, w, sz) ==
  LET p == C.wp[w]
      is == ImgSize(C, p, sz)
      cs == CanvasSize(sz, is)
  IN [R0 EXCEPT !.kind = "image", !.cc = cs[1], !.cr = cs[2], !.iw = is.w, !.ih = is.h,
                !.pl = Pad(p.ha, cs[1] - is.w), !.pt = Pad(p.va, cs[2] - is.h),
                !.nc = NCmd(C, p, is), !.z = ZOf(C, w), !.tie = is.tie]
\* ... and when a placeholder is rendered in its place: at the requested size (flow: the rows
\* the image would have had)
PlaceholderR(C, w, sz, ph) ==
  LET is == ImgSize(C, C.wp[w], sz)
      cs == CanvasSize(sz, is)
  IN [R0 EXCEPT !.kind = ph, !.cc = cs[1], !.cr = cs[2], !.tie = is.tie]
CanvasR(C, w, cv) ==
  IF cv.kind = "image" THEN ImageR(C, w, cv.sz) ELSE PlaceholderR(C, w, cv.sz, cv.kind)

\* D1 (deviation, undocumented side effect): a render that is not answered from the canvas
\* cache leaves the image's size SET to the size it rendered at - also when the render fails
AfterFreshRender(C, s, op) ==
  LET is == ImgSize(C, Params(C, op), op.sz) IN [s EXCEPT !.isz = Fixed(is.w, is.h)]

EvalRender(C, s, op) ==
  LET w == op.w
      eff == EffPh(s, Params(C, op).cls)
  IN IF Len(op.sz) = 0 THEN [s2 |-> s, r |-> Rej("UrwidImageError")]        \* not a fixed widget
     ELSE IF RenderKey(s, op)                                                \* urwid's canvas cache
       THEN [s2 |-> s, r |-> [CanvasR(C, w, s.cache[w]) EXCEPT !.reused = TRUE]]
     ELSE IF ~s.fail
       THEN [s2 |-> [AfterFreshRender(C, s, op) EXCEPT !.cache[w] = Canvas(op.sz, "image")],
             r |-> ImageR(C, w, op.sz)]
     ELSE IF eff = "none"                                                    \* exception propagates
       THEN [s2 |-> AfterFreshRender(C, s, op), r |-> Rej("raise")]
     ELSE IF eff = "F"   \* D2 (deviation): the placeholder is always given a BOX size
       THEN [s2 |-> AfterFreshRender(C, s, op), r |-> Rej("phfail")]
     ELSE [s2 |-> [AfterFreshRender(C, s, op) EXCEPT !.cache[w] = Canvas(op.sz, eff)],
           r |-> PlaceholderR(C, w, op.sz, eff)]

RowsOf(C, p, c) == FlowSize(C, p.up, c).h
\* urwid's Widget.pack(): the size the canvas will have
PackOf(C, p, sz) == IF Len(sz) = 1 THEN <<sz[1], RowsOf(C, p, sz[1])>> ELSE <<sz[1], sz[2]>>

Eval(C, s, op) ==
  CASE op.k = "render" -> EvalRender(C, s, op)
    [] op.k = "rows" ->
         LET fs == FlowSize(C, Params(C, op).up, op.sz[1]) IN
         [s2 |-> s, r |-> [R0 EXCEPT !.cr = fs.h, !.tie = fs.tie]]
    [] op.k = "pack" ->
         IF Len(op.sz) = 0 THEN [s2 |-> s, r |-> Rej("WidgetError")]
         ELSE LET ps == PackOf(C, Params(C, op), op.sz) IN
              [s2 |-> s, r |-> [R0 EXCEPT !.cc = ps[1], !.cr = ps[2],
                                          !.tie = ImgSize(C, Params(C, op), op.sz).tie]]
    [] op.k \in {"inval", "release"} -> [s2 |-> [s EXCEPT !.cache[op.w] = NoCanvas], r |-> R0]
    [] op.k = "setsize" -> [s2 |-> [s EXCEPT !.isz = IszAfterSet(C, op)],
                            r |-> [R0 EXCEPT !.tie = SetTie(C, op)]]
    [] op.k = "setph" ->
         IF op.a[1] \in PhValid \cup {"none"}
         THEN [s2 |-> [s EXCEPT !.ph[PhIdx(op.w)] = op.a[1]], r |-> R0]
         ELSE [s2 |-> s, r |-> Rej("TypeError")]
    [] op.k = "break" -> [s2 |-> [s EXCEPT !.fail = TRUE], r |-> R0]
    [] op.k = "repair" -> [s2 |-> [s EXCEPT !.fail = FALSE], r |-> R0]
    [] op.k = "new" ->
         IF Len(op.a) = 0 THEN [s2 |-> [s EXCEPT !.has[2] = TRUE, !.cache[2] = NoCanvas], r |-> R0]
         ELSE [s2 |-> s, r |-> Rej("rejected")]
    [] op.k = "drop" -> [s2 |-> [s EXCEPT !.has[2] = FALSE, !.cache[2] = NoCanvas], r |-> R0]

\* is the operation applicable in s (the widget exists, ...)
Applicable(C, s, op) ==
  CASE op.k \in {"render", "rows", "pack", "inval", "release"} ->
         op.w \in {1, 2} /\ s.has[op.w] /\ WFSize(op.sz)
         /\ (op.k = "rows" => Len(op.sz) = 1)
    [] op.k = "setsize" -> Len(op.a) = 1 /\ (op.a[1] = "width" => Len(op.sz) = 1 /\ op.sz[1] >= 1)
                           /\ (op.a[1] # "width" => op.a[1] \in SizeModes)
    [] op.k = "setph" -> op.w \in {0, 1} /\ Len(op.a) = 1 /\ op.a[1] \in PhValid \cup PhBad \cup {"none"}
    [] op.k = "break" -> ~s.fail
    [] op.k = "repair" -> s.fail
    [] op.k = "new" -> ~s.has[2] /\ \A i \in 1..Len(op.a) : op.a[i] \in Flaws
    [] op.k = "drop" -> s.has[2]
    [] OTHER -> FALSE

-----------------------------------------------------------------------------
(* The projection compared with the real objects after EVERY operation         *)

CacheObs(cv) == IF cv = NoCanvas THEN <<>> ELSE <<cv.sz>>
WObs(C, s, qcols) ==
  [isz |-> s.isz,
   has |-> s.has,
   rows |-> [w \in 1..2 |-> [i \in 1..Len(qcols) |-> IF s.has[w] THEN RowsOf(C, C.wp[w], qcols[i]) ELSE 0]],
   cache |-> [w \in 1..2 |-> CacheObs(s.cache[w])],
   ph |-> <<EffPh(s, 0), EffPh(s, 1)>>,
   img |-> TRUE]          \* `widget.image` IS the image instance given at construction

ObsTie(C, s, qcols) ==
  \E w \in 1..2, i \in 1..Len(qcols) : s.has[w] /\ FlowSize(C, C.wp[w].up, qcols[i]).tie

InitState == [isz |-> Dynamic("FIT"), has |-> <<TRUE, FALSE>>, cache |-> <<NoCanvas, NoCanvas>>,
              ph |-> <<"none", "inherit">>, fail |-> FALSE]

WFState(s) ==
  /\ (s.isz.k = "fixed" /\ s.isz.w >= 1 /\ s.isz.h >= 1) \/ (s.isz.k = "dyn" /\ s.isz.m \in SizeModes)
  /\ s.has[1] = TRUE /\ s.has[2] \in BOOLEAN
  /\ \A w \in 1..2 : s.cache[w] = NoCanvas
                     \/ (s.has[w] /\ Len(s.cache[w].sz) \in {1, 2} /\ s.cache[w].kind \in {"image", "B1", "B2"})
  /\ s.ph[1] \in PhValid \cup {"none"} /\ s.ph[2] \in PhValid \cup {"none", "inherit"}
  /\ s.fail \in BOOLEAN
=============================================================================
