"""Verification harness for term-image (model-based, TLA+/TLC). See /verif/DESIGN.md."""
