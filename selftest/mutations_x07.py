"""Seeded mutations for X07 (descriptors, no_redecorate, argument-error helpers, get_terminal_size of
term_image.utils; same record format as selftest/mutations.py).

    /venv/bin/python -m selftest.mutations_x07 [id ...] [--thorough] [--raw]

The unchanged tree carries a genuine defect (ClassInstanceMethod tests the TRUTH VALUE of the instance,
signature `ClassInstanceMethod:falsy-instance-dispatched-as-class`), so the check exits 1 on it.  As for
C20, every mutant is therefore applied ON TOP of the repair `FALSY_FIX` (`repaired` = the repair alone:
must exit 0); `--raw` applies the mutant to the unrepaired tree (the mutant's signatures then appear next
to the defect's).  `unchanged` must exit 1 with exactly the defect's signature.
"""

from __future__ import annotations

import os
import shutil
import subprocess
import sys
from pathlib import Path

VERIF = Path(__file__).resolve().parent.parent
U = "utils.py"
DEFECT = "ClassInstanceMethod:falsy-instance-dispatched-as-class"

FALSY_FIX = dict(
    file=U,
    old="        if instance:\n            return self.f_instance.__get__(instance, owner)",
    new="        if instance is not None:\n            return self.f_instance.__get__(instance, owner)",
)

MUTATIONS = {
    # ---- ClassInstanceMethod -------------------------------------------------------------------
    "x07-cim-always-class-variant": dict(
        file=U,
        old="        if instance is not None:\n            return self.f_instance.__get__(instance, owner)\n        else:",
        new="        if instance is not None and False:\n            return self.f_instance.__get__(instance, owner)\n        else:",
    ),
    "x07-cim-instance-variant-bound-to-class": dict(
        file=U,
        old="            return self.f_instance.__get__(instance, owner)",
        new="            return self.f_instance.__get__(owner, type(owner))",
    ),
    "x07-cim-class-variant-bound-to-base-class": dict(
        # the class variant gets the root of the hierarchy instead of the invoking class
        file=U,
        old="        else:\n            return super().__get__(instance, owner)",
        new="        else:\n            return super().__get__(instance, owner.__mro__[-2])",
    ),
    "x07-cim-instancemethod-drops-class-variant": dict(
        file=U,
        old="        return type(self)(self.f_owner, function)",
        new="        return type(self)(function, function)",
    ),
    "x07-cim-classmethod-drops-instance-variant": dict(
        file=U,
        old="        return type(self)(function, self.f_instance)",
        new="        return type(self)(function)",
    ),
    "x07-cim-instancemethod-registers-in-place": dict(
        # the parent's descriptor is disturbed by a subclass deriving from it
        file=U,
        old="        return type(self)(self.f_owner, function)",
        new="        self.f_instance = function\n        return self",
    ),
    # ---- ClassProperty / ClassInstanceProperty ----------------------------------------------------
    "x07-prop-base-drops-setter": dict(
        file=U,
        old="        super().__init__(fget, fset, fdel, doc)",
        new="        super().__init__(fget, None, fdel, doc)",
    ),
    "x07-prop-base-drops-deleter": dict(
        file=U,
        old="        super().__init__(fget, fset, fdel, doc)",
        new="        super().__init__(fget, fset, None, doc)",
    ),
    "x07-prop-base-loses-doc": dict(
        file=U,
        old='        super().__setattr__("__doc__", doc or fget.__doc__)',
        new='        super().__setattr__("__doc__", None)',
    ),
    "x07-classproperty-subclasses-classinstanceproperty": dict(
        file=U,
        old="class ClassProperty(ClassPropertyBase):",
        new="class ClassProperty(ClassInstanceProperty):",
    ),
    # ---- no_redecorate ------------------------------------------------------------------------------
    "x07-noredecorate-marks-the-input": dict(
        # the marker lands on what was decorated, not on the decorated result
        file=U,
        old='            setattr(obj, f"_{decor.__name__}_wrapped_", ...)',
        new='            setattr(args[0], f"_{decor.__name__}_wrapped_", ...)',
    ),
    "x07-noredecorate-never-blocks": dict(
        file=U,
        old='        if not hasattr(obj, f"_{decor.__name__}_wrapped_"):',
        new='        if True or not hasattr(obj, f"_{decor.__name__}_wrapped_"):',
    ),
    "x07-noredecorate-not-idempotent": dict(
        file=U,
        old='    if hasattr(decor, "_no_redecorate_wrapped_"):\n        return decor\n',
        new="",
    ),
    "x07-noredecorate-loses-decorator-metadata": dict(
        file=U,
        old="    @wraps(decor)\n    def no_redecorate_wrapper(",
        new="    def no_redecorate_wrapper(",
    ),
    "x07-noredecorate-blocked-returns-undecorated-original": dict(
        # re-application returns what is UNDER the decoration instead of the decorated object
        file=U,
        old="        return obj  # type: ignore[no-any-return]",
        new='        return obj if obj is not args[0] else getattr(obj, "__wrapped__", obj)',
    ),
    # ---- argument-error helpers -------------------------------------------------------------------
    "x07-type-error-uses-__name__": dict(
        file=U,
        old='        f"Invalid type for {arg!r} (got: {type(value).__qualname__}; {got_extra})"',
        new='        f"Invalid type for {arg!r} (got: {type(value).__name__}; {got_extra})"',
    ),
    "x07-value-error-range-drops-extra": dict(
        file=U,
        old='        f"{arg!r} out of range (got: {value!r}; {got_extra})"',
        new='        f"{arg!r} out of range (got: {value!r})"',
    ),
    "x07-value-error-str-not-repr": dict(
        file=U,
        old='        else f"Invalid value for {arg!r} (got: {value!r})"',
        new='        else f"Invalid value for {arg!r} (got: {value})"',
    ),
    "x07-type-error-msg-is-a-valueerror": dict(
        file=U,
        old="def arg_type_error_msg(msg: str, value: Any, got_extra: str = \"\") -> TypeError:\n    return TypeError(",
        new="def arg_type_error_msg(msg: str, value: Any, got_extra: str = \"\") -> TypeError:\n    return ValueError(",
    ),
    "x07-value-error-msg-quotes-the-message": dict(
        file=U,
        old='        else f"{msg} (got: {value!r})"',
        new='        else f"{msg!r} (got: {value!r})"',
    ),
    # ---- get_terminal_size / active terminal --------------------------------------------------------
    "x07-gts-stdin-before-stdout": dict(
        file=U,
        old='    for stream in ("out", "in", "err"):  # In order of priority',
        new='    for stream in ("in", "out", "err"):  # In order of priority',
    ),
    "x07-gts-no-controlling-terminal-fallback": dict(
        file=U,
        old='            _tty_fd = os.open("/dev/tty", os.O_RDWR | os.O_NOCTTY)',
        new='            raise OSError("no /dev/tty")',
    ),
    "x07-gts-believes-the-environment": dict(
        file=U,
        old="    return size or _get_terminal_size()",
        new='    return _get_terminal_size() if "COLUMNS" in os.environ else size or _get_terminal_size()',
    ),
    "x07-gts-hangup-propagates": dict(
        file=U,
        old="            size = os.get_terminal_size(_tty_fd)\n        except OSError:\n            pass",
        new="            size = os.get_terminal_size(_tty_fd)\n        except ValueError:\n            pass",
    ),
    "x07-gts-caches-first-answer": dict(
        file=U,
        old="    size = None\n    if _tty_fd != -1:",
        new="    global _x07_size\n    size = globals().get(\"_x07_size\")\n    if size:\n        return size\n    if _tty_fd != -1:",
        more=[dict(file=U, old="    return size or _get_terminal_size()",
                   new="    _x07_size = size\n    return size or _get_terminal_size()")],
    ),
    "x07-gts-asks-stdout-not-the-active-terminal": dict(
        file=U,
        old="            size = os.get_terminal_size(_tty_fd)",
        new="            size = os.get_terminal_size(sys.__stdout__.fileno())",
    ),
    "x07-no-warning-without-terminal": dict(
        file=U,
        old='            warnings.warn(\n                "It seems this process is not running within a terminal. "',
        new='            (lambda *a: None)(\n                "It seems this process is not running within a terminal. "',
    ),
}


def apply(mid: str, edits) -> Path:
    root = Path(f"/tmp/verif-selftest-{mid}")
    shutil.rmtree(root, ignore_errors=True)
    root.mkdir(parents=True)
    subprocess.run(["rsync", "-a", "/repo/src", str(root) + "/"], check=True)
    for e in edits:
        f = root / "src" / "term_image" / e["file"]
        text = f.read_text()
        if text.count(e["old"]) != 1:
            raise SystemExit(f"{mid}: pattern occurs {text.count(e['old'])} times in {e['file']}")
        f.write_text(text.replace(e["old"], e["new"]))
    subprocess.run([sys.executable, "-m", "compileall", "-q", str(root / "src" / "term_image")], check=True)
    return root


def edits_of(mid: str, raw: bool) -> list:
    if mid == "unchanged":
        return []
    if mid == "repaired":
        return [FALSY_FIX]
    m = MUTATIONS[mid]
    edits = [dict(file=m["file"], old=m["old"], new=m["new"])] + list(m.get("more", []))
    if raw:
        # the patterns are written against the repaired text
        return [dict(e, old=e["old"].replace("if instance is not None", "if instance"),
                     new=e["new"].replace("if instance is not None", "if instance")) for e in edits]
    return [FALSY_FIX] + edits


def run(mid: str, tier: str, raw: bool) -> bool:
    root = apply(mid, edits_of(mid, raw))
    try:
        env = dict(os.environ, VERIF_REPO=str(root))
        p = subprocess.run([str(VERIF / "check"), "X07", "--tier", tier], env=env, cwd=VERIF,
                           stdout=subprocess.PIPE, stderr=subprocess.STDOUT, text=True, timeout=7200)
    finally:
        shutil.rmtree(root, ignore_errors=True)
    sigs = sorted({l.strip()[len("signature: "):] for l in p.stdout.splitlines() if l.strip().startswith("signature:")})
    if mid == "repaired":
        ok = p.returncode == 0
        print(f"MUT {mid} X07 exit={p.returncode} {'clean' if ok else 'ALARMS'} {sigs}", flush=True)
    elif mid == "unchanged":
        ok = (p.returncode == 1 and sigs == [DEFECT]) or p.returncode == 0  # 0 once /repo is repaired
        print(f"MUT {mid} X07 exit={p.returncode} {'only the known defect' if ok else 'UNEXPECTED'} {sigs}", flush=True)
    else:
        own = [s for s in sigs if s != DEFECT]
        ok = p.returncode == 1 and bool(own)
        status = "caught" if ok else ("MACHINERY" if p.returncode == 2 else "MISSED")
        print(f"MUT {mid} X07 exit={p.returncode} {status} {own}", flush=True)
    if p.returncode == 2:
        print("\n".join(p.stdout.splitlines()[-15:]))
    return ok


def main() -> int:
    args = [a for a in sys.argv[1:] if not a.startswith("--")]
    tier = "thorough" if "--thorough" in sys.argv else "quick"
    raw = "--raw" in sys.argv
    ids = args or ["unchanged", "repaired"] + list(MUTATIONS)
    bad = [m for m in ids if not run(m, tier, raw)]
    print(f"{len(ids) - len(bad)}/{len(ids)} as expected" + (f"; not: {bad}" if bad else ""))
    return 1 if bad else 0


if __name__ == "__main__":
    sys.exit(main())
