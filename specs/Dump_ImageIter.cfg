SPECIFICATION Spec
CONSTANTS
  N = 3
  MaxDepth = 4
  SpecSet = {"s2"}
  SizeSet = {"dyn"}
  TermSet = {1}
  KindSet = {"path", "pil", "url"}
  PeerVars = {}
  FaultSteps = {"open", "step"}
VIEW DumpView
CONSTRAINT Bound
ACTION_CONSTRAINT Dump
INVARIANT DumpInitInv
CHECK_DEADLOCK FALSE
