---------------------------- MODULE MC_RenderIter ----------------------------
EXTENDS RenderIter
LoopsAll == {-1, 1, 2}
LoopsCached == {-1, 2, 3}
LoopsOne == {1}
DursAll == {1, 70, Dyn}      \* 1 ms: the smallest static duration (never to be confused with DYNAMIC)
DursTwo == {1, Dyn}
SizesTwo == {<<2, 1>>, <<3, 2>>}
PExact == [kind |-> "exact", l |-> 1, t |-> 0, r |-> 2, b |-> 1]
PAbs == [kind |-> "aligned", w |-> 6, h |-> 4, ha |-> 1, va |-> 1]
PRel == [kind |-> "aligned", w |-> 0, h |-> -2, ha |-> 2, va |-> 0]
PSubRel == [kind |-> "sub", w |-> -1, h |-> 0, ha |-> 1, va |-> 1]   \* user subclass, terminal-relative
PadsAll == {NoPad, PExact, PAbs, PRel, PSubRel}
PAbsR == [kind |-> "aligned", w |-> 6, h |-> 4, ha |-> 2, va |-> 2]   \* same padded size as PAbs
PExactR == [kind |-> "exact", l |-> 2, t |-> 1, r |-> 1, b |-> 0]       \* same padded size as PExact
PadsTwo == {NoPad, PAbs, PAbsR}
PadsEx == {NoPad, PExact}
TermsTwo == {<<8, 6>>, <<5, 4>>}   \* Resize switches between the initial size and a smaller one
TermsNone == {}
\* config D (C09: unhashable render-argument values)
LoopsInfTwo == {-1, 2}
SizesOne == {<<3, 2>>}
DursOne == {70}
PadsNone == {NoPad}
Offs1 == -1..1
Offs2 == -3..3
Offs3 == -4..4
=============================================================================
