SPECIFICATION Spec
CONSTANTS
  NT = 2
  Prog <- FailProg
  Kind = "tsc"
  Sizes = {1, 2, 3}
  MaxResize = 1
  MaxFail = 1
  KwClass <- KwClasses
  Variant <- EnvVariant
INVARIANT BodyOnce
INVARIANT BodyExclusive
INVARIANT ValueFresh
VIEW View
CHECK_DEADLOCK FALSE
