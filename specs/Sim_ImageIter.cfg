SPECIFICATION Spec
CONSTANTS
  N = 3
  MaxDepth = 99
  SpecSet = {"s1", "s2"}
  SizeSet = {"A", "B", "dyn"}
  TermSet = {1, 2}
  KindSet = {"path", "pil", "url"}
  PeerVars = {"same", "other"}
  FaultSteps = {"open", "seek", "convert", "resize", "composite", "encode"}
VIEW View
INVARIANT TypeOK
INVARIANT NoLeakAtQuiescence
INVARIANT CallerImageNeverClosed
INVARIANT TempFileIffUrlImageOpen
INVARIANT CacheInvisible
INVARIANT FramesInOrderOrSeekTarget
INVARIANT TellTracksLastYield
INVARIANT ExactlyRepeatPasses
PROPERTY SizeNeverChangedByRender
PROPERTY AnimatedDrawKeepsFrame
PROPERTY RejectedLeavesStateAlone
PROPERTY SeekKeepsRepeatCount
PROPERTY ImagesIndependent
CHECK_DEADLOCK FALSE
