"""C12 - terminal queries report what the terminal said, whatever the timing.

model   : specs/MC_Tty (Tty.tla): library step machine x virtual-time tty device, every
          scenario (supported subset, terminators, burst partition, delays, junk input,
          ioctl sizes, identity x version table) explored exhaustively; C12 clauses as invariants.
spec->code : every behaviour's schedule (SCEN line) is replayed into the REAL functions on
          harness/env/vtty.py; reported value, residual queue, elapsed virtual time, requests
          written, attribute word and number of system calls must equal the spec's.
code->spec : (i) system-call traces of those runs, (ii) real-pty runs under harness/env/termsim.py
          (replies after real delays, residual read from the slave), (iii) bulk value grids
          (colours, identities x versions, cell sizes) - all judged by TLC against Trace_Tty.tla.
"""

from __future__ import annotations

import copy
import json
import random
import time

from .. import c12_tty as K
from .. import tlc
from ..core import Report
from ..env import termsim, vtty

ASSUMPTIONS = [
    "reply timing: 'each after a delay shorter than the timeout' = the whole reply stream of one query "
    "arrives before that query's timeout elapses; each reply is written as a unit, in request order",
    "system calls other than select take no virtual time; a burst due exactly when a select would time out "
    "is delivered (never occurs within the in-time assumption)",
    "XParseColor rgb:<r>/<g>/<b>: 1-4 hex digits per component independently, value scaled v*255 div (16^len-1)",
    "XTVERSION reply DCS > | name ( version ) ST or name SP version ST/BEL, name in \\w+, version without ')' and ESC; "
    "version components are 'understood' iff ASCII digits (strings Python's int() accepts beyond that, e.g. "
    "' 20' or '2_0', are not generated)",
    "style support rules as documented in the class docstrings and coded: kitty >= 0.20.0 or konsole answering the "
    "graphics query with i=31;OK; iterm2/wezterm by name, konsole >= 22.04.0; kitty error replies containing a 'c' "
    "are outside the property ('well-formed reply')",
    "TERM_PROGRAM / TERM_PROGRAM_VERSION unset (the environment fallback is not part of the property)",
    "the cell-size cache and the memo caches are cold at every call (caching is C15)",
    "real-pty runs assert timing-independent clauses only: call sequence/arguments follow the step machine given the "
    "logged results, bytes read are the reply stream in order, value, no residual bytes, attributes restored; elapsed "
    "time is bounded with 2 s slack",
]

SLACK = 8192  # ticks (2 s): real runs only
T5S = 5 * vtty.TICK_HZ
T62MS = 256


def hang_signature(op: str, kind: str) -> str:
    """'...falls back to the documented defaults within the timeout instead of blocking'"""
    return f"{op}:no-fallback:" + ("still-waiting-after-timeout" if kind == "StillWaiting" else "blocks-forever")


def no_fallback_seen(rep: Report) -> int:
    return sum(":no-fallback:" in v.signature for v in rep.violations)


def signature(op: str, verdict: str) -> str:
    if verdict.startswith("parse:colour:"):
        return "x_parse_color:" + verdict.split(":", 2)[2]
    return f"{op}:{verdict}"


def run_mc(rep: Report, cfg: str, coverage: bool) -> list[dict]:
    res = tlc.run("MC_Tty", cfg, workers=8, timeout=840, coverage=coverage, check=False)
    if res.violated:
        rep.violation(f"design:Tty:{res.violated}",
                      f"the step machine of Tty.tla violates {res.violated}\n{res.error_text[:1500]}",
                      {"kind": "design", "cfg": cfg})
    elif res.rc != 0:
        raise tlc.MachineryError("TLC failed on MC_Tty:\n" + "\n".join(res.stdout.splitlines()[-30:]))
    rep.add_tlc(res)
    scens = res.tagged("SCEN")
    rep.extra["mc_tty"] = {"cfg": cfg, "states": res.distinct, "depth": res.depth, "scenarios": len(scens),
                           "wall_s": round(res.wall_s, 1)}
    # vacuity: every operation, in-time and late schedules, every call kind explored
    if not res.violated:
        ops = {s["op"] for s in scens}
        if ops != {"colors", "namever", "cellsize", "kitty", "iterm2", "auto", "history"}:
            raise tlc.MachineryError(f"MC_Tty explored only {sorted(ops)}")
        if not any(not s["intime"] for s in scens) or not any(s["intime"] and s["exp"]["elapsed"] > 0 for s in scens):
            raise tlc.MachineryError("MC_Tty: no late / no delayed in-time schedule explored (vacuous)")
        if coverage and res.coverage.get("Sys", (1, 1))[1] == 0:
            raise tlc.MachineryError("MC_Tty: the system-call action was never taken")
    return scens


def compare(scn: dict, run: dict) -> list[str]:
    f, e = run["final"], scn["exp"]
    diffs = [k for k in ("status", "val", "elapsed", "residual", "wlog", "attr") if f[k] != e[k]]
    if len(run["events"]) != e["nsys"]:
        diffs.append("nsys")
    return diffs


def replay_scn(rep: Report, scn: dict, origin: str):
    """spec -> code: one schedule into the real functions on the virtual device."""
    run = vtty.run_virtual(scn)
    rep.evaluations += 1
    f = run["final"]
    if "traceback" in f:
        rep.violation(f"{K.label(scn)}:raises:{f['kind']}",
                      f"{K.label(scn)} raised {f['kind']} on the virtual tty\n{f['traceback']}",
                      {"kind": "vtty", "scn": scn})
        return run, False
    if f["status"] == "hung":
        rep.violation(hang_signature(K.label(scn), f["kind"]),
                      f"{origin}, virtual tty, query timeout {scn['tmo']} ticks: {f['hang']}; "
                      f"{len(run['events'])} system calls so far, last {[e['call'] for e in run['events'][-6:]]}; "
                      f"supported {scn['term']['sup']}; schedule {json.dumps(scn['sched'])[:300]}",
                      {"kind": "vtty", "scn": scn})
        return run, False
    if "exp" in scn:
        diffs = compare(scn, run)
        if diffs:
            d = diffs[0]
            rep.violation(
                f"{K.label(scn)}:replay:{d}",
                f"{origin}: real code differs from Tty.tla in {diffs}: "
                + "; ".join(f"{k}: spec {scn['exp'].get(k)!r} real {f.get(k)!r}" for k in diffs if k != "nsys")
                + f"; calls spec {scn['exp']['nsys']} real {len(run['events'])}; schedule {json.dumps(scn['sched'])[:400]}",
                {"kind": "vtty", "scn": scn})
            return run, False
    return run, True


def judge(rep: Report, traces: list[dict], owners: list[dict]) -> None:
    """code -> spec: TLC validates the traces against Trace_Tty.tla."""
    if not traces:
        return
    # spread the long traces evenly over the batches
    order = list(range(len(traces)))
    random.Random(len(traces)).shuffle(order)
    traces[:] = [traces[i] for i in order]
    owners[:] = [owners[i] for i in order]
    verdicts, st, tr = tlc.validate_traces("Trace_Tty", "Trace_Tty.cfg", traces, batch=max(40, min(1200, len(traces) // 8 + 1)),
                                           parallel=8, workers=2, timeout=840, name="c12")
    rep.states += st
    rep.transitions += tr
    rep.traces_validated += len(traces)
    verdict_of = {id(t): v["verdict"] for v, t in zip(verdicts, traces)}
    probes_ok = 0
    for v, t, o in zip(verdicts, traces, owners):
        if o["kind"] == "probe":
            rep.traces_validated -= 1
            if verdict_of.get(o["base"]) != "ok":
                continue  # the base trace is itself rejected: this probe shows nothing
            if v["verdict"] == "ok":
                raise tlc.MachineryError("Trace_Tty accepted a corrupted trace (a byte read was altered)")
            probes_ok += 1
            rep.extra["corrupted_trace_verdict"] = v["verdict"]
            continue
        op = t["op"]["name"] if t["op"]["name"] != "history" else t["op"]["more"] + "@disable-enable"
        if v.get("late", "ok") != "ok":
            rep.violation(f"{op}:{v['late']}",
                          f"{t['mode']} run of {op}: the call returned but left work behind: started {t['final']['spawned']}, "
                          f"terminal accesses after the return {t['final']['late']}; supported {t['term']['sup']}",
                          {"kind": o["kind"], "scn": o["scn"], **{k: o[k] for k in ("bursts",) if k in o}})
        if v["verdict"] == "ok":
            continue
        if v["verdict"].startswith("env:"):
            raise tlc.MachineryError(
                f"the {t['mode']} tty device disagrees with Tty.tla's environment: {v} on {o.get('origin')} {op}")
        rep.violation(
            signature(op, v["verdict"]),
            f"{t['mode']} trace of {op} rejected by Trace_Tty: {v['verdict']} at event {v['at']} of {len(t['events'])} "
            f"(machine expected call {v['want']!r}, log has {v['got']!r}); reported {json.dumps(t['final']['val'])}; "
            f"facts fg={_s(t['term']['fg']['c'])} bg={_s(t['term']['bg']['c'])} name={bytes(t['term']['name'])!r} "
            f"version={bytes(t['term']['ver'])!r} sup={t['term']['sup']}",
            {"kind": o["kind"], "scn": o["scn"], **{k: o[k] for k in ("bursts",) if k in o}})
    if any(o["kind"] == "probe" for o in owners) and not probes_ok and not rep.violations:
        raise tlc.MachineryError("no corrupted trace could be judged (self-test of the alarm did not run)")


def _s(comps) -> str:
    return "/".join(bytes(c).decode() for c in comps)


# --------------------------------------------------------------------------------------
def grid_scenarios(rng: random.Random, tier: str) -> list[dict]:
    out = []
    for t in K.colour_terms(rng, tier) + K.mixed_width_terms(rng, 2 if tier == "quick" else 12):
        out.append(K.scenario("colors", t, rng=rng))
    names = K.NAMES
    versions = K.version_table(rng, tier)
    for n in names:
        for v in versions:
            for kitty in ((True, 31, "OK"), (False, 31, "OK")):
                if tier == "quick" and rng.random() < 0.5:
                    continue
                t = dict(K.BASE_TERM, sup=["xtv", "da1"] + (["kitty"] if kitty[0] else []), name=K.b(n), ver=K.b(v),
                         form=rng.choice(["paren", "space"]), xst=rng.choice(["st", "bel"]), kid=kitty[1],
                         kmsg=K.b(kitty[2]))
                if t["form"] == "space" and " " in v:
                    t["form"] = "paren"
                out.append(K.scenario(rng.choice(["auto", "auto", "namever", "kitty", "iterm2"]), t, rng=rng))
    # $TERM_PROGRAM / $TERM_PROGRAM_VERSION fallback: XTVERSION answered (environment ignored) /
    # unanswered / queries disabled  x  unset / lower-case / mixed-case names  x  version set / unset
    for env_name in ("", "wezterm", "WezTerm", "iTerm.app", "iterm2", "ITERM2", "kitty", "Kitty", "vscode", "Apple_Terminal"):
        for env_ver in ("", "3.4.19", "0.20.0", "0.19.9", "20230712-072601-f4abf8fd"):
            for mode in ("answered", "unanswered", "disabled"):
                if tier == "quick" and rng.random() < 0.4:
                    continue
                t = dict(K.BASE_TERM, sup=(["xtv"] if mode == "answered" else []) + ["da1", "kitty"],
                         name=K.b(rng.choice(["foot", "Konsole", "WezTerm"])), ver=K.b("22.04.0"),
                         envName=K.b(env_name), envVer=K.b(env_ver))
                out.append(K.scenario(rng.choice(["namever", "namever", "iterm2", "auto", "kitty"]), t, rng=rng,
                                      enabled=mode != "disabled"))
    for n in ("kitty", "konsole"):
        for kid, msg in ((32, "OK"), (31, "ENOENT"), (31, "EINVAL"), (1, "OK")):
            t = dict(K.BASE_TERM, sup=["xtv", "kitty", "da1"], name=K.b(n), ver=K.b("22.12.3" if n == "konsole" else "0.32.1"),
                     kid=kid, kmsg=K.b(msg))
            out.append(K.scenario("auto", t, rng=rng))
    # cell size: XTWINOPS answers, swap, ioctl present / zero / smaller than the cell count / failing
    reps = 1 if tier == "quick" else 6
    for _ in range(reps):
        for sup in (["cell", "area", "da1"], ["area", "da1"], ["cell", "da1"], ["da1"], ["area"], []):
            for swap in (False, True):
                cols, rows = rng.choice([(80, 24), (1, 1), (213, 57), (100, 100)])
                cw, ch = rng.randrange(1, 30), rng.randrange(1, 60)
                area = [rows * ch + rng.randrange(ch), cols * cw + rng.randrange(cw)]
                if rng.random() < 0.2:
                    area = [rng.randrange(0, rows + 1), rng.randrange(0, cols + 1)]  # smaller than the cell count
                t = dict(K.BASE_TERM, sup=sup, cell=[rng.choice([0, ch, ch]), cw], area=area)
                for win in ({"xpx": 0, "ypx": 0}, {"xpx": cols * cw, "ypx": 0}, {"xpx": cols * cw + 3, "ypx": rows * ch + 5},
                            {"xpx": cols - 1 if cols > 1 else 0, "ypx": rows * ch}, {"xpx": 1, "ypx": 1}):
                    w = dict(cols=cols, rows=rows, **win)
                    out.append(K.scenario("cellsize", t, rng=rng, swap=swap, win=w,
                                          ioctl_fails=rng.random() < 0.15, enabled=rng.random() > 0.1))
    # histories disable -> op -> enable -> op (a sixth of the colour/name cases, every cell-size case again)
    more = []
    for scn in out:
        if scn["enabled"] and (scn["op"] == "cellsize" or (scn["op"] in ("colors", "namever") and rng.random() < 0.15)):
            h = copy.deepcopy(scn)
            h.update(op="history", inner=scn["op"])
            more.append(h)
    return out + more


def pty_scenarios(rng: random.Random, tier: str) -> list[tuple[dict, list]]:
    """(scenario, real bursts per write) for the real pty; DA1 always answered (5 s timeout)
    or nothing answered at all (62.5 ms timeout)."""
    n = 70 if tier == "quick" else 1500
    out = []
    for i in range(n):
        op = rng.choice(["colors", "colors", "namever", "cellsize", "kitty", "auto"])
        silent = rng.random() < 0.08
        sup = [] if silent else ["da1"] + [q for q in ("fg", "bg", "xtv", "cell", "area", "kitty") if rng.random() < 0.75]
        widths = [rng.choice([1, 2, 3, 4])] * 3 if rng.random() < 0.8 else [rng.choice([1, 2, 3, 4]) for _ in range(3)]
        t = dict(K.BASE_TERM, sup=sup,
                 fg={"c": [K.b("%0*x" % (w, rng.randrange(16**w))) for w in widths], "st": rng.choice(["st", "bel"])},
                 bg={"c": [K.b("%0*X" % (2, rng.randrange(256))) for _ in range(3)], "st": rng.choice(["st", "bel"])},
                 name=K.b(rng.choice(K.NAMES)), ver=K.b(rng.choice(["0.19.9", "0.20.0", "22.03.9", "22.04.0", "1.c", "0.20.x"])),
                 form=rng.choice(["paren", "space"]), xst=rng.choice(["st", "bel"]),
                 cell=[rng.randrange(1, 40), rng.randrange(1, 20)], area=[rng.randrange(0, 2000), rng.randrange(0, 3000)],
                 envName=K.b(rng.choice(["", "", "WezTerm", "iTerm.app", "wezterm", "Kitty"])),
                 envVer=K.b(rng.choice(["", "3.4.19", "0.21.0"])))
        cols, rows = rng.choice([(80, 24), (120, 40)])
        win = rng.choice([{"xpx": 0, "ypx": 0}, {"xpx": 0, "ypx": 0}, {"xpx": cols * 9, "ypx": rows * 18}, {"xpx": 7, "ypx": 500}])
        hist = op in ("colors", "namever", "cellsize") and rng.random() < 0.25
        scn = K.scenario(op, t, tmo=T62MS if silent else T5S, swap=rng.random() < 0.3, win=dict(cols=cols, rows=rows, **win),
                         history=hist)
        scn["opx"] = {"name": scn["op"], "more": scn["inner"]}
        bursts = []
        for qs in K.writes_of(op, t, True, bool(win["xpx"] and win["ypx"])):
            sch = K.random_sched(rng, K.replies(t, qs), 4)
            bursts.append([(rng.choice([0, 0.0005, 0.001, 0.002, 0.005]), bytes(bb["data"])) for bb in sch])
        out.append((scn, bursts))
    return out


def run_pty(rep: Report, session: termsim.PtySession, scn: dict, bursts: list) -> dict | None:
    good = bool(scn["win"]["xpx"] and scn["win"]["ypx"])
    reqs = [K.request_bytes(qs) for qs in K.writes_of(K.eff_op(scn), scn["term"], scn["enabled"], good)]
    replay = {"kind": "pty", "scn": scn, "bursts": [[(d, list(x)) for d, x in b] for b in bursts]}
    try:
        # a silence is retried once (this process may have stalled) unless the deterministic
        # virtual runs have already shown that the code does not fall back
        res = session.run(scn, requests=reqs, bursts=bursts, slack=SLACK, retry_silence=not no_fallback_seen(rep))
    except termsim.NoReturn as e:
        rep.violation(hang_signature(K.label(scn), "StillWaiting"),
                      f"real pty, query timeout {scn['tmo'] / vtty.TICK_HZ:g} s: the call did not return within 15 s "
                      f"({e}); the worker was killed; supported {scn['term']['sup']}", replay)
        return None
    rep.evaluations += 1
    if res["final"]["status"] == "hung":
        rep.violation(hang_signature(K.label(scn), res["final"]["kind"]),
                      f"real pty, query timeout {scn['tmo'] / vtty.TICK_HZ:g} s: {res['final']['hang']} after "
                      f"{res['final']['elapsed'] / vtty.TICK_HZ:.2f} s and {len(res['events'])} system calls, last "
                      f"{[e['call'] for e in res['events'][-6:]]}; supported {scn['term']['sup']}", replay)
        return None
    if "traceback" in res["final"]:
        rep.violation(f"{K.label(scn)}:raises:{res['final']['kind']}", res["final"]["traceback"],
                      {"kind": "pty", "scn": scn, "bursts": [[(d, list(x)) for d, x in b] for b in bursts]})
        return None
    return res


def main(rep: Report, replay: dict | None) -> None:
    import gc

    gc.disable()  # tens of thousands of acyclic trace records: a full collection stalls for seconds
    rep.assumptions += ASSUMPTIONS
    rep.rule = (
        "MC_Tty: ops {colors, namever, cellsize, kitty} x supported-subsets x ST/BEL x partitions of the reply stream "
        "into bursts of whole replies x delays x junk input x ioctl sizes, + {auto, iterm2} over 7 names x 17 versions "
        "x 4 kitty answers; distinct_nontrivial = distinct (operation, facts, schedule) replayed into the real code "
        "whose run made at least one system call"
    )
    import term_image.utils as U

    saved = {n: getattr(U, n) for n in vtty.SEAMS if hasattr(U, n)}
    rng = random.Random(rep.seed * 9176 + 12)
    quick = rep.tier == "quick"
    traces: list[dict] = []
    owners: list[dict] = []

    if replay:
        sc = replay["scenario"]
        if sc.get("kind") == "design":
            run_mc(rep, sc["cfg"], False)
            return
        scn = sc["scn"]
        if sc["kind"] in ("vtty", "grid"):
            run, _ = replay_scn(rep, scn, "replay")
            mode = "virtual"
            traces.append(K.make_trace("virtual", scn, run, c12=scn.get("intime", True)))
        else:
            session = termsim.PtySession(rep.extra["repo"] + "/src")
            try:
                res = run_pty(rep, session, scn, [[(d, bytes(x)) for d, x in bb] for bb in sc["bursts"]])
            finally:
                session.close()
            if res:
                scn = dict(scn, attr0=res["before"])
                traces.append(K.make_trace("real", scn, res, c12=True, stream=res["sent"]))
        owners += [{"kind": sc["kind"], "scn": scn, "origin": "replay"}] * len(traces)
        judge(rep, traces, owners)
        return

    phase: dict[str, float] = {}
    rep.extra["phase_s"] = phase
    tp = time.time()

    def lap(name: str) -> None:
        nonlocal tp
        phase[name] = round(time.time() - tp, 1)
        tp = time.time()

    # 1. exhaustive model + spec -> code replay of every behaviour
    scens = run_mc(rep, "MC_Tty.cfg" if quick else "MC_Tty_thorough.cfg", coverage=not quick)
    lap("mc")
    t0 = time.time()
    runs = []
    for scn in scens:
        scn["opx"] = {"name": scn["op"], "more": scn["inner"]}
        run, ok = replay_scn(rep, scn, "MC_Tty behaviour")
        if run["events"]:
            rep.distinct.add(("mc", K.label(scn), json.dumps(scn["sched"]), json.dumps(scn["term"], sort_keys=True),
                              json.dumps(scn["win"]), scn["swap"]))
        if ok:
            runs.append((scn, run))
    # vacuity of the model's actions, measured on the replayed behaviours (their call logs equal
    # the model's: same number of calls, same results): every kind of system call was taken
    kinds: dict[str, int] = {}
    for _scn, run in runs:
        for ev in run["events"]:
            kinds[ev["call"]] = kinds.get(ev["call"], 0) + 1
    rep.extra["calls_replayed"] = kinds
    if not rep.violations:
        for c in ("tcgetattr", "tcsetattr", "write", "tcdrain", "select", "read", "monotonic", "termsize", "ioctl"):
            if not kinds.get(c):
                raise tlc.MachineryError(f"no behaviour of MC_Tty performs {c} (vacuous action)")
    rep.traces_validated += len(runs)  # replayed paths whose projection equalled the spec's
    rep.extra["replayed_behaviours"] = len(scens)
    rep.extra["replay_wall_s"] = round(time.time() - t0, 1)
    # 2. code -> spec (i): syscall traces of those runs (quick: a seeded sample)
    sample = runs if not quick else rng.sample(runs, min(len(runs), 70))
    for scn, run in sample:
        traces.append(K.make_trace("virtual", scn, run, c12=scn["intime"]))
        owners.append({"kind": "vtty", "scn": scn, "origin": "MC_Tty behaviour"})
    lap("replay")
    # 3. bulk grids on the virtual device -> value traces (+ full traces for a few)
    grid = grid_scenarios(rng, rep.tier)
    for i, scn in enumerate(grid):
        run, ok = replay_scn(rep, scn, "grid")
        if not ok:
            continue
        f = run["final"]
        rep.distinct.add(("grid", K.label(scn), json.dumps(scn["term"], sort_keys=True), json.dumps(scn["win"]), scn["swap"]))
        if i % (80 if quick else 10) == 0:
            traces.append(K.make_trace("virtual", scn, run, c12=True))
        else:
            if f["residual"] or f["attr"] != scn["attr0"] or f["status"] != "returned":
                traces.append(K.make_trace("virtual", scn, run, c12=True))
            else:
                traces.append(K.value_trace(scn, f["val"]))
        owners.append({"kind": "grid", "scn": scn, "origin": "grid"})
    rep.extra["grid_scenarios"] = len(grid)
    lap("grid")
    # 4. real pty
    for name, fn in saved.items():
        setattr(U, name, fn)
    session = termsim.PtySession(rep.extra["repo"] + "/src")
    n_pty = 0
    try:
        for scn, bursts in pty_scenarios(rng, rep.tier):
            if no_fallback_seen(rep) >= 6 and "da1" not in scn["term"]["sup"]:
                # the code has been shown not to fall back; every further silent terminal would
                # cost a watchdog period for the same verdict
                rep.extra["pty_silent_skipped_after_no_fallback"] = rep.extra.get("pty_silent_skipped_after_no_fallback", 0) + 1
                continue
            res = run_pty(rep, session, scn, bursts)
            if res is None:
                continue
            n_pty += 1
            scn = dict(scn, attr0=res["before"])
            traces.append(K.make_trace("real", scn, res, c12=True, stream=res["sent"]))
            owners.append({"kind": "pty", "scn": scn, "origin": "pty",
                           "bursts": [[(d, list(x)) for d, x in bb] for bb in bursts]})
            rep.distinct.add(("pty", K.label(scn), json.dumps(scn["term"], sort_keys=True), json.dumps(scn["win"])))
    finally:
        rep.extra["pty_stalls_retried"] = getattr(session, "stalls", 0)
        session.close()
    rep.extra["pty_runs"] = n_pty
    lap("pty")
    # 5. the alarm rings: corrupted copies of good traces (one byte read altered) must be rejected
    bases = [i for i, t in enumerate(traces) if t["mode"] == "virtual" and any(ev["call"] == "read" and ev["rdata"] for ev in t["events"])]
    if not bases and not rep.violations:
        raise tlc.MachineryError("no virtual trace to corrupt")
    for i in bases[:: max(1, len(bases) // 5)][:5]:
        probe = copy.deepcopy(traces[i])
        j = next(n for n, ev in enumerate(probe["events"]) if ev["call"] == "read" and ev["rdata"])
        probe["events"][j]["rdata"] = [probe["events"][j]["rdata"][0] ^ 1] + probe["events"][j]["rdata"][1:]
        traces.append(probe)
        owners.append({"kind": "probe", "scn": {}, "origin": "probe", "base": id(traces[i])})
    lap("probe")
    judge(rep, traces, owners)
    lap("judge")
    for t in traces[:1] + [t for t in traces if t["mode"] == "real"][:1]:
        rep.sample({"mode": t["mode"], "op": t["op"]["name"], "sup": t["term"]["sup"],
                    "calls": [e["call"] for e in t["events"]][:30], "reported": t["final"]["val"]})
    rep.exhaustive = False
