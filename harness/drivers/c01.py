"""C01 - a render output occupies exactly its advertised columns x lines rectangle.

model:   specs/MC_RenderShape (design-level: every choreography x size x position)
binding: code -> spec.  Real renders (str / format / _renderer) are lexed and each token
         stream is validated by TLC against Trace_Render.tla (Terminal.tla semantics),
         for every start position where the rectangle fits a (rw+2)x(rh+2) screen.
"""

from __future__ import annotations

import copy
import itertools
import json
import random

from .. import lexer, renderkit, tlc, vt_conf
from ..core import Report
from ..env import stubs

ASSUMPTIONS = [
    "terminal semantics of specs/Terminal.tla (ECMA-48/xterm cursor movement, kitty graphics "
    "protocol a=T/C=1/c/r/m, iTerm2 inline images with width/height in cells)",
    "newline is interpreted with ONLCR (column 0): multi-line outputs are checked at start "
    "column 0 and every start row; single-line outputs at every start column",
    "traces that differ only in colour values / payload bytes are validated once "
    "(the rectangle clauses do not read them); each real render is still lexed and counted",
]

ALPHAS = [None, 0.4, 40 / 255, "#", "#102030"]
CELLS = [None, [2, 4], [9, 18], [3, 5]]


def gen_cases(rng: random.Random, reps: int):
    sizes = [(w, h) for w in range(1, 7) for h in range(1, 5)]
    combos = []
    for ident in ("kitty", "other"):
        for rw, rh in sizes:
            combos.append(dict(style="block", ident=ident, method=None, args={}, rw=rw, rh=rh))
    for ident in ("kitty", "kitty-old", "konsole"):
        for method in (None, "lines", "whole"):
            for mix in (False, True):
                for blend in (True, False):
                    for rw, rh in sizes:
                        a = {}
                        if mix:
                            a["mix"] = True
                        if not blend:
                            a["blend"] = False
                        combos.append(
                            dict(style="kitty", ident=ident, method=method, args=a, rw=rw, rh=rh)
                        )
    for ident in ("iterm2", "konsole", "wezterm"):
        for method in (None, "lines", "whole", "anim"):
            for mix in (False, True):
                for rw, rh in sizes:
                    a = {"mix": True} if mix else {}
                    combos.append(
                        dict(style="iterm2", ident=ident, method=method, args=a, rw=rw, rh=rh)
                    )
    # payloads that are an exact multiple of the 4096-character chunk size (compress=0, RGB,
    # 8x16 cells: one LINES strip of rw cells is 512*rw base64 characters) and their neighbours
    exact = []
    for ident in ("kitty", "konsole"):
        for method in ("lines", "whole"):
            for rw, rh in [(8, 1), (8, 2), (16, 1), (7, 2), (9, 1), (24, 1)]:
                exact.append(dict(style="kitty", ident=ident, method=method, args={"compress": 0},
                                  rw=rw, rh=rh, fixed=dict(alpha=None, mode="RGB", cell=[8, 16],
                                                           src=[rw * 8, rh * 16])))
    n = 0
    for base in exact:
        c = copy.deepcopy(base)
        fixed = c.pop("fixed")
        rw, rh = c.pop("rw"), c.pop("rh")
        c.update(seed=rng.randrange(1 << 30), fg_bg=(None, None), srckind="pil",
                 size=["manual", rw, rh], via="renderer", **fixed)
        yield c
    for base in combos:
        for _ in range(reps):
            n += 1
            c = copy.deepcopy(base)
            rw, rh = c.pop("rw"), c.pop("rh")
            c["seed"] = rng.randrange(1 << 30)
            c["alpha"] = rng.choice(ALPHAS)
            c["mode"] = rng.choice(renderkit.imgs.MODES)
            c["cell"] = rng.choice(CELLS)
            c["src"] = rng.choice([[1, 1], [3, 5], [16, 9], [7, 13], [40, 40], [rw, rh * 2]])
            c["fg_bg"] = rng.choice([(None, None), ((200, 200, 200), (0, 0, 0)), (None, (16, 32, 48))])
            if c["method"] == "anim" or rng.random() < 0.08:
                frames = rng.choice([2, 3])
                c["srckind"] = f"anim:{frames}:{rng.choice([0, frames - 1])}"
                c["mode"] = "P"
            else:
                c["srckind"] = rng.choice(["pil", "pil", "pilfile", "file"])
            if rng.random() < 0.2:
                tw, th = rng.randrange(2, 9), rng.randrange(3, 7)
                c["size"] = ["auto", rng.choice(["FIT", "AUTO", "ORIGINAL", "FIT_TO_WIDTH"]), tw, th]
                if c["size"][1] in ("ORIGINAL", "AUTO") and c["src"] == [40, 40]:
                    c["src"] = [5, 6]
            else:
                c["size"] = ["manual", rw, rh]
            if c["style"] == "kitty":
                if rng.random() < 0.5:
                    c["args"]["compress"] = rng.choice([0, 1, 9])
                if rng.random() < 0.4:
                    c["args"]["z_index"] = rng.choice([-5, 7, 2**31 - 1, -(2**31) + 1])
            elif c["style"] == "iterm2":
                if rng.random() < 0.4:
                    c["args"]["compress"] = rng.choice([0, 9])
                c["jpeg"] = rng.choice([None, None, 0, 50, 95])
                c["rff"] = rng.choice([None, None, True, False])
            if c["style"] != "block" and rng.random() < 0.15:
                c["forced"] = True  # forced support on a terminal that does support the style
            elif c["style"] != "block" and rng.random() < 0.12:
                c["subfirst"] = True  # detection first triggered through a user subclass
            plain = not c["args"] and c["alpha"] == 40 / 255 and not c["method"]
            if "blend" in c["args"]:
                c["via"] = "renderer"
            elif plain and rng.random() < 0.5:
                c["via"] = "str"
            else:
                c["via"] = rng.choice(["format", "renderer"])
            yield c


_KEEP_GFX = ("proto", "a", "C", "c", "r", "z", "m", "q", "d", "x0", "keys", "nkeys", "inline",
             "wcells", "hcells", "dnmc")


def normalise(stream: lexer.Stream):
    """Erase what the rectangle clauses never read (colour values, payload sizes)."""
    toks = []
    for t in stream.toks:
        if t["k"] == "sgr":
            p = list(t["p"])
            i = 0
            while i < len(p):
                if p[i] in (38, 48) and i + 1 < len(p) and p[i + 1] == 2:
                    for j in range(i + 2, min(i + 5, len(p))):
                        if not 0 <= p[j] <= 255:
                            return None, f"SGR colour component out of range: {p}"
                        p[j] = 0
                    i += 5
                else:
                    i += 1
            t = dict(t, p=p)
        toks.append(t)
    gfx = []
    for g in stream.gfx:
        gg = dict(lexer.GFX_NONE)
        for k in _KEEP_GFX:
            gg[k] = g[k]
        gfx.append(gg)
    return {"toks": toks, "gfx": gfx}, None


def shape_params(case):
    """Parameters selecting the choreography of RenderShape.tla this render must instantiate."""
    style = case["style"]
    method = case.get("method") or "lines"
    if method == "anim":
        method = "whole"  # ANIM and its fallback for stills use the WHOLE choreography
    quirk = "other"
    if style == "iterm2":
        quirk = {"konsole": "konsole", "wezterm": "wezterm"}.get(case["ident"], "other")
    args = case.get("args", {})
    return dict(style=style, method=method if style != "block" else "lines", quirk=quirk,
                mix=bool(args.get("mix", False)), blend=bool(args.get("blend", True)))


def positions(rw, rh, multi_line):
    """(cols, rows, r0, c0) for every start position where the rectangle fits."""
    cols, rows = rw + 2, rh + 2
    out = []
    for r0 in range(0, rows - rh + 1):
        for c0 in range(0, cols - rw + 1) if not multi_line else [0]:
            out.append((cols, rows, r0, c0))
    out.append((rw, rh, 0, 0))  # exact fit: rectangle reaches right margin and last row
    if multi_line:
        out.append((rw, rh + 1, 1, 0))
    return out


def main(rep: Report, replay: dict | None) -> None:
    rep.assumptions += ASSUMPTIONS
    rep.rule = (
        "cases: full factorial over (style, terminal identity, method, mix, blend, rw 1..6, rh 1..4) "
        "x seeded draws of alpha/mode/source/cell size/compress/z/jpeg/read_from_file/API; "
        "distinct_nontrivial = distinct normalised token streams containing >= 1 control sequence "
        "x start positions (each validated by TLC)"
    )
    if not replay:
        vt_conf.check(rep)  # the lexer is bound to VT.tla before anything it lexes is judged
    # design-level model
    res = tlc.run("MC_RenderShape", "MC_RenderShape.cfg", workers=16, timeout=600, coverage=True)
    if res.violated:
        rep.violation(
            f"design:RenderShape:{res.violated}",
            "the choreography specified in RenderShape.tla violates " + res.violated + "\n" + res.error_text[:1500],
            {"kind": "design"},
        )
    rep.add_tlc(res)
    rep.extra["mc_render_shape"] = {"states": res.distinct, "generated": res.generated}

    renderkit.setup("c01")
    rng = random.Random(rep.seed * 7919 + 1)
    if replay:
        cases = [replay["scenario"]["case"]]
    else:
        reps = 3 if rep.tier == "quick" else 90
        cases = list(gen_cases(rng, reps))

    uniq: dict[str, dict] = {}
    for case in cases:
        rep.evaluations += 1
        try:
            out, (rw, rh), _img = renderkit.render(case)
        except Exception as e:  # the render itself failed: not C01's clause, but never silent
            rep.violation(
                f"render-raises:{case['style']}:{type(e).__name__}",
                f"rendering raised {type(e).__name__}: {e}",
                {"case": case},
            )
            continue
        stream = lexer.lex(out)
        unk = lexer.unknowns(stream)
        if unk:
            raise tlc.MachineryError(f"lexer does not know {unk[:3]} in output of {case}")
        norm, err = normalise(stream)
        if err:
            rep.violation(f"sgr-range:{case['style']}", err, {"case": case})
            continue
        key = json.dumps([norm, rw, rh], sort_keys=True)
        if key not in uniq:
            uniq[key] = {"norm": norm, "rw": rw, "rh": rh, "case": case, "n": 0}
        uniq[key]["n"] += 1

    for u in uniq.values():
        u["shape"] = shape_params(u["case"])
    traces, owners = [], []
    for u in uniq.values():
        multi = u["rh"] > 1
        for cols, rows, r0, c0 in positions(u["rw"], u["rh"], multi):
            traces.append(
                dict(cols=cols, rows=rows, r0=r0, c0=c0, rw=u["rw"], rh=u["rh"], shape=u["shape"],
                     **u["norm"])
            )
            owners.append((u, (cols, rows, r0, c0)))
    verdicts, st, tr = tlc.validate_traces(
        "Trace_Render", "Trace_Render.cfg", traces, batch=600, parallel=8, workers=2, name="c01"
    )
    rep.states += st
    rep.transitions += tr
    rep.traces_validated += len(traces)
    for v, (u, pos) in zip(verdicts, owners):
        if any(t["k"] not in ("print", "lf") for t in u["norm"]["toks"]):
            rep.distinct.add((id(u), pos))
        if v["verdict"] != "ok":
            if v["verdict"].startswith("unsupported"):
                raise tlc.MachineryError(f"Terminal.tla: {v['verdict']} for {u['case']}")
            case = u["case"]
            clause = v["verdict"].split(":")[0]
            rep.violation(
                f"{case['style']}:{case.get('method') or 'default'}:{case['ident']}:{clause}",
                f"clause {v['verdict']!r} failed at token {v['at']} of {len(u['norm']['toks'])} "
                f"(terminal {pos[0]}x{pos[1]}, start row {pos[2]} col {pos[3]}, advertised "
                f"{u['rw']}x{u['rh']}); case={json.dumps(case)}",
                {"case": case, "position": pos},
            )
    for u in itertools.islice(uniq.values(), 4):
        rep.sample({"case": u["case"], "advertised": [u["rw"], u["rh"]],
                    "tokens": [t["k"] for t in u["norm"]["toks"]][:24]})
    rep.extra["renders"] = rep.evaluations
    if not replay:
        from .. import clear_replay

        clear_replay.run(rep)  # beyond the list: clear() argument table + effect on placements
    rep.extra["distinct_streams"] = len(uniq)
