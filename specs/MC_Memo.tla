------------------------------ MODULE MC_Memo ------------------------------
(* Configurations of Memo (C15): MC_Memo_cached.cfg (3 threads x 2 argument tuples with an      *)
(* invalidation, one raising body), MC_Memo_tsc.cfg (2 threads; MC_Memo_tsc3.cfg: 3 threads,      *)
(* thorough; terminal resized up to twice, one raising body), all with the edge                  *)
(* dump for the replay under env/sched.py; MC_Memo_var.cfg = body outside the lock.             *)
EXTENDS Memo, Json, IOUtils

C(a) == [k |-> "call", a |-> a]
Inv == [k |-> "inv", a |-> 0]

\* argument tuples of the `cached` probe: f(1), f(hex=FALSE), f(hex=TRUE) - the last two have the same keyword NAMES
\* `ret`: what the probe body returns for these arguments: "ord" = the ordinal of the body execution,
\* "falsy" = None / 0 / False / "" / () (rotating over the replayed walks): memoization must not depend on the
\* truth value of the result
ArgForms == << [pos |-> <<1>>, kw |-> <<>>, ret |-> "falsy"], [pos |-> <<>>, kw |-> << <<"hex", FALSE>> >>, ret |-> "ord"],
              [pos |-> <<>>, kw |-> << <<"hex", TRUE>> >>, ret |-> "falsy"] >>
KwClasses == <<1, 2, 2>>
CachedProg == << <<C(1), C(2)>>, <<C(3), Inv, C(2)>>, <<C(2), C(3)>> >>
TscProg == << <<C(1), C(1)>>, <<C(1), C(1)>> >>
Tsc3Prog == << <<C(1), C(1)>>, <<C(1), C(1)>>, <<C(1)>> >>
SmallProg == << <<C(1), C(2)>>, <<C(1), C(1)>> >>
KwProg == << <<C(2), C(3)>>, <<C(3)>> >>
FailProg == << <<C(1), C(1)>>, <<C(1)>> >>

EnvVariant == IF "VARIANT" \in DOMAIN IOEnv THEN IOEnv.VARIANT ELSE "code"

ASSUME PrintT(<<"CONFIG", ToJson([nt |-> NT, prog |-> Prog, kind |-> Kind, args |-> ArgForms])>>)

Dump ==
  PrintT(<<"EDGE", ToJson([from |-> View, to |-> View', lvl |-> TLCGet("level"),
                          op |-> [t |-> out'.t, act |-> out'.act, res |-> out'.res,
                                  inb |-> InBodySet', blk |-> BlockedSet', nbody |-> nbody']])>>)
=============================================================================
