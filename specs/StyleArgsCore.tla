--------------------------- MODULE StyleArgsCore ---------------------------
(***************************************************************************)
(* X10: validation and normalisation of the STYLE-SPECIFIC ARGUMENTS of     *)
(* the old image API - what draw(style keywords), the `+style` part of a format *)
(* specifier and `set_render_method()` accept, for BlockImage, KittyImage   *)
(* and ITerm2Image.  Functional core (no variables).                        *)
(*                                                                         *)
(* Sources: the "Style-Specific Render Parameters" / "Format Specification" *)
(* sections of the KittyImage and ITerm2Image docstrings, the `style`       *)
(* parameter and the Raises section of BaseImage.draw(), the docstrings of  *)
(* BaseImage.set_render_method() and BaseImage._check_style_args().         *)
(*                                                                         *)
(* The documented table:                                                    *)
(*                                                                         *)
(*   kitty   method   None | str   a render method of the class (any case)  *)
(*                                 default None = effective method          *)
(*                                 (None itself is REFUSED: deviation D5)   *)
(*           z_index  int          signed 32-bit range excluding -(2**31)   *)
(*                                 default 0                                *)
(*           mix      bool         default False                            *)
(*           compress int          0 <= compress <= 9, default 4            *)
(*   iterm2  method, mix, compress as above (methods lines, whole, anim)    *)
(*   block   no style-specific argument                                     *)
(*                                                                         *)
(*   inappropriate type -> TypeError; appropriate type, bad value ->        *)
(*   ValueError; unrecognised parameter -> StyleError (BaseImage.draw)      *)
(*   "Removes any argument having a value equal to the default"             *)
(*                                                                         *)
(* A Python value travels as a record [t, n, h, l, s]: type tag, sign and   *)
(* two 16-bit limbs of the magnitude (TLC integers are 32 bit; the z-index  *)
(* boundaries are +-2**31), s = the characters of a string as code points   *)
(* (so that case-insensitivity is arithmetic, not a table).                 *)
(***************************************************************************)
EXTENDS Naturals, Integers, Sequences, FiniteSets

V(t, n, h, l, s) == [t |-> t, n |-> n, h |-> h, l |-> l, s |-> s]
NoneV == V("none", FALSE, 0, 0, <<>>)
BoolV(b) == V("bool", FALSE, 0, IF b THEN 1 ELSE 0, <<>>)
IntV(n, h, l) == V("int", n, h, l, <<>>)
Nat16(i) == IntV(FALSE, 0, i)
Neg16(i) == IntV(TRUE, 0, i)
FloatV(n, h, l) == V("float", n, h, l, <<>>)   \* integral floats only: 1.0, 4.0 ...
StrV(s) == V("str", FALSE, 0, 0, s)

Types == {"none", "bool", "int", "float", "str", "other"}

WFValue(v) ==
  /\ v.t \in Types
  /\ v.n \in BOOLEAN /\ v.h \in 0..65536 /\ v.l \in 0..65535
  /\ (v.h = 0 /\ v.l = 0) => ~v.n                       \* one zero
  /\ v.t = "bool" => v.h = 0 /\ v.l \in {0, 1} /\ ~v.n
  /\ v.t \in {"none", "str", "other"} => v.h = 0 /\ v.l = 0 /\ ~v.n
  /\ v.t # "str" => v.s = <<>>
  /\ \A i \in DOMAIN v.s : v.s[i] \in 0..127

(* ---- integers by limbs (no 32-bit overflow) ---------------------------- *)
MagLess(a, b) == a.h < b.h \/ (a.h = b.h /\ a.l < b.l)
NumEq(a, b) == a.n = b.n /\ a.h = b.h /\ a.l = b.l
NumLess(a, b) ==
  IF a.n /\ ~b.n THEN TRUE
  ELSE IF ~a.n /\ b.n THEN FALSE
  ELSE IF ~a.n THEN MagLess(a, b)
  ELSE MagLess(b, a)
I32Max == IntV(FALSE, 32767, 65535)      \*  2**31 - 1
I32Min == IntV(TRUE, 32768, 0)           \* -(2**31)
AsNum(v) == IntV(v.n, v.h, v.l)          \* Python: True == 1, False == 0

\* "An integer in the signed 32-bit range (excluding -(2**31))"
InZRange(v) == ~NumLess(I32Max, v) /\ NumLess(I32Min, v)
\* the same range said differently: |z| <= 2**31 - 1
InZRangeByMagnitude(v) == v.h <= 32767
\* "0 <= compress <= 9"
InCompressRange(v) == ~v.n /\ v.h = 0 /\ v.l <= 9

(* ---- strings as code points; render-method names are case-insensitive -- *)
Lower(c) == IF c \in 65..90 THEN c + 32 ELSE c
LowerS(s) == [i \in DOMAIN s |-> Lower(s[i])]
S_lines == <<108, 105, 110, 101, 115>>
S_whole == <<119, 104, 111, 108, 101>>
S_anim == <<97, 110, 105, 109>>
MethodOf(s) ==
  LET q == LowerS(s) IN
  IF q = S_lines THEN "lines" ELSE IF q = S_whole THEN "whole" ELSE IF q = S_anim THEN "anim" ELSE "?"

Families == {"block", "kitty", "iterm2"}
Methods(f) == CASE f = "kitty" -> {"lines", "whole"}
                [] f = "iterm2" -> {"lines", "whole", "anim"}
                [] OTHER -> {}
Known(f) == CASE f = "kitty" -> {"method", "z_index", "mix", "compress"}
              [] f = "iterm2" -> {"method", "mix", "compress"}
              [] OTHER -> {}
DocumentedNames == {"method", "z_index", "mix", "compress"}

(* ---- named deviations from the letter of the documentation ------------- *)
\* D1  A bool is accepted where an int is documented (z_index, compress): Python's bool is a
\*     subclass of int, the docs say "(int)" and nothing about bool.  True counts as 1, False as 0
\*     (so z_index=False equals the default and is dropped).  Harmless; modelled, not reported.
BoolIsInt == TRUE
\* D2  A rejected draw() still writes its epilogue (SGR reset, cursor show/hide on a tty, one
\*     newline): the arguments are validated inside the render callback.  The documentation does
\*     not say what a rejected call writes; nothing OF THE IMAGE may be written.
RejectedDrawOutputs == {"nothing", "epilogue"}
\* D3  When several arguments of one call are wrong the documentation does not say which error
\*     wins: any of them is accepted (CallVerdicts is a set).
\* D4  _check_style_args() returns the render method as spelled by the caller ("WHOLE"), not
\*     canonicalised: values are compared case-insensitively (SameAs).
\* D5  The docstrings say "method (None | str) ... None -> the current effective render method ...
\*     default -> None", but the code AND the repository's own test-suite (TestStyleArgs.test_method
\*     of tests/test_image/test_kitty.py and test_iterm2.py) refuse None with TypeError.  The way to
\*     get the effective render method is to OMIT `method`.  A documentation-vs-tests contradiction
\*     that cannot be repaired without breaking the suite: modelled as it behaves, not reported.
\*     (FALSE = the letter of the docstring: None accepted and dropped as the default.)
MethodNoneRefused == TRUE

(* ---- the documented table ----------------------------------------------- *)
DefaultOf(k) == CASE k = "method" -> NoneV
                  [] k = "z_index" -> Nat16(0)
                  [] k = "mix" -> BoolV(FALSE)
                  [] k = "compress" -> Nat16(4)
                  [] OTHER -> NoneV

IntLike(v) == v.t = "int" \/ (BoolIsInt /\ v.t = "bool")

TypeOKDoc(k, v) == CASE k = "method" -> v.t = "str" \/ (v.t = "none" /\ ~MethodNoneRefused)  \* "(None | str)", D5
                     [] k = "z_index" -> IntLike(v)
                     [] k = "mix" -> v.t = "bool"
                     [] k = "compress" -> IntLike(v)
                     [] OTHER -> FALSE

ValueOKDoc(f, k, v) == CASE k = "method" -> v.t = "none" \/ MethodOf(v.s) \in Methods(f)
                         [] k = "z_index" -> InZRange(v)
                         [] k = "mix" -> TRUE
                         [] k = "compress" -> InCompressRange(v)
                         [] OTHER -> FALSE

\* one argument [k |-> name, v |-> value]
ArgVerdict(f, a) ==
  IF a.k \notin Known(f) THEN "StyleError"
  ELSE IF ~TypeOKDoc(a.k, a.v) THEN "TypeError"
  ELSE IF ~ValueOKDoc(f, a.k, a.v) THEN "ValueError"
  ELSE "ok"

\* an argument set = the keyword arguments of one call, in the caller's order
WFArgs(args) ==
  /\ \A i \in DOMAIN args : WFValue(args[i].v)
  /\ \A i, j \in DOMAIN args : i # j => args[i].k # args[j].k

BadArgs(f, args) == {i \in DOMAIN args : ArgVerdict(f, args[i]) # "ok"}
CallVerdicts(f, args) ==
  IF BadArgs(f, args) = {} THEN {"ok"} ELSE {ArgVerdict(f, args[i]) : i \in BadArgs(f, args)}
Accepted(f, args) == CallVerdicts(f, args) = {"ok"}

\* "Removes any argument having a value equal to the default"
EqDefault(a) ==
  CASE a.k = "method" -> a.v.t = "none"
    [] a.k = "mix" -> a.v.t = "bool" /\ a.v.l = 0
    [] a.k \in {"z_index", "compress"} -> NumEq(a.v, DefaultOf(a.k))
    [] OTHER -> FALSE
Kept(args) == SelectSeq(args, LAMBDA a : ~EqDefault(a))

Given(args, k) == \E i \in DOMAIN args : args[i].k = k
ValOf(args, k) == args[CHOOSE i \in DOMAIN args : args[i].k = k].v
EffArg(args, k) == IF Given(args, k) THEN ValOf(args, k) ELSE DefaultOf(k)

\* two values that mean the same setting
SameAs(a, b) ==
  IF a.t = "str" /\ b.t = "str" THEN LowerS(a.s) = LowerS(b.s)
  ELSE IF a.t \in {"int", "bool"} /\ b.t \in {"int", "bool"} THEN NumEq(a, b)
  ELSE a = b

\* the returned mapping `got` (sequence of [k, v]) is the minimal argument set of `args`
IsKeptOf(got, args) ==
  LET want == Kept(args) IN
  /\ Len(got) = Len(want)
  /\ \A i \in DOMAIN want : \E j \in DOMAIN got : got[j].k = want[i].k /\ SameAs(got[j].v, want[i].v)

(* ---- what an accepted call denotes --------------------------------------- *)
\* res = the render method the target resolves to when no override is given
Den(res, args) ==
  [m |-> IF EffArg(args, "method").t = "str" THEN MethodOf(EffArg(args, "method").s) ELSE res,
   z |-> AsNum(EffArg(args, "z_index")),
   x |-> EffArg(args, "mix").l = 1,
   c |-> EffArg(args, "compress").l]
NoDen == [m |-> "", z |-> Nat16(0), x |-> FALSE, c |-> 0]

\* instance-specific method, else the class-wide one, else the default (C20 owns the full
\* resolution law along class hierarchies; this is its two-level instance)
Resolved(f, cm, imi) ==
  IF f = "block" THEN "none"
  ELSE IF imi # "unset" THEN imi ELSE IF cm # "unset" THEN cm ELSE "lines"

\* how the denoted method frames the output.  ANIM: "If the image is non-animated, the WHOLE
\* render method is used instead"; "If used with ImageIterator or an animation, the WHOLE render
\* method is used instead"
Framing(f, m, animated, animation) ==
  IF f = "block" THEN "text"
  ELSE IF m = "anim" THEN (IF animated /\ ~animation THEN "native" ELSE "whole")
  ELSE m
Ncmd(fr, rows, frames) == CASE fr = "lines" -> rows * frames
                            [] fr = "whole" -> frames
                            [] fr = "native" -> 1
                            [] OTHER -> 0

Terms(f) == CASE f = "kitty" -> {"kitty", "konsole"}
              [] f = "iterm2" -> {"wezterm", "iterm2", "konsole"}
              [] OTHER -> {"other"}
\* iterm2 mix: "Only supported on WezTerm, ignored otherwise"
MixVisible(f, t) == f = "kitty" \/ (f = "iterm2" /\ t = "wezterm")
Erases(f, t, x) == MixVisible(f, t) /\ ~x
\* z_index: "The stacking order of graphics and text for non-animations"
ZJudged(f, animation) == f = "kitty" /\ ~animation
\* compress: zlib level of the transmitted data / "for renders re-encoded in PNG format"
CJudged(f, fr) == f \in {"kitty", "iterm2"} /\ fr \in {"lines", "whole"}

(* ---- set_render_method ---------------------------------------------------- *)
\* "TypeError: inappropriate type / ValueError: unexpected value"; "method = None is always
\* allowed, even if the render style doesn't implement multiple render methods"; case-insensitive
SetVerdict(f, v) ==
  IF v.t = "none" THEN "ok"
  ELSE IF v.t # "str" THEN "TypeError"
  ELSE IF MethodOf(v.s) \in Methods(f) THEN "ok"
  ELSE "ValueError"
SetValue(v) == IF v.t = "none" THEN "unset" ELSE MethodOf(v.s)

(* ---- the format-specifier route ------------------------------------------ *)
\* [ <method> ] [ z <z-index> ] [ m <mix> ] [ c <compress> ]  (C19 owns the grammar; here only
\* which argument sets have a specifier, and that the specifier denotes the same set)
SpecOrder(k) == CASE k = "method" -> 1 [] k = "z_index" -> 2 [] k = "mix" -> 3
                  [] k = "compress" -> 4 [] OTHER -> 0
Expressible(args) ==
  /\ \A i \in DOMAIN args : SpecOrder(args[i].k) > 0
  /\ \A i, j \in DOMAIN args : i < j => SpecOrder(args[i].k) < SpecOrder(args[j].k)
  /\ \A i \in DOMAIN args :
       LET a == args[i] IN
       CASE a.k = "method" -> a.v.t = "str" /\ MethodOf(a.v.s) # "?"
         [] a.k = "z_index" -> a.v.t = "int"
         [] a.k = "mix" -> a.v.t = "bool"
         [] a.k = "compress" -> a.v.t = "int" /\ InCompressRange(a.v)
         [] OTHER -> FALSE
\* a field the class's grammar does not have is a StyleError; a z-index outside the range a
\* ValueError (C19)
FormatVerdicts(f, args) ==
  IF \E i \in DOMAIN args :
       args[i].k \notin Known(f) \/ (args[i].k = "method" /\ MethodOf(args[i].v.s) \notin Methods(f))
  THEN {"StyleError"}
  ELSE CallVerdicts(f, args)

(* ---- operations ------------------------------------------------------------ *)
\* op = [r, i, an, args]: r route (set | draw | format | check), i target (0 = the class, 1.. an
\* instance), an = animate (draw on an animated image), args = keyword arguments
\* (set: <<[k |-> "method", v |-> value]>>)
Verdicts(f, op) ==
  CASE op.r = "set" -> {SetVerdict(f, op.args[1].v)}
    [] op.r = "format" -> FormatVerdicts(f, op.args)
    [] OTHER -> CallVerdicts(f, op.args)

\* expected observation of an operation.  meth = resolved method of the target, animated = the
\* target is an animated image
ExpOf(f, op, meth, animated, maxrows, nf) ==
  LET vs == Verdicts(f, op)
      ok == vs = {"ok"}
      renders == ok /\ op.r \in {"draw", "format"}
      den == IF renders THEN Den(meth, op.args) ELSE NoDen
      anim == op.an /\ animated
      fr == IF renders THEN Framing(f, den.m, animated, anim) ELSE ""
      frames == IF anim THEN nf ELSE 1
  IN [res |-> vs,
      wrote |-> IF renders THEN {"picture"}
                ELSE IF op.r = "draw" THEN RejectedDrawOutputs
                ELSE {"nothing"},
      den |-> den,
      fr |-> fr,
      ncmd |-> [r \in 1..maxrows |-> Ncmd(fr, r, frames)],
      zj |-> renders /\ ZJudged(f, anim),
      er |-> [t \in Terms(f) |-> renders /\ Erases(f, t, den.x)],
      cj |-> renders /\ CJudged(f, fr),
      kept |-> IF ok /\ op.r = "check" THEN Kept(op.args) ELSE <<>>]
=============================================================================
