"""X01 (extension) - the value types: Size / RawSize, AlignedPadding / ExactPadding, Color.

model:    specs/ValueTypes.tla over specs/ValueTypesCore.tla (which instantiates C05's
          specs/Padding.tla for the arithmetic): a store of objects with identity; one named
          action per API operation / documented branch; the documented laws as invariants and
          action properties (MC_ValueTypes_*.cfg).
spec->code: TLC dumps every edge of the bounded model (Edges_ValueTypes_*.cfg: a 2-slot store
          with rich alphabets, a deeper store with tiny alphabets); harness/graph.py turns them
          into covering walks; every walk is replayed on REAL objects (harness/x01_world.py);
          after EACH operation every live object is read back (attributes, tuple view, class,
          `relative`, identity) together with the ==/hash relations between all of them and
          compared with the spec's projection.
code->spec: seeded random histories with wide value ranges (store of up to 6 variables,
          rebinding allowed) are executed on the real code, recorded, and validated by TLC against
          specs/Trace_ValueTypes.tla.  The clause (= signature) of every disagreement - also of
          those found by the replay - comes from that TLA+ module.
"""

from __future__ import annotations

import gc
import json
import random
import re
import time
from concurrent.futures import ThreadPoolExecutor

from .. import graph, tlc
from .. import x01_world as W
from ..core import Report

ASSUMPTIONS = [
    "the laws are those of the docstrings of term_image.geometry / .padding / .color (the .rst pages only "
    "pull these in); the arithmetic of the padding dimensions is C05's module Padding, instantiated",
    "'instances with equal fields compare equal' is read for instances of ONE class; == between an instance of "
    "a subclass and one of its base class with equal fields is not judged; a padding never equals a non-padding",
    "Size / RawSize / Color are documented as tuples (NamedTuple): equality and hashing are the tuple's, whatever "
    "the class; list(obj), indexing and unpacking must show the fields",
    "hashing: the only law is 'equal objects hash equal'",
    "immutability is probed with setattr / delattr on every field, on `relative` and on an unknown name; "
    "the subclasses used declare `__slots__ = ()` like their bases",
    "`cls._new(...)` (documented 'for internal use only') and the namedtuple method `_replace` build instances "
    "WITHOUT validation: modelled as their own actions (BypassSize / BypassColor / Replace); the documented "
    "ValueError is demanded of the constructors and of Color.from_hex only",
    "a render size argument is a Size (or subclass) instance with positive dimensions; a terminal size has "
    "positive dimensions; the alignment arguments are HAlign / VAlign members; fills are at most one column",
    "hex / rgb / rgb_hex are read from colours with channels in 0..255 only",
    "pad(): only the SIZE of the output is read here (lines x columns of a text render, CSI n C = n columns); "
    "its layout is C05's",
]

ACTIONS = (
    "NewAligned", "NewAlignedDefault", "NewExact", "NewExactRejected", "NewExactDefault", "NewAbstract",
    "ToExactCustom", "ResolveRelative",
    "ResolveAbsolute", "ResolveAbsoluteCopy", "ToExactAligned", "ToExactExact", "ToExactExactCopy", "GetPaddedSize",
    "ExactDims", "PadOutput",
    "RelativeRefused", "ChainRenderSize", "Dimensions", "MinSize", "RebuildSame", "RebuildInt", "RebuildStr",
    "NewSize", "NewSizeRejected", "BypassSize", "Replace", "SetAttr", "DelAttr", "NewColor", "NewColorRejected",
    "NewColorRGB", "BypassColor", "Hex", "RgbHex", "Rgb", "NewStr", "FromHex", "FromHexRejected",
)
OP_KEYS = ("name", "i", "j", "dst", "cls", "n", "s")
OBJ_KEYS = ("k", "cls", "n", "s", "id", "rel", "tup")


# ------------------------------------------------------------------ TLC helpers
def coverage_of(res, module: str) -> dict[str, int]:
    pat = re.compile(
        r"^<(\w+) line \d+, col \d+ to line \d+, col \d+ of module %s(?: \([\d ]+\))?>: (\d+):(\d+)" % re.escape(module),
        re.M)
    return {m.group(1): int(m.group(3)) for m in pat.finditer(res.stdout)}


def require_actions(res, what: str, allow_missing=()) -> dict[str, int]:
    cov = coverage_of(res, "ValueTypes")
    vac = [a for a in ACTIONS if cov.get(a, 0) == 0 and a not in allow_missing]
    if vac:
        raise tlc.MachineryError(f"x01: vacuous actions in {what}: {vac}")
    return {a: cov.get(a, 0) for a in ACTIONS}


def design_violation(rep: Report, res, cfg: str) -> None:
    if res.violated:
        rep.violation(f"design:ValueTypes:{res.violated}",
                      f"the model in ValueTypes.tla ({cfg}) violates {res.violated}\n" + res.error_text[:1500],
                      {"kind": "design", "cfg": cfg})


# ------------------------------------------------------------------ labels (naming only)
def label(op: dict, operand_cls: str) -> str:
    nm = op["name"]
    base = {"SubAligned": "AlignedPadding", "SubExact": "ExactPadding", "SubSize": "Size", "SubColor": "Color",
            "CustomPadding": "Padding"}.get(operand_cls, operand_cls)
    if nm in ("new_aligned", "new_aligned_default"):
        return "AlignedPadding()"
    if nm in ("new_exact", "new_exact_default"):
        return "ExactPadding()" if op["cls"] != "CustomPadding" else "CustomPadding()"
    if nm == "new_abstract":
        return "Padding()"
    if nm == "new_size":
        return ("RawSize" if op["cls"] == "RawSize" else "Size") + "()"
    if nm in ("new_color", "new_color_rgb"):
        return "Color()"
    if nm == "bypass":
        return {"RawSize": "RawSize", "Size": "Size", "SubSize": "Size"}.get(op["cls"], "Color") + "._new"
    if nm == "from_hex":
        return "Color.from_hex"
    if nm == "new_str":
        return "str"
    meth = {"exact_dims": "_get_exact_dimensions_", "min_size": "size", "replace": "_replace",
            "setattr": "__setattr__", "delattr": "__delattr__", "rebuild": "()"}.get(nm, nm)
    return f"{base}{meth}" if meth == "()" else f"{base}.{meth}"


def event(world: W.World, op: dict) -> dict:
    operand = type(world.store[op["i"] - 1]).__name__ if op["i"] else op["cls"]
    res, val = world.do(op)
    ev = {k: op[k] for k in OP_KEYS}
    ev.update(res=res, val=val, obs=world.observe(), lab=label(op, operand))
    return ev


# ------------------------------------------------------------------ spec -> code
VARIANT = "other-documented-variant"


def compare(op: dict, ev: dict) -> str:
    """'' if the real observation equals the edge's projection, else what differs (text only).
    VARIANT: the edge is the other one of two documented outcomes (operand itself / equal copy)."""
    if ev["res"] != op["res"] and not (op["name"] in ("setattr", "delattr") and ev["res"] != "ok"):
        return f"outcome {ev['res']!r}, spec {op['res']!r}"
    if op["var"] and ev["res"] == "ok" and op["dst"] != op["i"]:
        o = ev["obs"]["o"]
        same = o[op["dst"] - 1]["id"] == o[op["i"] - 1]["id"]
        if same != (op["var"] == "self"):
            return VARIANT
    if ev["val"] != op["val"]:
        return f"returned {ev['val']}, spec {op['val']}"
    exp, obs = op["exp"], ev["obs"]
    if len(obs["o"]) != len(exp["o"]):
        return f"{len(obs['o'])} live objects, spec {len(exp['o'])}"
    for i, (x, o) in enumerate(zip(obs["o"], exp["o"]), 1):
        for k in OBJ_KEYS:
            if x[k] != o[k]:
                return f"object {i}: {k} = {x[k]!r}, spec {o[k]!r} (object {x}, spec {o})"
    n = len(exp["o"])
    for i in range(n):
        for j in range(n):
            want = exp["eq"][i][j]
            if want != "U" and obs["eq"][i][j] != want:
                return f"objects {i + 1} == {j + 1}: {obs['eq'][i][j]}, spec {want}"
            if want == "T" and obs["heq"][i][j] != "T":
                return f"objects {i + 1}, {j + 1} are equal but hash differently"
    return ""


def replay_walk(walk: list[dict], idx: int, seed: int) -> dict:
    world = W.World(seed * 7919 + idx)
    out = {"steps": 0, "mismatches": [], "abandoned": False, "variants": 0}
    init: list = []
    events: list = []
    for step, edge in enumerate(walk):
        op = edge["op"]
        ev = event(world, op)
        out["steps"] += 1
        events.append(ev)
        diff = compare(op, ev)
        if not diff:
            continue
        if diff == VARIANT:
            out["variants"] += 1
        else:
            out["mismatches"].append({"init": init, "ev": events, "diff": diff, "walk": idx, "step": step,
                                      "seed": seed * 7919 + idx})
        # return to the spec's state with fresh objects and go on (keeps edge coverage)
        init = op["exp"]["o"]
        events = []
        try:
            world.force(init)
        except Exception:
            out["abandoned"] = True
            break
        back = world.observe()
        if [{k: x[k] for k in OBJ_KEYS} for x in back["o"]] != [{k: o[k] for k in OBJ_KEYS} for o in init]:
            out["abandoned"] = True
            break
    return out


# ------------------------------------------------------------------ code -> spec
FILLS = [" ", "#", "", "*", ".", " "]
HN, VN = ["LEFT", "CENTER", "RIGHT"], ["TOP", "MIDDLE", "BOTTOM"]
HEXD = "0123456789abcdefABCDEF"


def _op(name, i=0, j=0, dst=0, cls="", n=(), s=()):
    return {"name": name, "i": i, "j": j, "dst": dst, "cls": cls, "n": list(n), "s": list(s)}


def _rand_hex_text(rng: random.Random) -> str:
    body = "".join(rng.choice(HEXD) for _ in range(rng.choice([6, 6, 8, 8, 8])))
    text = rng.choice(["#", ""]) + body
    r = rng.random()
    if r < 0.35:  # make it (probably) malformed, staying inside the symbol table
        how = rng.randrange(7)
        if how == 0:
            text = text[:-1]
        elif how == 1:
            text += rng.choice("0fF#g \n")
        elif how == 2:
            p = rng.randrange(len(text))
            text = text[:p] + rng.choice("gGx _+０") + text[p + 1:]
        elif how == 3:
            text = "#" + text
        elif how == 4:
            text = text[: rng.choice([0, 1, 3, 4, 5])]
        elif how == 5:
            text = " " + text
        else:
            text = text + text[-2:]
    return text


def gen_op(world: W.World, rng: random.Random, fam: str, cap: int) -> dict:
    st = world.store
    kinds = [world.kind(o) for o in st]
    n = len(st)

    def dst():
        if n < cap and (n == 0 or rng.random() < 0.7):
            return n + 1
        return rng.randint(1, n)

    custom = [isinstance(o, W.CustomPadding) for o in st]

    def pick(*ks, own=False):
        c = [i + 1 for i, k in enumerate(kinds) if k in ks and not (own and custom[i])]
        return rng.choice(c) if c else 0

    def dim(lo, hi):
        return rng.choice([rng.randint(lo, hi), rng.randint(lo, hi), 0, 1, -1, 2])

    for _ in range(50):
        r = rng.random()
        if fam == "pad":
            i_al, i_ex, i_pad, i_sz = pick("aligned"), pick("exact", own=True), pick("aligned", "exact"), pick("size")
            i_own = pick("aligned", "exact", own=True)
            if n == 0 or r < 0.22:
                c = rng.random()
                if c < 0.35:
                    return _op("new_aligned", dst=dst(), cls=rng.choice(["AlignedPadding"] * 3 + ["SubAligned"]),
                               n=[dim(-12, 30), dim(-8, 20)], s=[rng.choice(HN), rng.choice(VN), rng.choice(FILLS)])
                if c < 0.42:
                    return _op("new_aligned_default", dst=dst(), cls=rng.choice(["AlignedPadding", "SubAligned"]),
                               n=[dim(-12, 30), dim(-8, 20)])
                if c < 0.67:
                    d = [rng.randint(0, 9) for _ in range(4)]
                    if rng.random() < 0.25:
                        d[rng.randrange(4)] = -rng.randint(1, 3)
                    cls = rng.choice(["ExactPadding"] * 3 + ["SubExact"] + (["CustomPadding"] if min(d) >= 0 else []))
                    return _op("new_exact", dst=dst(), cls=cls, n=d, s=[rng.choice(FILLS)])
                if c < 0.71:
                    return _op("new_exact_default", dst=dst(), cls=rng.choice(["ExactPadding", "SubExact"]))
                if c < 0.73:
                    return _op("new_abstract", dst=n + 1, cls="Padding", s=rng.choice([[], [" "], ["#"]]))
                if c < 0.9:
                    return _op("new_size", dst=dst(), cls=rng.choice(["Size", "Size", "SubSize", "RawSize"]),
                               n=[rng.randint(-2, 40), rng.randint(-2, 20)])
                return _op("bypass", dst=dst(), cls=rng.choice(["Size", "SubSize", "RawSize"]),
                           n=[rng.randint(-2, 9), rng.randint(-2, 9)])
            if r < 0.26 and i_sz and n < cap:
                # a twin: the fields of a live size under another class (tuple equality across classes)
                o = st[i_sz - 1]
                cls = rng.choice([c for c in ("Size", "SubSize", "RawSize") if c != type(o).__name__])
                ok = cls == "RawSize" or (o[0] >= 1 and o[1] >= 1)
                return _op("new_size" if ok and rng.random() < 0.7 else "bypass", dst=n + 1, cls=cls, n=[o[0], o[1]])
            if r < 0.32 and i_al:
                return _op("resolve", i=i_al, dst=dst(), n=[rng.randint(1, 120), rng.randint(1, 50)])
            if r < 0.62 and i_pad:
                nm = rng.choice(["to_exact", "get_padded_size", "exact_dims", "pad"])
                rs = [j + 1 for j, o in enumerate(st) if isinstance(o, W.Size) and o[0] >= 1 and o[1] >= 1]
                j = rng.choice(rs) if rs and rng.random() < 0.5 else 0
                return _op(nm, i=i_pad, j=j, dst=dst() if nm in ("to_exact", "get_padded_size") else 0,
                           n=[] if j else [rng.randint(1, 40), rng.randint(1, 20)])
            if r < 0.66 and i_ex:
                return _op("dimensions", i=i_ex)
            if r < 0.70 and i_al:
                return _op("min_size", i=i_al, dst=dst())
            if r < 0.84 and i_own:
                i_pad = i_own
                k = kinds[i_pad - 1]
                f = rng.choice(("none",) + W.INT_FIELDS[k] + W.STR_FIELDS[k])
                if f in W.INT_FIELDS[k]:
                    return _op("rebuild", i=i_pad, dst=dst(), n=[dim(-6, 25)], s=[f])
                if f == "none":
                    return _op("rebuild", i=i_pad, dst=dst(), s=[f])
                v = rng.choice(HN) if f == "h_align" else rng.choice(VN) if f == "v_align" else rng.choice(FILLS)
                return _op("rebuild", i=i_pad, dst=dst(), s=[f, v])
            if r < 0.90 and i_sz:
                return _op("replace", i=i_sz, dst=dst(), n=[rng.randint(-2, 30)], s=[rng.choice(["width", "height"])])
        else:
            i_c, i_s = pick("color"), pick("str")
            if n == 0 or r < 0.25:
                c = rng.random()

                def chan():
                    return rng.choice([rng.randint(0, 255)] * 6 + [0, 255, 256, -1, rng.randint(-300, 600)])
                if c < 0.35:
                    return _op("new_color", dst=dst(), cls=rng.choice(["Color"] * 3 + ["SubColor"]),
                               n=[chan() for _ in range(4)])
                if c < 0.5:
                    return _op("new_color_rgb", dst=dst(), cls=rng.choice(["Color", "SubColor"]),
                               n=[chan() for _ in range(3)])
                if c < 0.58:
                    return _op("bypass", dst=dst(), cls=rng.choice(["Color", "SubColor"]),
                               n=[rng.randint(-3, 300) for _ in range(4)])
                return _op("new_str", dst=dst(), cls="str", n=W.encode(_rand_hex_text(rng)))
            valid = i_c and all(isinstance(x, int) and 0 <= x <= 255 for x in st[i_c - 1])
            if r < 0.30 and valid and n < cap:   # a twin under the other class / through the other constructor
                o = st[i_c - 1]
                cls = "SubColor" if type(o).__name__ == "Color" else "Color"
                if o[3] == 255 and rng.random() < 0.4:
                    return _op("new_color_rgb", dst=n + 1, cls=cls, n=list(o[:3]))
                return _op("new_color", dst=n + 1, cls=cls, n=list(o))
            if r < 0.45 and valid:
                nm = rng.choice(["hex", "hex", "rgb_hex", "rgb"])
                return _op(nm, i=i_c, dst=dst() if nm != "rgb" else 0)
            if r < 0.75 and i_s:
                return _op("from_hex", i=i_s, dst=dst(), cls=rng.choice(["Color"] * 3 + ["SubColor"]),
                           s=[rng.choice(["asis", "asis", "upper", "nopound", "upper-nopound"])])
            if r < 0.85 and i_c:
                return _op("replace", i=i_c, dst=dst(), n=[rng.choice([rng.randint(0, 255), 256, -1, 300])],
                           s=[rng.choice("rgba")])
        # immutability probes on anything but strings
        c = [i + 1 for i, k in enumerate(kinds) if k in W.INT_FIELDS and not custom[i]]
        if c:
            i = rng.choice(c)
            k = kinds[i - 1]
            names = W.INT_FIELDS[k] + W.STR_FIELDS[k] + (("relative",) if k == "aligned" else ()) + ("foo",)
            return _op(rng.choice(["setattr", "delattr"]), i=i, s=[rng.choice(names)])
    raise tlc.MachineryError("x01: the history generator found no applicable operation")


def record_history(seed: int, fam: str, length: int, cap: int) -> dict:
    rng = random.Random(seed)
    world = W.World(seed)
    ev = []
    for _ in range(length):
        ev.append(event(world, gen_op(world, rng, fam, cap)))
    return {"init": [], "ev": ev, "seed": seed, "fam": fam}


def rerun(sc: dict) -> dict:
    world = W.World(sc.get("seed", 0))
    world.force(sc.get("init", []))
    return {"init": sc.get("init", []), "ev": [event(world, op) for op in sc["ops"]], "seed": sc.get("seed", 0)}


# ------------------------------------------------------------------ verdicts
def _trace_json(t: dict) -> dict:
    return {"init": [{k: o[k] for k in ("k", "cls", "n", "s", "id")} for o in t["init"]],
            "ev": [{k: e[k] for k in OP_KEYS + ("res", "val", "obs")} for e in t["ev"]]}


def _scenario(t: dict) -> dict:
    return {"init": t["init"], "seed": t.get("seed", 0), "ops": [{k: e[k] for k in OP_KEYS} for e in t["ev"]]}


def _show_obj(o: dict) -> str:
    if o["k"] == "str":
        return repr(W.decode(o["n"]))
    return f"{o['cls']}({', '.join(map(str, o['n']))}{''.join(', ' + repr(x) for x in o['s'])})#{o['id']}"


def _describe(t: dict, v: dict) -> str:
    at = v["at"]
    lines = [f"clause {v['verdict']!r} at operation {at} of {len(t['ev'])}; start store "
             f"[{', '.join(_show_obj(o) for o in t['init'])}]"]
    for i, e in enumerate(t["ev"][:at], 1):
        args = ", ".join(str(x) for x in ([f"slot {e['i']}"] if e["i"] else []) + ([f"rs=slot {e['j']}"] if e["j"] else [])
                         + ([e["cls"]] if e["cls"] else []) + ([str(e["n"])] if e["n"] else [])
                         + ([str(e["s"])] if e["s"] else []))
        lines.append(f"  {i}. {e['lab']} [{e['name']}: {args}] -> {e['res']}"
                     f"{' ' + str(e['val']) if e['val'] else ''}{(' -> slot ' + str(e['dst'])) if e['dst'] and e['res'] == 'ok' else ''}")
    if 0 < at <= len(t["ev"]):
        e = t["ev"][at - 1]
        lines.append("  observed objects: " + ", ".join(_show_obj(o) + (f" rel={o['rel']}" if o["rel"] >= 0 else "")
                                                         for o in e["obs"]["o"]))
        lines.append(f"  observed ==: {e['obs']['eq']}  hash ==: {e['obs']['heq']}")
    return "\n".join(lines)


def validate(traces: list[dict], name: str):
    if not traces:
        return [], 0, 0
    return tlc.validate_traces("Trace_ValueTypes", "Trace_ValueTypes.cfg", [_trace_json(t) for t in traces],
                               batch=150, parallel=3, workers=2, timeout=600, name=name)


def report(rep: Report, traces: list[dict], validated, origin: str, expect_fail: bool = False):
    verdicts, st, tr = validated
    rep.states += st
    rep.transitions += tr
    rep.traces_validated += len(traces)
    for t, v in zip(traces, verdicts):
        if v["verdict"].startswith("unsupported"):
            raise tlc.MachineryError(f"x01: {v['verdict']} at event {v['at']} ({origin}): "
                                     f"{json.dumps(_scenario(t))[:800]}")
        if expect_fail and (v["verdict"] == "ok" or v["at"] != len(t["ev"])):
            raise tlc.MachineryError(
                f"x01: the replay saw a difference ({t.get('diff')}) at walk {t.get('walk')} step {t.get('step')} "
                f"that Trace_ValueTypes does not confirm: {v}")
        if v["verdict"] != "ok":
            e = t["ev"][v["at"] - 1]
            detail = f"[{origin}] " + _describe(t, v)
            if t.get("diff"):
                detail += f"\n  replay difference: {t['diff']}"
            lab = e["lab"]
            if v.get("who"):  # an equality / hashing clause: name the class, not the operation at hand
                base = {"SubAligned": "AlignedPadding", "SubExact": "ExactPadding", "SubSize": "Size",
                        "SubColor": "Color"}.get(v["who"], v["who"])
                lab = base + (".__hash__" if "hash" in v["verdict"] else ".__eq__")
            rep.violation(f"{lab}:{v['verdict']}", detail, _scenario(t))
    return verdicts


# ------------------------------------------------------------------ main
def _replay(rep: Report, replay: dict) -> None:
    sc = replay["scenario"]
    if sc.get("kind") == "design":
        res = tlc.run("MC_ValueTypes", sc.get("cfg", "MC_ValueTypes_quick.cfg"), workers=4, timeout=1500)
        rep.add_tlc(res)
        design_violation(rep, res, sc.get("cfg", "MC_ValueTypes_quick.cfg"))
        return
    t = rerun(sc)
    rep.evaluations += len(t["ev"])
    report(rep, [t], validate([t], "x01-replay"), "replay")


def _load_edges(res, what: str):
    if res.violated and res.violated not in ():
        return None
    g = graph.from_result(res)
    if not g.edges or not g.inits:
        raise tlc.MachineryError(f"x01: the edge dump of {what} is empty")
    walks = g.walks(max_len=60)
    if g.unreachable_edges:
        raise tlc.MachineryError(f"x01: {g.unreachable_edges} dumped edges of {what} are unreachable")
    return g, walks


def main(rep: Report, replay: dict | None) -> None:
    rep.assumptions += ASSUMPTIONS
    rep.rule = (
        "spec->code: every edge of the bounded models (2-slot store x rich alphabets; deeper store x tiny alphabets: "
        "every reachable store x every operation of the alphabet) replayed on real objects, all objects and their "
        "==/hash/identity relations read after each step; code->spec: seeded random histories with wide value ranges; "
        "distinct_nontrivial = distinct (store, operation) edges + distinct recorded histories")
    if replay:
        _replay(rep, replay)
        return
    quick = rep.tier == "quick"
    timing = rep.extra.setdefault("timing_s", {})
    t0 = time.time()

    def lap(name):
        nonlocal t0
        timing[name] = round(time.time() - t0, 1)
        t0 = time.time()

    mc_cfgs = ["MC_ValueTypes_quick.cfg", "MC_ValueTypes_pairs.cfg"] if quick else \
        ["MC_ValueTypes_thorough.cfg", "MC_ValueTypes_pairs.cfg", "MC_ValueTypes_deep.cfg"]
    dumps = [("Edges_ValueTypes_quick.cfg", True), ("Edges_ValueTypes_chain.cfg", False)] if quick else \
        [("Edges_ValueTypes_thorough.cfg", True), ("Edges_ValueTypes_chain4.cfg", False)]
    with ThreadPoolExecutor(max_workers=6) as ex:
        f_mc = [ex.submit(tlc.run, "MC_ValueTypes", cfg, workers=4 if k == 0 else 2, timeout=300 if quick else 1500,
                          coverage=True) for k, cfg in enumerate(mc_cfgs)]
        f_dump = [ex.submit(tlc.run, "MC_ValueTypes", cfg, workers=1, timeout=300 if quick else 1500, coverage=True,
                            jvm=["-Xmx6g" if quick else "-Xmx10g", "-Xss64m"]) for cfg, _ in dumps]

        # ---- code -> spec: record histories while TLC runs
        rng = random.Random(rep.seed * 104729 + 101)
        ntr = 240 if quick else 3000
        recorded = []
        for i in range(ntr):
            fam = "pad" if i % 5 < 3 else "color"
            recorded.append(record_history(rng.randrange(1 << 30), fam,
                                           rng.randint(8, 18) if quick else rng.randint(10, 40), rng.randint(2, 6)))
        lap("record_histories")
        # canary: a corrupted copy of a recorded history (one observed field altered in its first
        # event) rides along; the Trace spec must reject it at that event
        src = next(t for t in recorded if t["ev"][0]["res"] == "ok" and t["ev"][0]["obs"]["o"]
                   and t["ev"][0]["obs"]["o"][0]["k"] != "str" and t["ev"][0]["obs"]["o"][0]["cls"] != "CustomPadding")
        canary = json.loads(json.dumps({"init": [], "ev": src["ev"][:1], "seed": 0}))
        canary["ev"][0]["obs"]["o"][0]["n"][0] += 1
        if canary["ev"][0]["obs"]["o"][0]["tup"]:
            canary["ev"][0]["obs"]["o"][0]["tup"][0] += 1
        canary2 = json.loads(json.dumps({"init": [], "ev": src["ev"][:1], "seed": 0}))
        canary2["ev"][0]["obs"]["heq"][0][0] = "F"
        f_hist = ex.submit(validate, recorded + [canary, canary2], "x01-c2s")

        # ---- spec -> code: replay every edge of every dump
        mism: list = []
        replay_info = {}
        walks_total = 0
        steps_total = 0
        sample_walk = None
        for (cfg, all_actions), fut in zip(dumps, f_dump):
            res = fut.result()
            lap(f"wait_dump:{cfg}")
            rep.add_tlc(res)
            design_violation(rep, res, cfg)
            if res.violated:
                continue
            cov = require_actions(res, cfg, allow_missing=() if all_actions else ACTIONS)
            g, walks = _load_edges(res, cfg)
            res.stdout = ""  # the dump can be hundreds of MB
            res._tag_cache.clear()
            per_action: dict[str, int] = {}
            for e in g.edges:
                per_action[e["op"]["act"]] = per_action.get(e["op"]["act"], 0) + 1
                rep.distinct.add((e["from"], graph.key({k: e["op"][k] for k in OP_KEYS})))
            if all_actions and any(per_action.get(a, 0) == 0 for a in ACTIONS):
                raise tlc.MachineryError(f"x01: actions without a dumped edge in {cfg}: "
                                         f"{[a for a in ACTIONS if not per_action.get(a)]}")
            gc.freeze()
            results = [replay_walk(w, i, rep.seed) for i, w in enumerate(walks)]
            steps = sum(r["steps"] for r in results)
            mm = [m for r in results for m in r["mismatches"]]
            for m in mm:
                m["cfg"] = cfg
            mism += mm
            walks_total += len(walks)
            steps_total += steps
            replay_info[cfg] = {"edges": len(g.edges), "model_states": g.nodes, "walks": len(walks), "steps": steps,
                                "disagreeing_steps": len(mm),
                                "other_variant_edges": sum(r["variants"] for r in results), "walks_abandoned": sum(r["abandoned"] for r in results),
                                "edges_per_action": per_action, "coverage_generated": cov}
            if any(r["abandoned"] for r in results):
                rep.notes.append(f"{cfg}: some walks were abandoned (the spec state could not be re-created)")
            if sample_walk is None:
                sample_walk = max(walks, key=lambda w: len({e["op"]["act"] for e in w[:8]}))
            # canary: a tampered edge must be noticed by the replay
            if all_actions:
                tam = json.loads(json.dumps(next(w for w in walks if w[0]["op"]["res"] == "ok"
                                                 and w[0]["op"]["exp"]["o"][0]["k"] != "str")[:1]))
                tam[0]["op"]["exp"]["o"][0]["n"][0] += 1
                tam2 = json.loads(json.dumps(next(w for w in walks if any(e["op"]["res"] != "ok" for e in w))))
                k = next(i for i, e in enumerate(tam2) if e["op"]["res"] != "ok")
                tam2[k]["op"]["res"] = "ok"
                if not replay_walk(tam, 0, 0)["mismatches"] or not replay_walk(tam2, 0, 0)["mismatches"]:
                    raise tlc.MachineryError("x01: the replay did not notice a tampered edge")
            del g, walks, results
            gc.unfreeze()
            lap(f"replay:{cfg}")

        res_mcs = [f.result() for f in f_mc]
        lap("wait_model_check")
        hv, hst, htr = f_hist.result()
        lap("wait_validate_histories")
        cv2, cv = hv.pop(), hv.pop()
        src_ok = hv[recorded.index(src)]["verdict"] == "ok"   # (a broken library fails the original too)
        if cv["verdict"] == "ok" or cv["at"] != 1 or cv2["verdict"] == "ok" or cv2["at"] != 1 or \
                (src_ok and cv2["verdict"] != "equal-objects-hash-differently"):
            raise tlc.MachineryError(f"x01: Trace_ValueTypes accepted a corrupted trace: {cv} {cv2}")
        rep.extra["canary"] = {"corrupted_trace_verdicts": [cv["verdict"], cv2["verdict"]],
                               "tampered_edges": "noticed"}

    # ---- the model itself
    rep.extra["model"] = []
    for mc_cfg, res_mc in zip(mc_cfgs, res_mcs):
        rep.add_tlc(res_mc)
        design_violation(rep, res_mc, mc_cfg)
        if not res_mc.violated:
            mc_cov = require_actions(res_mc, mc_cfg)
            rep.extra["model"].append({"cfg": mc_cfg, "states": res_mc.distinct, "transitions": res_mc.generated,
                                       "depth": res_mc.depth, "actions_generated": mc_cov,
                                       "wall_s": round(res_mc.wall_s, 1)})
    rep.exhaustive = True
    rep.extra["exhaustive_space"] = (
        "per family (paddings+sizes / colours+strings): every store reachable by one literal construction from the "
        "configuration's alphabet followed by derivations (resolve, to_exact, get_padded_size, size, rebuild with one "
        "field changed, _replace, hex, rgb_hex, from_hex) up to the store capacity (2 with the rich alphabets, "
        + ("3" if quick else "4") + " with the tiny ones) x every operation of the alphabet incl. refused ones")
    rep.extra["replay"] = replay_info

    # ---- replay differences: the clause comes from the Trace spec, which must confirm each
    rep.evaluations += steps_total + sum(len(t["ev"]) for t in recorded)
    rep.traces_validated += walks_total
    report(rep, mism, validate(mism, "x01-s2c"), "spec->code replay", expect_fail=True)
    lap("classify_replay_differences")

    # ---- recorded histories
    verdicts = report(rep, recorded, (hv, hst, htr), "code->spec history")
    for t in recorded:
        rep.distinct.add(("hist", json.dumps([[e[k] for k in OP_KEYS] for e in t["ev"]])))
    rep.extra["histories"] = {"recorded": len(recorded), "events": sum(v["events"] for v in verdicts),
                              "events_judged": sum(v["judged"] for v in verdicts),
                              "rejected": sum(1 for v in verdicts if v["verdict"] != "ok")}
    if sample_walk:
        rep.sample({"walk": [{k: v for k, v in e["op"].items() if k != "exp"} for e in sample_walk[:8]]})
    rep.sample({"history": [{k: e[k] for k in OP_KEYS + ("res", "val")} for e in recorded[0]["ev"][:6]]})
