------------------------- MODULE Trace_UrwidScreen -------------------------
(***************************************************************************)
(* C18: code -> spec.  A trace is one HISTORY run against the real          *)
(* UrwidImageScreen: start / stop / clear / draw_screen of real urwid widget *)
(* trees / widget creation, dropping (del + gc) and invalidation.  Every    *)
(* event carries the bytes the screen wrote during the call, lexed into     *)
(* tokens (urwid's own CUP / EL / SGR / charset / IRM output included).      *)
(*                                                                         *)
(* The tokens are folded through Terminal!Apply (one terminal record for    *)
(* the whole history, exactly what a terminal emulator would hold) and the  *)
(* UrwidScreen clauses are evaluated after every event:                     *)
(*   property level  exception, terminal-error, sync-bracket,               *)
(*                   delete-after-content, ghost, missing, not-cleared,     *)
(*                   no-delete-all, graphics-unsupported, z-not-distinct,   *)
(*                   z-out-of-range, alloc-*                                *)
(*   mechanism level cviews-mismatch, deletes-mismatch, disguise-unchanged  *)
(*                   (library state named in the property's anchors,        *)
(*                   compared with UrwidScreenCore!LibDiff)                 *)
(*   machinery       bad-layout, oracle-mismatch (the layout semantics      *)
(*                   disagrees with a full paint of the real canvas)        *)
(* Expected placements = ImpliedBy(layout): which image widget is visible   *)
(* at which cell with which line of its render - computed here from the     *)
(* layout, not from anything the library reports.  Steps are total; the     *)
(* verdict names the first failing clause and the event index.              *)
(***************************************************************************)
EXTENDS UrwidScreenCore, Json, IOUtils

Traces == JsonDeserialize(IOEnv.TRACE_FILE)

VARIABLES tid, l, T, cv, nxt, free, taint, topw, skipm, disc, verdict, mech, kinds, stats
vars == <<tid, l, T, cv, nxt, free, taint, topw, skipm, disc, verdict, mech, kinds, stats>>

Tr == Traces[tid]
Ev == Tr.events
N == Len(Ev)
Gfx == Tr.gfx
Id == Tr.ident

\* canvas LIFETIME: a "release" event = the application dropped its reference to the canvas it passed to
\* draw_screen last (as urwid's MainLoop does after every draw_screen); a frame urwid did not paint is then
\* dead and the next canvas may be allocated at its address.  The next "redraw" event is a NEW canvas and is
\* judged exactly as any other (bookkeeping clauses + placements); a "same" event needs a live object.
CanvasOps == {i \in 1..l : Ev[i].op \in {"redraw", "bad", "lost", "release"}}
CanvasReleased == CanvasOps # {} /\ Ev[CHOOSE i \in CanvasOps : \A j \in CanvasOps : j <= i].op = "release"

OK == [v |-> "ok", at |-> 0, info |-> "", alias |-> FALSE, topimg |-> FALSE, n |-> 0, ctx |-> ""]
\* ctx: in which situation the event happened (part of the finding's signature)
CtxOf(e) ==
  IF e.op \in {"redraw", "same", "bad", "lost"}
    THEN IF TopLeaf(e.lay) THEN (IF cv # {} THEN "non-composite-after-images" ELSE "non-composite")
         ELSE IF e.op = "bad" THEN "failing-draw" ELSE IF e.op = "lost" THEN "dropped-frame"
         ELSE IF e.op = "redraw" /\ CanvasReleased THEN "after-released-canvas" ELSE "composite"
    ELSE IF e.op = "climg" THEN (IF e.now THEN "clear_images-now" ELSE "clear_images") ELSE e.op
V(v, info, n) == [v |-> v, at |-> l + 1, info |-> info, alias |-> FALSE, topimg |-> FALSE, n |-> n,
                  ctx |-> CtxOf(Ev[l + 1])]

PrevWd == IF l = 0 THEN <<>> ELSE Ev[l].wd
PrevDis == IF l = 0 THEN [c |-> 0, w |-> <<>>] ELSE Ev[l].dis

LiveKittyOf(wd) == {w \in DOMAIN wd : wd[w].alive /\ wd[w].style = "kitty"}
DistinctLimbs(wd) ==
  \A a, b \in LiveKittyOf(wd) :
     a # b => <<wd[a].zneg, wd[a].zhi, wd[a].zlo>> # <<wd[b].zneg, wd[b].zhi, wd[b].zlo>>
\* |z| <= 2^31 - 1  <=>  high limb <= 32767 (limbs: |z| = zhi * 65536 + zlo, 0 <= zlo < 65536)
InRange(wd) == \A a \in LiveKittyOf(wd) : wd[a].zhi >= 0 /\ wd[a].zhi <= 32767 /\ wd[a].zlo \in 0..65535

\* z-indexes (model space) released since the previous event: widgets seen alive before, dead now
Released(wd) ==
  {PrevWd[w].zm : w \in {v \in DOMAIN PrevWd : PrevWd[v].alive /\ ~wd[v].alive /\ wd[v].style = "kitty"}}

RealViews(e) ==
  {[w |-> e.cviews[i].w, row |-> e.cviews[i].row, col |-> e.cviews[i].col, tl |-> e.cviews[i].tl,
    tt |-> e.cviews[i].tt, cols |-> e.cviews[i].cols, rows |-> e.cviews[i].rows] : i \in DOMAIN e.cviews}
NoZ(S) == {[x EXCEPT !.z = 0] : x \in S}
Plain(views) ==
  {[w |-> v.w, row |-> v.row, col |-> v.col, tl |-> v.tl, tt |-> v.tt, cols |-> v.cols, rows |-> v.rows] : v \in views}
ResetGen(views) == {[v EXCEPT !.gen = 0] : v \in views}

DisSum(dis, w) == dis.c + (IF w \in DOMAIN dis.w THEN dis.w[w] ELSE 0)

\* a widget lost k > 0 views with k divisible by 3: one disguise change PER LOST VIEW would alias
Aliased(gone) == \E w \in {v.w : v \in gone} : Cardinality({v \in gone : v.w = w}) % 3 = 0

(* ------------------------------------------------------------ one event *)
\* Every step is a pure function of the state and the event: it returns the next values and
\* the property-level (pv) and mechanism-level (mv) verdicts of this event.

\* topw:  widgets that were drawn as a bare top-level image canvas (a ghost of one of those is
\*        attributed to that situation);  skipm: the canvas drawn last was such a canvas, the
\*        bookkeeping of the next redraw is not comparable;  disc: the discrepancies (ghost / missing
\*        placements) already present after the previous redraw - only NEW ones are reported
Res(T1, cv1, nxt1, free1, taint1, topw1, skipm1, disc1, pv, mv, st) ==
  [T |-> T1, cv |-> cv1, nxt |-> nxt1, free |-> free1, taint |-> taint1, topw |-> topw1, skipm |-> skipm1,
   disc |-> disc1, pv |-> pv, mv |-> mv, st |-> st]
NoDisc == [g |-> {}, m |-> {}]

RedrawCore(e, free0, T1, P, implied, shown, fullT) ==
  LET bad == e.op = "bad"
      \* "lost": draw_screen while a terminal resize is pending - urwid drops the frame (nothing is
      \* painted) but the screen's bookkeeping for the canvas (deletions included) has run
      lost == e.op = "lost"
      samecanvas == e.op = "same"
      wd == e.wd
      wf == WF(wd, e.lay, Tr.cols, Tr.rows) /\ WidgetsOf(e.lay) \subseteq {w \in DOMAIN wd : wd[w].alive}
      d == IF samecanvas THEN [cviews |-> cv, delall |-> FALSE, delw |-> {}]
           ELSE LibDiff(Id, wd, cv, P, TopLeaf(e.lay))
      gone == cv \ d.cviews
      cv1 == ResetGen(d.cviews)
      expexc == IF bad THEN "ValueError" ELSE ""
      judged == ~bad /\ ~lost /\ ~taint
      wrongz == {x \in shown \ disc.g : x.proto = "kitty" /\ x.wid \in DOMAIN wd /\ x.z # wd[x.wid].z}
      newg == (shown \ implied) \ disc.g
      newm == (implied \ shown) \ disc.m
      leafimg == TopLeaf(e.lay) /\ e.lay.k = "img"
      leafy == TopLeaf(e.lay)
      pv == IF ~wf THEN V("bad-layout", "", 0)
            ELSE IF ~Tiles(P, Tr.cols, Tr.rows) THEN V("bad-layout", "pieces do not tile the screen", 0)
            ELSE IF samecanvas /\ CanvasReleased
                   THEN V("bad-layout", "the same canvas is drawn after the application released it", 0)
            ELSE IF e.exc # expexc THEN V("exception", e.exc, 0)
            ELSE IF T1.err # "" THEN V("terminal-error", T1.err, 0)
            ELSE IF T1.scrolls > 0 THEN V("terminal-error", "the screen scrolled", 0)
            ELSE IF ~Bracketed(e.toks) \/ T1.sync # 0 THEN V("sync-bracket", "", Len(e.toks))
            ELSE IF ~DeletesFirst(e.toks, Gfx) THEN V("delete-after-content", "", 0)
            ELSE IF lost /\ \E i \in DOMAIN e.toks : IsTransmit(e.toks[i], Gfx)
                   THEN V("bad-layout", "the frame was expected to be dropped by urwid but was painted", 0)
            ELSE IF ~Supported(Id) /\ ~NoGraphics(e.toks) THEN V("graphics-unsupported", "", 0)
            \* (the cross-check validates geometry and image lines; which z-index a widget draws on
            \* is judged by the next clause)
            ELSE IF judged /\ e.full # <<>> /\ (fullT.err # "" \/ NoZ(Shown(fullT, Gfx)) # NoZ(implied))
                   THEN V("oracle-mismatch", fullT.err, Cardinality(implied))
            \* a widget's image lines are on the terminal under a z-index that is not the widget's own
            \* (the screen deletes by the widget's z-index: such lines can never be removed)
            ELSE IF judged /\ wrongz # {}
                   THEN V("wrong-z-index", ToJson(wrongz), Cardinality(wrongz))
            ELSE IF judged /\ newg # {}
                   THEN [V("ghost", ToJson(newg), Cardinality(newg)) EXCEPT
                           !.alias = Aliased(gone), !.topimg = \A x \in newg : x.wid \in topw]
            ELSE IF judged /\ newm # {}
                   THEN [V("missing", ToJson(newm), Cardinality(newm)) EXCEPT !.alias = Aliased(gone)]
            \* kitty - and any other terminal but Konsole, which replaces it - stacks a line sent twice at
            \* the same cell and z-index: the same image line must not be present twice
            ELSE IF judged /\ Id # "konsole" /\ Len(T1.pl) # Cardinality(shown)
                   THEN V("duplicate", "", Len(T1.pl) - Cardinality(shown))
            ELSE OK
      \* mechanism level: compared only for composite canvases (the treatment of a bare leaf canvas
      \* is judged by its effect on the terminal alone)
      affected == IF d.delall
                    THEN {w \in DOMAIN wd : wd[w].alive /\ Tracked(Id, wd[w].style) /\ w \in DOMAIN PrevDis.w}
                    ELSE {w \in d.delw : wd[w].alive}
      mv == IF leafy \/ skipm \/ samecanvas \/ pv.v \in {"bad-layout", "exception", "terminal-error"} THEN OK
            ELSE IF RealViews(e) # Plain(cv1) THEN V("cviews-mismatch", ToJson(Plain(cv1)), 0)
            ELSE IF HasDeleteAll(e.toks, Gfx) # d.delall
                    \/ (~d.delall /\ DeletedZ(e.toks, Gfx) # {wd[w].z : w \in d.delw})
                   THEN V("deletes-mismatch", ToJson([delall |-> d.delall, delw |-> d.delw]), 0)
            ELSE IF \E w \in affected : DisSum(e.dis, w) = DisSum(PrevDis, w)
                   THEN [V("disguise-unchanged", ToJson(affected), 0) EXCEPT !.alias = Aliased(gone)]
            ELSE OK
      st == [stats EXCEPT !.redraws = @ + 1, !.implied = @ + (IF judged THEN Cardinality(implied) ELSE 0),
                          !.deletes = @ + (IF d.delall \/ d.delw # {} THEN 1 ELSE 0),
                          !.toks = @ + Len(e.toks)]
  IN Res(T1, IF pv.v \in {"bad-layout", "exception"} THEN cv ELSE cv1, nxt, free0, taint \/ bad,
         IF leafimg THEN topw \cup {e.lay.wid} ELSE topw,
         IF samecanvas THEN skipm ELSE leafimg,
         IF judged THEN [g |-> shown \ implied, m |-> implied \ shown] ELSE disc,
         pv, mv, st)

\* TLC re-evaluates a LET definition at every use; the expensive values of a redraw step (the
\* folded terminal, the pieces, the two placement sets) are therefore bound ONCE through
\* singleton sets and handed to RedrawCore as values.
Bind(v, F(_)) == CHOOSE r \in {F(x) : x \in {v}} : TRUE

RedrawStep(e, free0) ==
  Bind(Fold(T, e.toks, Gfx, 1), LAMBDA T1 :
  Bind(Sem(e.wd, e.lay, 0, 0, Tr.cols, Tr.rows), LAMBDA P :
  Bind(ImpliedBy(Id, e.wd, P), LAMBDA implied :
  Bind(Shown(T1, Gfx), LAMBDA shown :
  Bind(Fold(NewTerminal(Tr.cols, Tr.rows, 0, 0), e.full, Gfx, 1), LAMBDA fullT :
    RedrawCore(e, free0, T1, P, implied, shown, fullT))))))

ClearStep(e, free0) ==
  LET T1 == Fold(T, e.toks, Gfx, 1)
      pv == IF e.exc # "" THEN V("exception", e.exc, 0)
            ELSE IF T1.err # "" THEN V("terminal-error", T1.err, 0)
            ELSE IF Supported(Id) /\ ~HasDeleteAll(e.toks, Gfx) THEN V("no-delete-all", e.op, 0)
            ELSE IF Supported(Id) /\ T1.pl # <<>> THEN V("not-cleared", e.op, Len(T1.pl))
            ELSE IF ~Supported(Id) /\ ~NoGraphics(e.toks) THEN V("graphics-unsupported", e.op, 0)
            ELSE OK
  IN Res(T1, cv, nxt, free0, IF e.op \in {"stop", "clear"} THEN FALSE ELSE taint, topw, skipm, NoDisc, pv, OK,
         [stats EXCEPT !.clears = @ + 1, !.toks = @ + Len(e.toks)])

\* direct user call screen.clear_images(now=e.now) (e.w = 0) or screen.clear_images(widget e.w, now=e.now)
\* between redraws: the images concerned leave the terminal at once and the text urwid compares
\* (disguise) changes, so that the NEXT redraw - judged as any other - sends them again
DirectClearStep(e, free0) ==
  LET T1 == Fold(T, e.toks, Gfx, 1)
      wd == e.wd
      all == e.w = 0
      kitty == ~all /\ wd[e.w].style = "kitty"
      affected == IF all THEN {w \in DOMAIN wd : wd[w].alive /\ Tracked(Id, wd[w].style) /\ w \in DOMAIN PrevDis.w}
                  ELSE IF kitty THEN {e.w} ELSE {}
      pv == IF e.exc # "" THEN V("exception", e.exc, 0)
            ELSE IF T1.err # "" THEN V("terminal-error", T1.err, 0)
            ELSE IF ~Supported(Id) /\ ~NoGraphics(e.toks) THEN V("graphics-unsupported", e.op, 0)
            ELSE IF Supported(Id) /\ all /\ ~HasDeleteAll(e.toks, Gfx) THEN V("no-delete-all", "clear_images", 0)
            ELSE IF Supported(Id) /\ all /\ T1.pl # <<>> THEN V("not-cleared", "clear_images", Len(T1.pl))
            ELSE IF Supported(Id) /\ kitty /\ DeletedZ(e.toks, Gfx) # {wd[e.w].z}
                   THEN V("widget-not-deleted", "clear_images", 0)
            ELSE IF Supported(Id) /\ kitty /\ \E i \in DOMAIN T1.pl : T1.pl[i].proto = "kitty" /\ Gfx[T1.pl[i].x + 1].zid = wd[e.w].z
                   THEN V("not-cleared", "clear_images(widget)", 0)
            ELSE IF Supported(Id) /\ \E w \in affected : DisSum(e.dis, w) = DisSum(PrevDis, w)
                   THEN V("disguise-unchanged", ToJson(affected), 0)
            ELSE OK
  IN Res(T1, cv, nxt, free0, taint, topw, skipm, NoDisc, pv, OK,
         [stats EXCEPT !.clears = @ + 1, !.toks = @ + Len(e.toks)])

\* widget created (e.w = its id, 0 if the constructor raised), dropped or invalidated
WidgetStep(e, free0) ==
  LET wd == e.wd
      kitty == e.op = "new" /\ e.style = "kitty"
      outs == AllocOutcomes(Tr.bits, nxt, free0)
      match == IF kitty /\ e.exc = "" THEN {o \in outs : o.z = wd[e.w].zm} ELSE {}
      o == IF match # {} THEN CHOOSE x \in match : TRUE ELSE [z |-> 0, next |-> nxt, free |-> free0]
      pv == IF e.toks # <<>> THEN V("unexpected-output", e.op, Len(e.toks))
            ELSE IF kitty /\ e.exc = "UrwidImageError" /\ outs # {}
                   THEN V("alloc-spurious-exhaustion", "", Cardinality(free0))
            ELSE IF e.exc # "" /\ ~(kitty /\ e.exc = "UrwidImageError") THEN V("exception", e.exc, 0)
            ELSE IF kitty /\ e.exc = "" /\ outs = {} THEN V("alloc-no-exhaustion-error", "", 0)
            ELSE IF kitty /\ e.exc = "" /\ match = {} THEN V("alloc-unexpected-index", "", 0)
            ELSE OK
  IN Res(T, cv, o.next, o.free, taint, topw, skipm, disc, pv, OK, [stats EXCEPT !.wops = @ + 1])

\* clauses evaluated after EVERY event on what the process holds afterwards
\* property level: live kitty widgets (of whatever widget class) hold pairwise distinct z-indexes in range
ZClause(e) ==
  IF ~DistinctLimbs(e.wd) THEN V("z-not-distinct", "", 0)
  ELSE IF ~InRange(e.wd) THEN V("z-out-of-range", "", 0)
  ELSE OK
\* mechanism level: the allocator's free pool and counter are what the model says
AfterClause(e, r) ==
    IF {e.free[i] : i \in DOMAIN e.free} # r.free THEN V("alloc-free-set", ToJson(r.free), 0)
    ELSE IF e.next # r.nxt THEN V("alloc-next", "", r.nxt)
    ELSE OK

FatalClauses == {"exception", "bad-layout", "terminal-error", "oracle-mismatch", "unexpected-output"}
Fatal(x) == x.v \in FatalClauses
Kind(x) == [v |-> x.v, alias |-> x.alias, topimg |-> x.topimg, ctx |-> x.ctx,
                info |-> IF x.v \in {"exception", "terminal-error", "no-delete-all", "not-cleared"} THEN x.info ELSE ""]

Init ==
  /\ tid \in 1..Len(Traces)
  /\ l = 0
  /\ T = NewTerminal(Traces[tid].cols, Traces[tid].rows, 0, 0)
  /\ cv = {}
  /\ nxt = Traces[tid].next0 /\ free = {}
  /\ taint = FALSE /\ topw = {} /\ skipm = FALSE /\ disc = NoDisc
  /\ verdict = OK /\ mech = OK /\ kinds = {}
  /\ stats = [redraws |-> 0, implied |-> 0, deletes |-> 0, clears |-> 0, wops |-> 0, toks |-> 0]

StepOf(e) ==
  LET free0 == free \cup Released(e.wd) IN
    CASE e.op \in {"redraw", "same", "bad", "lost"} -> RedrawStep(e, free0)
      [] e.op \in {"start", "stop", "clear"} -> ClearStep(e, free0)
      [] e.op = "climg" -> DirectClearStep(e, free0)
      [] OTHER -> WidgetStep(e, free0)

\* (the result is bound through a singleton set so that TLC evaluates the step exactly once)
Consume ==
  /\ l < N
  /\ l' = l + 1
  /\ \E r \in {StepOf(Ev[l + 1])} :
       \E zc \in {ZClause(Ev[l + 1])} :
       \E pv \in {IF r.pv.v # "ok" THEN r.pv ELSE IF zc.v # "ok" THEN zc ELSE AfterClause(Ev[l + 1], r)} :
        /\ T' = r.T /\ cv' = r.cv /\ nxt' = r.nxt /\ free' = r.free
        /\ taint' = r.taint /\ topw' = r.topw /\ skipm' = r.skipm /\ disc' = r.disc /\ stats' = r.st
        /\ verdict' = IF verdict.v # "ok" THEN verdict ELSE pv
        /\ mech' = IF mech.v # "ok" \/ Fatal(verdict) THEN mech ELSE r.mv
        \* every distinct kind of failure of the history, until a fatal one makes the rest meaningless
        /\ kinds' = IF Fatal(verdict) THEN kinds
                     ELSE kinds \cup {Kind(x) : x \in {y \in {pv, r.mv, zc} : y.v # "ok"}}
  /\ UNCHANGED tid

Next == Consume
Spec == Init /\ [][Next]_vars

Done == l = N
Report ==
  Done => PrintT(<<"VERDICT", ToJson([tid |-> tid, verdict |-> verdict, mech |-> mech, kinds |-> kinds, stats |-> stats])>>)
=============================================================================
