"""Clear.tla: the argument table of KittyImage.clear()/ITerm2Image.clear() replayed into the
real code (spec -> code) and the emitted bytes judged by TLC on Terminal.tla (code -> spec)."""

from __future__ import annotations

from . import lexer, tlc
from .core import Report


def _call(case):
    import term_image.image.iterm2 as iterm2
    import term_image.image.kitty as kitty
    from term_image.image import ITerm2Image, KittyImage

    from .env import stubs

    out: list[tuple[str, str]] = []
    mod = kitty if case["style"] == "kitty" else iterm2
    cls = KittyImage if case["style"] == "kitty" else ITerm2Image
    saved = (mod._stdout_write, mod.write_tty, cls._supported, cls._forced_support)
    mod._stdout_write = lambda s: out.append(("stdout", s))
    mod.write_tty = lambda b: out.append(("tty", b.decode()))
    try:
        if case["style"] == "kitty":
            stubs.set_identity("kitty" if case["supported"] else "other")
            cls._supported = case["supported"]
            type.__setattr__(cls, "_forced_support", case["forced"])
        else:
            stubs.set_identity("konsole" if case["konsole"] else "iterm2")
        conv = {"F": False, "T": True, "bad": 1}
        kw = dict(cursor=conv[case["cursor"]], now=conv[case["now"]])
        if case["style"] == "kitty":
            z = case["z"]
            kw["z_index"] = None if z == "none" else "5" if z == "bad" else 2**31 if z == "toobig" else case["zv"]
        try:
            cls.clear(**kw)
            verdict = "emitted" if out else "nothing"
        except Exception as e:  # noqa: BLE001
            verdict = type(e).__name__
    finally:
        mod._stdout_write, mod.write_tty = saved[0], saved[1]
        cls._supported = saved[2]
        type.__setattr__(cls, "_forced_support", saved[3])
    return verdict, out


def run(rep: Report) -> None:
    from .env import stubs

    stubs.install()
    res = tlc.run("MC_Clear", "MC_Clear.cfg", workers=1, timeout=300)
    rep.add_tlc(res)
    if res.violated:
        rep.violation(f"design:Clear:{res.violated}", res.error_text[:1200], {"kind": "design"})
        return
    table = res.tagged("TABLE")
    if len(table) < 100:
        raise tlc.MachineryError("Clear table not dumped")
    traces, owners = [], []
    for row in table:
        c, want = row["case"], row["verdict"]
        rep.evaluations += 1
        rep.distinct.add(("clear", tuple(sorted((k, str(v)) for k, v in c.items()))))
        verdict, out = _call(c)
        exp = want if want in ("nothing", "TypeError", "ValueError") else "emitted"
        if verdict != exp:
            rep.violation(f"clear:{c['style']}:verdict", f"clear({c}): table says {want}, code {verdict} {out}",
                          {"kind": "clear", "case": c})
            continue
        if verdict == "emitted":
            channel = {ch for ch, _ in out}
            want_ch = "tty" if c["now"] == "T" else "stdout"
            if channel != {want_ch}:
                rep.violation(f"clear:{c['style']}:channel", f"clear({c}) wrote to {channel}, documented {want_ch}",
                              {"kind": "clear", "case": c})
                continue
            st = lexer.lex("".join(s for _, s in out))
            traces.append({"toks": st.toks, "gfx": st.gfx, "left": row["left"]})
            owners.append(c)
    if traces:
        verdicts, s_, t_ = tlc.validate_traces("Trace_Clear", "Trace_Clear.cfg", traces, workers=2, parallel=2,
                                               name="clear")
        rep.states += s_
        rep.transitions += t_
        rep.traces_validated += len(traces)
        for c, v in zip(owners, verdicts):
            if v["verdict"] != "ok":
                rep.violation(f"clear:{c['style']}:effect", f"clear({c}): {v['verdict']}", {"kind": "clear", "case": c})
