SPECIFICATION Spec
CONSTANTS
  Ident = "kitty"
  Style3 = "kitty"
  Bits = 2
  Fams = {"P", "T", "I"}
  WithBad = FALSE
  WithInv = FALSE
  Dyn = TRUE
  WithDC = FALSE
  WithWinch = FALSE
VIEW View
INVARIANT PlacementsExact
INVARIANT NoDuplicates
INVARIANT OutputBracketed
INVARIANT DeletionsFirst
INVARIANT ClearedOnStartStopClear
INVARIANT ClearedByDirectCall
INVARIANT NoGraphicsIfUnsupported
INVARIANT TerminalSane
INVARIANT DistinctZ
INVARIANT AllocatorSound
INVARIANT NoOrphanZ
CHECK_DEADLOCK FALSE
