----------------------------- MODULE MC_FlowRows -----------------------------
(***************************************************************************)
(* C17, last sentence: the number of rows a flow widget announces equals   *)
(* the number of rows it then renders - in every environment history.      *)
(*                                                                         *)
(* State: the environment q (cell ratio / cell size), the class-wide error *)
(* placeholder ph, the widget wd, and `ann` = what rows((w,)) answered in  *)
(* the current layout pass (urwid calls rows() and then render() with the  *)
(* same width; an environment change is followed by a fresh layout).       *)
(* Actions: SetCellRatio (environment), SetPlaceholder, Rows, Render.      *)
(***************************************************************************)
EXTENDS UrwidCanvas

CONSTANTS Ratios, Widths, Depth

VARIABLES wd, q, ph, ann, out
vars == <<wd, q, ph, ann, out>>

Widgets ==
  [ow : {2, 3, 6}, oh : {2, 6, 13}, upscale : BOOLEAN, broken : BOOLEAN]

None == [w |-> 0, rows |-> 0]

Init ==
  /\ wd \in Widgets
  /\ q = 2
  /\ ph = "none"
  /\ ann = None
  /\ out = [op |-> "init"]

SetCellRatio ==
  /\ \E r \in Ratios \ {q} : q' = r /\ out' = [op |-> "set_cell_ratio", q |-> r]
  /\ ann' = None                       \* everything is laid out afresh
  /\ UNCHANGED <<wd, ph>>

SetPlaceholder ==
  /\ \E p \in {"none", "box", "boxflow"} \ {ph} : ph' = p /\ out' = [op |-> "placeholder", ph |-> p]
  /\ UNCHANGED <<wd, q, ann>>

Rows ==
  /\ \E w \in Widths :
       /\ ann' = [w |-> w, rows |-> FlowRows(wd, w, q)]
       /\ out' = [op |-> "rows", w |-> w, res |-> FlowRows(wd, w, q)]
  /\ UNCHANGED <<wd, q, ph>>

Render ==
  /\ ann # None
  /\ out' = [op |-> "render", w |-> ann.w, res |-> FlowRender(wd, ann.w, q, ph)]
  /\ UNCHANGED <<wd, q, ph, ann>>

Next == SetCellRatio \/ SetPlaceholder \/ Rows \/ Render
Spec == Init /\ [][Next]_vars

Bounded == TLCGet("level") <= Depth

\* the flow clause
AnnouncedRowsAreRendered ==
  (out.op = "render" /\ out.res.kind # "raises") =>
     out.res.rows = ann.rows /\ out.res.cols = ann.w

\* a failing render is only visible as an exception when no placeholder is set
PlaceholderReplacesFailure ==
  out.op = "render" => (out.res.kind = "raises" <=> (wd.broken /\ ph = "none"))

View == <<wd, q, ph, ann, out>>
=============================================================================
