"""C10 - render data is finalized exactly once and never used afterwards.

model:   specs/RenderIter.tla (ownership `own`, `fin`, `closed`, failing renders, drop):
         invariants FinalizeOnce, FinalizeIffClosedAndOwned, ClosedIsTerminal; and
         specs/RenderOp.tla for the one-shot operations render / str / draw / iter with a
         failing render or a failing size validation.
binding: spec -> code replay of every edge (iterator: configs A and C; operations: all edges of
         RenderOp) on an instrumented renderable whose _finalize_render_data_ and _render_ log
         the identity and `finalized` flag of the data they receive; code -> spec: seeded random
         histories with injected failures validated by TLC.
"""

from __future__ import annotations

from .. import renderop
from ..core import Report
from . import c08


def main(rep: Report, replay: dict | None) -> None:
    if replay and replay["scenario"].get("kind") == "renderop":
        from ..env import stubs

        stubs.install()
        renderop.replay_scenario(rep, replay["scenario"])
        return
    c08.main(rep, replay, which=("A", "C"))
    if replay:
        return
    renderop.run(rep)
    # "never used afterwards": finalized (or otherwise unusable) render data handed to
    # _from_render_data_ is rejected whoever owns it (RenderIterCtor.tla, OwnershipIrrelevant)
    from .. import ctor_replay

    ctor_replay.run(rep)
    rep.rule = (
        "spec->code: all edges of RenderIter (ownership x failing renders x close/drop) and of "
        "RenderOp (render/str/draw/iter x failure point) replayed on the real code with a "
        "finalization log; code->spec: seeded random histories; distinct = walks + traces"
    )
