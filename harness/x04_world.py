"""X04 - drive REAL ``UrwidImage`` widgets and record what they do (no judgement here).

A :class:`World` is one history over ONE real image object (``from_file``: its render fails
while the file is away) and up to two real widgets sharing it - slot 1 a plain ``UrwidImage``,
slot 2 an application subclass (``harness.c18_world._widget_classes``) - driven by the operations
of ``specs/UrwidWidget.tla``.  ``do(op)`` performs one operation through the public API and
returns the observable result record ``R``; ``observe()`` returns the projection ``WObs`` read
from the real objects (image size setting, rows() tables, what urwid's CanvasCache still holds,
the effective error placeholder per widget class - through a probe widget over a permanently
broken image -, identity of ``widget.image``).  Both are plain data; every comparison with the
specification happens in the driver (dumb equality with TLC's edge) or in TLC
(``specs/Trace_UrwidWidget.tla``).

The canvases are read through ``canvas.content()`` (untrimmed) and lexed with
``harness/lexer.py``: image size and padding are what the lines SHOW (leading / trailing blank
cells, blank lines), not private attributes of the canvas.
"""

from __future__ import annotations

import gc
import os
import random
import re

from . import imgs, lexer
from .c18_world import _widget_classes
from .env import stubs
from .tlc import MachineryError

IDENTS = {"block": ["other", "kitty"], "kitty": ["kitty", "konsole"], "iterm2": ["wezterm", "iterm2", "konsole"]}
ALPHAS = ["", "#", "#.3", "#102030"]
_DELETE_CURSOR = re.compile("\x1b_Ga=d,d=C;\x1b\\\\")

_counter = [0]
_dir = [None]


def setup() -> None:
    stubs.install()
    import urwid  # noqa: F401

    import term_image.widget  # noqa: F401

    gc.collect()
    gc.freeze()


RUN_DIR = None  # set by the driver before it forks its pool; removed by the driver


def _tmp():
    """Scratch directory private to this process (pool workers are terminated, not exited: the
    driver removes RUN_DIR as a whole)."""
    if _dir[0] is None or _dir[0][0] != os.getpid():
        if RUN_DIR is None:
            d = imgs.tmpdir("x04")
        else:
            d = RUN_DIR / f"w{os.getpid()}"
            d.mkdir(parents=True, exist_ok=True)
        _dir[0] = (os.getpid(), d)
    return _dir[0][1]


def isz_of(image) -> dict:
    from term_image.image import Size

    v = image.size
    if isinstance(v, Size):
        return {"k": "dyn", "w": 0, "h": 0, "m": v.name}
    return {"k": "fixed", "w": int(v[0]), "h": int(v[1]), "m": ""}


def r0() -> dict:
    return {"res": "ok", "kind": "", "cc": 0, "cr": 0, "iw": 0, "ih": 0, "pl": 0, "pt": 0,
            "reused": False, "nc": 0, "z": 0, "eq": True}


def scan(canvas) -> dict:
    """What an (untrimmed) canvas shows: kind ("image" | "B1" | "B2" | "malformed:<why>"), the
    image rectangle (iw, ih) and its offset (pl, pt), graphics transmissions (nc) and z-indexes."""
    cc, cr = canvas.cols(), canvas.rows()
    out = {"kind": "", "cc": cc, "cr": cr, "iw": 0, "ih": 0, "pl": 0, "pt": 0, "nc": 0, "zs": [], "text": []}
    rows = list(canvas.content())
    if len(rows) != cr:
        out["kind"] = "malformed:row-count"
        return out
    lines = []  # (blank?, pl, iw)
    fills = set()
    zs = set()
    for row in rows:
        data = b"".join(seg[2] for seg in row)
        text = data.decode()
        out["text"].append(text)
        st = lexer.lex(text)
        if lexer.unknowns(st) or st.end_state != lexer.GROUND:
            out["kind"] = "malformed:sequence"
            return out
        toks = [t for t in st.toks if t["k"] != "nul"]
        width = 0
        for t in toks:
            if t["k"] in ("print", "cuf"):
                width += t["n"] if t["n"] > 0 else 1
            elif t["k"] == "iterm":
                g = st.gfx[t["x"]]
                out["nc"] += 1
                if g["dnmc"] != 1:
                    width += max(g["wcells"], 0)
            elif t["k"] == "kitty":
                g = st.gfx[t["x"]]
                if g["a"] in ("T", "t"):
                    out["nc"] += 1
                    zs.add(g["z"] if g["zok"] else "bad")
        if width != cc:
            out["kind"] = "malformed:line-width"
            return out
        if len(toks) == 1 and toks[0]["k"] == "print":
            if toks[0]["g"] == "sp":
                lines.append((True, 0, 0))
                continue
            fills.add(chr(toks[0]["m"]))
            lines.append((False, 0, cc))
            continue
        pl = toks[0]["n"] if toks[0]["k"] == "print" and toks[0]["g"] == "sp" else 0
        pr = 0
        if len(toks) >= 2 and toks[-1]["k"] == "print" and toks[-1]["g"] == "sp":
            prev = toks[-2]
            if prev["k"] in ("cuf", "iterm") or (prev["k"] == "sgr" and prev["p"] in ([], [0])):
                pr = toks[-1]["n"]
        lines.append((False, pl, cc - pl - pr))
    out["zs"] = sorted(zs, key=str)
    if fills:
        if len(fills) == 1 and all(not b and w == cc for b, _, w in lines) and fills <= {"1", "2"}:
            out["kind"] = "B" + fills.pop()
        else:
            out["kind"] = "malformed:fill"
        return out
    img = [i for i, ln in enumerate(lines) if not ln[0]]
    if not img:
        out["kind"] = "malformed:blank"
        return out
    if img != list(range(img[0], img[-1] + 1)) or len({lines[i][1:] for i in img}) != 1:
        out["kind"] = "malformed:ragged"
        return out
    out.update(kind="image", pt=img[0], ih=len(img), pl=lines[img[0]][1], iw=lines[img[0]][2])
    return out


class World:
    """cfg: the configuration record of the spec (style, ow, oh, cw, ch, tc, tl, wp[2]);
    sizes: the urwid sizes whose cache entries are probed; qcols: widths for the rows() table."""

    def __init__(self, cfg: dict, sizes: list, qcols: list, seed: int = 0):
        import urwid
        from term_image.image import BlockImage, ITerm2Image, KittyImage
        from term_image.widget import UrwidImage, UrwidImageCanvas

        self.urwid, self.UrwidImage = urwid, UrwidImage
        self.cfg, self.sizes, self.qcols = cfg, [list(s) for s in sizes], list(qcols)
        rng = self.rng = random.Random(seed)
        style = cfg["style"]
        self.ident = rng.choice(IDENTS[style])
        urwid.CanvasCache.clear()
        stubs.set_term(size=(cfg["tc"], cfg["tl"]), cell=(cfg["cw"], cfg["ch"]) if cfg["cw"] else None)
        stubs.set_identity(self.ident)
        UrwidImageCanvas._ti_disguise_state = 0
        self.classes = _widget_classes(UrwidImage)[:2]
        for name in ("set_error_placeholder", "_ti_error_placeholder"):  # the latter only to RESET it
            if not hasattr(UrwidImage, name):
                raise MachineryError(f"seam UrwidImage.{name} is missing")
        self._reset_placeholders()
        # documented-as-ignored decorations of the format specifier, and the look of the source
        self.alpha = rng.choice(ALPHAS)
        self.padw, self.padh = rng.choice([(0, 0), (0, 0), (1, 1), (40, 20), (3, 0), (0, 9)])
        self.zspec = rng.choice(["", "z7", "z-3"]) if style == "kitty" else ""
        self.extra = rng.choice(["", "m1", "c0", "m0c9"]) if style != "block" else ""
        self.implicit_lines = rng.random() < 0.5
        _counter[0] += 1
        d = _tmp()
        self.path = d / f"img{_counter[0]}.png"
        self.twin_path = d / f"twin{_counter[0]}.png"
        src = imgs.make_image(random.Random(seed), "RGB", cfg["ow"], cfg["oh"], "noise")
        src.save(self.path)
        src.save(self.twin_path)
        self.pil = src
        self.gone = d / "gone.png"  # never exists
        self.cls = {"block": BlockImage, "kitty": KittyImage, "iterm2": ITerm2Image}[style]
        self.image = self.cls.from_file(str(self.path))
        self.twin = self.cls.from_file(str(self.twin_path))
        # a permanently broken image for the placeholder probes (its file is taken away)
        probe_path = d / f"probe{_counter[0]}.png"
        src.save(probe_path)
        self.probe_image = self.cls.from_file(str(probe_path))
        os.unlink(probe_path)
        self.probes = [c(self.probe_image) for c in self.classes]
        self.B1, self.B2 = urwid.SolidFill("1"), urwid.SolidFill("2")
        self.F = urwid.Text("F")
        self.widgets: dict[int, object] = {}
        self.held: dict[int, object] = {1: None, 2: None}
        self.gen = {1: 0, 2: 0}
        self.zseen: dict = {}  # z-index -> (slot, generation) of the first live widget that drew with it
        self.zof: dict = {}  # (slot, generation) -> set of z-indexes it drew with
        self.failing = False
        self.widgets[1] = self._construct(1, [])

    # ---------------------------------------------------------------- construction
    def _reset_placeholders(self):
        base, sub = self.classes
        for c in _widget_classes(self.UrwidImage)[1:]:
            if "_ti_error_placeholder" in vars(c):
                delattr(c, "_ti_error_placeholder")
        base._ti_error_placeholder = None

    def style_spec(self, p: dict, z: str | None = None) -> str:
        if self.cfg["style"] == "block":
            return ""
        m = {"lines": "L", "whole": "W"}[p["me"]]
        if p["me"] == "lines" and self.implicit_lines:
            m = ""  # LINES is the documented default render method
        return m + (self.zspec if z is None else z) + self.extra

    def spec_for(self, p: dict, width: int, height: int, z: str | None = None) -> str:
        h = p["ha"] + (str(width) if width else "")
        v = p["va"] + (str(height) if height else "")
        st = self.style_spec(p, z)
        return h + ("." + v if v else "") + self.alpha + ("+" + st if st else "")

    def _construct(self, slot: int, flaws: list):
        p = self.cfg["wp"][slot - 1]
        image, spec, upscale = self.image, self.spec_for(p, self.padw, self.padh), p["up"]
        for f in flaws:
            arg, _, what = f.partition(":")
            if arg == "image":
                image = {"path": str(self.path), "pil": self.pil, "none": None}[what]
            elif arg == "spec":
                bad_style = "+L" if self.cfg["style"] == "block" else "+Q"
                spec = {"none": None, "int": 3, "bytes": b"", "dot": ".", "plus": "+", "junk": "5x",
                        "style": bad_style}[what]
            elif arg == "upscale":
                upscale = {"none": None, "int": 1, "str": "yes"}[what]
            else:
                raise MachineryError(f"unknown construction flaw {f}")
        return self.classes[p["cls"]](image, spec, upscale=upscale)

    # ---------------------------------------------------------------- operations
    def do(self, op: dict) -> dict:
        k, w, sz, a = op["k"], op["w"], tuple(op["sz"]), op["a"]
        r = r0()
        if k == "render":
            self._render(r, w, sz, op["f"])
        elif k == "rows":
            r["cr"] = int(self.widgets[w].rows(sz))
        elif k == "pack":
            try:
                res = self.widgets[w].pack(sz)
                r["cc"], r["cr"] = int(res[0]), int(res[1])
            except Exception as e:
                r["res"] = type(e).__name__
        elif k == "inval":
            self.widgets[w]._invalidate()
        elif k == "release":
            self.held[w] = None
        elif k == "setsize":
            from term_image.image import Size

            if a[0] == "width":
                self.image.set_size(width=sz[0])
            else:
                self.image.size = Size[a[0]]
        elif k == "setph":
            u = self.urwid
            val = {"B1": self.B1, "B2": self.B2, "F": self.F, "none": None, "bad:int": 3, "bad:str": "x",
                   "bad:class": u.Text, "bad:canvas": u.SolidCanvas("x", 1, 1)}[a[0]]
            try:
                self.classes[w].set_error_placeholder(val)
            except Exception as e:
                r["res"] = type(e).__name__
        elif k == "break":
            os.rename(self.path, str(self.path) + ".away")
            self.failing = True
        elif k == "repair":
            os.rename(str(self.path) + ".away", self.path)
            self.failing = False
        elif k == "new":
            try:
                widget = self._construct(2, a)
            except Exception as e:
                r["res"] = type(e).__name__
            else:
                if a:
                    del widget  # accepted although an argument is invalid: recorded, not installed
                    r["res"] = "ok"
                else:
                    self.widgets[2] = widget
                    self.gen[2] += 1
        elif k == "drop":
            self._forget_z(2)
            del self.widgets[2]  # no reference cycle: the widget is finalized right here
            self.held[2] = None
        else:
            raise MachineryError(f"unknown operation {k}")
        return r

    def _forget_z(self, slot):
        key = (slot, self.gen[slot])
        self.zseen = {z: o for z, o in self.zseen.items() if o != key}
        self.zof.pop(key, None)

    def _render(self, r: dict, w: int, sz: tuple, focus: bool) -> None:
        widget = self.widgets[w]
        try:
            canv = widget.render(sz, focus=focus)
        except Exception as e:
            r["res"] = type(e).__name__
            return
        r["reused"] = canv is self.held[w]
        self.held[w] = canv
        s = scan(canv)
        for f in ("kind", "cc", "cr", "iw", "ih", "pl", "pt", "nc"):
            r[f] = s[f]
        if s["kind"] != "image":
            return
        key = (w, self.gen[w])
        if self.cfg["style"] == "kitty":
            mine = self.zof.setdefault(key, set())
            mine.update(s["zs"])
            if len(s["zs"]) != 1 or len(mine) != 1:
                r["z"] = -1  # several z-indexes within one canvas / over the life of one widget
            else:
                owner = self.zseen.setdefault(s["zs"][0], key)
                r["z"] = owner[0]
        r["eq"] = self._same_as_twin(w, s)

    def _same_as_twin(self, w: int, s: dict) -> bool:
        """The canvas text equals the image's own formatted render (a TWIN image object sized
        manually to what the canvas shows, padded to the canvas size with the widget's alignment)."""
        p = self.cfg["wp"][w - 1]
        z = None
        if self.cfg["style"] == "kitty":
            z = f"z{s['zs'][0]}" if s["zs"] and s["zs"][0] != "bad" else ""
        try:
            self.twin.set_size(s["iw"], s["ih"])
            want = format(self.twin, self.spec_for(p, s["cc"], s["cr"], z))
        except Exception:
            return False
        got = "\n".join(t.replace("\0", "") for t in s["text"])
        if self.cfg["style"] == "kitty":
            got = _DELETE_CURSOR.sub("", got)
            want = _DELETE_CURSOR.sub("", want)
        return got == want

    # ---------------------------------------------------------------- observation
    def _cached(self, widget, sz) -> bool:
        cc = self.urwid.CanvasCache
        for c in type(widget).__mro__:
            if c is self.urwid.Widget:
                break
            if cc.fetch(widget, c, tuple(sz), False) is not None:
                return True
        return False

    def _probe(self, i: int) -> str:
        pw = self.probes[i]
        pw._invalidate()
        try:
            canv = pw.render((2, 1))
        except FileNotFoundError:
            return "none"
        except Exception:
            return "F"
        k = scan(canv)["kind"]
        return k if k in ("B1", "B2") else "?" + k

    def observe(self) -> dict:
        ws = [self.widgets.get(1), self.widgets.get(2)]
        return {
            "isz": isz_of(self.image),
            "has": [w is not None for w in ws],
            "rows": [[int(w.rows((c,))) if w is not None else 0 for c in self.qcols] for w in ws],
            "cache": [[s for s in self.sizes if w is not None and self._cached(w, s)] for w in ws],
            "ph": [self._probe(0), self._probe(1)],
            "img": all(w.image is self.image for w in ws if w is not None),
        }

    # ---------------------------------------------------------------- forcing a state (resync)
    def force(self, s: dict) -> None:
        """Bring the real objects into spec state ``s`` (after a disagreement, so that the walk can
        go on): public API wherever it exists; the placeholder slots are written directly."""
        from term_image.image import Size

        base, sub = self.classes
        if s["has"][1] and 2 not in self.widgets:
            self.widgets[2] = self._construct(2, [])
            self.gen[2] += 1
        if not s["has"][1] and 2 in self.widgets:
            self.do({"k": "drop", "w": 2, "sz": [], "f": False, "a": []})
        want_fail = bool(s["fail"])
        for w in (1, 2):
            cv = s["cache"][w - 1]
            if w not in self.widgets:
                continue
            self.widgets[w]._invalidate()
            self.held[w] = None
            if cv["kind"] == "":
                continue
            if cv["kind"] == "image":
                if self.failing:
                    self.do({"k": "repair", "w": 0, "sz": [], "f": False, "a": []})
            else:
                if not self.failing:
                    self.do({"k": "break", "w": 0, "sz": [], "f": False, "a": []})
                type(self.widgets[w])._ti_error_placeholder = {"B1": self.B1, "B2": self.B2}[cv["kind"]]
            self.held[w] = self.widgets[w].render(tuple(cv["sz"]))
        self._reset_placeholders()
        vals = {"B1": self.B1, "B2": self.B2, "F": self.F, "none": None}
        base._ti_error_placeholder = vals[s["ph"][0]]
        if s["ph"][1] != "inherit":
            sub._ti_error_placeholder = vals[s["ph"][1]]
        if self.failing != want_fail:
            self.do({"k": "break" if want_fail else "repair", "w": 0, "sz": [], "f": False, "a": []})
        z = s["isz"]
        if z["k"] == "dyn":
            self.image.size = Size[z["m"]]
        else:
            self.image.set_size(z["w"], z["h"])

    def close(self) -> None:
        self.widgets.clear()
        self.held = {1: None, 2: None}
        self.probes = []
        self._reset_placeholders()
        for p in (self.path, str(self.path) + ".away", self.twin_path):
            try:
                os.unlink(p)
            except OSError:
                pass
