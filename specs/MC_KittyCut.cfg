SPECIFICATION Spec
INVARIANT NotSwallowingOutput
INVARIANT NoTransferLeftOpen
INVARIANT CompleteTransmissionIsClean
INVARIANT ClassesCovered
CHECK_DEADLOCK FALSE
