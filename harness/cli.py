"""Entry point used by every MANIFEST command:  ./check <ID> [--tier T] [--replay F]."""

from __future__ import annotations

import argparse
import importlib
import json
import os
import subprocess
import sys
import traceback
import warnings
from pathlib import Path

VERIF = Path(__file__).resolve().parent.parent


def _has_tty() -> bool:
    for s in (sys.__stdin__, sys.__stdout__, sys.__stderr__):
        try:
            if s is not None and os.isatty(s.fileno()):
                return True
        except (OSError, ValueError):
            pass
    try:
        fd = os.open("/dev/tty", os.O_RDWR | os.O_NOCTTY)
        os.close(fd)
        return True
    except OSError:
        return False


def _detach() -> int:
    """Re-run ourselves in a new session without any terminal.

    term-image picks its "active terminal" from the std streams or /dev/tty at import
    time; a check must never talk to whatever terminal happens to be attached.
    """
    env = dict(os.environ, VERIF_DETACHED="1")
    p = subprocess.Popen(
        [sys.executable, "-m", "harness.cli", *sys.argv[1:]],
        cwd=VERIF,
        env=env,
        stdin=subprocess.DEVNULL,
        stdout=subprocess.PIPE,
        stderr=subprocess.STDOUT,
        start_new_session=True,
    )
    assert p.stdout
    for line in p.stdout:
        sys.stdout.buffer.write(line)
        sys.stdout.buffer.flush()
    return p.wait()


def _guards(tier: str) -> None:
    """A check must never hang or eat the machine: wall-clock alarm (exit 2) and an address-space
    limit for the Python side (TLC JVMs are separate processes with their own -Xmx)."""
    import resource
    import signal

    from .tlc import MachineryError

    def _alarm(*_):
        raise MachineryError("global watchdog: the check did not finish in time")

    signal.signal(signal.SIGALRM, _alarm)
    signal.alarm(int(os.environ.get("VERIF_WATCHDOG_S", 1500 if tier == "quick" else 7200)))
    try:
        limit = int(os.environ.get("VERIF_MEM_GB", "20")) << 30
        resource.setrlimit(resource.RLIMIT_AS, (limit, limit))
    except (ValueError, OSError):
        pass


_LOCK = None


def _serialize(pid: str) -> None:
    """Two runs of the SAME check share scratch directories under out/: let them take turns."""
    global _LOCK
    import fcntl

    d = VERIF / "out" / "locks"
    d.mkdir(parents=True, exist_ok=True)
    _LOCK = open(d / f"{pid}.lock", "w")
    fcntl.flock(_LOCK, fcntl.LOCK_EX)
    import atexit

    atexit.register(_LOCK.close)


def setup_repo_path() -> str:
    repo = os.environ.get("VERIF_REPO") or "/repo"
    src = str(Path(repo) / "src")
    if src not in sys.path:
        sys.path.insert(0, src)
    os.environ["TERM_IMAGE_VERIF"] = "1"
    warnings.filterwarnings("ignore", message="It seems this process is not running")
    return repo


def main() -> int:
    ap = argparse.ArgumentParser()
    ap.add_argument("prop")
    ap.add_argument("--tier", default=None)
    ap.add_argument("--replay", default=None)
    args = ap.parse_args()

    if not os.environ.get("VERIF_DETACHED") and _has_tty():
        return _detach()

    os.environ.setdefault("PYTHONHASHSEED", "0")
    from . import core
    from .tlc import MachineryError

    tier, seed = core.tier_seed(args.tier)
    _guards(tier)
    _serialize(args.prop.upper())
    repo = setup_repo_path()
    pid = args.prop.upper()
    rep = core.Report(property_id=pid, tier=tier, seed=seed)
    rep.extra["repo"] = repo
    try:
        mod = importlib.import_module(f"harness.drivers.{pid.lower()}")
        scenario = None
        if args.replay:
            scenario = json.loads(Path(args.replay).read_text())
            rep.extra["replay_of"] = str(args.replay)
        mod.main(rep, scenario)
    except MachineryError as e:
        print(f"MACHINERY-FAILURE property={pid}: {e}")
        return 2
    except Exception:
        print(f"MACHINERY-FAILURE property={pid}: unexpected exception in the harness")
        traceback.print_exc(file=sys.stdout)
        return 2
    rc = core.finish(rep)
    print(
        f"{pid} [{tier}] states={rep.states} transitions={rep.transitions} "
        f"traces={rep.traces_validated} evaluations={rep.evaluations} "
        f"distinct={len(rep.distinct)} violations={len(rep.violations)} -> exit {rc}"
    )
    return rc


if __name__ == "__main__":
    sys.exit(main())
