-------------------------- MODULE Trace_ValueTypes --------------------------
(***************************************************************************)
(* X01: code -> spec.  Each trace is one history of operations executed on  *)
(* REAL term-image value objects (harness/x01_world.py), recorded with the  *)
(* outcome of every operation and, after EVERY operation, the projection of  *)
(* EVERY live object (fields read by attribute, the tuple view, the class,   *)
(* `relative`, identity) and the ==, hash relations between all of them.     *)
(*                                                                         *)
(*   trace = [init, ev]     init = store the history starts from (objects)   *)
(*   event = [name, i, j, dst, cls, n, s, res, val, obs]                      *)
(*   obs   = [o, eq, heq]   o[i] = [k, cls, n, s, id, rel, tup]               *)
(*                          eq[i][j] / heq[i][j] = "T" | "F" | "X" (X = the    *)
(*                          answers of ==, != and the mirrored == disagree /  *)
(*                          unhashable)                                       *)
(*                                                                         *)
(* Steps are total: S' = Apply(S, op) whatever was observed; the verdict     *)
(* names the first failing clause and the event index.                       *)
(***************************************************************************)
EXTENDS ValueTypesCore, TLC, Json, IOUtils

Traces == JsonDeserialize(IOEnv.TRACE_FILE)

VARIABLES tid, l, S, verdict, at, who
vars == <<tid, l, S, verdict, at, who>>

Tr == Traces[tid]
NE == Len(Tr.ev)

OpOf(e) == Op(e.name, e.i, e.j, e.dst, e.cls, e.n, e.s)
ObjOf(x) == Obj(x.k, x.cls, x.n, x.s, x.id)

WFTrace(tr) ==
  LET S0 == [i \in DOMAIN tr.init |-> ObjOf(tr.init[i])] IN WFStore(S0)

WFEvent(S1, e) ==
  /\ WFOp(S1, OpOf(e))
  /\ Len(e.obs.eq) = Len(e.obs.o) /\ Len(e.obs.heq) = Len(e.obs.o)
  /\ \A i \in DOMAIN e.obs.o : Len(e.obs.eq[i]) = Len(e.obs.o) /\ Len(e.obs.heq[i]) = Len(e.obs.o)

\* the outcome the model applies, given what was observed where the documentation permits both
\* "the operand itself" and "an equal new instance" (see CopyOf in the core)
Variant(e, S1) ==
  LET ev == Eval(S1, OpOf(e)) IN
  IF /\ ev.res = "ok" /\ ev.alias > 0 /\ e.res = "ok"
     /\ e.dst \in DOMAIN e.obs.o /\ e.i \in DOMAIN e.obs.o
     /\ IF e.dst # e.i THEN e.obs.o[e.dst].id # e.obs.o[e.i].id
        \* rebinding the operand's own variable: only a copy of another permitted class shows
        ELSE e.obs.o[e.dst].cls # S1[e.i].cls /\ e.obs.o[e.dst].cls \in CopyClasses(S1[e.i], e.name)
  THEN CopyOf(S1[e.i], IF e.obs.o[e.dst].cls \in CopyClasses(S1[e.i], e.name) THEN e.obs.o[e.dst].cls
                       ELSE S1[e.i].cls)
  ELSE ev

\* ---- comparison of the observed store with the model store -------------------
SameRec(x, o) == x.k = o.k /\ x.cls = o.cls /\ x.n = o.n /\ x.s = o.s
SlotDiffers(e, S2, m) == ~SameRec(e.obs.o[m], S2[m]) \/ e.obs.o[m].rel # RelFlag(S2[m])
                         \/ (IsTuple(S2[m]) /\ e.obs.o[m].tup # S2[m].n)
IdsDiffer(e, S2) == \E m, q \in DOMAIN S2 : (e.obs.o[m].id = e.obs.o[q].id) # (S2[m].id = S2[q].id)

\* which part of the result object is wrong (the most specific name first)
ResultClause(e, S1, S2, ev) ==
  LET d == e.dst
      x == e.obs.o[d]
      o == S2[d]
      aliasExp == ev.alias > 0
      aliasObs == e.i > 0 /\ e.i # d /\ e.i \in DOMAIN e.obs.o /\ x.id = e.obs.o[e.i].id
  IN
  IF x.k # o.k \/ x.cls # o.cls THEN "result-class"
  ELSE IF aliasExp /\ e.i # d /\ ~aliasObs THEN "result-not-the-operand-itself"
  ELSE IF ~aliasExp /\ aliasObs THEN "result-is-the-operand-itself"
  ELSE IF x.n # o.n THEN
    (CASE e.name = "resolve" -> "resolved-dimensions"
       [] e.name = "to_exact" -> "exact-dimensions"
       [] e.name = "get_padded_size" -> "padded-size"
       [] e.name \in {"from_hex", "new_color", "new_color_rgb"} -> "channels"
       [] e.name \in {"hex", "rgb_hex"} -> "hex-text"
       [] OTHER -> "result-fields")
  ELSE IF x.s # o.s THEN
    (IF e.name \in {"resolve", "to_exact"} /\ Fill(o) # (IF o.k = "aligned" THEN x.s[3] ELSE x.s[1])
       THEN "fill-not-preserved" ELSE "result-fields")
  ELSE IF x.rel # RelFlag(o) THEN "relative-flag"
  ELSE IF IsTuple(o) /\ x.tup # o.n THEN "tuple-view-differs"
  ELSE "ok"

\* the offending pairs of the four equality / hashing clauses, and the class the signature names
EqBad(e, S2) ==
  LET D == DOMAIN S2
      P1 == {<<m, q>> \in D \X D : e.obs.eq[m][q] = "X"}
      P2 == {<<m, q>> \in D \X D : Eq3(S2[m], S2[q]) = "T" /\ e.obs.eq[m][q] # "T"}
      P3 == {<<m, q>> \in D \X D : Eq3(S2[m], S2[q]) = "F" /\ e.obs.eq[m][q] # "F"}
      P4 == {<<m, q>> \in D \X D : MustHashEqual(S2[m], S2[q]) /\ e.obs.heq[m][q] # "T"}
  IN IF P1 # {} THEN P1 ELSE IF P2 # {} THEN P2 ELSE IF P3 # {} THEN P3 ELSE P4
EqWho(e, S2) ==
  LET B == EqBad(e, S2) IN
  IF B = {} THEN ""
  ELSE LET p == CHOOSE p \in B : \A r \in B : p[1] < r[1] \/ (p[1] = r[1] /\ p[2] <= r[2]) IN
       \* a padding if one is involved, else the first object's class
       IF IsPad(S2[p[2]]) /\ ~IsPad(S2[p[1]]) THEN S2[p[2]].cls ELSE S2[p[1]].cls

EqClauses == {"eq-answers-inconsistent", "equal-fields-compare-unequal", "unequal-objects-compare-equal",
              "equal-objects-hash-differently"}
EqClause(e, S2) ==
  LET D == DOMAIN S2 IN
  IF \E m, q \in D : e.obs.eq[m][q] = "X" THEN "eq-answers-inconsistent"
  ELSE IF \E m, q \in D : Eq3(S2[m], S2[q]) = "T" /\ e.obs.eq[m][q] # "T" THEN "equal-fields-compare-unequal"
  ELSE IF \E m, q \in D : Eq3(S2[m], S2[q]) = "F" /\ e.obs.eq[m][q] # "F" THEN "unequal-objects-compare-equal"
  ELSE IF \E m, q \in D : MustHashEqual(S2[m], S2[q]) /\ e.obs.heq[m][q] # "T" THEN "equal-objects-hash-differently"
  ELSE "ok"

\* first failing clause of event e; S1 = store before, S2 = store after (model)
Clause(e, S1, S2) ==
  LET op == OpOf(e)
      ev == Variant(e, S1)
      others == {m \in DOMAIN S2 : ~(ev.res = "ok" /\ e.name \in ObjectOps /\ m = e.dst)}
  IN
  IF ev.res # "ok" /\ e.res = "ok" THEN
    (CASE e.name \in ProbeOps -> "mutation-accepted"
       [] e.name \in {"to_exact", "get_padded_size", "exact_dims", "pad"} -> "relative-dimension-not-refused"
       [] e.name = "from_hex" -> "invalid-hex-string-accepted"
       [] e.name = "new_abstract" -> "abstract-class-instantiated"
       [] OTHER -> "invalid-value-accepted")
  ELSE IF ev.res = "ok" /\ e.res # "ok" THEN "valid-operation-rejected"
  ELSE IF ev.res # e.res /\ e.name \notin ProbeOps THEN "wrong-exception-class"
  ELSE IF Len(e.obs.o) # Len(S2) THEN "unsupported-event"
  ELSE IF e.val # ev.val THEN
    (CASE e.name = "pad" -> "padded-output-size-differs"
       [] e.name = "exact_dims" -> "exact-dimensions"
       [] OTHER -> "wrong-value")
  ELSE IF \E m \in others : SlotDiffers(e, S2, m) THEN
    (IF ev.res # "ok" THEN "refused-operation-changed-an-object" ELSE "operation-changed-another-object")
  ELSE IF ev.res = "ok" /\ e.name \in ObjectOps /\ ResultClause(e, S1, S2, ev) # "ok" THEN ResultClause(e, S1, S2, ev)
  ELSE IF IdsDiffer(e, S2) THEN "identity-structure-differs"
  ELSE EqClause(e, S2)

Init ==
  /\ tid \in 1..Len(Traces)
  /\ l = 0
  /\ S = [i \in DOMAIN Traces[tid].init |-> ObjOf(Traces[tid].init[i])]
  /\ verdict = IF WFTrace(Traces[tid]) THEN "ok" ELSE "unsupported-trace"
  /\ at = 0
  /\ who = ""

Step ==
  /\ l < NE
  /\ l' = l + 1
  /\ LET e == Tr.ev[l + 1]
         live == verdict = "ok"
         wf == live /\ WFEvent(S, e)
         S2 == IF wf THEN ApplyE(S, OpOf(e), Variant(e, S)) ELSE S
         v == IF ~live THEN verdict ELSE IF ~wf THEN "unsupported-event" ELSE Clause(e, S, S2)
     IN /\ S' = S2
        /\ verdict' = v
        /\ at' = IF live /\ v # "ok" THEN l + 1 ELSE at
        /\ who' = IF live /\ wf /\ v \in EqClauses THEN EqWho(e, S2) ELSE who
  /\ UNCHANGED tid

Finish ==
  /\ l = NE
  /\ l' = NE + 1
  /\ UNCHANGED <<tid, S, verdict, at, who>>

Next == Step \/ Finish
Spec == Init /\ [][Next]_vars

Done == l = NE + 1
Report ==
  Done => PrintT(<<"VERDICT", ToJson([tid |-> tid, verdict |-> verdict, at |-> at, who |-> who,
                                      judged |-> IF verdict = "ok" THEN NE ELSE at, events |-> NE])>>)
=============================================================================
