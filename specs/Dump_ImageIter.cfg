SPECIFICATION Spec
CONSTANTS
  N = 3
  MaxDepth = 4
  SpecSet = {"s2"}
  SizeSet = {"A", "dyn"}
  TermSet = {1}
  FaultSteps = {"open", "step"}
VIEW DumpView
CONSTRAINT Bound
ACTION_CONSTRAINT Dump
INVARIANT DumpInitInv
CHECK_DEADLOCK FALSE
