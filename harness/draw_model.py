"""Design-level model of draw(): specs/Draw.tla checked by TLC (MC_Draw.cfg), and the
operation log of the REAL Renderable.draw() compared with the specified program (spec -> code)."""

from __future__ import annotations

from . import drawkit, lexer, tlc
from .core import Report

KIND = {"write": "W", "flush": "F", "sleep": "S", "render": "R"}


def real_program(ops):
    prog = []
    for kind, data in ops:
        toks = []
        if kind == "write" and data:
            st = lexer.lex(data)
            toks = [t for t in st.toks]
        prog.append({"op": KIND[kind], "toks": toks})
    return prog


def check(rep: Report) -> None:
    cfg = "MC_Draw.cfg" if rep.tier == "quick" else "MC_Draw_thorough.cfg"
    res = tlc.run("MC_Draw", cfg, workers=8, timeout=1500)
    rep.add_tlc(res)
    rep.extra["mc_draw"] = {"states": res.distinct, "generated": res.generated, "cfg": cfg}
    if res.violated:
        rep.violation(f"design:Draw:{res.violated}", res.error_text[:2000], {"kind": "design"})
        return
    progs = res.tagged("PROG")
    if len(progs) < 50:
        raise tlc.MachineryError(f"only {len(progs)} PROG lines from MC_Draw")
    for pr in progs:
        c = pr["c"]
        case = dict(api="new", rw=c["rw"], rh=c["rh"], frames=c["frames"], loops=c["loops"], cache=False,
                    pad={"kind": "exact", "l": c["l"], "t": c["t"], "r": c["r"], "b": c["b"]},
                    cols=c["cols"], rows=c["rows"], tty=c["tty"], r0=0, animate=True,
                    hide_cursor=True, echo_input=True)
        rep.evaluations += 1
        rep.traces_validated += 1
        r = drawkit.run_new(case)
        real = real_program(r["ops"])
        want = [{"op": o["op"], "toks": list(o["toks"])} for o in pr["prog"]]
        rep.distinct.add(("prog", tuple(sorted(c.items()))))
        if real != want:
            i = next((i for i, (a, b) in enumerate(zip(real, want)) if a != b), min(len(real), len(want)))
            rep.violation(
                "new-api:draw:choreography",
                f"operation #{i + 1} of the real draw() differs from the program specified in Draw.tla: "
                f"real {real[i] if i < len(real) else None}, specified {want[i] if i < len(want) else None} "
                f"({len(real)} vs {len(want)} operations) for {case}",
                {"kind": "draw", "case": dict(case, r0=0)},
            )
    rep.sample({"draw_program": {"params": progs[0]["c"], "ops": [o["op"] for o in progs[0]["prog"]]}})
