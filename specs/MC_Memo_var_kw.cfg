SPECIFICATION Spec
CONSTANTS
  NT = 2
  Prog <- KwProg
  Kind = "cached"
  Sizes = {1, 2, 3}
  MaxResize = 0
  MaxFail = 1
  KwClass <- KwClasses
  Variant <- EnvVariant
INVARIANT BodyOnce
INVARIANT BodyExclusive
INVARIANT ValueFresh
VIEW View
CHECK_DEADLOCK FALSE
