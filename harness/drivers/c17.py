"""C17 - trimming an image canvas equals cropping what the full canvas shows.

model:   specs/MC_UrwidCanvas (design level): CalcTrim (transcribed from
         UrwidImageCanvas._ti_calc_trim) cuts every axis layout exactly like Cut; the
         cell-level transcription of content() shows Crop(full canvas) for every abstract
         canvas / colour-run pattern / sub-rectangle and never leaves a colour behind.
binding: spec -> code.  Every CalcTrimOp transition TLC generates (all sizes 1..9, images,
         alignment splits, trim pairs) is replayed into the REAL _ti_calc_trim.
         code -> spec.  Real UrwidImage.render(size) canvases (box / flow, upscale, 4x4
         alignments as a format spec can give them - explicit near / mid / far and ABSENT
         (documented default) per axis = the alignment universe of the model, which the run
         must cover -, alpha kinds, block / kitty / iterm2, terminal identities); the rows of
         the real canvas.content(trim_left, trim_top, cols, rows) for EVERY sub-rectangle
         are lexed and judged by TLC (Trace_Canvas.tla: Terminal.tla semantics, expectation
         = UrwidCanvas!CropRow of the rows of the untrimmed content()).
"""

from __future__ import annotations

import copy
import itertools
import json
import random
import shutil
import time
import uuid
from concurrent.futures import ThreadPoolExecutor

from .. import imgs, lexer, tlc
from ..core import Report
from ..env import stubs

ASSUMPTIONS = [
    "terminal semantics of specs/Terminal.tla (ECMA-48/xterm cursor movement and SGR, NUL "
    "ignored, BS moves left and clears pending wrap, kitty graphics a=T/C=1/c/r/m/d=C, iTerm2 "
    "inline images with width/height in cells)",
    "urwid positions every canvas row itself: each row of content() is interpreted from column 0 "
    "of its own line, once on a terminal 2 columns wider than the row and once on a terminal "
    "exactly as wide as the row (row ending at the right margin)",
    "'shows the same': a blank cell shows its background only (its foreground colour is not "
    "compared); half-block cells are compared by glyph, foreground and background",
    "'occupies exactly cols columns' includes: the cursor ends just past the row's last column "
    "(urwid writes the next canvas' text right there) and text attributes are default again",
    "graphics rows are compared by placement geometry (column, width, height, z-index, protocol) "
    "and by the identity of the transmitted payload + pixel-format keys with the corresponding "
    "line of the untrimmed canvas (payload decoding itself belongs to C03)",
    "graphics styles are exercised with the LINES render method only (the documented "
    "prerequisite for vertical trimming: one strip per line); WHOLE renders are not line-wise "
    "meaningful and are outside the property",
]

# alignments as a format spec can give them: "" = NO alignment given for that axis (the widget
# carries None; documented default centre / middle) - "absent" in UrwidCanvas!AlignValues
H_EXPLICIT = ["<", "|", ">"]
V_EXPLICIT = ["^", "-", "_"]
H_ALIGNS = H_EXPLICIT + [""]
V_ALIGNS = V_EXPLICIT + [""]
ALIGN_NAME = {"<": "near", "|": "mid", ">": "far", "^": "near", "-": "mid", "_": "far",
              "": "absent"}


def format_spec(ha, va, alpha, sargs=""):
    """[h_align][.v_align][alpha][+style]: an absent vertical alignment means no dot at all."""
    return ha + ("." + va if va else "") + alpha + ("+" + sargs if sargs else "")


def absent_suffix(case):
    """Signature suffix naming the axes for which the widget's format spec gives no alignment."""
    axes = [n for n, a in (("h_align", case["ha"]), ("v_align", case["va"])) if a == ""]
    return (":" + "+".join(axes) + "-absent") if axes else ""
ALPHAS = ["", "#", "#.7", "##", "#2a507f"]
MAXW, MAXH = 9, 6

GFX_IDENTS = {
    "block": ["kitty", "other"],
    "kitty": ["kitty", "konsole"],
    "iterm2": ["iterm2", "konsole", "wezterm"],
}
CELL = (2, 4)  # graphics: pixels per cell (small, so payloads stay small)

_KEEP_GFX = ("proto", "a", "C", "c", "r", "z", "m", "q", "d", "x0", "keys", "nkeys", "inline",
             "wcells", "hcells", "dnmc")


# ----------------------------------------------------------------------------------------
# cases -> real canvases
# ----------------------------------------------------------------------------------------


def n_rects(w, h):
    return w * (w + 1) // 2 * h * (h + 1) // 2


def all_rects(w, h):
    return [
        (tl, tt, cols, rows)
        for tl in range(w)
        for cols in range(1, w - tl + 1)
        for tt in range(h)
        for rows in range(1, h - tt + 1)
    ]


def src_for(style, iw, ih, rng):
    """Pixel size of a source whose ORIGINAL size is iw x ih cells."""
    if style == "block":
        return [iw, 2 * ih - rng.choice([0, 0, 1])]
    return [iw * CELL[0], ih * CELL[1]]


def make_case(rng, style, ident, sizing, upscale, ha, va, alpha, W, H, iw, ih, **kw):
    c = dict(
        style=style, ident=ident, sizing=sizing, upscale=upscale, ha=ha, va=va, alpha=alpha,
        W=W, H=H, src=src_for(style, iw, ih, rng), seed=rng.randrange(1 << 30),
        mode=rng.choice(["RGBA", "RGBA", "RGB", "LA", "P"]) if alpha != "#" else rng.choice(["RGBA", "RGB"]),
        pixstyle=rng.choice(["mixed", "mixed", "noise"]),
        fg_bg=rng.choice([[None, None], [[200, 200, 200], [0, 0, 0]]]),
        sargs="", disguise=[0, 0], history=[], session=[], upscale2=True,
    )
    if style != "block":
        c["pixstyle"] = "noise"  # strips of different lines must differ
        c["sargs"] = rng.choice(["", "L", "Lm1", "Lc4", "m1"])
        c["disguise"] = [rng.randrange(3), rng.randrange(3)]
    c.update(kw)
    return c


def visible_case(rng, *args, **kw):
    """make_case with a source that certainly shows something (an opaque pixel, a mode that keeps
    it): the run must cover the model's alignment universe with COLOURED traces."""
    while True:
        c = make_case(rng, *args, **kw)
        if c["mode"] == "P":  # adaptive palette + transparent index 0: may come out invisible
            c["mode"] = "RGBA"
        px = imgs.rgba_pixels(random.Random(c["seed"]), c["src"][0], c["src"][1], c["pixstyle"])
        if any(p[3] == 255 for p in px):
            return c


SWEEP_CELLS = [(10, 20), (7, 15), (3, 5)]
SWEEP_MAX_H = 14


def random_history(rng, W, H):
    """1-2 renders of the same image object at other sizes (thumbnail widget / same widget)."""
    out = []
    for _ in range(rng.choice([1, 1, 2])):
        w2 = rng.choice([x for x in range(1, MAXW + 3) if x != W])
        h2 = rng.choice([0] + [y for y in range(1, MAXH + 3) if y != H])
        out.append([rng.choice(["other", "same"]), w2, h2, rng.random() < 0.6])
    return out


def gen_flow_sweep(rng: random.Random, tier: str):
    """Flow widgets at EVERY width from 1 to a bit beyond the image's original column count;
    graphics sources whose pixel size is not a multiple of the cell size (the original size in
    cells is a floor, the fitted size is scaled: rows() and render() must take the same
    decision), several cell sizes, upscale on/off.  Only the untrimmed content is recorded."""
    fixed = [((10, 20), (59, 130)), ((10, 20), (27, 95)), ((7, 15), (40, 100)), ((3, 5), (14, 33))]
    n_random = 3 if tier == "quick" else 40
    combos = list(fixed)
    for _ in range(n_random):
        cw, ch = rng.choice(SWEEP_CELLS)
        k = rng.randrange(1, 7)
        combos.append(((cw, ch), (cw * k + rng.choice([0] + list(range(1, cw)) * 2),
                                  ch * rng.randrange(2, 8) + rng.randrange(ch))))
    for (cell, px) in combos:
        for style in ("kitty", "iterm2", "block"):
            if style == "block":
                if rng.random() < 0.5:
                    continue
                src = [max(1, px[0] // cell[0]), max(1, px[1] // cell[1]) * 2 - rng.choice([0, 1])]
                ori_cols = src[0]
            else:
                src = list(px)
                ori_cols = max(1, px[0] // cell[0])
            ident = rng.choice(GFX_IDENTS[style])
            for upscale in (False, True):
                for W in range(1, ori_cols + 4):
                    yield make_case(rng, style, ident, "flow", upscale, rng.choice(H_ALIGNS),
                                    rng.choice(V_ALIGNS), rng.choice(["", "#"]), W, 0, 1, 1,
                                    src=src, cell=list(cell), pixstyle="uniform", mode="RGB",
                                    sargs=rng.choice(["", "L"]) if style != "block" else "")


def random_session(rng, S):
    """box render at S, something else resizes the shared image, box render at S again."""
    between = rng.choice([
        [["render", 0, rng.randrange(S[0] + 1, MAXW + 1) if S[0] < MAXW else S[0] - 1, 0]],
        [["render", 1, min(MAXW, S[0] + rng.randrange(1, 4)), min(MAXH, S[1] + rng.randrange(0, 3))]],
        [["set_size", rng.randrange(1, 14)]],
        [["render", 1, rng.randrange(1, MAXW + 1), 0], ["set_size", rng.randrange(1, 14)]],
        [["cell_ratio", rng.choice([0.25, 0.4, 1.0])], ["render", 0, rng.randrange(1, MAXW + 1), 0]],
    ])
    steps = [["render", 0, S[0], S[1]]] + between + [["render", 0, S[0], S[1]]]
    if rng.random() < 0.5:
        steps += [["render", 1, rng.randrange(1, MAXW + 1), rng.randrange(1, MAXH + 1)],
                  ["render", 0, S[0], S[1]]]
    return steps


def gen_sessions(rng: random.Random, tier: str):
    """Redraw sessions: the image's size is mutable state shared by every widget showing it."""
    ident = lambda: rng.choice(GFX_IDENTS["block"])  # noqa: E731
    # one widget: box S, flow (image takes its original size), box S again
    yield make_case(rng, "block", ident(), "box", False, "<", "^", rng.choice(ALPHAS), 5, 3, 6, 3,
                    session=[["render", 0, 5, 3], ["render", 0, 8, 0], ["render", 0, 5, 3]])
    # two widgets sharing one image, alternating, each redrawn at its unchanged size
    yield make_case(rng, "block", ident(), "box", True, "|", "-", rng.choice(ALPHAS), 4, 2, 6, 3,
                    upscale2=True,
                    session=[["render", 1, 4, 2], ["render", 0, 9, 6], ["render", 1, 4, 2],
                             ["render", 0, 9, 6]])
    # the application resizes the image in between
    yield make_case(rng, "block", ident(), "box", False, ">", "_", rng.choice(ALPHAS), 6, 4, 3, 2,
                    session=[["render", 0, 6, 4], ["set_size", 9], ["render", 0, 6, 4]])
    # graphics
    yield make_case(rng, "kitty", "kitty", "box", False, "|", "-", "", 4, 3, 5, 3,
                    session=[["render", 0, 4, 3], ["render", 0, 7, 0], ["render", 0, 4, 3]])
    # environment: the cell ratio (text) / cell size (graphics) changes between two layouts of a
    # flow widget whose original size fits the width; rows() is asked before every render
    for upscale in (False, True):
        yield make_case(rng, "block", ident(), "flow", upscale, "<", "^", "", 8, 0, 4, 2,
                        src=[4, 4], session=[["render", 0, 8, 0], ["cell_ratio", 1.0],
                                             ["render", 0, 8, 0], ["render", 0, 3, 0],
                                             ["cell_ratio", 0.25], ["render", 0, 8, 0],
                                             ["render", 0, 3, 0]])
        yield make_case(rng, "kitty", "kitty", "flow", upscale, "|", "-", "", 6, 0, 3, 2,
                        src=[12, 24], cell=[4, 8], pixstyle="uniform", mode="RGB", sargs="L",
                        session=[["render", 0, 6, 0], ["cell_size", 4, 4], ["render", 0, 6, 0],
                                 ["cell_size", 6, 12], ["render", 0, 6, 0], ["render", 0, 2, 0]])
    # a failing render with the error placeholder set: box-only and box/flow placeholders,
    # flow and box sizing, upscale on/off
    for upscale in (False, True):
        yield make_case(rng, "block", ident(), "flow", upscale, "|", "-", "", 7, 0, 1, 1,
                        src=[5, 6], broken=True,
                        session=[["placeholder", "solid"], ["render", 0, 7, 0], ["render", 0, 3, 0],
                                 ["render", 0, 6, 4],
                                 ["placeholder", "image"], ["render", 0, 7, 0], ["render", 0, 3, 0],
                                 ["render", 0, 6, 4]])
    for _ in range(2 if tier == "quick" else 60):
        S = (rng.randrange(2, 8), rng.randrange(2, MAXH))
        style = "block" if rng.random() < 0.8 else rng.choice(["kitty", "iterm2"])
        yield make_case(rng, style, rng.choice(GFX_IDENTS[style]), "box", rng.random() < 0.4,
                        rng.choice(H_ALIGNS), rng.choice(V_ALIGNS), rng.choice(ALPHAS), S[0], S[1],
                        rng.randrange(1, MAXW + 1), rng.randrange(1, MAXH + 1),
                        upscale2=rng.random() < 0.6, session=random_session(rng, S))


def gen_cases(rng: random.Random, tier: str):
    """Yields cases; the caller stops when its trim budget is used up (quick)."""
    # 1. the 4x4 alignments a format spec can give (explicit near / mid / far and ABSENT = the
    #    documented default, per axis: "<.^" ... "|", ".-", "") on a canvas with padding on every
    #    side (all 3x3 cut classes/axis).  Specs with an absent alignment: odd padding on both axes.
    for ha in H_ALIGNS:
        for va in V_ALIGNS:
            W, H = (7, 5) if ha and va else (6, 5)
            yield visible_case(rng, "block", rng.choice(GFX_IDENTS["block"]), "box", False, ha, va,
                               rng.choice(ALPHAS), W, H, 3, 2)
    # 1b. histories: the canvas is kept while the same image object is rendered at other sizes
    #     (second widget sharing the image / the same widget), then every trim of the kept canvas
    for ha, va, hist in (("|", "-", [["other", 3, 2, True]]),
                         ("<", "_", [["same", 9, 6, False], ["other", 3, 0, True]]),
                         (">", "^", [["same", 2, 0, False]])):
        yield make_case(rng, "block", rng.choice(GFX_IDENTS["block"]), "box", False, ha, va,
                        rng.choice(ALPHAS), 8, 4, 4, 2, history=hist)
    # 2. graphics: every style/identity, box and flow
    for style in ("kitty", "iterm2"):
        for ident in GFX_IDENTS[style]:
            for sizing in ("box", "flow"):
                W, H = rng.choice([(5, 4), (6, 3), (4, 4)])
                yield make_case(rng, style, ident, sizing, rng.random() < 0.3,
                                rng.choice(H_ALIGNS), rng.choice(V_ALIGNS), rng.choice(ALPHAS),
                                W, H, rng.randrange(2, W), rng.randrange(2, H + 1))
    # 3. flow widgets (rows() agreement), upscale on/off, small and large sources
    for upscale in (False, True):
        for _ in range(3):
            W = rng.randrange(3, MAXW + 1)
            iw = rng.randrange(1, W + 3)
            yield make_case(rng, "block", rng.choice(GFX_IDENTS["block"]), "flow", upscale,
                            rng.choice(H_ALIGNS), rng.choice(V_ALIGNS), rng.choice(ALPHAS),
                            W, 0, iw, rng.randrange(1, 5))
    if tier == "thorough":
        # full factorial over (identity, sizing, upscale, 3x3 alignments, alpha kinds)
        for ident in GFX_IDENTS["block"]:
            for sizing in ("box", "flow"):
                for upscale in (False, True):
                    for ha in H_ALIGNS:
                        for va in V_ALIGNS:
                            for alpha in ALPHAS:
                                for _ in range(2):
                                    W = rng.randrange(3, MAXW + 1)
                                    H = rng.randrange(2, MAXH + 1)
                                    hist = random_history(rng, W, H) if rng.random() < 0.4 else []
                                    yield make_case(rng, "block", ident, sizing, upscale, ha,
                                                    va, alpha, W, H, rng.randrange(1, W + 2),
                                                    rng.randrange(1, H + 2), history=hist)
        for style in ("kitty", "iterm2"):
            for ident in GFX_IDENTS[style]:
                for sizing in ("box", "flow"):
                    for upscale in (False, True):
                        # content() of a graphics canvas never looks at the alignment: the explicit
                        # 3x3, each replaced by "absent" now and then
                        for ha in H_EXPLICIT:
                            for va in V_EXPLICIT:
                                for _ in range(2):
                                    W = rng.randrange(2, 8)
                                    H = rng.randrange(2, 6)
                                    hist = random_history(rng, W, H) if rng.random() < 0.3 else []
                                    yield make_case(rng, style, ident, sizing, upscale,
                                                    ha if rng.random() < 0.8 else "",
                                                    va if rng.random() < 0.8 else "",
                                                    rng.choice(ALPHAS), W, H,
                                                    rng.randrange(1, W + 1),
                                                    rng.randrange(1, H + 1), history=hist)
        return
    # 4. quick: random block canvases until the budget is used up
    while True:
        W = rng.randrange(2, MAXW + 1)
        H = rng.randrange(1, MAXH + 1)
        yield make_case(rng, "block", rng.choice(GFX_IDENTS["block"]),
                        rng.choice(["box", "box", "flow"]), rng.random() < 0.4,
                        rng.choice(H_ALIGNS), rng.choice(V_ALIGNS), rng.choice(ALPHAS), W, H,
                        rng.randrange(1, W + 2), rng.randrange(1, H + 2),
                        history=random_history(rng, W, H) if rng.random() < 0.35 else [])


def reset_environment():
    """Process-global state a scenario may have changed: cell ratio, error placeholder."""
    import term_image
    from term_image.widget import UrwidImage

    term_image.set_cell_ratio(0.5)
    try:
        UrwidImage.set_error_placeholder(None)
    except TypeError:  # older trees do not accept None
        UrwidImage._ti_error_placeholder = None


def make_placeholder(kind):
    import urwid
    from PIL import Image
    from term_image.image import BlockImage
    from term_image.widget import UrwidImage

    if kind == "solid":  # the documented kind: a box widget
        return urwid.SolidFill("?")
    if kind == "image":  # supports box and flow sizing, 10 x 20 cells when it flows freely
        return UrwidImage(BlockImage(Image.new("RGB", (10, 40), (90, 90, 90))), upscale=True)
    return None


def render_case(case):
    """Real widget + real (finalized) canvas for ``case``.

    Returns (widget, canvas, announced, later): ``later()`` performs the case's *history* -
    renders of the SAME image object at other sizes (through a second widget sharing the image,
    or through the same widget) while the caller keeps holding the canvas."""
    from term_image.image import BlockImage, ITerm2Image, KittyImage
    from term_image.widget import UrwidImage, UrwidImageCanvas

    reset_environment()
    stubs.set_identity(case["ident"])
    fg, bg = case["fg_bg"]
    cell = None if case["style"] == "block" else tuple(case.get("cell") or CELL)
    stubs.set_term(size=(80, 30), cell=cell, fg_bg=(fg and tuple(fg), bg and tuple(bg)))
    rng = random.Random(case["seed"])
    img = imgs.make_image(rng, case["mode"], case["src"][0], case["src"][1], case["pixstyle"])
    cls = {"block": BlockImage, "kitty": KittyImage, "iterm2": ITerm2Image}[case["style"]]
    image = cls(img)
    spec = format_spec(case["ha"], case["va"], case["alpha"], case["sargs"])
    widget = UrwidImage(image, spec, upscale=case["upscale"])
    UrwidImageCanvas._ti_disguise_state = case["disguise"][0]
    for _ in range(case["disguise"][1]):
        widget._ti_change_disguise()
    if case["sizing"] == "flow":
        size = (case["W"],)
        announced = widget.rows(size)
    else:
        size = (case["W"], case["H"])
        announced = -1
    canvas = widget.render(size)  # already finalized by urwid (widget_info set)
    if not isinstance(canvas, UrwidImageCanvas):
        raise tlc.MachineryError(f"render() did not return an UrwidImageCanvas: {type(canvas)}")
    keep = []

    def later():
        for who, w2, h2, up2 in case.get("history", []):
            if who == "other":  # e.g. a thumbnail of the same image object
                other = UrwidImage(image, "<.^" + case["alpha"], upscale=bool(up2))
                keep.append(other)
            else:
                other = widget
            keep.append(other.render((w2, h2) if h2 else (w2,)))
        return image.rendered_size

    return widget, canvas, announced, later


# ----------------------------------------------------------------------------------------
# rows -> interned token streams
# ----------------------------------------------------------------------------------------


class RowTable:
    """Interns the byte strings of rows; lexes each distinct row once."""

    def __init__(self):
        self.ids: dict[bytes, int] = {}
        self.rows: list[dict] = []
        self.payload_ids: dict = {}
        self.malformed: dict[int, list] = {}  # row id -> sequences the lexer does not know

    def add(self, data: bytes, reference: bool = False) -> int:
        """``reference``: a row of the untrimmed content().  A sequence the lexer does not know
        there is a machinery error (never guessed).  In a TRIMMED row - which can only be made of
        pieces of the reference rows, blanks and SGR resets - it is passed to the spec as an
        `unknown` token (Terminal.tla: "unsupported token") and reported as a malformed row."""
        rid = self.ids.get(data)
        if rid is not None:
            if reference and rid in self.malformed:
                raise tlc.MachineryError(
                    f"lexer does not know {self.malformed[rid][:3]} in an untrimmed row {data[:80]!r}")
            return rid
        try:
            text = data.decode("utf-8")
        except UnicodeDecodeError:
            if reference:
                raise tlc.MachineryError(f"untrimmed row is not UTF-8: {data[:80]!r}")
            text = data.decode("utf-8", errors="replace")  # U+FFFD prints as a foreign glyph
        stream = lexer.lex(text, keep_payloads=True)
        unk = lexer.unknowns(stream)
        if unk and reference:
            raise tlc.MachineryError(f"lexer does not know {unk[:3]} in an untrimmed row {data[:80]!r}")
        payloads = stream.payloads  # type: ignore[attr-defined]
        gfx = []
        for g in stream.gfx:
            gg = {k: g[k] for k in _KEEP_GFX}
            gg["pid"] = 0
            gfx.append(gg)
        # payload identity of every transmission (assembled over its chunks), on its first record
        i = 1
        while i < len(gfx):
            g = stream.gfx[i]
            if g["proto"] == "kitty" and g["a"] in ("T", "t", "") and g["keys"] != ["m"]:
                parts = [payloads[i]]
                j = i
                while stream.gfx[j]["m"] == 1 and j + 1 < len(gfx):
                    j += 1
                    parts.append(payloads[j])
                key = ("kitty", g["f"], g["t"], g["s"], g["v"], g["o"], "".join(parts))
                gfx[i]["pid"] = self.payload_ids.setdefault(key, len(self.payload_ids) + 1)
                i = j + 1
            elif g["proto"] == "iterm2":
                key = ("iterm2", g["size"], g["par"], payloads[i])
                gfx[i]["pid"] = self.payload_ids.setdefault(key, len(self.payload_ids) + 1)
                i += 1
            else:
                i += 1
        rid = len(self.rows) + 1  # 1-based: TLA+ sequence index
        if unk:
            self.malformed[rid] = unk
        self.ids[data] = rid
        self.rows.append({"toks": stream.toks, "gfx": gfx})
        return rid


def row_bytes(row) -> bytes:
    out = []
    for seg in row:
        if not (isinstance(seg, tuple) and len(seg) == 3 and isinstance(seg[2], bytes)):
            raise tlc.MachineryError(f"content() yielded a segment of unexpected shape: {seg!r}")
        out.append(seg[2])
    return b"".join(out)


def cut_class(size, image, pad1, t1, t2):
    """3x3 classification of where the two cuts of one axis land."""
    def cls(t, near, far_start):
        return "none" if t == 0 else "near-pad" if t <= near else "image" if t < far_start else "far-pad"
    pad2 = size - image - pad1
    return cls(t1, pad1, pad1 + image), cls(t2, pad2, pad2 + image)


# ----------------------------------------------------------------------------------------
# TLC
# ----------------------------------------------------------------------------------------


def validate(batches, *, parallel=8, workers=2, timeout=900):
    """batches: list of dicts {rows, canvases, traces}; returns list of verdict lists."""
    rundir = tlc.OUT / "traces" / f"c17-{uuid.uuid4().hex[:8]}"
    rundir.mkdir(parents=True, exist_ok=True)
    jobs = []
    for i, b in enumerate(batches):
        f = tlc.write_json(rundir / f"b{i}.json", b)
        jobs.append(dict(spec="Trace_Canvas", cfg="Trace_Canvas.cfg", workers=workers,
                         timeout=timeout, env={"TRACE_FILE": str(f)}, deadlock=False,
                         jvm=["-Xmx3g", "-Xss16m"]))
    try:
        results = tlc.run_many(jobs, parallel=parallel)
    finally:
        shutil.rmtree(rundir, ignore_errors=True)
    out = []
    states = trans = 0
    for b, res in zip(batches, results):
        if res.violated:
            raise tlc.MachineryError(f"Trace_Canvas itself failed ({res.violated}):\n{res.error_text[:3000]}")
        states += res.distinct
        trans += res.generated
        n = len(b["traces"])
        vs = [None] * n
        for v in res.tagged("VERDICT"):
            if not 1 <= v["tid"] <= n:
                raise tlc.MachineryError(f"verdict with tid {v['tid']} outside batch of {n}")
            vs[v["tid"] - 1] = v
        missing = [k for k, v in enumerate(vs) if v is None]
        if missing:
            raise tlc.MachineryError(f"{len(missing)} traces got no verdict from Trace_Canvas")
        out.append(vs)
    return out, states, trans


def run_model(tier: str):
    cfg = "MC_UrwidCanvas.cfg" if tier == "quick" else "MC_UrwidCanvas_thorough.cfg"
    flow = tlc.run("MC_FlowRows", "MC_FlowRows.cfg", workers=4, timeout=300, coverage=True,
                   deadlock=False)
    res = tlc.run("MC_UrwidCanvas", cfg, workers=8, timeout=900, coverage=True, deadlock=False)
    res.flow = flow  # type: ignore[attr-defined]
    return res


def model_and_replay(rep: Report, res):
    """Design-level model + spec -> code replay of every CalcTrimOp transition."""
    from term_image.widget import UrwidImageCanvas

    flow = res.flow
    rep.add_tlc(flow)
    rep.extra["mc_flow_rows"] = {"states": flow.distinct, "generated": flow.generated,
                                 "coverage": {k: v[1] for k, v in flow.coverage.items()}}
    if flow.violated:
        rep.violation(
            f"design:FlowRows:{flow.violated}",
            "the flow sizing model in UrwidCanvas.tla violates " + flow.violated + "\n"
            + flow.error_text[:1500],
            {"kind": "design"},
        )
    for action in ("SetCellRatio", "SetPlaceholder", "Rows", "Render"):
        if flow.coverage.get(action, (0, 0))[1] == 0:
            raise tlc.MachineryError(f"vacuous: action {action} of MC_FlowRows never taken")
    rep.add_tlc(res)
    rep.extra["mc_urwid_canvas"] = {"states": res.distinct, "generated": res.generated,
                                    "coverage": {k: v[1] for k, v in res.coverage.items()}}
    if res.violated:
        rep.violation(
            f"design:UrwidCanvas:{res.violated}",
            "the transcription of _ti_calc_trim / content() in UrwidCanvas.tla violates "
            + res.violated + "\n" + res.error_text[:1500],
            {"kind": "design"},
        )
        return res, 0
    for action in ("CalcTrimOp", "ContentTextOp", "ContentGfxOp"):
        if res.coverage.get(action, (0, 0))[1] == 0:
            raise tlc.MachineryError(f"vacuous: action {action} of MC_UrwidCanvas never taken")
    tuples = res.tagged("TRIM")
    if len(tuples) != res.coverage["CalcTrimOp"][1]:
        raise tlc.MachineryError(
            f"dumped {len(tuples)} TRIM lines for {res.coverage['CalcTrimOp'][1]} CalcTrimOp transitions")

    def real(t):
        return list(UrwidImageCanvas._ti_calc_trim(t["size"], t["image"], t["trim1"], t["pad1"],
                                                   t["trim2"], t["pad2"]))

    bad = 0
    for t in tuples:
        rep.evaluations += 1
        got = real(t)
        if got != list(t["res"]):
            bad += 1
            args = [t[k] for k in ("size", "image", "trim1", "pad1", "trim2", "pad2")]
            sides = cut_class(t["size"], t["image"], t["pad1"], t["trim1"], t["trim2"])
            rep.violation(
                f"_ti_calc_trim:replay:{sides[0]}/{sides[1]}",
                f"_ti_calc_trim{tuple(args)} returned {tuple(got)}, the specification "
                f"(= cutting the layout [pad|image|pad]) gives {tuple(t['res'])}",
                {"kind": "calc_trim", "args": args},
            )
    # the comparator must reject a tampered tuple
    t = copy.deepcopy(tuples[len(tuples) // 2])
    t["res"][0] += 1
    if real(t) == list(t["res"]):
        raise tlc.MachineryError("replay comparator accepted a tampered TRIM tuple")
    rep.traces_validated += len(tuples)
    rep.extra["calc_trim_replayed"] = len(tuples)
    rep.extra["calc_trim_mismatches"] = bad
    return res, len(tuples)


# ----------------------------------------------------------------------------------------
# main
# ----------------------------------------------------------------------------------------


def record_canvas(case, canvas, announced, req, size_after, rects, table: RowTable, rep: Report,
                  max_h: int, step: int = -1, kind: str | None = None):
    """Record content() of one real canvas for ``rects`` (None = every sub-rectangle, "full" =
    the untrimmed rectangle only).  ``req`` = the size the widget was asked to render
    (rows 0 = flow).  Returns (entry, traces, meta, geo), "big" or None."""
    W, H = canvas.cols(), canvas.rows()
    if (W > MAXW or H > max_h) and rects != "full":
        return "big"
    # what the canvas shows when it is rendered: the reference for every later trim
    full = [table.add(row_bytes(r), reference=True) for r in canvas.content()]
    iw, ih = getattr(canvas, "_ti_image_size", (W, H))  # evidence classification only
    if callable(size_after):
        try:
            size_after = size_after()  # the image is re-rendered elsewhere; the canvas is kept
        except Exception as e:
            rep.violation(
                f"render-raises:{case['style']}:history:{type(e).__name__}",
                f"re-rendering the image raised {type(e).__name__}: {e}; case={json.dumps(case)}",
                {"case": case},
            )
            return None
    entry = {"W": W, "H": H, "full": full,
             "kind": kind or ("text" if case["style"] == "block" else "gfx"),
             "reqW": req[0], "reqH": req[1]}
    traces, meta = [], []
    if rects == "full":
        rects = [(0, 0, W, H)]
    for tl, tt, cols, rows in (all_rects(W, H) if rects is None else rects):
        rep.evaluations += 1
        try:
            got = [table.add(row_bytes(r)) for r in canvas.content(tl, tt, cols, rows)]
        except tlc.MachineryError:
            raise
        except Exception as e:
            rep.violation(
                f"content-raises:{case['style']}:{type(e).__name__}{absent_suffix(case)}",
                f"content({tl}, {tt}, {cols}, {rows}) of a {W}x{H} canvas raised "
                f"{type(e).__name__}: {e}; case={json.dumps(case)}",
                {"case": case, "rect": [tl, tt, cols, rows], "step": step},
            )
            continue
        is_full = (tl, tt, cols, rows) == (0, 0, W, H)
        traces.append({"tl": tl, "tt": tt, "cols": cols, "rows": rows, "got": got,
                       "announced": announced if is_full else -1})
        meta.append((tl, tt, cols, rows))
    geo = {"W": W, "H": H, "iw": iw, "ih": ih, "step": step,
           "resized": size_after is not None and tuple(size_after) != (iw, ih)}
    return entry, traces, meta, geo


def collect(case, rects, table: RowTable, rep: Report, max_h: int = MAXH, only_step: int = -1):
    """Render one case and record its canvas(es); returns a list of record_canvas results."""
    if case.get("session"):
        return collect_session(case, rects, table, rep, only_step)
    try:
        widget, canvas, announced, later = render_case(case)
    except tlc.MachineryError:
        raise
    except Exception as e:
        rep.violation(
            f"render-raises:{case['style']}:{case['sizing']}:{type(e).__name__}",
            f"UrwidImage.render raised {type(e).__name__}: {e}; case={json.dumps(case)}",
            {"case": case},
        )
        return []
    req = (case["W"], case["H"] if case["sizing"] == "box" else 0)
    r = record_canvas(case, canvas, announced, req, later if case.get("history") else None,
                      rects, table, rep, max_h)
    return [r]


def collect_session(case, rects, table: RowTable, rep: Report, only_step: int = -1):
    """A session: ONE image object, up to two widgets sharing it, a sequence of steps
        ["render", widget index, cols, rows (0 = flow)]   after widget._invalidate()
        ["set_size", width]                               image.set_size(width) by the application
    EVERY freshly rendered canvas is recorded and judged like any other canvas: it must have the
    requested size and every trim of it must equal the crop of its own untrimmed content."""
    from term_image.image import BlockImage, ITerm2Image, KittyImage
    from term_image.widget import UrwidImage, UrwidImageCanvas

    import term_image
    from PIL import Image

    reset_environment()
    stubs.set_identity(case["ident"])
    fg, bg = case["fg_bg"]
    fg_bg = (fg and tuple(fg), bg and tuple(bg))
    cell = None if case["style"] == "block" else tuple(case.get("cell") or CELL)
    stubs.set_term(size=(80, 30), cell=cell, fg_bg=fg_bg)
    rng = random.Random(case["seed"])
    if case.get("broken"):  # sizing works, rendering fails (Pillow can not convert "La")
        img = Image.new("La", tuple(case["src"]))
    else:
        img = imgs.make_image(rng, case["mode"], case["src"][0], case["src"][1], case["pixstyle"])
    cls = {"block": BlockImage, "kitty": KittyImage, "iterm2": ITerm2Image}[case["style"]]
    image = cls(img)
    widgets = [UrwidImage(image, format_spec(case["ha"], case["va"], case["alpha"], case["sargs"]),
                          upscale=case["upscale"]),
               UrwidImage(image, format_spec("<", "^", case["alpha"], case["sargs"]),
                          upscale=case["upscale2"])]
    UrwidImageCanvas._ti_disguise_state = 0
    out = []
    for k, st in enumerate(case["session"]):
        try:
            if st[0] == "set_size":
                image.set_size(st[1])
                continue
            if st[0] == "cell_ratio":  # environment: the global cell ratio changes
                term_image.set_cell_ratio(float(st[1]))
                continue
            if st[0] == "cell_size":  # environment: the terminal's cell size changes
                stubs.set_term(size=(80, 30), cell=(st[1], st[2]), fg_bg=fg_bg)
                continue
            if st[0] == "placeholder":
                UrwidImage._ti_error_placeholder = None
                ph = make_placeholder(st[1])
                if ph is not None:
                    UrwidImage.set_error_placeholder(ph)
                continue
            _, wi, w, h = st
            widget = widgets[wi]
            widget._invalidate()  # a redraw: urwid's canvas cache must not hand back the old canvas
            size = (w, h) if h else (w,)
            announced = widget.rows(size) if not h else -1
            canvas = widget.render(size)
        except tlc.MachineryError:
            raise
        except Exception as e:
            rep.violation(
                f"render-raises:{case['style']}:session:{type(e).__name__}",
                f"step {k} {st} raised {type(e).__name__}: {e}; case={json.dumps(case)}",
                {"case": case, "step": k},
            )
            continue
        foreign = not isinstance(canvas, UrwidImageCanvas)
        if foreign and type(widget)._ti_error_placeholder is None:
            raise tlc.MachineryError(f"render() did not return an UrwidImageCanvas: {type(canvas)}")
        if only_step >= 0 and k != only_step:
            continue
        small = canvas.rows() <= MAXH and canvas.cols() <= MAXW and not foreign
        rr = rects if rects is not None else (None if small else "full")
        out.append(record_canvas(case, canvas, announced, (w, h), None, rr, table, rep,
                                 10**6, step=k, kind="placeholder" if foreign else None))
    reset_environment()
    return out


def canaries(batch):
    """Corrupted copies of recorded traces that Trace_Canvas must reject.

    Returns (trace, clause expected, index of the recorded trace it was derived from); the
    expectation only applies when the recorded trace itself is accepted."""
    rows, traces = batch["rows"], batch["traces"]
    out = []

    def new_row(r):
        rows.append(r)
        return len(rows)

    # 1. one colour component of a recorded row altered
    for base, t in enumerate(traces):
        if batch["canvases"][t["canvas"] - 1]["kind"] != "text":
            continue
        for k, rid in enumerate(t["got"]):
            r = rows[rid - 1]
            idx = [i for i, tok in enumerate(r["toks"])
                   if tok["k"] == "sgr" and len(tok["p"]) == 5 and i + 1 < len(r["toks"])
                   and r["toks"][i + 1]["k"] == "print"]
            if idx:
                r2 = copy.deepcopy(r)
                p = r2["toks"][idx[0]]["p"]
                p[4] = (p[4] + 1) % 256
                t2 = copy.deepcopy(t)
                t2["got"][k] = new_row(r2)
                out.append((t2, "crop-text", base))
                break
        if out:
            break
    # 2. a row dropped
    for base, t in enumerate(traces):
        if len(t["got"]) >= 2:
            t2 = copy.deepcopy(t)
            t2["got"].pop()
            out.append((t2, "row-count-fewer", base))
            break
    # 3. one extra cell at the end of a row
    t = traces[0]
    r2 = copy.deepcopy(rows[t["got"][0] - 1])
    r2["toks"].append(lexer.tok("print", n=1, m=32, g="sp"))
    t2 = copy.deepcopy(t)
    t2["got"][0] = new_row(r2)
    out.append((t2, "columns-beyond", 0))
    # 4. a wrong number of rows announced by a flow widget
    t2 = copy.deepcopy(traces[0])
    t2["announced"] = len(t2["got"]) + 1
    out.append((t2, "flow-rows", 0))
    # 5. a canvas that claims another size than the widget was asked for
    for base, t in enumerate(traces):
        cv = batch["canvases"][t["canvas"] - 1]
        if (t["tl"], t["tt"], t["cols"], t["rows"]) == (0, 0, cv["W"], cv["H"]):
            batch["canvases"].append(dict(cv, reqW=cv["reqW"] + 1))
            out.append((dict(copy.deepcopy(t), canvas=len(batch["canvases"])), "canvas-size", base))
            break
    return out


def check_alignment_universe(rep: Report, res) -> None:
    """Every alignment pair of the model's universe (MC_UrwidCanvas!Aligns, printed by the model:
    explicit near / mid / far and ABSENT per axis) must have been exercised on real canvases:
    accepted, coloured, horizontally trimmed traces of a text box canvas with padding on both
    axes whose widget's format spec gives exactly that pair.  Otherwise the run is vacuous."""
    if rep.violations:
        return
    dumped = res.tagged("ALIGNS")
    if not dumped:
        raise tlc.MachineryError("MC_UrwidCanvas did not print its alignment universe (ALIGNS)")
    known = set(ALIGN_NAME.values())
    universe = [f"{h}/{v}" for h in dumped[0]["h"] for v in dumped[0]["v"]]
    foreign = [a for a in dumped[0]["h"] + dumped[0]["v"] if a not in known]
    if foreign:
        raise tlc.MachineryError(f"the model has alignment values the driver cannot build: {foreign}")
    got = rep.extra.get("accepted_h_trims_of_padded_text_canvases_by_alignment", {})
    missing = [k for k in universe if not got.get(k)]
    if missing:
        raise tlc.MachineryError(
            f"vacuous: no accepted horizontally trimmed trace of a padded text canvas for the "
            f"alignment pairs {missing} of the model's universe")
    rep.extra["alignment_pairs_of_model_universe_exercised"] = len(universe)


def main(rep: Report, replay: dict | None) -> None:
    rep.assumptions += ASSUMPTIONS
    rep.rule = (
        "spec->code: every CalcTrimOp transition of MC_UrwidCanvas replayed into the real "
        "_ti_calc_trim; code->spec: one trace per real content(trim_left, trim_top, cols, rows) "
        "call, every sub-rectangle of every rendered canvas; distinct_nontrivial = distinct "
        "(style, identity, sizing, upscale, h_align, v_align, alpha kind, horizontal cut class, "
        "vertical cut class) among accepted traces whose expected region shows at least one "
        "coloured cell or placement"
    )
    stubs.install()
    t_start = time.time()

    if replay and replay["scenario"].get("kind") == "calc_trim":
        from term_image.widget import UrwidImageCanvas

        args = replay["scenario"]["args"]
        got = UrwidImageCanvas._ti_calc_trim(*args)
        print(f"_ti_calc_trim{tuple(args)} -> {got}")
    if replay and replay["scenario"].get("kind") in ("calc_trim", "design"):
        model_and_replay(rep, run_model(rep.tier))
        return
    pool = ThreadPoolExecutor(max_workers=1)
    # the model run overlaps with rendering/recording; a content replay does not need it
    mc_future = None if replay else pool.submit(run_model, rep.tier)
    try:
        traces_part(rep, replay, t_start)
        if mc_future is not None:
            res, _ = model_and_replay(rep, mc_future.result())
            check_alignment_universe(rep, res)
    finally:
        pool.shutdown()


def traces_part(rep: Report, replay: dict | None, t_start: float) -> None:

    rng = random.Random(rep.seed * 104729 + 17)
    budget = 17500 if rep.tier == "quick" else 10**9
    batch_target = 2200
    batches, metas = [], []
    cur = None
    used = skipped = 0

    def new_batch():
        return {"rows": None, "canvases": [], "traces": [], "_table": RowTable(), "_meta": []}

    if replay:
        sc = replay["scenario"]
        plan = [(sc["case"], [tuple(sc["rect"])] if "rect" in sc else None)]
    else:
        plan = itertools.chain(((c, "full") for c in gen_flow_sweep(rng, rep.tier)),
                               ((c, None) for c in gen_sessions(rng, rep.tier)),
                               ((c, None) for c in gen_cases(rng, rep.tier)))

    ncanv = 0
    for case, rects in plan:
        if used >= budget:
            break
        if cur is None:
            cur = new_batch()
        results = collect(case, rects, cur["_table"], rep,
                          max_h=MAXH if rects is None else SWEEP_MAX_H,
                          only_step=replay["scenario"].get("step", -1) if replay else -1)
        for r in results:
            if r is None:
                continue
            if r == "big":
                skipped += 1
                continue
            entry, traces, meta, geo = r
            cur["canvases"].append(entry)
            ci = len(cur["canvases"])
            for t, m in zip(traces, meta):
                t["canvas"] = ci
                cur["traces"].append(t)
                cur["_meta"].append((case, m, geo))
            used += len(traces)
            ncanv += 1
            if ncanv <= 3:
                rep.sample({"case": case, "canvas": [geo["W"], geo["H"]],
                            "image": [geo["iw"], geo["ih"]], "trims": len(traces)})
        if len(cur["traces"]) >= batch_target:
            batches.append(cur)
            cur = None
    if cur is not None and cur["traces"]:
        batches.append(cur)
    if not batches:
        if rep.violations:  # e.g. a replayed content() call that raises: already reported
            return
        raise tlc.MachineryError("no canvas could be recorded")
    t_render = time.time() - t_start

    # corrupted traces the spec must reject (appended to the first batch)
    first = batches[0]
    first["rows"] = first["_table"].rows
    ncan = 0
    expected_canary = []
    if not replay:
        for t2, clause, base in canaries(first):
            first["traces"].append(t2)
            first["_meta"].append(None)
            expected_canary.append((len(first["traces"]) - 1, clause, base))
    payload = []
    for b in batches:
        payload.append({"rows": b["_table"].rows, "canvases": b["canvases"], "traces": b["traces"]})
    verdict_lists, st, tr = validate(payload, parallel=8, workers=2)
    rep.states += st
    rep.transitions += tr

    for idx, clause, base in expected_canary:
        v = verdict_lists[0][idx]
        if verdict_lists[0][base]["verdict"] != "ok":
            continue  # the recorded trace is itself rejected (reported below): nothing to learn
        if not v["verdict"].startswith(clause):
            raise tlc.MachineryError(
                f"corrupted trace ({clause}) was not rejected as such: verdict {v['verdict']!r}")
        ncan += 1
    rep.extra["corrupted_traces_rejected"] = ncan

    classes = set()
    coloured_traces = 0
    seen = {"text-horizontal-cut-inside-image": 0, "gfx-vertical-trim-with-placements": 0,
            "gfx-horizontal-trim": 0, "flow-canvas": 0, "box-canvas": 0,
            "gfx-flow-at-original-columns-of-non-multiple-source": 0,
            "text-cut-of-kept-canvas-after-image-resized": 0,
            "box-canvas-redrawn-at-unchanged-size-after-image-resized": 0,
            "flow-canvas-after-environment-change": 0, "placeholder-canvas-flow": 0,
            "placeholder-canvas-box": 0}
    # accepted, coloured, horizontally trimmed traces of padded text box canvases per alignment
    # pair (names of UrwidCanvas!AlignValues): must cover the model's alignment universe
    by_align: dict[str, int] = {}
    for b, vs in zip(batches, verdict_lists):
        for meta, v, trace in zip(b["_meta"], vs, b["traces"]):
            if meta is None:
                continue
            tr_got = trace["got"]
            case, (tl, tt, cols, rows), geo = meta
            rep.traces_validated += 1
            W, H, iw, ih = geo["W"], geo["H"], geo["iw"], geo["ih"]
            if v["verdict"] == "ok":
                gfx = case["style"] != "block"
                if (tl, tt, cols, rows) == (0, 0, W, H) and geo["step"] >= 0:
                    steps = case["session"]
                    me = steps[geo["step"]]
                    if not me[3] and any(st[0] in ("cell_ratio", "cell_size")
                                         for st in steps[:geo["step"]]):
                        seen["flow-canvas-after-environment-change"] += 1
                    if case.get("broken"):
                        seen["placeholder-canvas-box" if me[3] else "placeholder-canvas-flow"] += 1
                if (tl, tt, cols, rows) == (0, 0, W, H) and geo["step"] > 0:
                    steps = case["session"]
                    me = steps[geo["step"]]
                    if me[3] and any(st == me for st in steps[:geo["step"] - 1]):
                        seen["box-canvas-redrawn-at-unchanged-size-after-image-resized"] += 1
                if (tl, tt, cols, rows) == (0, 0, W, H):
                    seen["flow-canvas" if case["sizing"] == "flow" else "box-canvas"] += 1
                if (gfx and case["sizing"] == "flow" and not case["upscale"] and case.get("cell")
                        and case["src"][0] % case["cell"][0] and W == case["src"][0] // case["cell"][0]):
                    seen["gfx-flow-at-original-columns-of-non-multiple-source"] += 1
                if gfx and (tl or cols != W):
                    seen["gfx-horizontal-trim"] += 1
                if gfx and not (tl or cols != W) and rows < H and v["coloured"] > 0:
                    seen["gfx-vertical-trim-with-placements"] += 1
                if v["coloured"] > 0:
                    coloured_traces += 1
                    padl = {"<": 0, ">": W - iw}.get(case["ha"], (W - iw) // 2)
                    padt = {"^": 0, "_": H - ih}.get(case["va"], (H - ih) // 2)
                    hc = cut_class(W, iw, padl, tl, W - tl - cols)
                    vc = cut_class(H, ih, padt, tt, H - tt - rows)
                    key = (case["style"], case["ident"], case["sizing"], case["upscale"], case["ha"],
                           case["va"], case["alpha"], hc, vc)
                    classes.add((case["ha"], case["va"], hc, vc))
                    if (not gfx and case["sizing"] == "box" and W > iw and H > ih
                            and (tl or cols != W) and not case.get("session")):
                        k = f"{ALIGN_NAME[case['ha']]}/{ALIGN_NAME[case['va']]}"
                        by_align[k] = by_align.get(k, 0) + 1
                    if not gfx and "image" in hc:
                        seen["text-horizontal-cut-inside-image"] += 1
                        if geo["resized"]:
                            seen["text-cut-of-kept-canvas-after-image-resized"] += 1
                    rep.distinct.add(key)
                continue
            clause = v["verdict"].split(":")[0]
            if v["verdict"].startswith(("unsupported", "tight-unsupported")):
                bad = [b["_table"].malformed[r] for r in tr_got if r in b["_table"].malformed]
                if not bad:
                    raise tlc.MachineryError(
                        f"Trace_Canvas: {v['verdict']} for {case} rect {(tl, tt, cols, rows)}")
                clause = "malformed-sequence"
                v = dict(v, verdict=f"malformed-sequence: a trimmed row contains {bad[0][:2]}, which no "
                                    "row of the untrimmed canvas contains (a control sequence was cut)")
            elif v["verdict"].startswith("bad-trace"):
                raise tlc.MachineryError(
                    f"Trace_Canvas: {v['verdict']} for {case} rect {(tl, tt, cols, rows)}")
            trim = ("h" if tl or cols != W else "") + ("v" if tt or rows != H else "") or "untrimmed"
            api = "UrwidImage.rows" if clause == "flow-rows" else "UrwidImageCanvas.content"
            rep.violation(
                f"{api}:{case['style']}:{clause}:{trim}{absent_suffix(case)}",
                f"clause {v['verdict']!r} failed at row {v['at']} of content(trim_left={tl}, "
                f"trim_top={tt}, cols={cols}, rows={rows}) on a {W}x{H} canvas (image {iw}x{ih}, "
                f"{case['sizing']}, h_align {case['ha']!r}, v_align {case['va']!r}); "
                f"case={json.dumps(case)}",
                {"case": case, "rect": [tl, tt, cols, rows], "step": geo["step"]},
            )
    rep.extra["accepted_by_kind"] = seen
    rep.extra["accepted_h_trims_of_padded_text_canvases_by_alignment"] = dict(sorted(by_align.items()))
    if not replay and not rep.violations:
        empty = [k for k, n in seen.items() if n == 0]
        if empty:
            raise tlc.MachineryError(f"vacuous: no accepted trace of kind {empty}")
    rep.extra["canvases"] = ncanv
    rep.extra["canvases_skipped_too_big"] = skipped
    rep.extra["trims_with_coloured_expectation"] = coloured_traces
    rep.extra["alignment_x_cut_classes_seen"] = len(classes)
    rep.extra["distinct_rows_lexed"] = sum(len(b["_table"].rows) for b in batches)
    rep.extra["render_record_s"] = round(t_render, 1)
    rep.exhaustive = False
