--------------------------- MODULE MC_RenderData ---------------------------
(***************************************************************************)
(* Exhaustive model of RenderData.tla: the COMPLETE reachable state graph   *)
(* (no history bound: the state is the finite valuation of all fields) of   *)
(* one set of render data per (tree, class) case; one named action per API  *)
(* operation and outcome.  update(fields..) is explored with known-only,     *)
(* unknown-only and mixed field lists in both orders (keyword order is      *)
(* preserved by Python).  Every edge is dumped and replayed on a real set.  *)
(***************************************************************************)
EXTENDS RenderData, TLC, Json

CONSTANTS Sel, DumpEdges

Chain3 == <<0, 1, 2>>
Fork3 == <<0, 1, 1>>
Case(par, has, cls) == [t |-> [par |-> par, has |-> has], cls |-> cls]
CasesQuick ==
  <<Case(Chain3, {1, 2, 3}, 3), Case(Chain3, {1, 2, 3}, 2), Case(Chain3, {1, 3}, 3),
    Case(Fork3, {1, 2}, 2), Case(Chain3, {2}, 1)>>
CasesThorough ==
  CasesQuick \o
  <<Case(Chain3, {1, 2, 3}, 1), Case(Chain3, {2, 3}, 3), Case(Fork3, {1, 2, 3}, 3),
    Case(<<0, 1, 2, 3>>, {1, 2, 4}, 4), Case(<<0, 1, 1, 2>>, {1, 2, 3, 4}, 4),
    Case(<<0, 0, 1, 2>>, {1, 2, 3, 4}, 4)>>
Cases == IF Sel = "quick" THEN CasesQuick ELSE CasesThorough

VARIABLES cs, d, out
vars == <<cs, d, out>>
View == <<cs, d>>

T == Cases[cs].t
Cls == Cases[cs].cls
Owners == AMRO(T, Cls)

\* keyword lists: fields 1..3 (3 is never a field; 2 is unknown for one-field classes and is
\* a field of OTHER classes of the hierarchy), order significant
KW ==
  {<<>>} \cup {<<<<f, x>>>> : f \in 1..3, x \in {0, 1}}
  \cup {kw \in {<<<<f, x>>, <<g, 1 - x>>>> : f \in 1..3, g \in 1..3, x \in {0, 1}} :
          kw[1][1] # kw[2][1]}
  \cup {<<<<1, 1>>, <<3, 0>>, <<2, 0>>>>, <<<<3, 1>>, <<2, 1>>, <<1, 0>>>>}

MkOp(name, k, f, v, kw) == [op |-> name, k |-> k, f |-> f, v |-> v, kw |-> kw]

Do(op, exc) ==
  LET e == DExpected(T, Cls, d, op) IN
  /\ e.exc = exc
  /\ d' = e.d2
  /\ cs' = cs
  /\ out' = [op |-> op, exc |-> e.exc, ret |-> e.ret]

Init ==
  /\ cs \in 1..Len(Cases)
  /\ d = Fresh(Cases[cs].t, Cases[cs].cls)
  /\ out = [op |-> MkOp("Init", 0, 0, 0, <<>>), exc |-> "", ret |-> <<>>]

RdGetItem == \E c \in 0..NCls(T) : Do(MkOp("GetItem", c, 0, 0, <<>>), "")
RdGetItemNoNamespace == \E c \in 0..NCls(T) : Do(MkOp("GetItem", c, 0, 0, <<>>), "NoDataNamespaceError")
RdGetItemNotAncestor == \E c \in 0..NCls(T) : Do(MkOp("GetItem", c, 0, 0, <<>>), "ValueError")
RdUpdate == \E k \in Owners, kw \in KW : Do(MkOp("Update", k, 0, 0, kw), "")
RdUpdateRejected == \E k \in Owners, kw \in KW : Do(MkOp("Update", k, 0, 0, kw), "UnknownDataFieldError")
RdSet == \E k \in Owners, f \in 1..3, v \in {0, 1} : Do(MkOp("Set", k, f, v, <<>>), "")
RdSetUnknown == \E k \in Owners, f \in 1..3, v \in {0, 1} : Do(MkOp("Set", k, f, v, <<>>), "UnknownDataFieldError")
RdGet == \E k \in Owners, f \in 1..3 : Do(MkOp("Get", k, f, 0, <<>>), "")
RdGetUnknown == \E k \in Owners, f \in 1..3 : Do(MkOp("Get", k, f, 0, <<>>), "UnknownDataFieldError")
RdGetUninitialized == \E k \in Owners, f \in 1..3 : Do(MkOp("Get", k, f, 0, <<>>), "UninitializedDataFieldError")
RdDel == \E k \in Owners, f \in 1..2 : Do(MkOp("Del", k, f, 0, <<>>), "AttributeError")
RdAsDict == \E k \in Owners : Do(MkOp("AsDict", k, 0, 0, <<>>), "")
RdAsDictUninitialized == \E k \in Owners : Do(MkOp("AsDict", k, 0, 0, <<>>), "UninitializedDataFieldError")
RdGetFields == \E k \in Owners : Do(MkOp("GetFields", k, 0, 0, <<>>), "")

Next ==
  \/ RdGetItem \/ RdGetItemNoNamespace \/ RdGetItemNotAncestor \/ RdUpdate \/ RdUpdateRejected \/ RdSet
  \/ RdSetUnknown \/ RdGet \/ RdGetUnknown \/ RdGetUninitialized \/ RdDel \/ RdAsDict \/ RdAsDictUninitialized
  \/ RdGetFields
Spec == Init /\ [][Next]_vars

(* ---- the rules ------------------------------------------------------------- *)
\* a rejected operation leaves every field of every namespace unchanged
RejectedHasNoEffect == [][out'.exc # "" => d' = d]_vars
\* reads never write
ReadsHaveNoEffect == [][out'.op.op \in {"GetItem", "Get", "AsDict", "GetFields", "Del"} => d' = d]_vars
\* an accepted write changes only the named fields of the target namespace, to the given values
WritesAreExact ==
  [][out'.exc = "" /\ out'.op.op \in {"Update", "Set"} =>
       LET op == out'.op
           named == IF op.op = "Set" THEN {op.f} ELSE {op.kw[i][1] : i \in DOMAIN op.kw}
       IN /\ \A k \in 1..NCls(T) : k # op.k => d'[k] = d[k]
          /\ \A f \in 1..NF(op.k) : f \notin named => d'[op.k][f] = d[op.k][f]
          /\ op.op = "Set" => d'[op.k][op.f] = op.v
          /\ op.op = "Update" => \A i \in DOMAIN op.kw : d'[op.k][op.kw[i][1]] = op.kw[i][2]]_vars
\* a field never becomes uninitialized again
NeverUninitialized == [][\A k \in Owners : \A f \in 1..NF(k) : d[k][f] # U => d'[k][f] # U]_vars
TypeOK == \A k \in 1..NCls(T) : IF k \in Owners THEN d[k] \in [1..NF(k) -> {0, 1, U}] ELSE d[k] = <<>>

Dump ==
  DumpEdges =>
    PrintT(<<"DEDGE", ToJson(<<cs, d, <<out'.op.op, out'.op.k, out'.op.f, out'.op.v, out'.op.kw>>,
                               out'.exc, out'.ret, d'>>)>>)
RECURSIVE S2Q(_)
S2Q(S) == IF S = {} THEN <<>> ELSE LET x == CHOOSE y \in S : TRUE IN <<x>> \o S2Q(S \ {x})
ASSUME \A i \in 1..Len(Cases) :
  PrintT(<<"DCASE", ToJson([cs |-> i, par |-> Cases[i].t.par, has |-> S2Q(Cases[i].t.has),
                            cls |-> Cases[i].cls, init |-> Fresh(Cases[i].t, Cases[i].cls)])>>)
=============================================================================
