SPECIFICATION TableSpec
CONSTANTS
  Rich = TRUE
  MaxWeight = 0
  PrevByRoute = FALSE
VIEW View
INVARIANT DefaultsAreAccepted
INVARIANT MethodNoneIsRefused
INVARIANT ZRangeFormulationsAgree
INVARIANT ZRangeBoundaries
INVARIANT VerdictIsTotal
INVARIANT OrderIrrelevant
INVARIANT NormalisationPreservesMeaning
INVARIANT CaseInsensitive
INVARIANT RoutesAgree
INVARIANT SetAndOverrideAgree
CHECK_DEADLOCK FALSE
