"""Bytes/str -> token events, following the parser rules specified in specs/VT.tla.

The lexer is deliberately dumb: it classifies, it never judges.  Every token is a dict
with the same keys (TLC records need uniform fields):

    k   kind (string)
    n   first integer parameter  (-1 = absent)
    m   second integer parameter (-1 = absent)
    g   string parameter ("" = absent)
    p   list of integers (SGR parameters, ...)
    x   index into the ``gfx`` list of the token stream (graphics commands), else 0

Parser rules (VT.tla): C0 controls execute in ground and inside CSI; ESC inside a CSI
aborts it and starts a new sequence; CAN/SUB abort; string-type sequences (OSC, APC,
DCS, PM, SOS) end only at ST (``ESC \\``) - OSC also at BEL.  Inside a string, ``ESC x``
with x != ``\\`` is swallowed (conservative reading: the library's own documentation
says a terminal "consumes any output following until ST is written").

Unknown things are reported as tokens of kind ``unknown`` - callers treat them as
machinery errors, never skip them.
"""

from __future__ import annotations

import re
import unicodedata
from dataclasses import dataclass, field

GROUND, ESC, CSI, STR, STR_ESC, SCS = "ground", "esc", "csi", "str", "stresc", "scs"

UP, LO = "▀", "▄"

I32_MIN, I32_MAX = -(2**31), 2**31 - 1


def tok(k, n=-1, m=-1, g="", p=None, x=0):
    return {"k": k, "n": n, "m": m, "g": g, "p": list(p or []), "x": x}


def glyph_class(ch: str) -> str:
    if ch == " ":
        return "sp"
    if ch == UP:
        return "up"
    if ch == LO:
        return "lo"
    return "ch"


@dataclass
class Stream:
    toks: list = field(default_factory=list)
    gfx: list = field(default_factory=lambda: [GFX_NONE.copy()])  # index 0 = dummy
    end_state: str = GROUND
    str_kind: str = ""  # which string was open at the end

    def as_json(self):
        return {"toks": self.toks, "gfx": self.gfx}


GFX_NONE = {
    "proto": "",  # "kitty" | "iterm2"
    "a": "",
    "f": -1,
    "t": "",
    "s": -1,
    "v": -1,
    "z": 0,
    "zset": False,
    "zok": True,
    "o": "",
    "C": -1,
    "c": -1,
    "r": -1,
    "m": -1,
    "q": -1,
    "d": "",
    "i": -1,
    "x0": 0,  # filled by Terminal.tla: gfx index of the first chunk of a chunked transfer
    "keys": [],  # control keys present, in order
    "nkeys": 0,
    "b64len": 0,
    "b64ok": True,
    # iterm2
    "size": -1,
    "width": "",
    "height": "",
    "par": -1,
    "inline": -1,
    "dnmc": -1,
    "wcells": -1,
    "hcells": -1,
    # projections filled in by project.py (dumb decoding, no judgement)
    "dlen": -1,  # decoded base64 length of the assembled transmission
    "ilen": -1,  # length after inflating (kitty o=z) / -1
    "imgw": -1,  # decoded image size (iterm2 payload)
    "imgh": -1,
    "kind": "",  # "png" | "jpeg" | "gif" | "webp" | "file" | "raw" | "bad"
    "rows_lo": -1,
    "rows_hi": -1,
    "pix": -1,  # 1 = pixels equal reference rows [rows_lo, rows_hi), 0 = differ, -1 = n/a
}

_B64 = re.compile(r"^[A-Za-z0-9+/]*={0,2}$")


def _int(s: str, default=-1):
    try:
        return int(s)
    except ValueError:
        return default


def parse_kitty(body: str, payloads: list | None = None) -> dict:
    """body = text between ``ESC _ G`` and ST."""
    rec = GFX_NONE.copy()
    rec["proto"] = "kitty"
    control, sep, payload = body.partition(";")
    keys = []
    for item in control.split(",") if control else []:
        key, eq, val = item.partition("=")
        keys.append(key)
        if key in ("f", "s", "v", "C", "c", "r", "m", "q", "i"):
            rec[key] = _int(val, -2)
        elif key in ("a", "t", "o", "d"):
            rec[key] = val
        elif key == "z":
            z = _int(val, None)
            rec["zset"] = True
            if z is None or not I32_MIN <= z <= I32_MAX:
                rec["zok"] = False
                rec["z"] = 0
            else:
                rec["z"] = z
        else:
            rec.setdefault("other", []).append(key)
    rec["keys"] = keys
    rec["nkeys"] = len(keys)
    rec["b64len"] = len(payload)
    rec["b64ok"] = bool(_B64.match(payload))
    if payloads is not None:
        payloads.append(payload)
    rec.pop("other", None)
    return rec


def parse_iterm(body: str, payloads: list | None = None) -> dict:
    """body = text between ``ESC ] 1337;File=`` and ST."""
    rec = GFX_NONE.copy()
    rec["proto"] = "iterm2"
    control, sep, payload = body.partition(":")
    keys = []
    for item in control.split(";") if control else []:
        key, eq, val = item.partition("=")
        keys.append(key)
        if key == "size":
            rec["size"] = _int(val, -2)
        elif key == "width":
            rec["width"] = val
            rec["wcells"] = _int(val, -2)
        elif key == "height":
            rec["height"] = val
            rec["hcells"] = _int(val, -2)
        elif key == "preserveAspectRatio":
            rec["par"] = _int(val, -2)
        elif key == "inline":
            rec["inline"] = _int(val, -2)
        elif key == "doNotMoveCursor":
            rec["dnmc"] = _int(val, -2)
    rec["keys"] = keys
    rec["nkeys"] = len(keys)
    rec["b64len"] = len(payload)
    rec["b64ok"] = bool(_B64.match(payload)) and bool(sep)
    if payloads is not None:
        payloads.append(payload)
    return rec


def _csi_token(params: str, inter: str, final: str):
    priv = ""
    if params and params[0] in "<=>?":
        priv, params = params[0], params[1:]
    if ":" in params and final == "m" and not priv:
        # colon sub-parameters: 38:2::r:g:b
        nums = [_int(x, 0) if x else -1 for x in re.split(r"[;:]", params)]
        return tok("sgr", p=[x for x in nums], g="colon")
    plist = [(_int(x, -2) if x else -1) for x in params.split(";")] if params else []
    if any(x == -2 for x in plist):
        return tok("unknown", g=f"CSI {priv}{params}{inter}{final}")
    first = plist[0] if plist else -1
    second = plist[1] if len(plist) > 1 else -1
    if inter:
        return tok("unknown", g=f"CSI {priv}{params}{inter}{final}")
    if not priv:
        simple = {
            "A": "cuu", "B": "cud", "C": "cuf", "D": "cub", "X": "ech", "K": "el",
            "J": "ed", "@": "ich", "P": "dch", "G": "cha", "d": "vpa", "E": "cnl", "F": "cpl",
            "S": "su", "T": "sd", "L": "il", "M": "dl",
        }
        if final in simple:
            return tok(simple[final], n=first)
        if final in "Hf":
            return tok("cup", n=first, m=second)
        if final == "m":
            return tok("sgr", p=[0 if x == -1 else x for x in plist] or [0])
        if final == "c":
            return tok("da1", n=first)
        if final == "t":
            return tok("xtwinops", n=first, p=plist)
        if final == "r":
            return tok("decstbm", n=first, m=second)
        if final in "hl":
            return tok("sm" if final == "h" else "rm", n=first)
    elif priv == "?" and final in "hl":
        return tok("decset" if final == "h" else "decrst", n=first, p=plist)
    elif priv == ">" and final == "q":
        return tok("xtversion")
    return tok("unknown", g=f"CSI {priv}{params}{inter}{final}")


def lex(data: str, *, state: str = GROUND, keep_payloads: bool = False):
    """Lex ``data``; returns a :class:`Stream` (with ``payloads`` attribute if asked)."""
    st = Stream()
    payloads: list | None = [""] if keep_payloads else None
    toks = st.toks
    i, n = 0, len(data)
    params = inter = ""
    sbuf: list[str] = []
    skind = ""

    def flush_string():
        body = "".join(sbuf)
        if skind == "apc" and body.startswith("G"):
            st.gfx.append(parse_kitty(body[1:], payloads))
            toks.append(tok("kitty", x=len(st.gfx) - 1))
        elif skind == "osc" and body.startswith("1337;File="):
            st.gfx.append(parse_iterm(body[len("1337;File="):], payloads))
            toks.append(tok("iterm", x=len(st.gfx) - 1))
        elif skind == "osc":
            num, _, rest = body.partition(";")
            toks.append(tok("osc", n=_int(num), g=rest[:64]))
        else:
            toks.append(tok(skind, g=body[:64]))

    def c0(ch):
        o = ord(ch)
        if ch == "\n":
            toks.append(tok("lf"))
        elif ch == "\r":
            toks.append(tok("cr"))
        elif ch == "\b":
            toks.append(tok("bs"))
        elif ch == "\0":
            toks.append(tok("nul"))
        elif ch == "\x07":
            toks.append(tok("bel"))
        elif ch in "\x0e\x0f":
            toks.append(tok("shift", n=o))
        elif ch == "\t":
            toks.append(tok("tab"))
        else:
            toks.append(tok("unknown", g=f"C0 {o:#x}"))

    while i < n:
        ch = data[i]
        if state == GROUND:
            if ch == "\x1b":
                state = ESC
            elif ch < " " or ch == "\x7f":
                if ch != "\x7f":
                    c0(ch)
            else:
                j = i + 1
                while j < n and data[j] == ch:
                    j += 1
                w = unicodedata.east_asian_width(ch)
                if w in "WF" or unicodedata.combining(ch):
                    toks.append(tok("unknown", g=f"wide/combining U+{ord(ch):04X}"))
                else:
                    toks.append(tok("print", n=j - i, m=ord(ch), g=glyph_class(ch)))
                i = j
                continue
        elif state == ESC:
            if ch == "[":
                state, params, inter = CSI, "", ""
            elif ch in "]_P^X":
                state = STR
                skind = {"]": "osc", "_": "apc", "P": "dcs", "^": "pm", "X": "sos"}[ch]
                sbuf = []
            elif ch == "\\":
                toks.append(tok("st"))
                state = GROUND
            elif ch in "()*+":
                state = SCS
                params = ch
            elif ch == "\x1b":
                state = ESC
            elif ch in "\x18\x1a":
                state = GROUND
            elif ch < " ":
                c0(ch)
            elif ch in "78=>McDEH":
                toks.append(tok("esc", g=ch))
                state = GROUND
            else:
                toks.append(tok("unknown", g=f"ESC {ch!r}"))
                state = GROUND
        elif state == SCS:
            toks.append(tok("scs", g=params + ch))
            state = GROUND
        elif state == CSI:
            o = ord(ch)
            if ch == "\x1b":
                toks.append(tok("abort", g="csi"))
                state = ESC
            elif ch in "\x18\x1a":
                toks.append(tok("abort", g="csi"))
                state = GROUND
            elif o < 0x20:
                c0(ch)
            elif 0x30 <= o <= 0x3F:
                params += ch
            elif 0x20 <= o <= 0x2F:
                inter += ch
            elif 0x40 <= o <= 0x7E:
                toks.append(_csi_token(params, inter, ch))
                state = GROUND
            else:
                toks.append(tok("unknown", g=f"CSI byte {o:#x}"))
                state = GROUND
        elif state == STR:
            if ch == "\x1b":
                state = STR_ESC
            elif ch == "\x07" and skind == "osc":
                flush_string()
                state = GROUND
            else:
                sbuf.append(ch)
        elif state == STR_ESC:
            if ch == "\\":
                flush_string()
                state = GROUND
            elif ch == "\x1b":
                sbuf.append("\x1b")
            else:
                sbuf.append("\x1b")
                sbuf.append(ch)
                state = STR
        i += 1

    st.end_state = state
    if state != GROUND:
        st.str_kind = skind if state in (STR, STR_ESC) else ""
        toks.append(tok("partial", g=state if state not in (STR, STR_ESC) else f"{state}:{skind}"))
    if keep_payloads:
        st.payloads = payloads  # type: ignore[attr-defined]
    return st


def unknowns(stream: Stream) -> list[str]:
    return [t["g"] for t in stream.toks if t["k"] == "unknown"]
