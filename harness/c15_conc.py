"""C15 spec -> code for TermCacheConc.tla: the settings toggles racing with get_cell_size().

A world = one loaded copy of ``term_image/utils.py`` (hooked globals, instrumented cell-size
lock: ``env/sched.py``) plus one executed copy of ``term_image/__init__.py`` whose ``utils`` name is
a proxy onto that copy: reading / assigning ``utils._swap_win_size`` / ``utils._queries_enabled``
and reading ``utils._cell_size_lock`` are scheduling points, as are acquire / release of the lock,
``get_terminal_size()`` and the ``TIOCGWINSZ`` ioctl inside the REAL ``get_cell_size``.  The REAL
``enable_win_size_swap`` / ``disable_win_size_swap`` / ``enable_queries`` run in one thread, the
REAL ``get_cell_size`` in the others, scheduled step by step as a TLC behaviour prescribes.
At quiescence the real ``get_cell_size()`` is called once more; its value must be in the set
TLC computed for that state (``TermCacheCore!AllowedCells`` for the current settings).

If the code does not follow the specified statement order, the real code is additionally
explored on its own (every schedule of the same threads, bounded) for a quiescent state whose
cell size is not allowed, so that the report shows the stale value, not only the reordering.
"""

from __future__ import annotations

import builtins
import os
import warnings

from .env import sched
from .tlc import MachineryError

EXPECT = {
    "RF": "read-flag", "WF": "write-flag", "RL": "read", "AQ": "acquire", "REL": "release",
    "ReadA": "read", "AcqA": "acquire", "ReadB": "read", "AcqB": "acquire",
    "TS": "body", "IO": "reply", "RQ": "read-flag", "FL": "read-flag", "RelB": "release", "RelA": "release",
}
FLAGS = ("_swap_win_size", "_queries_enabled")
_INIT_CODE: dict = {}


class Divergence(Exception):
    def __init__(self, what, detail):
        super().__init__(detail)
        self.what, self.detail = what, detail


class UtilsProxy:
    """Stands for the module object ``term_image.utils`` inside the copy of ``__init__.py``."""

    def __init__(self, g, ctl):
        object.__setattr__(self, "_g", g)
        object.__setattr__(self, "_ctl", ctl)

    def __getattr__(self, name):
        g, ctl = self._g, self._ctl
        if name in FLAGS and ctl.scheduling("flag"):
            ctl.park("read-flag", name)
        elif name == "_cell_size_lock" and ctl.scheduling("cell"):
            ctl.park("read", name)
        return dict.__getitem__(g, name)

    def __setattr__(self, name, value):
        g, ctl = self._g, self._ctl
        if name in FLAGS and ctl.scheduling("flag"):
            ctl.park("write-flag", name)
        dict.__setitem__(g, name, value)


class _Termios:
    ECHO, ICANON, TCSAFLUSH, TCSANOW, VMIN, VTIME = 8, 2, 2, 0, 6, 5
    TIOCGWINSZ = 0x5413
    error = OSError

    @staticmethod
    def tcgetattr(fd):
        return [0, 0, 0, 0, 0, 0, [b"\0"] * 32]

    @staticmethod
    def tcsetattr(fd, when, attr):
        return None

    @staticmethod
    def tcdrain(fd):
        return None


def load_init_copy(name: str, g: dict, ctl) -> dict:
    import term_image

    path = term_image.__file__
    if path not in _INIT_CODE:
        with open(path) as f:
            _INIT_CODE[path] = compile(f.read(), path, "exec")
    g2 = {"__name__": f"term_image.{name}", "__package__": "term_image", "__file__": path,
          "__builtins__": builtins}
    with warnings.catch_warnings():
        warnings.simplefilter("ignore")
        exec(_INIT_CODE[path], g2)
    for need in ("enable_win_size_swap", "disable_win_size_swap", "enable_queries", "utils"):
        if need not in g2:
            raise MachineryError(f"seam term_image.{need} is missing")
    g2["utils"] = UtilsProxy(g, ctl)
    g2["get_cell_size"] = g["get_cell_size"]
    return g2


class World:
    def __init__(self, config: dict, uid: int):
        self.cfg = config
        env = self.env = config["env"]
        ctl = self.ctl = sched.Controller(groups=["cell", "flag"])
        g = self.g = sched.load_utils_copy(f"utils__c15conc_{uid}", ctl)
        sched.install_locks(g, ctl, "c")
        self.g2 = load_init_copy(f"init__c15conc_{uid}", g, ctl)
        self.results: dict[int, list] = {}

        def get_terminal_size():
            if ctl.cur() is not None and not ctl.aborting:
                ctl.park("body")
            return os.terminal_size((env["cols"], env["rows"]))

        class Fcntl:
            @staticmethod
            def ioctl(fd, req, buf, *a):
                if ctl.cur() is not None and not ctl.aborting:
                    ctl.park("reply")
                px = (env["xpx"], env["ypx"]) if env["iopx"] else (0, 0)
                buf[0], buf[1], buf[2], buf[3] = env["rows"], env["cols"], px[0], px[1]
                return 0

        reply = b"\x1b[4;%d;%dt\x1b[?62;c" % (env["ypx"], env["xpx"])
        g["get_terminal_size"] = get_terminal_size
        g["fcntl"] = Fcntl
        g["termios"] = _Termios
        g["_tty_fd"] = 99  # never used for I/O: termios, ioctl, write_tty, read_tty are stand-ins
        g["write_tty"] = lambda data: None
        g["read_tty"] = lambda *a, **k: reply
        dict.__setitem__(g, "_swap_win_size", config["swap0"])
        dict.__setitem__(g, "_queries_enabled", config["queries0"])
        dict.__getitem__(g, "_cell_size_cache")[:] = list(config["cache0"])
        self.nthreads = len(config["prog"])
        for t in range(1, self.nthreads + 1):
            ctl.spawn(t, self._program(t))
        for t in range(1, self.nthreads + 1):
            ctl.resume(t)

    def _program(self, t):
        kind = self.cfg["prog"][t - 1]
        fn = {"EnableSwap": "enable_win_size_swap", "DisableSwap": "disable_win_size_swap",
              "EnableQueries": "enable_queries"}.get(kind)

        def run():
            if fn:
                self.g2[fn]()
            else:
                s = self.g["get_cell_size"]()
                self.results.setdefault(t, []).append([0, 0] if s is None else [int(s[0]), int(s[1])])

        return run

    # -- observations ---------------------------------------------------------------------
    def blocked(self):
        return {t for t, mt in self.ctl.threads.items()
                if mt.at and mt.at[0] in ("acquire", "blocked") and not mt.at[1].free_for(mt)}

    def all_done(self):
        return all(mt.done for mt in self.ctl.threads.values())

    def quiescent_value(self):
        """get_cell_size() once more, from the controlling thread (no scheduling points)."""
        s = self.g["get_cell_size"]()
        return [0, 0] if s is None else [int(s[0]), int(s[1])]

    def flags(self):
        return {"swap": dict.__getitem__(self.g, "_swap_win_size"), "queries": dict.__getitem__(self.g, "_queries_enabled")}

    def step(self, op):
        t, act = op["t"], op["act"]
        mt = self.ctl.threads[t]
        have = mt.at[0] if mt.at else None
        if mt.done or have != EXPECT[act]:
            raise Divergence(f"{act}:at-{have}",
                             f"specified statement of thread {t} ({self.cfg['prog'][t - 1]}): {act} "
                             f"({EXPECT[act]}); the real thread is at {have!r}"
                             + (f" ({mt.at[1]})" if mt.at and isinstance(mt.at[1], str) else ""))
        at = self.ctl.resume(t)
        if mt.error is not None:
            raise Divergence(f"{act}:raised", f"{act} by thread {t}: {mt.error!r}\n{mt.error_tb[-400:]}")
        if at[0] == "blocked":
            raise Divergence(f"{act}:blocked", f"{act} by thread {t} blocks on {at[1]!r}")
        if self.blocked() != set(op["blk"]):
            raise Divergence(f"{act}:blocked-set", f"after {act} by thread {t}: waiting for the cell-size lock: "
                                                   f"real {sorted(self.blocked())}, specified {sorted(op['blk'])}")
        fl = self.flags()
        if fl["swap"] != op["swap"] or fl["queries"] != op["queries"]:
            raise Divergence(f"{act}:flags", f"after {act} by thread {t}: flags {fl}, specified swap={op['swap']} queries={op['queries']}")
        if op["done"]:
            if not self.all_done():
                raise Divergence(f"{act}:not-finished", "specified: every program has finished; real threads still run")
            v = self.quiescent_value()
            if v not in [list(a) for a in op["allowed"]]:
                raise Divergence("quiescent-stale", f"at quiescence get_cell_size() returns {v}; allowed for the current "
                                                    f"settings {fl}: {op['allowed']}")

    def close(self):
        self.ctl.abort_all()


def replay_walk(config, walk, uid):
    w = World(config, uid)
    try:
        for i, e in enumerate(walk):
            try:
                w.step(e["op"])
            except Divergence as d:
                return i, d
        return None
    finally:
        w.close()


def explore_real(config: dict, allowed: list, limit: int = 6000):
    """Every schedule of the real threads (DFS with re-execution): a quiescent state whose
    get_cell_size() is not in `allowed`?  Returns (schedule, value, flags) or None."""
    allowed = [list(a) for a in allowed]
    runs = 0
    stack = [[]]
    uid = 10**6
    while stack and runs < limit:
        prefix = stack.pop()
        runs += 1
        uid += 1
        w = World(config, uid)
        try:
            sched_ = list(prefix)
            for t in prefix:
                w.ctl.resume(t)
            while True:
                enabled = [t for t, mt in sorted(w.ctl.threads.items())
                           if not mt.done and t not in w.blocked()]
                if not enabled:
                    break
                for alt in enabled[1:]:
                    stack.append(sched_ + [alt])
                t = enabled[0]
                sched_.append(t)
                at = w.ctl.resume(t)
                if w.ctl.threads[t].error is not None or at[0] == "blocked":
                    break
            if w.all_done():
                v = w.quiescent_value()
                if v not in allowed:
                    return sched_, v, w.flags(), runs
        finally:
            w.close()
    return None


def replay_model(job: dict) -> dict:
    import sys
    import time

    from . import graph, tlc

    if sys.__stdin__ is None or sys.__stdin__.closed:
        sys.__stdin__ = open(os.devnull)
    res = tlc.run("MC_TermCacheConc", job["cfg"], workers=1, timeout=300, coverage=True)
    out = {"cfg": job["cfg"], "distinct": res.distinct, "generated": res.generated, "violated": res.violated,
           "error_text": res.error_text[:2000], "divergences": [], "walks": 0, "steps": 0, "edges": 0}
    if res.violated:
        return out
    conf = res.tagged("CONFIG")[0]
    edges = res.tagged("EDGE")
    g = graph.Graph(edges, [e["from"] for e in edges if e["lvl"] == 1])
    walks = g.walks(max_len=100)
    finals = [e["op"]["allowed"] for e in g.edges if e["op"]["done"]]
    out.update(edges=len(g.edges), walks=len(walks), config=conf, acts=sorted({e["op"]["act"] for e in g.edges}),
               quiescent=sum(1 for w in walks if w[-1]["op"]["done"]))
    t0 = time.time()
    for i, w in enumerate(walks):
        r = replay_walk(conf, w, i)
        out["steps"] += len(w)
        if r:
            idx, d = r
            item = {"walk": w[: idx + 1], "idx": idx, "what": d.what, "detail": d.detail,
                    "path": [[x["op"]["t"], x["op"]["act"]] for x in w[: idx + 1]]}
            if d.what != "quiescent-stale" and finals:
                found = explore_real(conf, finals[0])
                if found:
                    item["stale"] = {"schedule": found[0], "value": found[1], "flags": found[2], "runs": found[3],
                                     "allowed": finals[0]}
            out["divergences"].append(item)
            break  # one divergence per model is enough (the exploration above is the expensive part)
    if walks:
        out["sample"] = [[x["op"]["t"], x["op"]["act"]] for x in walks[len(walks) // 2]]
    out["replay_s"] = round(time.time() - t0, 1)
    return out


def replay_schedule(config: dict, schedule: list, allowed: list):
    """Run one schedule (thread ids) on the real code to quiescence; returns (value, flags, ok)."""
    w = World(config, 2 * 10**6)
    try:
        for t in schedule:
            mt = w.ctl.threads[t]
            if mt.done or t in w.blocked():
                continue
            w.ctl.resume(t)
        guard = 0
        while not w.all_done() and guard < 200:
            guard += 1
            for t, mt in sorted(w.ctl.threads.items()):
                if not mt.done and t not in w.blocked():
                    w.ctl.resume(t)
        v = w.quiescent_value()
        return v, w.flags(), v in [list(a) for a in allowed]
    finally:
        w.close()
