"""X06 (extension) - the base `Renderable` API: construction and validation, `animated`,
`frame_count` (POSTPONED evaluated once), `frame_duration`, `render_size`, `render()` / `str()` /
`iter()` / non-animation `draw()` as seen by a subclass (hook protocol), read-only attributes,
and `Frame` as a value.

model:      specs/RenderableBase.tla (functional core `Do(s, op)`, written from the docstrings) under
            specs/MC_RenderableBase.tla: one instance of a render class, 37 named actions (one per
            API operation and documented branch), 11 invariants + 12 action properties; the complete
            state graph is explored (the only unbounded quantity, failing calls of the base
            `_get_frame_count_`, is cut at MaxOps).
spec->code: TLC prints every edge; harness/graph.py turns them into covering walks; each walk is
            executed on a fresh REAL probe subclass (harness/x06_world.py: Probe / SubProbe), the
            result record, the passive projection of the instance and of a bystander instance are
            compared with the edge after EVERY step.
code->spec: seeded random histories (wider alphabets: counts to 12, durations to 2000, sizes,
            paddings) and the recordings of all replayed walks are validated by TLC against
            specs/Trace_RenderableBase.tla, whose verdict names the failing clause (= signature).
guards:     a tampered edge must be noticed by the replay, a corrupted trace must be rejected by the
            Trace spec at the corrupted event, every action must have been generated (exit 2 otherwise).
"""

from __future__ import annotations

import copy
import json
import random
import time
from concurrent.futures import ThreadPoolExecutor

from .. import graph, tlc
from .. import x06_world as W
from ..core import Report

ASSUMPTIONS = [
    "the instance under test is a probe subclass that follows the documented `_render_` contract "
    "(Frame.number = data.frame_offset, Frame.render_size = data.size, Frame.duration = data.duration if "
    "static / 10*(number+1) as 'determined from the source' if DYNAMIC / 0 if non-animated); its output "
    "encodes (frame number, render arguments, size) and is decoded dumbly",
    "when both constructor arguments are unacceptable the ValueError is expected to name frame_count: the "
    "validity of frame_duration depends on whether the renderable is animated, which an invalid frame_count "
    "leaves undefined",
    "the frame_duration setter's ValueError for a non-positive integer is taken from the constructor's "
    "'ValueError: An argument has an invalid value' and the repository's tests (the property docstring only "
    "says 'a positive integer')",
    "'Evaluation of frame count is postponed until frame_count is invoked': operations that do not need the "
    "number of frames (render, str, draw, frame_duration, render_size, tell, animated) must not evaluate a "
    "POSTPONED count; frame_count, seek() and iter() do, exactly once in total",
    "`_get_render_size_` is expected to be called exactly once per render operation ('read only once during a "
    "single render', `_init_render_` docstring)",
    "draw() is exercised as a non-animation only (animate=False or a non-animated renderable, no size check, "
    "output stream not a terminal); its output and argument validation belong to C06/C07",
    "the tuple nature of Frame is documented as an implementation detail: recorded as information, not judged",
    "terminal size 80x24 supplied by a substituted utils.get_terminal_size",
]

ACTIONS = (
    "Construct", "ConstructIgnoresDuration", "ConstructBadCount", "ConstructBadDuration",
    "GetAnimated", "Tell", "GetFrameCount", "GetFrameCountEvaluates", "GetFrameCountUnimplemented",
    "GetDuration", "GetDurationNonAnimated", "GetRenderSize",
    "SetDuration", "SetDurationInvalid", "SetDurationNonAnimated", "Resize",
    "Render", "RenderPadded", "RenderBadArgs", "RenderFails", "Str", "StrFails",
    "InitRender", "InitRenderCallerOwnsData", "InitRenderFails", "Iter", "IterEvaluates", "IterUnimplemented", "IterNonAnimated",
    "Seek", "SeekEvaluates", "SeekOutOfRange", "SeekIndefinite", "SeekUnimplemented",
    "Draw", "DrawInterrupted", "AssignReadOnly",
)
R_KEYS = ("res", "val", "frame", "hooks", "nsize", "ncount", "data", "hdl")
# (operation, outcome) pairs the recorded histories must contain, else they prove little (exit 2)
MUST_SEE = {
    ("construct", "ok"), ("construct", "ValueError"), ("frame_count", "ok"), ("frame_count", "NotImplementedError"),
    ("get_duration", "ok"), ("get_duration", "NonAnimatedRenderableError"), ("set_duration", "ok"),
    ("set_duration", "ValueError"), ("set_duration", "NonAnimatedRenderableError"), ("render", "ok"),
    ("render", "ProbeError"), ("render", "KeyboardInterrupt"), ("render", "IncompatibleRenderArgsError"),
    ("str", "ok"), ("init_render", "ok"), ("init_render", "ProbeError"), ("iter", "ok"), ("iter", "NonAnimatedRenderableError"), ("seek", "ok"), ("seek", "ValueError"),
    ("seek", "IndefiniteSeekError"), ("draw", "ok"), ("draw", "KeyboardInterrupt"), ("assign", "AttributeError"),
}


ARG_CLAUSES = ("accepted", "rejected", "exception", "value", "data.args", "frame.padding", "frame.render_size",
               "frame.output-args", "frame.duration", "frame.number")


def OP(name, a=None, b=None, x=0, y=0, t="", f=""):
    return {"name": name, "a": a or W.NONE, "b": b or W.NONE, "x": x, "y": y, "t": t, "f": f}


# ------------------------------------------------------------------ executing operation sequences
def event(world: W.World, op: dict) -> dict:
    r = world.do(op)
    return {"op": op, "r": r, "obs": world.obs(), "by": world.bystander()}


def trace_of(hook, w, h, by0, events, frames, rng) -> dict:
    fr = W.frame_laws(frames, rng)
    return {"hook": hook, "w": w, "h": h, "by0": by0, "ev": events, "fr": fr}


def run_ops(hook, w, h, variant, ops, seed) -> dict:
    world = W.World(hook, w, h, variant)
    by0 = world.bystander()
    ev = [event(world, op) for op in ops]
    t = trace_of(hook, w, h, by0, ev, world.frames, random.Random(seed))
    t["variant"] = variant
    return t


def _for_tlc(t: dict) -> dict:
    ev = [{"op": e["op"], "r": {k: e["r"][k] for k in R_KEYS}, "obs": e["obs"], "by": e["by"]} for e in t["ev"]]
    fr = {k: v for k, v in t["fr"].items() if k != "tuple_view"}
    return {"hook": t["hook"], "w": t["w"], "h": t["h"], "by0": t["by0"], "ev": ev, "fr": fr}


def validate(traces: list[dict], name: str):
    if not traces:
        return [], 0, 0
    return tlc.validate_traces("Trace_RenderableBase", "Trace_RenderableBase.cfg", [_for_tlc(t) for t in traces],
                               batch=150, parallel=3, workers=2, timeout=600, name=name)


# ------------------------------------------------------------------ spec -> code
def _diff(edge: dict, ev: dict, by0: dict) -> str:
    exp = edge["op"]["r"]
    for k in R_KEYS:
        if ev["r"][k] != exp[k]:
            return f"{k}: code {ev['r'][k]!r} {ev['r'].get('msg', '')}, spec {exp[k]!r}"
    if ev["obs"] != edge["obs"]:
        return f"instance after the call: code {ev['obs']!r}, spec {edge['obs']!r}"
    if ev["by"] != by0:
        return f"bystander instance changed: {ev['by']!r}, was {by0!r}"
    return ""


def replay_walk(walk: list[dict], variant: int, seed: int) -> dict:
    """Execute one covering walk on a fresh class + instance; stop at the first difference."""
    c0 = walk[0]["from"]["c"]
    world = W.World(c0["hook"], c0["w"], c0["h"], variant)
    by0 = world.bystander()
    events, diff = [], ""
    for edge in walk:
        op = edge["op"]["op"]
        ev = event(world, op)
        events.append(ev)
        diff = _diff(edge, ev, by0)
        if diff:
            break
    t = trace_of(c0["hook"], c0["w"], c0["h"], by0, events, world.frames, random.Random(seed))
    t.update(variant=variant, diff=diff, steps=len(events), cut=len(walk) - len(events))
    return t


# ------------------------------------------------------------------ code -> spec: seeded histories
def _count_arg(rng):
    r = rng.random()
    if r < 0.14:
        return W.K("int", rng.randint(-3, 0))
    if r < 0.26:
        return W.K("int", 1)
    if r < 0.62:
        return W.K("int", rng.choice([2, 2, 3, 4, 5, 8, 12]))
    return W.K("indef") if r < 0.76 else W.K("post")


def _dur_arg(rng):
    r = rng.random()
    if r < 0.3:
        return W.K("int", rng.choice([0, 0, -1, -5, -2000]))
    if r < 0.75:
        return W.K("int", rng.choice([1, 2, 7, 40, 100, 999, 2000]))
    return W.K("dyn")


def _live_op(rng):
    k = rng.choices(
        ["animated", "tell", "frame_count", "get_duration", "set_duration", "render_size", "resize", "render",
         "str", "iter", "seek", "draw", "assign", "init_render"],
        [3, 4, 7, 5, 10, 4, 5, 16, 6, 6, 13, 6, 3, 5])[0]
    if k == "set_duration":
        return OP(k, a=_dur_arg(rng))
    if k == "resize":
        return OP(k, x=rng.randint(1, 7), y=rng.randint(1, 4))
    if k == "render":
        t = rng.choices(["none", "own", "base", "bad"], [5, 4, 2, 2])[0]
        f = "no" if t == "bad" or rng.random() < 0.82 else rng.choice(["exc", "kb"])
        return OP(k, x=rng.choice([0, 0, 0, 1, 2, 4]) if f == "no" else 0, t=t, f=f)
    if k == "str":
        return OP(k, f=rng.choices(["no", "exc", "kb"], [8, 1, 1])[0])
    if k == "init_render":
        return OP(k, x=rng.randrange(2), y=rng.randrange(2), f=rng.choices(["no", "exc"], [4, 1])[0])
    if k == "seek":
        return OP(k, x=rng.choice([-2, -1, 0, 0, 1, 1, 2, 3, 4, 7, 11, 12, 14]))
    if k == "draw":
        return OP(k, f=rng.choices(["no", "interrupt"], [3, 2])[0])
    if k == "assign":
        return OP(k, t=rng.choice(["frame_count", "render_size", "del_frame_duration"]))
    return OP(k)


def record_history(rng: random.Random, length: int) -> dict:
    """Operations are chosen online: a constructor call while no instance exists, anything else after."""
    hook = rng.choice([W.K("unimpl"), W.K("int", 2), W.K("int", rng.randint(3, 12)), W.K("indef")])
    w, h, variant = rng.randint(1, 6), rng.randint(1, 4), rng.randrange(8)
    world = W.World(hook, w, h, variant)
    by0 = world.bystander()
    ev = []
    attempts = 0
    while len(ev) < length:
        if world.r is None:
            attempts += 1
            if attempts > 6:
                break
            op = OP("construct", a=_count_arg(rng), b=_dur_arg(rng))
        else:
            op = _live_op(rng)
        ev.append(event(world, op))
    t = trace_of(hook, w, h, by0, ev, world.frames, rng)
    t["variant"] = variant
    return t


# ------------------------------------------------------------------ verdicts -> violations
def _cls(a: dict, what: str) -> str:
    if a["k"] != "int":
        return a["k"]
    if what == "count":
        return "int<1" if a["v"] < 1 else "1" if a["v"] == 1 else "int>1"
    return "int<=0" if a["v"] <= 0 else "int>0"


def input_class(op: dict) -> str:
    n = op["name"]
    if n == "construct":
        return f"count={_cls(op['a'], 'count')},duration={_cls(op['b'], 'dur')}"
    if n == "set_duration":
        return f"value={_cls(op['a'], 'dur')}"
    if n == "render":
        return f"args={op['t']},padded={'yes' if op['x'] else 'no'},render={'fails' if op['f'] != 'no' else 'ok'}"
    if n in ("str", "draw"):
        return f"render={op['f']}"
    if n == "init_render":
        return f"finalize={bool(op['x'])},iteration={bool(op['y'])},renderer={op['f']}"
    if n == "assign":
        return op["t"]
    return ""


def _op_text(op: dict) -> str:
    n = op["name"]
    arg = {"construct": lambda: f"({W_show(op['a'])}, {W_show(op['b'])})",
           "set_duration": lambda: f" = {W_show(op['a'])}", "resize": lambda: f" -> {op['x']}x{op['y']}",
           "render": lambda: f"(args={op['t']}, left padding={op['x']}, _render_ {op['f']})",
           "str": lambda: f"(_render_ {op['f']})",
           "init_render": lambda: f"(finalize={bool(op['x'])}, iteration={bool(op['y'])}, renderer {op['f']})", "seek": lambda: f"({op['x']})",
           "draw": lambda: f"({op['f']})", "assign": lambda: f" {op['t']}"}.get(n, lambda: "")()
    return n + arg


def W_show(a: dict) -> str:
    return str(a["v"]) if a["k"] == "int" else {"indef": "INDEFINITE", "post": "POSTPONED", "dyn": "DYNAMIC"}.get(a["k"], a["k"])


def report(rep: Report, traces: list[dict], verdicts: list[dict], origin: str) -> int:
    bad = 0
    for t, v in zip(traces, verdicts):
        if v["verdict"] == "ok":
            continue
        if v["verdict"].startswith("trace-malformed"):
            raise tlc.MachineryError(f"x06: {v['verdict']} at event {v['at']} ({origin})")
        bad += 1
        at = v["at"]
        head = v["verdict"].split(":")[0]
        if at == 0:
            sig, cls = f"Renderable.construct:{head}", ""
        elif at > len(t["ev"]):
            sig, cls = head if head.startswith("Frame") else f"Frame:{head}", ""
            sig = v["verdict"].rsplit(":", 1)[0] if v["verdict"].startswith("Frame:") else sig
        else:
            op = t["ev"][at - 1]["op"]
            # the input class is part of the signature where the outcome depends on the arguments
            cls = input_class(op) if (op["name"] in ("construct", "set_duration", "assign") or head in ARG_CLAUSES) else ""
            sig = f"Renderable.{op['name']}:{head}" + (f"[{cls}]" if cls else "")
        lines = [f"[{origin}] {v['verdict']}",
                 f"  class: _get_frame_count_ -> {W_show(t['hook'])}, fresh render size {t['w']}x{t['h']}, "
                 f"probe variant {t.get('variant', 0)}; failing event {at} of {len(t['ev'])}"]
        for i, e in enumerate(t["ev"][:at], 1):
            if i < at - 6:
                continue
            lines.append(f"  {i}. {_op_text(e['op'])} -> {e['r']['res']} {e['r'].get('msg', '')}".rstrip())
        if 1 <= at <= len(t["ev"]):
            e = t["ev"][at - 1]
            lines.append(f"  observed result: { {k: e['r'][k] for k in R_KEYS} }")
            lines.append(f"  observed instance: {e['obs']}")
        if t.get("diff"):
            lines.append(f"  replay difference: {t['diff']}")
        rep.violation(sig, "\n".join(lines),
                      {"kind": "trace", "hook": t["hook"], "w": t["w"], "h": t["h"], "variant": t.get("variant", 0),
                       "ops": [e["op"] for e in t["ev"][:max(at, 1)]] if at <= len(t["ev"]) else [e["op"] for e in t["ev"]]})
    return bad


# ------------------------------------------------------------------ main
def _replay(rep: Report, replay: dict) -> None:
    sc = replay["scenario"]
    if sc.get("kind") == "design":
        res = tlc.run("MC_RenderableBase", "MC_RenderableBase.cfg", workers=1, timeout=600)
        rep.add_tlc(res)
        if res.violated:
            rep.violation(f"design:RenderableBase:{res.violated}", res.error_text[:1500], sc)
        return
    t = run_ops(sc["hook"], sc["w"], sc["h"], sc.get("variant", 0), sc["ops"], rep.seed)
    rep.evaluations += len(t["ev"])
    verdicts, st, tr = validate([t], "x06-replay")
    rep.states += st
    rep.transitions += tr
    rep.traces_validated += 1
    report(rep, [t], verdicts, "replay")


def main(rep: Report, replay: dict | None) -> None:
    from ..env import stubs

    stubs.install()
    stubs.set_term(size=(80, 24))
    rep.assumptions += ASSUMPTIONS
    rep.rule = (
        "spec->code: every edge of the complete state graph of RenderableBase (one render-class instance; "
        "alphabets in MC_RenderableBase.tla) replayed on real probe subclasses, result + instance + bystander "
        "compared after each step; code->spec: seeded random histories over wider alphabets and the recordings "
        "of all walks validated by TLC; distinct_nontrivial = distinct (state, operation) edges + distinct histories")
    if replay:
        _replay(rep, replay)
        return
    quick = rep.tier == "quick"
    timing = rep.extra.setdefault("timing_s", {})
    t0 = time.time()

    def lap(name):
        nonlocal t0
        timing[name] = round(time.time() - t0, 1)
        t0 = time.time()

    cfg = "MC_RenderableBase.cfg" if quick else "MC_RenderableBase_thorough.cfg"
    with ThreadPoolExecutor(max_workers=3) as ex:
        f_mc = ex.submit(tlc.run, "MC_RenderableBase", cfg, workers=1, timeout=400 if quick else 1500, coverage=True)

        # ---- code -> spec: record seeded histories while TLC explores the model
        rng = random.Random(rep.seed * 7919 + 6)
        n_hist = 300 if quick else 4000
        hist = [record_history(rng, rng.randint(12, 30) if quick else rng.randint(20, 70)) for _ in range(n_hist)]
        lap("record_histories")
        seen = {(e["op"]["name"], e["r"]["res"]) for t in hist for e in t["ev"]}
        # guard: corrupted copies of recorded histories (one observed value altered) ride along; the
        # copy of every history that is itself accepted must be rejected at the corrupted event
        srcs = [i for i, t in enumerate(hist) if len(t["ev"]) >= 6 and t["ev"][5]["op"]["name"] != "construct"][:8]
        canaries = []
        for i in srcs:
            c = copy.deepcopy(hist[i])
            c["ev"] = c["ev"][:6]
            c["ev"][5]["obs"]["tell"] += 1
            canaries.append(c)
        f_hist = ex.submit(validate, hist + canaries, "x06-c2s")

        # ---- the model and its edges
        res = f_mc.result()
        lap("wait_model_check")
        rep.add_tlc(res)
        if res.violated:
            rep.violation(f"design:RenderableBase:{res.violated}",
                          "the model in MC_RenderableBase.tla violates " + res.violated + "\n" + res.error_text[:1500],
                          {"kind": "design"})
            return
        vac = [a for a in ACTIONS if res.coverage.get(a, (0, 0))[1] == 0]
        if vac:
            raise tlc.MachineryError(f"x06: vacuous actions: {vac}")
        g = graph.from_result(res)
        if not g.edges or not g.inits:
            raise tlc.MachineryError("x06: the edge dump is empty")
        walks = g.walks(max_len=30)
        if g.unreachable_edges:
            raise tlc.MachineryError(f"x06: {g.unreachable_edges} dumped edges are unreachable")
        lap("build_walks")

        # ---- spec -> code: replay every edge
        played = [replay_walk(w, (i + rep.seed) % 8, rep.seed * 31 + i) for i, w in enumerate(walks)]
        lap("replay_walks")
        f_walks = ex.submit(validate, played, "x06-s2c")

        # guard: a tampered edge (in a walk that replayed cleanly) must be noticed by the replay
        def _is_render(e):
            return e["op"]["op"]["name"] == "render" and e["op"]["r"]["res"] == "ok"

        victim = next((w for w, t in zip(walks, played) if not t["diff"] and any(_is_render(e) for e in w)), None)
        tampered = "not evaluable: no walk with a render replayed cleanly"
        if victim is not None:
            tam = copy.deepcopy(victim)
            k = next(i for i, e in enumerate(tam) if _is_render(e))
            tam[k]["op"]["r"]["frame"]["num"] += 1
            if replay_walk(tam, 0, 0)["steps"] != k + 1:
                raise tlc.MachineryError("x06: the replay did not notice a tampered edge")
            tampered = "noticed"

        hv, hst, htr = f_hist.result()
        lap("wait_validate_histories")
        cvs = [hv.pop() for _ in canaries][::-1]
        judged = [cv for i, cv in zip(srcs, cvs) if hv[i]["verdict"] == "ok"]
        for cv in judged:
            if cv["verdict"] == "ok" or cv["at"] != 6:
                raise tlc.MachineryError(f"x06: Trace_RenderableBase accepted a corrupted trace: {cv}")
        wv, wst, wtr = f_walks.result()
        lap("wait_validate_walks")

    clean = all(v["verdict"] == "ok" for v in hv + wv)
    if clean and (not judged or tampered != "noticed"):
        raise tlc.MachineryError("x06: the guards could not be evaluated although nothing was rejected")
    rep.extra["guards"] = {"corrupted_traces_rejected": len(judged), "tampered_edge": tampered,
                           "corrupted_trace_verdict": judged[0]["verdict"] if judged else "not evaluable"}
    rep.states += hst + wst
    rep.transitions += htr + wtr

    # the replay's own comparison and the Trace spec must agree on every walk
    for t, v in zip(played, wv):
        py_at = t["steps"] if t["diff"] else 0
        tl_at = v["at"] if v["verdict"] != "ok" else 0
        if (py_at != tl_at and not (tl_at > len(t["ev"]) and not py_at)) or (py_at and v["verdict"] == "ok"):
            raise tlc.MachineryError(
                f"x06: replay and Trace_RenderableBase disagree on a walk: replay step {py_at} ({t['diff']}), TLC {v}")

    missing = MUST_SEE - seen
    if clean and missing:  # (with a defect present an outcome may legitimately never show)
        raise tlc.MachineryError(f"x06: the recorded histories never showed {sorted(missing)}")

    steps = sum(t["steps"] for t in played)
    rep.evaluations += steps + sum(len(t["ev"]) for t in hist)
    rep.traces_validated += len(played) + len(hist)
    for e in g.edges:
        rep.distinct.add(("edge", graph.key(e["from"]), graph.key(e["op"]["op"])))
    for t in hist:
        rep.distinct.add(("hist", json.dumps([t["hook"], t["w"], t["h"], [e["op"] for e in t["ev"]]], sort_keys=True)))
    bad_w = report(rep, played, wv, "spec->code replay")
    bad_h = report(rep, hist, hv, "code->spec history")
    rep.exhaustive = True
    rep.extra["exhaustive_space"] = (
        "one instance of a render class: _get_frame_count_ in {unimplemented, 2, "
        + ("3" if quick else "4") + ", INDEFINITE} x every constructor argument pair of the alphabet x every reachable "
        "(count, duration setting, current frame, render size, evaluated flag) x every operation of the alphabet "
        "(see MC_RenderableBase.tla: *Q / *T constants)")
    rep.extra["model"] = {"states": res.distinct, "transitions": res.generated, "depth": res.depth,
                          "actions_generated": {a: res.coverage[a][1] for a in ACTIONS}, "wall_s": round(res.wall_s, 1)}
    rep.extra["replay"] = {"edges": len(g.edges), "model_states": g.nodes, "walks": len(walks), "steps": steps,
                           "edges_cut_after_a_difference": sum(t["cut"] for t in played), "walks_rejected": bad_w}
    rep.extra["histories"] = {"recorded": len(hist), "events": sum(len(t["ev"]) for t in hist), "rejected": bad_h,
                              "outcomes_seen": len(seen),
                              "frame_objects_compared": sum(len(t["fr"]["f"]) for t in hist + played),
                              "frame_tuple_view_agrees": all(t["fr"]["tuple_view"] for t in hist + played)}
    w0 = next((w for w in walks if len({e["op"]["op"]["name"] for e in w[:8]}) >= 4), walks[0])
    rep.sample({"walk": [{"op": _op_text(e["op"]["op"]), "res": e["op"]["r"]["res"]} for e in w0[:8]],
                "class": w0[0]["from"]["c"]["hook"]})
    rep.sample({"history": [{"op": _op_text(e["op"]), "res": e["r"]["res"]} for e in hist[0]["ev"][:8]],
                "class": hist[0]["hook"]})
