"""Seeded mutations for X06 (the base Renderable API; same record format as selftest/mutations.py).

    /venv/bin/python -m selftest.mutations_x06 [id ...] [--thorough]   # runs ./check X06 on each mutant
    /venv/bin/python -m selftest.mutations_x06 --spec                  # mutates the SPEC: TLC must object

Every mutant must make the quick check exit 1 with a VIOLATION line (the expected signature heads are
listed in notes/X06.md).  `unchanged` is the untouched tree: it must exit 0.
"""

from __future__ import annotations

import os
import shutil
import subprocess
import sys
from pathlib import Path

VERIF = Path(__file__).resolve().parent.parent
R = "renderable/_renderable.py"

MUTATIONS = {
    # ---- construction / validation (L1, L2) ----------------------------------------------------
    "x06-ctor-accepts-zero-count": dict(
        file=R,
        old="        if isinstance(frame_count, int) and frame_count < 1:",
        new="        if isinstance(frame_count, int) and frame_count < 0:",
    ),
    "x06-ctor-validates-duration-of-still": dict(
        # frame_duration is documented as IGNORED for frame_count = 1
        file=R,
        old="""        if frame_count != 1:
            if isinstance(frame_duration, int) and frame_duration <= 0:
                raise arg_value_error_range("frame_duration", frame_duration)
            self._frame_duration = frame_duration
""",
        new="""        if isinstance(frame_duration, int) and frame_duration <= 0:
            raise arg_value_error_range("frame_duration", frame_duration)
        if frame_count != 1:
            self._frame_duration = frame_duration
""",
    ),
    "x06-ctor-accepts-zero-duration": dict(
        file=R,
        old="            if isinstance(frame_duration, int) and frame_duration <= 0:",
        new="            if isinstance(frame_duration, int) and frame_duration < 0:",
    ),
    "x06-animated-only-for-int-counts": dict(
        file=R,
        old="        self.animated = frame_count != 1\n",
        new="        self.animated = isinstance(frame_count, int) and frame_count > 1\n",
    ),
    # ---- frame_count (L3) ----------------------------------------------------------------------
    "x06-postponed-count-not-cached": dict(
        file=R,
        old="""        if self._frame_count is FrameCount.POSTPONED:
            self._frame_count = self._get_frame_count_()

        return self._frame_count
""",
        new="""        if self._frame_count is FrameCount.POSTPONED:
            return self._get_frame_count_()

        return self._frame_count
""",
    ),
    "x06-render-evaluates-postponed-count": dict(
        # laziness lost: creating render data asks for the number of frames
        file=R,
        old="""        render_data = RenderData(type(self))
        renderable_data: RenderableData = render_data[Renderable]
""",
        new="""        render_data = RenderData(type(self))
        try:
            self.frame_count
        except NotImplementedError:
            pass
        renderable_data: RenderableData = render_data[Renderable]
""",
    ),
    # ---- frame_duration (L4) -------------------------------------------------------------------
    "x06-duration-setter-skips-animated-check": dict(
        file=R,
        old="""        if not self.animated:
            raise NonAnimatedRenderableError(
                "Cannot set frame duration for a non-animated renderable"
            )

""",
        new="",
    ),
    "x06-duration-setter-accepts-zero": dict(
        file=R,
        old="        if isinstance(duration, int) and duration <= 0:",
        new="        if isinstance(duration, int) and duration < 0:",
    ),
    # ---- render_size (L5) ----------------------------------------------------------------------
    "x06-render-size-memoised": dict(
        file=R,
        old="        return self._get_render_size_()\n\n    # Public Methods",
        new="""        try:
            return self._memo_render_size
        except AttributeError:
            self._memo_render_size = self._get_render_size_()
            return self._memo_render_size

    # Public Methods""",
    ),
    # ---- render protocol (L6, L7) --------------------------------------------------------------
    "x06-data-frame-offset-zero": dict(
        file=R,
        old="            frame_offset=self._frame,\n",
        new="            frame_offset=0,\n",
    ),
    "x06-data-duration-also-for-stills": dict(
        file=R,
        old="""        if self.animated:
            renderable_data.duration = self._frame_duration
""",
        new="""        renderable_data.duration = getattr(self, "_frame_duration", 1)
""",
    ),
    "x06-data-size-read-twice": dict(
        file=R,
        old="            size=self._get_render_size_(),\n",
        new="            size=(self._get_render_size_(), self._get_render_size_())[1],\n",
    ),
    "x06-finalize-only-on-success": dict(
        file=R,
        old="""            return renderer(render_data, render_args), padding
        finally:
            if finalize:
                render_data.finalize()
""",
        new="""            result = renderer(render_data, render_args), padding
            if finalize:
                render_data.finalize()
            return result
        finally:
            pass
""",
    ),
    "x06-init-render-always-finalizes": dict(
        # finalize=False: the caller keeps the render data (RenderIterator, draw() rely on it)
        file=R,
        old="""        finally:
            if finalize:
                render_data.finalize()
""",
        new="""        finally:
            render_data.finalize()
""",
    ),
    "x06-init-render-ignores-iteration-flag": dict(
        file=R,
        old="        render_data = self._get_render_data_(iteration=iteration)\n",
        new="        render_data = self._get_render_data_(iteration=False)\n",
    ),
    "x06-given-render-args-dropped": dict(
        # compatible arguments of a parent class / converted arguments lose their values
        file=R,
        old="            render_args = RenderArgs(type(self), render_args)\n",
        new="""            if render_args:
                RenderArgs(type(self), render_args)  # still validates compatibility
            render_args = RenderArgs(type(self))
""",
    ),
    "x06-padded-frame-loses-duration": dict(
        file=R,
        old="""            else Frame(
                frame.number,
                frame.duration,
                padded_size,
                padding.pad(frame.render_output, frame.render_size),
            )
        )

    def seek(""",
        new="""            else Frame(
                frame.number,
                0,
                padded_size,
                padding.pad(frame.render_output, frame.render_size),
            )
        )

    def seek(""",
    ),
    # ---- iter (L8) -----------------------------------------------------------------------------
    "x06-iter-of-still-raises-valueerror": dict(
        file=R,
        old="        except ValueError:\n            raise NonAnimatedRenderableError(\n                \"Non-animated renderables are not iterable\"",
        new="        except TypeError:\n            raise NonAnimatedRenderableError(\n                \"Non-animated renderables are not iterable\"",
    ),
    # ---- draw of a non-animation (L9) ----------------------------------------------------------
    "x06-still-draw-skips-interrupt-handler": dict(
        file=R,
        old="""                except KeyboardInterrupt:
                    self._handle_interrupted_draw_(
                        render_data, real_render_args, output
                    )
                    raise
""",
        new="""                except KeyboardInterrupt:
                    raise
""",
    ),
    "x06-still-draw-finalizes-before-handler": dict(
        file=R,
        old="""                except KeyboardInterrupt:
                    self._handle_interrupted_draw_(
                        render_data, real_render_args, output
                    )
                    raise
""",
        new="""                except KeyboardInterrupt:
                    render_data.finalize()
                    self._handle_interrupted_draw_(
                        render_data, real_render_args, output
                    )
                    raise
""",
    ),
    # ---- Frame (L12) ---------------------------------------------------------------------------
    "x06-frame-str-is-not-the-output": dict(
        file="renderable/_types.py",
        old="        return self.render_output\n\n\nclass RenderArgsData:",
        new="        return repr(self.render_output)\n\n\nclass RenderArgsData:",
    ),
    "x06-frame-eq-ignores-duration": dict(
        file="renderable/_types.py",
        old="    def __str__(self) -> str:\n        \"\"\"Returns the frame :term:`render output`.",
        new="""    def __eq__(self, other: object) -> bool:
        return isinstance(other, Frame) and (self[0], self[2], self[3]) == (other[0], other[2], other[3])

    def __ne__(self, other: object) -> bool:
        return not self == other

    def __hash__(self) -> int:
        return hash((self[0], self[2], self[3]))

    def __str__(self) -> str:
        \"\"\"Returns the frame :term:`render output`.""",
    ),
}


# Mutations of the SPECIFICATION (does each named property bite?): (old, new, property expected to fail)
SPEC_MUTATIONS = {
    "setter-accepts-invalid": ('  ELSE IF ~ValidDur(d) THEN Ret(s, Exc("ValueError"))\n', "", "ConstructedValid"),
    "rejected-seek-moves-frame": ('  ELSE Ret(e.s, [Exc("ValueError") EXCEPT !.ncount = e.n])',
                                  '  ELSE Ret([e.s EXCEPT !.frame = 0], [Exc("ValueError") EXCEPT !.ncount = e.n])',
                                  "RejectedChangesNothing"),
    "evaluation-not-remembered": ("!.cnt = s.hook, !.evals = @ + 1", "!.evals = @ + 1", "EvaluatedOnlyIfPostponed"),
    "render-evaluates": ("Rendered(s, handler) == [s EXCEPT !.nlive = (@ + 1) - 1]",
                         "Rendered(s, handler) == [Eval(s).s EXCEPT !.nlive = (@ + 1) - 1]", "ReadsChangeNothing"),
    "no-finalization-when-render-raises": (
        'IN IF fail # "no" THEN Ret(Rendered(s, FALSE), [r EXCEPT !.res = FailRes(fail)])\n'
        '          ELSE Ret(Rendered(s, FALSE), [r EXCEPT !.val = V("frame"',
        'IN IF fail # "no" THEN Ret([s EXCEPT !.nlive = @ + 1], [r EXCEPT !.res = FailRes(fail)])\n'
        '          ELSE Ret(Rendered(s, FALSE), [r EXCEPT !.val = V("frame"', "DataBalanced"),
    "render-shows-frame-zero": (
        "[num |-> s.frame, dur |-> RenderedDur(s), w |-> s.w + pad, h |-> s.h, shown |-> s.frame,",
        "[num |-> s.frame, dur |-> RenderedDur(s), w |-> s.w + pad, h |-> s.h, shown |-> 0,",
        "EveryRenderShowsCurrentState"),
    "enum-counts-not-animated": ('Animated(c) == ~(c.k = "int" /\\ c.v = 1)', 'Animated(c) == c.k = "int" /\\ c.v > 1',
                                 "AnimatedIsCountNotOne"),
    "init-render-always-finalizes": (
        '!.hooks = IF fin = 1 THEN <<"data", "renderer", "final">> ELSE <<"data", "renderer">>',
        '!.hooks = <<"data", "renderer", "final">>', "EveryInitRenderFinalizesIffAsked"),
    "handler-after-finalization": ('!.hooks = <<"data", "render", "handler", "final">>',
                                   '!.hooks = <<"data", "render", "final", "handler">>', "EveryRenderFollowsProtocol"),
}


def spec_mutations() -> int:
    """Each mutated copy of RenderableBase.tla must make TLC report the named property."""
    sys.path.insert(0, str(VERIF))
    from harness import tlc

    d = VERIF / "out" / "x06-specmut"
    shutil.rmtree(d, ignore_errors=True)
    d.mkdir(parents=True)
    bad = 0
    try:
        for f in ("RenderableBase.tla", "MC_RenderableBase.tla"):
            shutil.copy(VERIF / "specs" / f, d / f)
        cfg = (VERIF / "specs" / "MC_RenderableBase.cfg").read_text().replace("DumpEdges = TRUE", "DumpEdges = FALSE")
        (d / "MC_RenderableBase.cfg").write_text(cfg)
        orig = (d / "RenderableBase.tla").read_text()
        for name, (old, new, prop) in SPEC_MUTATIONS.items():
            if orig.count(old) != 1:
                raise SystemExit(f"{name}: pattern occurs {orig.count(old)} times")
            (d / "RenderableBase.tla").write_text(orig.replace(old, new))
            r = tlc.run("MC_RenderableBase", "MC_RenderableBase.cfg", workers=2, timeout=600, specdir=d, check=False)
            ok = r.violated == prop
            bad += not ok
            print(f"SPECMUT {name}: TLC reports {r.violated} (expected {prop}) {'ok' if ok else 'UNEXPECTED'}", flush=True)
    finally:
        shutil.rmtree(d, ignore_errors=True)
    return 1 if bad else 0


def apply(mid: str, edits) -> Path:
    root = Path(f"/tmp/verif-selftest-{mid}")
    shutil.rmtree(root, ignore_errors=True)
    root.mkdir(parents=True)
    subprocess.run(["rsync", "-a", "/repo/src", str(root) + "/"], check=True)
    for e in edits:
        f = root / "src" / "term_image" / e["file"]
        text = f.read_text()
        if text.count(e["old"]) != 1:
            raise SystemExit(f"{mid}: pattern occurs {text.count(e['old'])} times in {e['file']}")
        f.write_text(text.replace(e["old"], e["new"]))
    subprocess.run([sys.executable, "-m", "compileall", "-q", str(root / "src" / "term_image")], check=True)
    return root


def run(mid: str, tier: str = "quick") -> bool:
    edits = []
    if mid != "unchanged":
        m = MUTATIONS[mid]
        edits = m["edits"] if "edits" in m else [m]
    root = apply(mid, edits)
    try:
        env = dict(os.environ, VERIF_REPO=str(root))
        p = subprocess.run([str(VERIF / "check"), "X06", "--tier", tier], env=env, cwd=VERIF,
                           stdout=subprocess.PIPE, stderr=subprocess.STDOUT, text=True, timeout=3600)
    finally:
        shutil.rmtree(root, ignore_errors=True)
    sigs = sorted({l.strip()[len("signature: "):] for l in p.stdout.splitlines() if l.strip().startswith("signature:")})
    if mid == "unchanged":
        ok = p.returncode == 0
        print(f"MUT {mid} X06 exit={p.returncode} {'clean' if ok else 'ALARMS'} {sigs}", flush=True)
    else:
        ok = p.returncode == 1 and bool(sigs)
        status = "caught" if ok else ("MACHINERY" if p.returncode == 2 else "MISSED")
        print(f"MUT {mid} X06 exit={p.returncode} {status} {sigs}", flush=True)
    if p.returncode == 2:
        print("\n".join(p.stdout.splitlines()[-15:]))
    return ok


def main() -> int:
    if "--spec" in sys.argv:
        return spec_mutations()
    args = [a for a in sys.argv[1:] if not a.startswith("--")]
    tier = "thorough" if "--thorough" in sys.argv else "quick"
    ids = args or ["unchanged"] + list(MUTATIONS)
    bad = [m for m in ids if not run(m, tier)]
    print(f"{len(ids) - len(bad)}/{len(ids)} as expected" + (f"; not: {bad}" if bad else ""))
    return 1 if bad else 0


if __name__ == "__main__":
    sys.exit(main())
