SPECIFICATION Spec
CONSTANTS
  Times = {1, 4}
  MaxChunks = 1
  MaxChunk = 2
  MaxBytes = 2
  Scheds <- AllScheds
  Ttys = {TRUE, FALSE}
  TermEchos = {TRUE}
  Mins = {0}
  Tmos <- TmosWrite
  Echos = {FALSE}
  Mores <- MoresWrite
  TermBytes <- Terms2
  Datas <- DatasWrite
  Plans <- PlansAll
  Horizon = 8
  MaxWire = 4
  Variant = "code"
VIEW Future
ACTION_CONSTRAINT Dump
INVARIANT InitDump
CHECK_DEADLOCK FALSE
