"""X10 - real-code side of specs/StyleArgs.tla / Trace_StyleArgs.tla.

A *world* is one fresh user subclass ``U`` of a style class (BlockImage / KittyImage /
ITerm2Image) on a scripted terminal, with two instances (1: a still PIL image, 2: an animated
GIF file).  Operations go through the public API (``set_render_method``, ``draw(**style)``,
``format(image, "+spec")``) and through ``_check_style_args`` (the shared validation routine);
every observation is a *projection* of what the real code did - lexed and decoded here, judged
in TLA+:

    res     "ok" or the exception class name
    wrote   nothing | epilogue | picture | other   (class of the text written / returned)
    ncmd    number of image transmissions (kitty a=T commands, iTerm2 File= commands)
    zs      distinct z-index values of the kitty transmissions (value records)
    er      does the output erase cells (ECH)?
    lv      compression levels consistent with the transmitted data: L such that compressing
            the decoded data again with level L gives the transmitted bytes
    kept    the mapping _check_style_args returned
    chg     attributes of the instances / of the classes in U's MRO that changed
    dg      digest of the picture text (a draw's own prologue / epilogue stripped)
    so      a call that is not a draw wrote to stdout

Nothing here decides whether an observation is right.
"""

from __future__ import annotations

import base64
import binascii
import hashlib
import io
import random
import sys
import zlib

from . import imgs, lexer
from .env import stubs

FAMILIES = ("block", "kitty", "iterm2")
TERMS = {"block": ["other"], "kitty": ["kitty", "konsole"], "iterm2": ["wezterm", "iterm2", "konsole"]}
NI = 2
NF = 2
COLS = 3
CELL = (8, 16)
TERM_SIZE = (16, 9)

HIDE, SHOW, SGR0 = "\x1b[?25l", "\x1b[?25h", "\x1b[m"
ALL_LEVELS = list(range(10))


# ------------------------------------------------------------------ value records
def rec(t, n=False, h=0, l=0, s=()):
    return {"t": t, "n": bool(n), "h": h, "l": l, "s": list(s)}


def enc(v) -> dict:
    """Python value -> value record (sign + two 16-bit limbs; strings as code points)."""
    if v is None:
        return rec("none")
    if isinstance(v, bool):
        return rec("bool", l=int(v))
    if isinstance(v, int):
        a = abs(v)
        if a >> 16 > 65536:
            return rec("other")
        return rec("int", v < 0, a >> 16, a & 0xFFFF)
    if isinstance(v, float):
        if v != v or v in (float("inf"), float("-inf")) or abs(v) >= 2**32:
            return rec("other")
        a = int(abs(v))
        return rec("float", v < 0 and a > 0, a >> 16, a & 0xFFFF)
    if isinstance(v, str):
        if all(ord(c) < 128 for c in v):
            return rec("str", s=[ord(c) for c in v])
        return rec("other")
    return rec("other")


class Other:
    """A value of a type no style argument documents."""

    def __repr__(self):
        return "<Other>"


def dec(r: dict):
    t = r["t"]
    if t == "none":
        return None
    if t == "bool":
        return bool(r["l"])
    mag = r["h"] * 65536 + r["l"]
    if t == "int":
        return -mag if r["n"] else mag
    if t == "float":
        return float(-mag if r["n"] else mag)
    if t == "str":
        return "".join(chr(c) for c in r["s"])
    return Other()


def show(r: dict) -> str:
    v = dec(r)
    return repr(v)


def show_args(args: list) -> str:
    return ", ".join(f"{a['k']}={show(a['v'])}" for a in args)


def spec_text(args: list) -> str:
    """The format specifier of an (expressible) argument set: encoding only, the grammar and what
    a specifier denotes belong to C19 / FormatSpec.tla."""
    s = ""
    for a in args:
        v = dec(a["v"])
        if a["k"] == "method":
            s += v[:1].upper()
        elif a["k"] == "z_index":
            s += f"z{v}"
        elif a["k"] == "mix":
            s += f"m{int(v)}"
        elif a["k"] == "compress":
            s += f"c{v}"
        else:
            raise ValueError(f"no specifier field for {a['k']}")
    return "+" + s if s else ""


# ------------------------------------------------------------------ images
def _structured(rng: random.Random, w: int, h: int):
    """Pixels with runs and repeats at several distances, so that zlib levels differ."""
    from PIL import Image

    pal = [(rng.randrange(256), rng.randrange(256), rng.randrange(256)) for _ in range(6)]
    px = []
    motif = [rng.choice(pal) for _ in range(7)]
    for y in range(h):
        for x in range(w):
            r = rng.random()
            if r < 0.55:
                px.append(motif[(x + y * 3) % 7])
            elif r < 0.8:
                px.append(rng.choice(pal))
            else:
                px.append((rng.randrange(256), rng.randrange(4) * 60, 7))
    im = Image.new("RGB", (w, h))
    im.putdata(px)
    return im


_dir = None


def _tmp():
    global _dir
    if _dir is None:
        _dir = imgs.tmpdir("x10")
    return _dir


class Cap(io.StringIO):
    def __init__(self, tty: bool):
        super().__init__()
        self._tty = tty

    def isatty(self):
        return self._tty


class _FakeTime:
    @staticmethod
    def time():
        return 0.0

    @staticmethod
    def sleep(_s):
        return None


# ------------------------------------------------------------------ the world
class World:
    def __init__(self, fam: str, term: str, rows: int, wseed: int, tty: bool = False):
        from term_image.image import BlockImage, ITerm2Image, KittyImage

        self.fam, self.term, self.rows, self.wseed, self.tty = fam, term, rows, wseed, tty
        rng = random.Random(wseed)
        self._memo: dict = {}
        stubs.set_identity(term)
        stubs.set_term(size=TERM_SIZE, cell=CELL)
        base = {"block": BlockImage, "kitty": KittyImage, "iterm2": ITerm2Image}[fam]
        self.base = base
        self.U = type("U" + base.__name__, (base,), {})
        w, h = COLS * CELL[0] + rng.randrange(0, 9), rows * CELL[1] + rng.randrange(0, 9)
        self.src1 = _structured(rng, w, h)
        path = _tmp() / f"anim-{wseed}-{rows}.gif"
        if not path.exists():
            frames = [_structured(rng, w, h) for _ in range(NF)]
            frames[0].save(path, "GIF", save_all=True, append_images=frames[1:], duration=40, loop=0)
        self.path = str(path)
        self.inst = [None, self.U(self.src1, width=COLS, height=rows), self.U.from_file(self.path, width=COLS, height=rows)]
        assert self.inst[2].n_frames == NF
        self.mro = [self.U] + [c for c in self.U.__mro__ if c.__module__.startswith("term_image")]

    def close(self):
        for im in self.inst[1:]:
            im.close()

    # ---- snapshots (state-freeness) ----------------------------------------------------
    @staticmethod
    def _fp(v, depth=0):
        if isinstance(v, (int, float, str, bool, bytes, type(None))):
            return (type(v).__name__, v)
        if depth < 2 and isinstance(v, dict):
            return ("dict", tuple((repr(k), World._fp(x, depth + 1)) for k, x in v.items()))
        if depth < 2 and isinstance(v, (set, frozenset)):
            return ("set", tuple(sorted(repr(x) for x in v)))
        if depth < 2 and isinstance(v, (tuple, list)):
            return (type(v).__name__, tuple(World._fp(x, depth + 1) for x in v))
        return ("id", id(v))

    def snapshot(self) -> dict:
        snap = {}
        for i in (1, 2):
            for k, v in vars(self.inst[i]).items():
                snap[f"i{i}.{k}"] = self._fp(v)
        for c in self.mro:
            name = "U" if c is self.U else c.__name__
            for k, v in vars(c).items():
                snap[f"{name}.{k}"] = self._fp(v)
            # metaclass-level storage (ITerm2ImageMeta keeps a process-global there)
            for k, v in vars(type(c)).items():
                if not k.startswith("__"):
                    snap[f"type({name}).{k}"] = self._fp(v)
        return snap

    @staticmethod
    def changed(a: dict, b: dict) -> list:
        return sorted(k for k in a.keys() | b.keys() if a.get(k, "<absent>") != b.get(k, "<absent>"))

    # ---- decoding ----------------------------------------------------------------------
    def decode(self, text: str, route: str, tty: bool) -> dict:
        """Projection of a written / returned text (memoised per world: plain draws repeat)."""
        key = (text, route, tty)
        hit = self._memo.get(key)
        if hit is None:
            hit = self._memo[key] = self._decode(text, route, tty)
        return dict(hit)

    def _decode(self, text: str, route: str, tty: bool) -> dict:
        st = lexer.lex(text, keep_payloads=True)
        if lexer.unknowns(st):
            from . import tlc

            raise tlc.MachineryError(f"x10: unknown control sequence in an output: {lexer.unknowns(st)[:3]}")
        toks = st.toks
        tx = [g for g in st.gfx if g["proto"] == "kitty" and g["a"] == "T"] if self.fam == "kitty" else \
             [g for g in st.gfx if g["proto"] == "iterm2"]
        has_print = any(t["k"] == "print" for t in toks)
        epi = all((t["k"] == "sgr" and t["p"] in ([0], [])) or t["k"] == "lf"
                  or (t["k"] in ("decset", "decrst") and t["n"] == 25) for t in toks)
        if text == "":
            wrote = "nothing"
        elif tx or has_print:
            wrote = "picture"
        elif epi:
            wrote = "epilogue"
        else:
            wrote = "other"
        zs = []
        if self.fam == "kitty":
            for g in tx:
                z = enc(g["z"]) if g["zset"] and g["zok"] else rec("other")
                if z not in zs:
                    zs.append(z)
        body = text
        if route == "draw":
            if tty:
                body = body.removeprefix(HIDE)
            tail = SGR0 + (SHOW if tty else "") + "\n"
            body = body.removesuffix(tail)
        return {
            "wrote": wrote,
            "ncmd": len(tx),
            "zs": zs,
            "er": any(t["k"] == "ech" for t in toks),
            "lv": self._levels(st) if tx else ALL_LEVELS,
            "dg": hashlib.sha1(body.encode()).hexdigest()[:16],
        }

    def _levels(self, st) -> list:
        """Levels L for which re-compressing the decoded data of EVERY transmission with level L
        reproduces the transmitted bytes (all levels when the data is not a compressed re-encoding:
        a file sent as is)."""
        ok = set(ALL_LEVELS)
        if self.fam == "kitty":
            cur = None  # (compressed?, [chunks])
            groups = []
            for g, p in zip(st.gfx, st.payloads):
                if g["proto"] != "kitty":
                    continue
                if g["a"] == "T":
                    cur = [g["o"] == "z", [p]]
                    groups.append(cur)
                elif g["a"] == "" and cur is not None and g["m"] in (0, 1):
                    cur[1].append(p)
            for comp, chunks in groups:
                try:
                    data = base64.b64decode("".join(chunks), validate=True)
                except (binascii.Error, ValueError):
                    return []
                if not comp:
                    ok &= {0}
                    continue
                try:
                    raw = zlib.decompress(data)
                except zlib.error:
                    return []
                ok &= {L for L in ALL_LEVELS if zlib.compress(raw, L) == data}
            return sorted(ok)
        if self.fam == "iterm2":
            from PIL import Image

            for g, p in zip(st.gfx, st.payloads):
                if g["proto"] != "iterm2":
                    continue
                try:
                    data = base64.b64decode(p, validate=True)
                except (binascii.Error, ValueError):
                    return []
                if not data.startswith(b"\x89PNG"):
                    continue  # not a PNG re-encoding (the source file sent as is, JPEG): no level
                with Image.open(io.BytesIO(data)) as im:
                    im.load()
                    good = set()
                    for L in ALL_LEVELS:
                        buf = io.BytesIO()
                        im.save(buf, "png", compress_level=L)
                        if buf.getvalue() == data:
                            good.add(L)
                ok &= good
            return sorted(ok)
        return ALL_LEVELS

    # ---- operations ----------------------------------------------------------------------
    def target(self, i: int):
        return self.U if i == 0 else self.inst[i]

    def do(self, op: dict) -> dict:
        """Execute one operation; returns the observation record (without probes)."""
        import term_image.image.common as common

        r, i, args = op["r"], op["i"], op["args"]
        kw = {a["k"]: dec(a["v"]) for a in args}
        before = self.snapshot()
        cap = Cap(self.tty)
        old, old_time = sys.stdout, common.time
        sys.stdout, common.time = cap, _FakeTime
        res, text, kept = "ok", "", []
        try:
            try:
                if r == "set":
                    self.target(i).set_render_method(kw["method"])
                elif r == "draw":
                    self.inst[i].draw(animate=bool(op["an"]), repeat=1, cached=False, **kw)
                elif r == "format":
                    text = format(self.inst[i], spec_text(args))
                elif r == "check":
                    got = self.U._check_style_args(dict(kw))
                    kept = [{"k": str(k), "v": enc(v)} for k, v in got.items()]
                else:
                    raise ValueError(r)
            except Exception as e:  # noqa: BLE001
                res = type(e).__name__
        finally:
            sys.stdout, common.time = old, old_time
        after = self.snapshot()
        out = cap.getvalue()
        if r == "draw":
            text = out
        obs = self.decode(text, r, self.tty)
        obs.update(res=res, kept=kept, chg=self.changed(before, after), so=(r != "draw" and out != ""))
        return obs

    def probe(self, i: int) -> dict:
        """A plain still draw of instance i."""
        import term_image.image.common as common

        cap = Cap(self.tty)
        old, old_time = sys.stdout, common.time
        sys.stdout, common.time = cap, _FakeTime
        res = "ok"
        try:
            try:
                self.inst[i].draw(animate=False)
            except Exception as e:  # noqa: BLE001
                res = type(e).__name__
        finally:
            sys.stdout, common.time = old, old_time
        obs = self.decode(cap.getvalue(), "draw", self.tty)
        obs["res"] = res
        return obs

    def probes(self, on: bool) -> list:
        if not on:
            return [SKIP, SKIP]
        return [self.probe(1), self.probe(2)]

    def force(self, cm: str, im: list) -> None:
        """Put the real objects into a spec state (after a disagreement about a set operation)."""
        self.U.set_render_method(None if cm == "unset" else cm)
        for i in (1, 2):
            self.inst[i].set_render_method(None if im[i - 1] == "unset" else im[i - 1])

    def level_power(self) -> int:
        """How many of the levels 0, 1, 3, 4, 9 give different zlib streams / PNG files for this
        world's still picture (a machinery self-test that does not involve the library: the
        pictures must not be so compressible that every level looks the same)."""
        raw = self.src1.tobytes()
        z = {zlib.compress(raw, L) for L in (0, 1, 3, 4, 9)}
        pngs = set()
        for L in (0, 1, 3, 4, 9):
            buf = io.BytesIO()
            self.src1.save(buf, "png", compress_level=L)
            pngs.add(buf.getvalue())
        return min(len(z), len(pngs))


SKIP = {"res": "skip", "wrote": "skip", "ncmd": 0, "zs": [], "er": False, "lv": [], "dg": ""}


def event(op: dict, obs: dict, pr: list) -> dict:
    return {"op": op, "res": obs["res"], "wrote": obs["wrote"], "ncmd": obs["ncmd"], "zs": obs["zs"],
            "er": obs["er"], "lv": obs["lv"], "kept": obs["kept"], "chg": obs["chg"], "dg": obs["dg"],
            "so": obs["so"], "pr": [{k: p[k] for k in ("res", "wrote", "ncmd", "zs", "er", "lv", "dg")} for p in pr]}
