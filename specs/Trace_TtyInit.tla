---------------------------- MODULE Trace_TtyInit ----------------------------
(* C14, TtyInit bound to the code: one trace per initialisation environment, recorded from a REAL  *)
(* import of term_image in a fresh process whose std streams / controlling terminal were arranged  *)
(* accordingly (harness/c14_init_worker.py).  All 16 environments must be present.                 *)
EXTENDS TtyInit, TLC, Json, IOUtils, FiniteSets

Traces == JsonDeserialize(IOEnv.TRACE_FILE)

VARIABLES tid, verdict, fin
vars == <<tid, verdict, fin>>

EnvOf(tr) == [out |-> tr.out, inp |-> tr.inp, err |-> tr.err, ctty |-> tr.ctty]
Init == tid \in 1..Len(Traces) /\ verdict = "ok" /\ fin = FALSE
Judge ==
  /\ ~fin /\ fin' = TRUE
  /\ verdict' = InitClause(EnvOf(Traces[tid]), [found |-> Traces[tid].found, start |-> Traces[tid].start, run |-> Traces[tid].run])
  /\ UNCHANGED tid
Next == Judge
Spec == Init /\ [][Next]_vars

Report ==
  fin => PrintT(<<"VERDICT", ToJson([tid |-> tid, verdict |-> verdict, source |-> Source(EnvOf(Traces[tid])),
                                       missing |-> Cardinality(Envs \ {EnvOf(Traces[i]) : i \in 1..Len(Traces)})])>>)
=============================================================================
