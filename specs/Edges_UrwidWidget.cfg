SPECIFICATION SpecDump
CONSTANTS
  Profile = "quick"
  MaxWeight = 3
  MaxWeightRest = 2
VIEW View
CONSTRAINT BoundDump
ACTION_CONSTRAINT Dump
INVARIANT DumpState
CHECK_DEADLOCK FALSE
