"""C03 - dumb payload projections (DESIGN 2.5 ``project.py``).

Nothing in this module decides whether a render is right.  It only computes what TLA+
cannot: base64 / zlib / image decoding and byte comparisons.  Every requirement (which
length, which rows, which kind, which keys) is judged by ``specs/Gfx.tla`` through
``specs/Trace_Gfx.tla``.

Per graphics command (``lexer`` gfx record) the projection adds, on the record that ends a
transmission (kitty: first command whose ``m`` is not 1; iTerm2: every command):

    tb64     number of base64 characters that were decoded (all chunks concatenated)
    pad      number of trailing ``=`` characters
    pad1     offset of the FIRST ``=`` character in the whole payload (-1: there is none)
    dlen     length after STRICT base64 decoding (-1: not valid base64)
    ilen     length after zlib inflate, attempted iff the first chunk says o=z (-1: failed / n.a.)
    kind     sniffed container of an iTerm2 payload: png | jpeg | gif | webp | ... | bad
    isfile   1 iff the decoded bytes are byte-identical to the source file
    imgw, imgh, imgmode   size / mode of the decoded iTerm2 picture
    rows_lo, rows_hi      rows this transmission claims: cumulative sum of the row counts
                          (kitty ``v`` / decoded picture height) of the render's transmissions
    pix      1 iff the decoded pixels are byte-identical to rows [rows_lo, rows_hi) of the
             reference picture: the source converted and resized with Pillow BOX to the
             *transmitted* resolution (transmitted width x total of transmitted rows)

The reference applies the documented meaning of the alpha setting with Pillow's own
operations: no alpha / opaque source -> ``convert("RGB")``; float alpha -> ``convert("RGBA")``
untouched; background colour -> ``alpha_composite`` over that colour.
"""

from __future__ import annotations

import base64
import binascii
import io
import zlib

from PIL import Image

OPAQUE = {"1", "L", "RGB", "HSV", "CMYK"}
PALETTE = {"P", "PA"}

EXTRA = {"tb64": 0, "pad": 0, "pad1": -1, "isfile": 0, "imgmode": ""}


def mode_class(mode: str) -> str:
    if mode in OPAQUE:
        return "opaque"
    if mode in PALETTE:
        return "palette"
    return "alpha"


class Reference:
    """Reference pictures of one source at arbitrary resolutions."""

    def __init__(self, *, pil=None, path=None, frame=0, alphakind="none", bg="#000000"):
        self.pil, self.path, self.frame = pil, path, frame
        self.alphakind, self.bg = alphakind, bg
        self._cache: dict = {}
        with self._open() as img:
            self.mode = img.mode
            self.size = img.size
        self.file_bytes = open(path, "rb").read() if path else None

    def at_frame(self, frame: int) -> "Reference":
        """The same source at another frame (multi-render histories on one image object)."""
        return Reference(pil=self.pil, path=self.path, frame=frame, alphakind=self.alphakind, bg=self.bg)

    def _open(self) -> Image.Image:
        if self.path:
            img = Image.open(self.path)
            if getattr(img, "is_animated", False):
                img.seek(self.frame)
            return img
        return self.pil.copy()

    def get(self, size, mode) -> bytes | None:
        key = (tuple(size), mode)
        if key in self._cache:
            return self._cache[key]
        res = None
        if mode in ("RGB", "RGBA") and size[0] > 0 and size[1] > 0 and size[0] * size[1] < 1 << 24:
            with self._open() as img:
                box = Image.Resampling.BOX
                if mode == "RGBA":
                    out = img.convert("RGBA").resize(size, box)
                elif self.alphakind in ("bgterm", "bghex") and img.mode not in OPAQUE:
                    rgba = img.convert("RGBA").resize(size, box)
                    canvas = Image.new("RGBA", rgba.size, self.bg)
                    canvas.alpha_composite(rgba)
                    out = canvas.convert("RGB")
                else:
                    out = img.convert("RGB").resize(size, box)
                res = out.tobytes()
        self._cache[key] = res
        return res


def _b64(text: str):
    pad = len(text) - len(text.rstrip("="))
    try:
        data = base64.b64decode(text, validate=True)
    except (binascii.Error, ValueError):
        return pad, None
    return pad, data


def project(gfx: list[dict], payloads: list[str], ref: Reference) -> list[dict]:
    """``gfx`` / ``payloads`` as returned by ``lexer.lex(text, keep_payloads=True)`` (index 0
    is the dummy record).  Returns the event records of ``Trace_Gfx`` (uniform keys)."""
    events = []
    for g in gfx[1:]:
        e = dict(g)
        e.update(EXTRA)
        events.append(e)
    texts = payloads[1:]

    # pass 1: decode
    done = []  # (event, first event, raw bytes or None, rows, width, mode)
    buf: list[str] = []
    first = None
    for e, text in zip(events, texts):
        if e["proto"] == "kitty":
            if e["a"] == "d":
                continue
            if first is None:
                first = e
            buf.append(text)
            if e["m"] == 1:
                continue
            whole = "".join(buf)
            buf, ctl, first = [], first, None
            e["tb64"] = len(whole)
            e["pad1"] = whole.find("=")
            e["pad"], data = _b64(whole)
            raw = None
            if data is not None:
                e["dlen"] = len(data)
                raw = data
                if ctl["o"] == "z":
                    try:
                        raw = zlib.decompress(data)
                        e["ilen"] = len(raw)
                    except zlib.error:
                        raw = None
            mode = {24: "RGB", 32: "RGBA"}.get(ctl["f"], "")
            done.append((e, raw, max(ctl["v"], 0), ctl["s"], mode))
        elif e["proto"] == "iterm2":
            e["tb64"] = len(text)
            e["pad1"] = text.find("=")
            e["pad"], data = _b64(text)
            raw, rows, width, mode = None, 0, -1, ""
            if data is not None:
                e["dlen"] = len(data)
                e["isfile"] = int(ref.file_bytes is not None and data == ref.file_bytes)
                try:
                    with Image.open(io.BytesIO(data)) as img:
                        e["kind"] = (img.format or "bad").lower()
                        e["imgw"], e["imgh"] = img.size
                        e["imgmode"] = img.mode
                        if e["kind"] != "jpeg" and not getattr(img, "is_animated", False):
                            raw = img.tobytes()
                        rows, width, mode = img.size[1], img.size[0], img.mode
                except Exception:
                    e["kind"] = "bad"
            if not e["isfile"]:
                done.append((e, raw, rows, width, mode))

    # pass 2: rows provenance against the reference at the transmitted resolution
    total = sum(d[2] for d in done)
    lo = 0
    for e, raw, rows, width, mode in done:
        e["rows_lo"], e["rows_hi"] = lo, lo + rows
        if raw is not None and rows > 0 and e.get("kind") != "jpeg":
            refbytes = ref.get((width, total), mode)
            if refbytes is None:
                e["pix"] = 0
            else:
                stride = width * len(mode)
                e["pix"] = int(raw == refbytes[lo * stride : (lo + rows) * stride])
        elif e.get("kind") != "jpeg":
            e["pix"] = 0
        lo += rows
    return events
