SPECIFICATION Spec
CONSTANTS
  N = 3
  MaxDepth = 99
  SpecSet = {"s1", "s2"}
  SizeSet = {"A", "B", "dyn"}
  TermSet = {1, 2}
  KindSet = {"path", "pil", "url"}
  PeerVars = {"same", "other"}
  FaultSteps = {"open", "seek", "convert", "resize", "composite", "encode"}
VIEW DumpView
ACTION_CONSTRAINT Dump
CHECK_DEADLOCK FALSE
