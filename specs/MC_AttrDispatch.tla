--------------------------- MODULE MC_AttrDispatch ---------------------------
(***************************************************************************)
(* X07: the worlds TLC explores.                                            *)
(*                                                                         *)
(* MainWorld: classes 1 A, 2 B(A), 3 C(A), 4 D(B, C) (diamond), 5 E(D)       *)
(*   declared with the derived metaclass M2 (redefines `cip`);               *)
(*   instances 6, 7 of D (two of the same class), 8 of E, 9 of B.            *)
(*   `set_m`: A builds it (both variants); B builds a new one (both); C      *)
(*   derives from A's with `.instancemethod` (keeps A's class variant); E    *)
(*   derives from B's with `.classmethod` (keeps B's instance variant).      *)
(* FalsyWorld: 1 A, 2 Zb(A) (`__bool__` -> False), 3 Zl(A) (`__len__` -> 0);  *)
(*   instances 4 of Zb, 5 of Zl (falsy), 6 of A (truthy control).            *)
(***************************************************************************)
EXTENDS AttrDispatch

D(own, from, cls, inst) == [own |-> own, from |-> from, cls |-> cls, inst |-> inst]
NoDecl == D(FALSE, 0, FALSE, FALSE)
Built == D(TRUE, 0, TRUE, TRUE)

MainWorld ==
  [nc |-> 5,
   bases |-> << <<>>, <<1>>, <<1>>, <<2, 3>>, <<4>> >>,
   m2 |-> <<FALSE, FALSE, FALSE, FALSE, TRUE>>,
   cls |-> <<0, 0, 0, 0, 0, 4, 4, 5, 2>>,
   decl |-> <<Built, Built, D(TRUE, 1, FALSE, TRUE), NoDecl, D(TRUE, 2, TRUE, FALSE)>>,
   falsy |-> <<FALSE, FALSE, FALSE, FALSE, FALSE, FALSE, FALSE, FALSE, FALSE>>]

FalsyWorld ==
  [nc |-> 3,
   bases |-> << <<>>, <<1>>, <<1>> >>,
   m2 |-> <<FALSE, FALSE, FALSE>>,
   cls |-> <<0, 0, 0, 2, 3, 1>>,
   decl |-> <<Built, D(TRUE, 1, FALSE, TRUE), NoDecl>>,
   falsy |-> <<FALSE, FALSE, FALSE, TRUE, TRUE, FALSE>>]

AllKinds == {"cip", "cp", "ro", "m"}
OnlyCip == {"cip", "ro"}
OnlyCp == {"cp"}
OnlyM == {"m"}
=============================================================================
