SPECIFICATION Spec
CONSTANTS
  MaxO = 24
  MaxTC = 12
  MaxTL = 8
  FullTerms = TRUE
INVARIANT AlgoSatisfiesProperty
CHECK_DEADLOCK FALSE
