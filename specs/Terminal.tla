------------------------------ MODULE Terminal ------------------------------
(***************************************************************************)
(* Token-level semantics of the terminal the library writes to.            *)
(*                                                                         *)
(* This module IS the "interpreter for the output" of DESIGN.md 1: a pure  *)
(* functional core  Apply(T, tok, gfx)  over a terminal record T.  Every   *)
(* property that is phrased in terms of "what the terminal shows" (C01,    *)
(* C02, C05, C06, C07, C17, C18) is judged by folding a token stream       *)
(* (produced by harness/lexer.py, itself bound to VT.tla) through Apply    *)
(* and evaluating clauses after every token.                               *)
(*                                                                         *)
(* Coordinates: screen rows/cols are 0-based.  T.top is the absolute line  *)
(* number of screen row 0 (= number of lines scrolled off so far); cells   *)
(* and placements are stored in ABSOLUTE line coordinates so that content  *)
(* keeps its identity across scrolling.                                    *)
(*                                                                         *)
(* Assumptions (also listed in every evidence file that uses the model):   *)
(*  - ECMA-48 / xterm semantics: CUU/CUD/CUF/CUB with parameter 0 or       *)
(*    absent move by 1, clamp at the margins, never scroll; pending-wrap   *)
(*    (last column flag) is set by printing in the last column and cleared *)
(*    by CR, BS and every cursor-movement sequence;                        *)
(*  - LF is interpreted with ONLCR (the output is designed for a tty):     *)
(*    column := 0 as well; at the bottom row it scrolls;                   *)
(*  - ECH / EL erase with the current background, do not move the cursor;  *)
(*  - kitty graphics: a=T places the image at the cursor over c x r cells; *)
(*    C=1 leaves the cursor alone; chunked transfers (m=1 ... m=0) take    *)
(*    their control data from the first chunk; d=A|a deletes every         *)
(*    placement, d=C|c those intersecting the cursor cell, d=Z|z those     *)
(*    with the given z-index;                                              *)
(*  - iTerm2 inline images: width/height in cells; without doNotMoveCursor *)
(*    the cursor ends on the image's last line just past its last column   *)
(*    (clamped at the right margin); with it (Konsole) it does not move.   *)
(***************************************************************************)
EXTENDS Naturals, Integers, Sequences, FiniteSets, TLC

Min(a, b) == IF a < b THEN a ELSE b
Max(a, b) == IF a > b THEN a ELSE b

DefaultColor == <<>>

BlankCell(bg) == [g |-> "sp", ch |-> 32, fg |-> DefaultColor, bg |-> bg]

NewTerminal(cols, rows, r, c) ==
  [cols |-> cols, rows |-> rows, r |-> r, c |-> c, top |-> 0, pw |-> FALSE,
   fg |-> DefaultColor, bg |-> DefaultColor, attrs |-> {},
   cells |-> <<>>, pl |-> <<>>, vis |-> TRUE, sync |-> 0, syncs |-> 0,
   rx |-> 0, rxctl |-> <<>>, wraps |-> 0, scrolls |-> 0, lfs |-> 0,
   ntok |-> 0, err |-> ""]

AbsRow(T) == T.top + T.r

(* --- cells ------------------------------------------------------------- *)

SetCells(cells, S, v) ==
  [p \in (DOMAIN cells) \cup S |-> IF p \in S THEN v ELSE cells[p]]

RowSpan(row, c1, c2) == {<<row, x>> : x \in c1..c2}

CellAt(T, row, col) ==
  IF <<row, col>> \in DOMAIN T.cells THEN T.cells[<<row, col>>] ELSE BlankCell(DefaultColor)

(* --- placements -------------------------------------------------------- *)

PlCover(p) == {<<rr, cc>> : rr \in p.row..(p.row + p.h - 1), cc \in p.col..(p.col + p.w - 1)}

PlacementCover(T) == UNION {PlCover(T.pl[i]) : i \in DOMAIN T.pl}

Touched(T) == (DOMAIN T.cells) \cup PlacementCover(T)

SelectPl(pl, Keep(_)) == SelectSeq(pl, Keep)

(* --- cursor / scrolling ------------------------------------------------ *)

Fail(T, msg) == IF T.err = "" THEN [T EXCEPT !.err = msg] ELSE T

LineFeed(T) ==
  IF T.r = T.rows - 1
    THEN [T EXCEPT !.top = @ + 1, !.scrolls = @ + 1]
    ELSE [T EXCEPT !.r = @ + 1]

RECURSIVE LineFeeds(_, _)
LineFeeds(T, n) == IF n <= 0 THEN T ELSE LineFeeds(LineFeed(T), n - 1)

P1(n) == IF n <= 0 THEN 1 ELSE n     \* absent (-1) or 0 count as 1

(* --- printing ---------------------------------------------------------- *)

RECURSIVE PrintRun(_, _, _, _)
PrintRun(T, g, ch, n) ==
  IF n <= 0 THEN T
  ELSE
    LET T1 == IF T.pw
                THEN [LineFeed(T) EXCEPT !.c = 0, !.pw = FALSE, !.wraps = T.wraps + 1]
                ELSE T
        room == T1.cols - T1.c
        k == Min(n, room)
        cell == [g |-> g, ch |-> ch, fg |-> T1.fg, bg |-> T1.bg]
        T2 == [T1 EXCEPT
                 !.cells = SetCells(@, RowSpan(AbsRow(T1), T1.c, T1.c + k - 1), cell),
                 !.c = Min(T1.c + k, T1.cols - 1),
                 !.pw = (T1.c + k = T1.cols)]
    IN PrintRun(T2, g, ch, n - k)

(* --- SGR ----------------------------------------------------------------*)

RECURSIVE Sgr(_, _, _)
Sgr(T, p, i) ==
  IF i > Len(p) THEN T
  ELSE
    LET x == p[i] IN
    CASE x = 0 -> Sgr([T EXCEPT !.fg = DefaultColor, !.bg = DefaultColor, !.attrs = {}], p, i + 1)
      [] x \in {38, 48} /\ i + 4 <= Len(p) /\ p[i + 1] = 2 ->
           LET col == <<p[i + 2], p[i + 3], p[i + 4]>> IN
           IF \A j \in 1..3 : col[j] \in 0..255
             THEN Sgr(IF x = 38 THEN [T EXCEPT !.fg = col] ELSE [T EXCEPT !.bg = col], p, i + 5)
             ELSE Fail(T, "sgr: colour component out of range")
      [] x \in {38, 48} /\ i + 2 <= Len(p) /\ p[i + 1] = 5 ->
           LET col == <<"i", p[i + 2]>> IN
           Sgr(IF x = 38 THEN [T EXCEPT !.fg = col] ELSE [T EXCEPT !.bg = col], p, i + 3)
      [] x \in {38, 48} -> Fail(T, "sgr: malformed extended colour")
      [] x = 39 -> Sgr([T EXCEPT !.fg = DefaultColor], p, i + 1)
      [] x = 49 -> Sgr([T EXCEPT !.bg = DefaultColor], p, i + 1)
      [] x \in (30..37) \cup (90..97) -> Sgr([T EXCEPT !.fg = <<"i", x>>], p, i + 1)
      [] x \in (40..47) \cup (100..107) -> Sgr([T EXCEPT !.bg = <<"i", x>>], p, i + 1)
      [] x \in 1..9 -> Sgr([T EXCEPT !.attrs = @ \cup {x}], p, i + 1)
      [] x = 22 -> Sgr([T EXCEPT !.attrs = @ \ {1, 2}], p, i + 1)
      [] x \in 23..29 -> Sgr([T EXCEPT !.attrs = @ \ {x - 20}], p, i + 1)
      [] OTHER -> Fail(T, "sgr: unknown parameter")

\* colon form 38:2::r:g:b arrives as <<38, 2, -1, r, g, b>>
SgrColon(T, p) ==
  IF Len(p) = 6 /\ p[1] \in {38, 48} /\ p[2] = 2 /\ (\A j \in 4..6 : p[j] \in 0..255)
    THEN IF p[1] = 38 THEN [T EXCEPT !.fg = <<p[4], p[5], p[6]>>]
                      ELSE [T EXCEPT !.bg = <<p[4], p[5], p[6]>>]
    ELSE Fail(T, "sgr: unsupported colon form")

SgrDefault(T) == T.fg = DefaultColor /\ T.bg = DefaultColor /\ T.attrs = {}

(* --- erase ---------------------------------------------------------------*)

EraseSpan(T, c1, c2) ==
  IF c2 < c1 THEN T
  ELSE [T EXCEPT !.cells = SetCells(@, RowSpan(AbsRow(T), c1, c2), BlankCell(T.bg))]

(* --- graphics ------------------------------------------------------------*)

KittyPlace(T, ctl, x) ==
  \* ctl = control record of the (first chunk of the) transmission
  LET w == IF ctl.c > 0 THEN ctl.c ELSE 1
      h == IF ctl.r > 0 THEN ctl.r ELSE 1
      p == [row |-> AbsRow(T), col |-> T.c, w |-> w, h |-> h, z |-> ctl.z,
            x |-> x, proto |-> "kitty"]
      T1 == [T EXCEPT !.pl = Append(@, p), !.pw = FALSE]
  IN IF ctl.C = 1 THEN T1
     ELSE \* cursor moves right by w and down by h-1 (kitty default policy)
          [LineFeeds(T1, h - 1) EXCEPT !.c = Min(T.c + w, T.cols - 1)]

KittyDelete(T, g) ==
  CASE g.d \in {"A", "a", ""} -> [T EXCEPT !.pl = <<>>]
    [] g.d \in {"C", "c"} ->
         LET Keep(p) == ~(<<AbsRow(T), T.c>> \in PlCover(p)) IN [T EXCEPT !.pl = SelectPl(@, Keep)]
    [] g.d \in {"Z", "z"} ->
         LET Keep(p) == ~(p.proto = "kitty" /\ p.z = g.z) IN [T EXCEPT !.pl = SelectPl(@, Keep)]
    [] OTHER -> Fail(T, "kitty: unsupported delete specifier")

OnlyChunkKeys(g) == \A i \in DOMAIN g.keys : g.keys[i] \in {"m", "q"}

Kitty(T, g, x) ==
  IF T.rx = 1 THEN
    \* inside a chunked transfer: only m (and q) allowed
    IF ~OnlyChunkKeys(g) \/ g.m = -1 THEN Fail(T, "kitty: control data in continuation chunk")
    ELSE IF g.m = 1 THEN T
    ELSE IF g.m = 0 THEN
      LET T1 == [T EXCEPT !.rx = 0, !.rxctl = <<>>] IN
      IF T.rxctl.a = "T" THEN KittyPlace(T1, T.rxctl, T.rxctl.x0) ELSE T1
    ELSE Fail(T, "kitty: bad m value")
  ELSE
    IF g.nkeys = 0 THEN Fail(T, "kitty: empty control data")
    ELSE IF OnlyChunkKeys(g) THEN
      \* a stray "last chunk" (q=1,m=0) while idle: transmit-nothing, harmless
      IF g.m = 1 THEN Fail(T, "kitty: continuation chunk without a first chunk") ELSE T
    ELSE IF g.a = "d" THEN KittyDelete(T, g)
    ELSE IF g.a = "q" THEN T
    ELSE IF g.a \in {"T", "t", ""} THEN
      IF g.m = 1 THEN [T EXCEPT !.rx = 1, !.rxctl = [g EXCEPT !.x0 = x]]
      ELSE IF g.a = "T" THEN KittyPlace(T, g, x) ELSE T
    ELSE Fail(T, "kitty: unsupported action")

ITerm(T, g, x) ==
  IF g.inline # 1 \/ g.wcells < 1 \/ g.hcells < 1
    THEN Fail(T, "iterm2: not an inline image with cell dimensions")
  ELSE
    LET p == [row |-> AbsRow(T), col |-> T.c, w |-> g.wcells, h |-> g.hcells, z |-> 0,
              x |-> x, proto |-> "iterm2"]
        T1 == [T EXCEPT !.pl = Append(@, p), !.pw = FALSE]
    IN IF g.dnmc = 1 THEN T1
       ELSE [LineFeeds(T1, g.hcells - 1) EXCEPT !.c = Min(T.c + g.wcells, T.cols - 1)]

(* --- the transition function --------------------------------------------*)

Step(T, t, gfx) ==
  LET k == t.k IN
  CASE k = "print" -> PrintRun(T, t.g, t.m, t.n)
    [] k = "lf" -> [LineFeed(T) EXCEPT !.c = 0, !.pw = FALSE, !.lfs = T.lfs + 1]
    [] k = "cr" -> [T EXCEPT !.c = 0, !.pw = FALSE]
    [] k = "bs" -> [T EXCEPT !.c = Max(@ - 1, 0), !.pw = FALSE]
    [] k \in {"nul", "bel", "st", "scs", "shift", "osc", "da1", "xtversion", "xtwinops"} -> T
    [] k = "cuu" -> [T EXCEPT !.r = Max(@ - P1(t.n), 0), !.pw = FALSE]
    [] k = "cud" -> [T EXCEPT !.r = Min(@ + P1(t.n), T.rows - 1), !.pw = FALSE]
    [] k = "cuf" -> [T EXCEPT !.c = Min(@ + P1(t.n), T.cols - 1), !.pw = FALSE]
    [] k = "cub" -> [T EXCEPT !.c = Max(@ - P1(t.n), 0), !.pw = FALSE]
    [] k = "cup" -> [T EXCEPT !.r = Min(P1(t.n), T.rows) - 1, !.c = Min(P1(t.m), T.cols) - 1,
                              !.pw = FALSE]
    [] k = "cha" -> [T EXCEPT !.c = Min(P1(t.n), T.cols) - 1, !.pw = FALSE]
    [] k = "ech" -> EraseSpan(T, T.c, Min(T.c + P1(t.n), T.cols) - 1)
    [] k = "el" -> CASE t.n \in {-1, 0} -> EraseSpan(T, T.c, T.cols - 1)
                     [] t.n = 1 -> EraseSpan(T, 0, T.c)
                     [] t.n = 2 -> EraseSpan(T, 0, T.cols - 1)
                     [] OTHER -> Fail(T, "el: bad parameter")
    [] k = "sgr" -> IF t.g = "colon" THEN SgrColon(T, t.p) ELSE Sgr(T, t.p, 1)
    [] k = "decset" -> CASE t.n = 25 -> [T EXCEPT !.vis = TRUE]
                         [] t.n = 2026 -> [T EXCEPT !.sync = @ + 1, !.syncs = @ + 1]
                         [] OTHER -> T
    [] k = "decrst" -> CASE t.n = 25 -> [T EXCEPT !.vis = FALSE]
                         [] t.n = 2026 -> IF T.sync = 0 THEN Fail(T, "end of synchronized update without begin")
                                          ELSE [T EXCEPT !.sync = @ - 1]
                         [] OTHER -> T
    [] k = "kitty" -> Kitty(T, gfx[t.x + 1], t.x)
    [] k = "iterm" -> ITerm(T, gfx[t.x + 1], t.x)
    [] k = "abort" -> T
    [] k = "partial" -> T
    [] OTHER -> Fail(T, "unsupported token")

Apply(T, t, gfx) == [Step(T, t, gfx) EXCEPT !.ntok = T.ntok + 1]

(* Sanity predicates of the model itself (checked by MC_Terminal). *)
CursorOnScreen(T) == T.r \in 0..(T.rows - 1) /\ T.c \in 0..(T.cols - 1)
=============================================================================
