SPECIFICATION Spec
CONSTANTS
  NP = 3
  NT = 5
  ProcOf <- RProcOf
  Prog <- RProg
  Modes = {"fork", "spawn"}
  QInit = {TRUE}
  Creator <- NoCreator
  Kind <- AllThreading
  MaxToggle = 0
  CopyStep = TRUE
  Variant = "code"
INVARIANT TypeOK
INVARIANT MutualExclusion
INVARIANT OwnReply
INVARIANT Reentrant
INVARIANT NoDeadlock
INVARIANT CleanEnd
INVARIANT HandOverHeld
PROPERTY AbsStep
VIEW View
CHECK_DEADLOCK FALSE
