"""X07 real-code side: probe classes built with the descriptors of ``term_image.utils``.

A *world* is described by data (the record ``W`` of ``specs/AttrDispatchCore.tla``): a tree of
classes (multiple inheritance allowed), which of them are declared with the derived metaclass,
the instances, and for every class how it declares the ``ClassInstanceMethod`` ``set_m``
(built by the constructor / derived with ``.classmethod()`` / ``.instancemethod()``).  ``World``
builds FRESH metaclasses, classes and instances from that description exactly the way the
library writes its own (``ImageMeta`` / ``ITerm2ImageMeta`` + ``BaseImage`` / ``ITerm2Image``):

* the class level of a property is a ``ClassProperty`` / ``ClassInstanceProperty`` on the
  METACLASS (built with the ``@prop.setter`` / ``@prop.deleter`` decorators), the instance level
  is a second descriptor of the same kind in the class body sharing the accessor functions
  (``ClassInstanceProperty``) or a getter-only shadow (``ClassProperty``);
* ``set_m`` is the shape of ``BaseImage.set_render_method``: ``@ClassInstanceMethod`` +
  ``@set_m.instancemethod``; overriding classes log and delegate with ``super()``;
* rejected values raise what the argument-error helpers of ``term_image.utils`` return.

Every probe function appends ``(defining class, level, what it was bound to)`` to a log, so the
dispatch of one call is observable.  ``obs()`` reads what is stored at every node
(``vars(node)``) and what every node shows for every property.
"""

from __future__ import annotations

import random

BAD_TYPE, BAD_RANGE = -1, 99
STORED = ("cip", "cp", "m")
KINDS = ("cip", "cp", "ro", "m")
HELPERS = ("arg_type_error", "arg_type_error_msg", "arg_value_error", "arg_value_error_msg",
           "arg_value_error_range")
NO_H = {"arg": "", "tname": "", "vrepr": "", "extra": ""}


def utils():
    from term_image import utils as U

    return U


def _value(a):
    return "x" if a == BAD_TYPE else a


class World:
    def __init__(self, w: dict, variant: int = 0, init: dict | None = None):
        self.w = w
        self.variant = variant
        self.U = U = utils()
        self.log: list = []
        self.nc = w["nc"]
        self.n = len(w["cls"])
        self.ident: dict[int, int] = {}
        self.static_failures: list[str] = []
        self._build(U)
        if init:
            self.force(init)

    # ------------------------------------------------------------------ construction
    def _build(self, U) -> None:
        log, ident, variant = self.log, self.ident, self.variant

        def who(x):
            return ident.get(id(x), -1)

        def check(p, v, lo_hi=(1, 2)):
            if not isinstance(v, int) or isinstance(v, bool):
                return "type"
            return None if lo_hi[0] <= v <= lo_hi[1] else "range"

        class M1(type if variant % 2 == 0 else __import__("abc").ABCMeta):
            """Type of the probe classes."""

            cip = U.ClassInstanceProperty(
                lambda self: getattr(self, "_cip", 10),
                doc="""cip: class-wide / instance-specific value

                See the base instance of this metaclass for the complete description.
                """,
            )

            @cip.setter
            def cip(self, v):
                bad = check("cip", v)
                if bad == "type":
                    raise U.arg_type_error("cip", v)
                if bad:
                    raise U.arg_value_error_range("cip", v, "max=2")
                self._cip = v

            @cip.deleter
            def cip(self):
                try:
                    del self._cip
                except AttributeError:
                    pass

            cp = U.ClassProperty(lambda self: getattr(self, "_cp", 30), doc="cp: class-wide value")

            @cp.setter
            def cp(self, v):
                bad = check("cp", v)
                if bad == "type":
                    raise U.arg_type_error_msg("cp must be an integer", v, "class-wide")
                if bad:
                    raise U.arg_value_error_msg("Unknown cp value", v)
                self._cp = v

            @cp.deleter
            def cp(self):
                try:
                    del self._cp
                except AttributeError:
                    pass

            ro = U.ClassProperty(lambda self: 50, doc="ro: read-only at both levels")

        before = (M1.__dict__["cip"], M1.__dict__["cip"].fget, M1.__dict__["cip"].fset, M1.__dict__["cip"].fdel)

        def fget2(self):
            return getattr(self, "_cip", 20)

        class M2(M1):
            """Derived metaclass: redefines `cip` (other default, same storage)."""

            if variant % 3 == 0:
                cip = M1.cip.getter(fget2)  # copy through the property protocol
            else:
                cip = U.ClassInstanceProperty(fget2, M1.cip.fset, M1.cip.fdel, doc="cip, redefined")

        self.M1, self.M2 = M1, M2
        w = self.w
        classes: dict[int, type] = {}
        falsy_classes = {w["cls"][n - 1] for n in range(self.nc + 1, self.n + 1) if w["falsy"][n - 1]}

        def make(c: int) -> type:
            bases = tuple(classes[b] for b in w["bases"][c - 1])
            kw = {"metaclass": M1} if c == 1 else ({"metaclass": M2} if w["m2"][c - 1] else {})
            d = w["decl"][c - 1]

            class P(*bases, **kw):
                if c == 1:
                    cip = U.ClassInstanceProperty(M1.cip.fget, M1.cip.fset, M1.cip.fdel, doc="cip (instance level)")
                    cp = U.ClassProperty(lambda self: type(self).cp, doc="cp (read-only shadow)")
                    ro = U.ClassProperty(lambda self: 50, doc="ro (read-only shadow)")

                    @U.ClassInstanceMethod
                    def get_m(cls):
                        """Returns the effective value of the invoker."""
                        log.append((1, "cls", who(cls)))
                        return getattr(cls, "_m", 40)

                    @get_m.instancemethod
                    def get_m(self):
                        log.append((1, "inst", who(self)))
                        return getattr(self, "_m", 40)

                    @U.ClassInstanceMethod
                    def set_m(cls, value=None):
                        """Sets (or, with None, unsets) the value of the invoker."""
                        log.append((1, "cls", who(cls)))
                        if value is not None:
                            bad = check("value", value)
                            if bad == "type":
                                raise U.arg_type_error("value", value, "set_m")
                            if bad:
                                raise U.arg_value_error("value", value)
                            cls._m = value
                        elif "_m" in vars(cls):
                            del cls._m

                    @set_m.instancemethod
                    def set_m(self, value=None):
                        log.append((1, "inst", who(self)))
                        if value is not None:
                            bad = check("value", value)
                            if bad == "type":
                                raise U.arg_type_error("value", value, "set_m")
                            if bad:
                                raise U.arg_value_error("value", value)
                            self._m = value
                        else:
                            try:
                                del self._m
                            except AttributeError:
                                pass

                if c != 1 and w["m2"][c - 1]:
                    cip = U.ClassInstanceProperty(M2.cip.fget, M2.cip.fset, M2.cip.fdel, doc="cip, redefined")

                if c != 1 and d["own"]:

                    def _c(cls, value=None):
                        log.append((c, "cls", who(cls)))
                        return super().set_m(value)

                    def _i(self, value=None):
                        log.append((c, "inst", who(self)))
                        return super().set_m(value)

                    if d["from"] == 0:
                        set_m = U.ClassInstanceMethod(_c).instancemethod(_i)
                    else:
                        set_m = vars(classes[d["from"]])["set_m"]
                        if d["cls"] and d["inst"] and variant % 2:
                            set_m = set_m.instancemethod(_i).classmethod(_c)
                        else:
                            if d["cls"]:
                                set_m = set_m.classmethod(_c)
                            if d["inst"]:
                                set_m = set_m.instancemethod(_i)
                    del _c, _i

                if c in falsy_classes:
                    if c % 2 == 0:
                        def __bool__(self):
                            return not vars(self).get("_x07_falsy", False)
                    else:
                        def __len__(self):
                            return 0 if vars(self).get("_x07_falsy", False) else 3

            P.__name__ = P.__qualname__ = f"P{c}"
            return P

        self.obj: dict[int, object] = {}
        for c in range(1, self.nc + 1):
            classes[c] = make(c)
            self.obj[c] = classes[c]
            ident[id(classes[c])] = c
        for n in range(self.nc + 1, self.n + 1):
            o = classes[w["cls"][n - 1]]()
            if w["falsy"][n - 1]:
                o._x07_falsy = True
            self.obj[n] = o
            ident[id(o)] = n
        self.classes = classes
        after = (M1.__dict__["cip"], M1.__dict__["cip"].fget, M1.__dict__["cip"].fset, M1.__dict__["cip"].fdel)
        self._parent_undisturbed = all(a is b for a, b in zip(before, after))

    def mro(self) -> list[list[int]]:
        return [[self.ident[id(k)] for k in self.classes[c].__mro__ if id(k) in self.ident]
                for c in range(1, self.nc + 1)]

    # ------------------------------------------------------------------ state
    def force(self, state: dict) -> None:
        """Put the stored values of the real objects into `state` (own-level storage only)."""
        for k in STORED:
            for n in range(1, self.n + 1):
                o = self.obj[n]
                v = state[k][n - 1]
                if v:
                    setattr(o, "_" + k, v)
                elif "_" + k in vars(o):
                    delattr(o, "_" + k)

    def obs(self) -> dict:
        own = {k: [vars(self.obj[n]).get("_" + k, 0) for n in range(1, self.n + 1)] for k in STORED}
        eff = {k: [] for k in KINDS}
        lv = []
        for n in range(1, self.n + 1):
            o = self.obj[n]
            for k in ("cip", "cp", "ro"):
                try:
                    v = getattr(o, k)
                    eff[k].append(v if isinstance(v, int) and not isinstance(v, bool) else -7)
                except Exception:
                    eff[k].append(-8)
            del self.log[:]
            try:
                v = o.get_m()
                eff["m"].append(v if isinstance(v, int) and not isinstance(v, bool) else -7)
            except Exception:
                eff["m"].append(-8)
            if len(self.log) == 1:
                _, lvl, r = self.log[0]
                lv.append(lvl if r == n else f"{lvl}@{r}")
            else:
                lv.append(f"ran:{len(self.log)}")
        del self.log[:]
        return {"own": own, "eff": eff, "lv": lv}

    # ------------------------------------------------------------------ operations
    def do(self, op: dict, h: dict | None = None) -> dict:
        U = self.U
        k, p, n, a = op["k"], op["p"], op["n"], op["a"]
        o = self.obj[n]
        del self.log[:]
        r = {"res": "ok", "msg": "", "val": 0, "cls": ""}
        try:
            if k == "get":
                v = getattr(o, p)
                r["val"] = v if isinstance(v, int) and not isinstance(v, bool) else -7
            elif k == "set":
                setattr(o, p, _value(a))
            elif k == "del":
                delattr(o, p)
            elif k == "call":
                if a == 0 and self.variant % 2:
                    o.set_m()
                else:
                    o.set_m(None if a == 0 else _value(a))
            elif k == "look":
                v = o.get_m()
                r["val"] = v if isinstance(v, int) and not isinstance(v, bool) else -7
            elif k == "static":
                self.static_failures = static_facts(U, self)
                r["val"] = 0 if self.static_failures else 1
                r["facts"] = self.static_failures
            elif k == "err":
                hh = h or default_h(p, a)
                fn = getattr(U, p)
                value = hh.get("value", 7)
                exc = fn(hh["arg"], value, hh["extra"]) if hh["extra"] else fn(hh["arg"], value)
                r["cls"] = type(exc).__name__ if type(exc) in (TypeError, ValueError) else f"?{type(exc).__name__}"
                r["msg"] = str(exc)
            else:
                raise RuntimeError(f"unknown operation {k}")
        except Exception as e:
            r["res"] = type(e).__name__
            r["msg"] = "" if isinstance(e, AttributeError) else str(e)
            r["exc_text"] = str(e)
        r["log"] = [{"d": d, "lvl": lvl, "r": rr} for d, lvl, rr in self.log]
        del self.log[:]
        return r


def default_h(helper: str, a: int) -> dict:
    arg = "Something is wrong" if helper.endswith("_msg") else "arg0"
    return {"arg": arg, "tname": "int", "vrepr": "7", "extra": "n=3" if a == 1 else "", "value": 7}


def static_facts(U, world: World) -> list[str]:
    """Facts about the descriptor objects themselves; returns the names of those that fail."""
    bad = []

    def fact(name, test):
        try:
            ok = test()
        except Exception:
            ok = False
        if not ok:
            bad.append(name)

    CIM, CP, CIP, Base = U.ClassInstanceMethod, U.ClassProperty, U.ClassInstanceProperty, U.ClassPropertyBase
    fact("ClassInstanceMethod-is-a-classmethod", lambda: issubclass(CIM, classmethod))
    fact("properties-are-distinct-property-subclasses",
         lambda: issubclass(CP, Base) and issubclass(CIP, Base) and issubclass(Base, property)
         and not issubclass(CP, CIP) and not issubclass(CIP, CP))

    def f1(x, v=None):
        return "f1"

    def f2(x, v=None):
        return "f2"

    def f3(x, v=None):
        return "f3"

    def reg_inst():
        d = CIM(f1, f2)
        d2 = d.instancemethod(f3)
        return d2 is not d and type(d2) is CIM and d2.f_owner is f1 and d2.f_instance is f3 and d.f_instance is f2

    def reg_cls():
        d = CIM(f1, f2)
        d3 = d.classmethod(f3)
        return d3 is not d and type(d3) is CIM and d3.f_owner is f3 and d3.f_instance is f2 and d.f_owner is f1

    fact("instancemethod()-returns-new-descriptor-keeping-the-class-variant", reg_inst)
    fact("classmethod()-returns-new-descriptor-keeping-the-instance-variant", reg_cls)

    def documented(self):
        """getter doc"""
        return 1

    fact("doc-argument-becomes-__doc__", lambda: CP(lambda s: 1, doc="the doc").__doc__ == "the doc"
         and CIP(lambda s: 1, doc="the doc").__doc__ == "the doc")
    fact("getter-doc-becomes-__doc__", lambda: CP(documented).__doc__ == "getter doc" and CIP(documented).__doc__ == "getter doc")

    def copies(cls):
        p = cls(documented)
        q = p.setter(f1)
        r = q.deleter(f2)
        return (type(q) is cls and type(r) is cls and q.fget is documented and q.fset is f1 and r.fset is f1
                and r.fdel is f2 and p.fset is None and q.fdel is None and r.__doc__ == "getter doc")

    for cls in (CP, CIP):
        fact(f"{cls.__name__}-setter/deleter-copies-keep-type-and-accessors", lambda cls=cls: copies(cls))
    root = world.classes[1]
    fact("class-__dict__-holds-the-descriptors",
         lambda: type(vars(root)["cip"]) is CIP and type(vars(root)["cp"]) is CP and type(vars(root)["set_m"]) is CIM
         and type(vars(world.M1)["cip"]) is CIP and type(vars(world.M1)["cp"]) is CP)
    fact("redefinition-in-derived-metaclass-leaves-parent-descriptor-alone",
         lambda: world._parent_undisturbed and vars(world.M2)["cip"] is not vars(world.M1)["cip"]
         and vars(world.M2)["cip"].fset is vars(world.M1)["cip"].fset)
    fact("instance-level-doc-kept", lambda: vars(root)["cip"].__doc__ == "cip (instance level)"
         and vars(root)["set_m"].__func__.__doc__ is not None)
    return bad


# ---------------------------------------------------------------------- random worlds
def random_world(rng: random.Random, max_classes: int, falsy: bool = False) -> dict:
    """A random class tree (single and multiple inheritance) that Python accepts."""
    nc = rng.randint(2, max_classes)
    while True:
        bases = [[]]
        for c in range(2, nc + 1):
            k = 1 if rng.random() < 0.55 or c == 2 else rng.choice([2, 2, 3])
            k = min(k, c - 1)
            # prefer recent classes (depth) but allow any
            cand = list(range(1, c))
            wts = [1 + 2 * i for i in range(len(cand))]
            b = []
            while len(b) < k:
                x = rng.choices(cand, wts)[0]
                if x not in b:
                    b.append(x)
            bases.append(b)
        try:  # does Python accept the hierarchy (C3)?
            made = {}
            for c in range(1, nc + 1):
                made[c] = type(f"T{c}", tuple(made[b] for b in bases[c - 1]), {})
        except TypeError:
            continue
        break
    anc = {c: {a for a in range(1, nc + 1) if made[a] in made[c].__mro__} for c in range(1, nc + 1)}
    m2 = [False] + [rng.random() < 0.25 for _ in range(2, nc + 1)]
    decl = [{"own": True, "from": 0, "cls": True, "inst": True}]
    for c in range(2, nc + 1):
        if rng.random() < 0.5:
            decl.append({"own": False, "from": 0, "cls": False, "inst": False})
            continue
        cands = [a for a in sorted(anc[c]) if a != c and decl[a - 1]["own"]]
        if rng.random() < 0.4:
            decl.append({"own": True, "from": 0, "cls": True, "inst": True})
        else:
            which = rng.choice([(True, False), (False, True), (True, True)])
            decl.append({"own": True, "from": rng.choice(cands), "cls": which[0], "inst": which[1]})
    ni = rng.randint(2, 4)
    cls = [0] * nc + [rng.randint(1, nc) for _ in range(ni)]
    fl = [False] * (nc + ni)
    if falsy:
        fl[nc + rng.randrange(ni)] = True
    return {"nc": nc, "bases": bases, "m2": m2, "cls": cls, "decl": decl, "falsy": fl}
