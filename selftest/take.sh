#!/bin/sh
# selftest/take.sh <worktree-prefix> <suffix-letter> <PROP>...   e.g.  take.sh seed3 u C01 C02
# imports <prefix>-<PROP>/seeded/{1,2,3} as <PROP>-<suffix>{1,2,3}, removes the worktree, runs them
cd "$(dirname "$0")/.." || exit 2
pre=$1; suf=$2; shift 2
ids=""
for p in "$@"; do
  for k in 1 2 3; do
    d=/tmp/$pre-$p/seeded/$k
    [ -d "$d" ] || continue
    /venv/bin/python -m selftest.seeds import "$d" "$p-$suf$k" && ids="$ids $p-$suf$k"
  done
  git -C /repo worktree remove --force /tmp/$pre-$p 2>/dev/null
done
[ -n "$ids" ] && /venv/bin/python -m selftest.seeds run $ids --jobs 3 | grep -E "^SEED|MACHINERY-FAILURE"
