-------------------------- MODULE Trace_ImageIter --------------------------
(***************************************************************************)
(* C11 / C09 (image iterator): code -> spec.  Each trace is a history of     *)
(* operations executed on REAL term-image objects (a replayed TLC path or a  *)
(* seeded random history), one event per public call, logged at its return   *)
(* and after the quiescence point (exception handled, gc.collect()):          *)
(*                                                                            *)
(*   a   the operation with its arguments (ImageIterCore!Act fields); a      *)
(*       failure is logged only if the injected fault actually fired          *)
(*   o   what was observed: result class, decoded frame (index, rendered     *)
(*       size), image.tell(), size setting, open files by owner (/proc/self/ *)
(*       fd + the file objects captured at PIL.Image.open), files that were   *)
(*       closed by the collector instead of the library (ResourceWarning),    *)
(*       (a live iterator MAY hold one file: Pillow itself closes e.g. WebP    *)
(*       files once decoded, so fewer open files than modelled is no clause)   *)
(*       caller's file open, temp-dir entries, cached/uncached pair equal     *)
(*                                                                            *)
(* Steps are total: the verdict names the first failing clause and its index. *)
(***************************************************************************)
EXTENDS ImageIterCore, Json, IOUtils

Traces == JsonDeserialize(IOEnv.TRACE_FILE)

VARIABLES tid, l, st, verdict, at, hits
vars == <<tid, l, st, verdict, at, hits>>

Tr == Traces[tid]
Ev == Tr.events
Len_ == Len(Ev)
TraceRepeats == {-1} \cup 1..9

InitState(i) ==
  IF i.kind = "none" THEN NoImage(i.term) ELSE Opened(i.term, i.kind, i.anim, i.size)

(* a fault that fired where the model expected a cache hit is still a fault *)
EnabledT(s, a) ==
  \/ Enabled(s, a, TraceRepeats)
  \/ /\ a.op = "next" /\ a.fault \in (Steps \ {"open"}) /\ ~s.faulted
     /\ s.it.ph \in Live /\ ~s.closed /\ ~Exhausts(s.it)

Clause(s, a, o) ==
  IF ~EnabledT(s, a) THEN "unsupported: operation outside the modelled histories"
  ELSE
    LET r == Apply(s, a)
        x == r.out
        t == r.st
    IN
    IF o.res # x.res THEN
      "result: expected " \o x.res \o ", observed " \o o.res
    ELSE IF x.frame # NoFrame /\ o.fi # x.frame.i THEN
      "frame-index: not the frame format() gives for the expected frame number"
    ELSE IF x.frame # NoFrame /\ o.frs # x.frame.rs THEN
      "frame-size: frame not rendered at the image's current rendered size"
    ELSE IF a.op = "next" /\ x.exhausted /\ o.tell # 0 THEN
      "tell-exhausted: image not back at frame 0 after exhaustion"
    ELSE IF a.op = "draw" /\ ((o.tell # s.tell /\ s.tell # -1) \/ ~o.tellSame) THEN
      "tell-draw: draw() moved the image's current frame"
    ELSE IF t.tell # -1 /\ o.tell # t.tell THEN
      "tell: image.tell() is not the last yielded frame"
    ELSE IF o.callH > CountOwner(t.handles, "call") \/ o.iterH > CountOwner(t.handles, "iter") THEN
      "handles-leak: a file the library opened is still open"
    ELSE IF o.gc > x.gcMax THEN
      "prompt-close: a file was left to the garbage collector"
    ELSE IF o.caller # t.callerOpen THEN
      "caller-closed: the caller's PIL image was closed"
    ELSE IF o.temp < TempCount(t) THEN
      "temp-missing: temporary copy of an open URL image is gone"
    ELSE IF o.temp > TempCount(t) THEN "temp-left: temporary file left behind"
    ELSE IF t.kind # "none" /\ o.size # t.size THEN
      "size-changed: the image's size setting was altered"
    ELSE IF o.pair = "diff" THEN
      "cache-visible: cached and uncached iterators yielded different frames"
    ELSE IF a.op = "nframes" /\ o.nframes # x.nframes THEN "nframes"
    ELSE "ok"

Init ==
  /\ tid \in 1..Len(Traces)
  /\ l = 0
  /\ st = InitState(Traces[tid].init)
  /\ verdict = "ok"
  /\ at = 0
  /\ hits = <<0, 0>>

Step ==
  /\ l < Len_
  /\ l' = l + 1
  /\ LET e == Ev[l + 1]
         v == IF verdict # "ok" THEN verdict ELSE Clause(st, e.a, e.o)
         en == EnabledT(st, e.a)
         r == Apply(st, e.a)
     IN
     /\ verdict' = v
     /\ at' = IF verdict = "ok" /\ v # "ok" THEN l + 1 ELSE at
     /\ st' = IF v = "ok" /\ en THEN r.st ELSE st
     /\ hits' = IF v = "ok" /\ en /\ e.a.op = "next" /\ r.out.res = "frame"
                THEN <<hits[1] + (IF r.out.rendered THEN 0 ELSE 1),
                       hits[2] + (IF e.o.rendered = 0 THEN 1 ELSE 0)>>
                ELSE hits
  /\ UNCHANGED tid

Finish ==
  /\ l = Len_
  /\ l' = Len_ + 1
  /\ UNCHANGED <<tid, st, verdict, at, hits>>

Next == Step \/ Finish
Spec == Init /\ [][Next]_vars

Done == l = Len_ + 1
Report ==
  Done => PrintT(<<"VERDICT", ToJson([tid |-> tid, verdict |-> verdict, at |-> at,
                                      hits |-> hits[1], hitsObs |-> hits[2]])>>)
=============================================================================
