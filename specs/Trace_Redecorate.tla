-------------------------- MODULE Trace_Redecorate --------------------------
(***************************************************************************)
(* X07: code -> spec for no_redecorate.  trace = [init, ev];                 *)
(*   init = layers of the two functions at the start (sequences of names)    *)
(*   event = [op = [k, d, f], r = [same, ok], obs = <<fn1, fn2>>] with        *)
(*   fn = [log, marks, apps, meta, wd] observed on the REAL outermost object  *)
(***************************************************************************)
EXTENDS RedecorateCore, TLC, Json, IOUtils

Traces == JsonDeserialize(IOEnv.TRACE_FILE)
VARIABLES tid, l, L, verdict, at
vars == <<tid, l, L, verdict, at>>
Tr == Traces[tid]
NE == Len(Tr.ev)

WFTrace(tr) == Len(tr.init) = 2 /\ \A f \in 1..2 : \A i \in 1..Len(tr.init[f]) : tr.init[f][i] \in Decorators
WFEvent(e) ==
  /\ e.op.k \in {"decorate", "rewrap", "decmeta", "call"}
  /\ e.op.f \in 1..2
  /\ e.op.k = "decorate" => e.op.d \in Decorators
  /\ e.op.k \in {"rewrap", "decmeta"} => e.op.d \in Guarded
  /\ Len(e.obs) = 2

L2(e) == IF e.op.k = "decorate" THEN [L EXCEPT ![e.op.f] = Decorate(L[e.op.f], e.op.d)] ELSE L

Clause(e, LL) ==
  LET f == e.op.f
      g == 3 - f
      o == e.obs[f]
      x == ObsFn(LL[f])
      blocked == e.op.k = "decorate" /\ Blocked(L[f], e.op.d) IN
  IF ~WFEvent(e) THEN "trace-malformed"
  ELSE IF ~e.r.ok THEN
     (IF e.op.k = "rewrap" THEN "guarding-a-guarded-decorator-wraps-again"
      ELSE IF e.op.k = "decmeta" THEN "decorator-metadata-lost"
      ELSE "operation-failed")
  ELSE IF e.op.k = "decorate" /\ blocked /\ ~e.r.same THEN
     (IF o.apps[e.op.d] > x.apps[e.op.d] THEN "decorated-again" ELSE "redecoration-returns-another-object")
  ELSE IF e.op.k = "decorate" /\ ~blocked /\ e.r.same THEN "decorator-not-applied"
  ELSE IF e.obs[g] # ObsFn(LL[g]) THEN "other-function-affected"
  ELSE IF o.apps # x.apps THEN
     (IF e.op.k # "decorate" THEN "non-decorating-operation-decorated"
      ELSE IF blocked THEN "decorated-again" ELSE "decorator-not-applied-exactly-once")
  ELSE IF o.log # x.log THEN "layers-called-in-wrong-order"
  ELSE IF o.marks # x.marks THEN "marker-wrong"
  ELSE IF o.meta # x.meta THEN "function-metadata-lost"
  ELSE IF o.wd # x.wd THEN "wrapped-chain-wrong"
  ELSE "ok"

Init ==
  /\ tid \in 1..Len(Traces)
  /\ l = 0
  /\ L = IF WFTrace(Traces[tid]) THEN [f \in 1..2 |-> Traces[tid].init[f]] ELSE <<>>
  /\ verdict = IF WFTrace(Traces[tid]) THEN "ok" ELSE "trace-malformed"
  /\ at = 0

Step ==
  /\ l < NE
  /\ l' = l + 1
  /\ LET e == Tr.ev[l + 1]
         usable == verdict # "trace-malformed" /\ WFEvent(e)
         LL == IF usable THEN L2(e) ELSE L
         v == IF verdict # "ok" THEN verdict ELSE Clause(e, LL)
     IN L' = LL /\ verdict' = v /\ at' = IF verdict = "ok" /\ v # "ok" THEN l + 1 ELSE at
  /\ UNCHANGED tid
Finish == l = NE /\ l' = NE + 1 /\ UNCHANGED <<tid, L, verdict, at>>
Next == Step \/ Finish
Spec == Init /\ [][Next]_vars
Done == l = NE + 1
Report == Done => PrintT(<<"VERDICT", ToJson([tid |-> tid, verdict |-> verdict, at |-> at, events |-> NE])>>)
=============================================================================
