SPECIFICATION Spec
CONSTANTS
  Profiles <- ProfQueryQuick
  Floats <- F1
  Tmos <- T2
  DefaultTmo <- Default
  NonPos = {"zero", "negative"}
  WrongTypes = {"str", "none"}
  TtyWorlds = {TRUE, FALSE}
  ProgWorlds = {FALSE}
  Ops <- OpsRatioTmo
  Variant = "code"
VIEW View
ACTION_CONSTRAINT Dump
INVARIANT InitDump
CHECK_DEADLOCK FALSE
