--------------------------- MODULE MC_SizingHist ---------------------------
(***************************************************************************)
(* C04, history machine: an image object whose size is Fixed(w, h) or       *)
(* Dynamic(mode), under a terminal (size, cell size) and a global cell      *)
(* ratio that change.  One named action per API operation.  Every generated *)
(* transition is dumped (ACTION_CONSTRAINT Dump) and replayed into a REAL   *)
(* image object by harness/drivers/c04.py.                                  *)
(***************************************************************************)
EXTENDS Sizing, TLC, Json

CONSTANTS MaxLevel, NTerm, NRatio, NoTies

Fams == {"text", "gfx"}
Origs == {<<3, 5>>, <<15, 7>>, <<5, 21>>}    \* odd dimensions: no rounding of Algo can be an exact tie
AllTerms == <<[tc |-> 12, tl |-> 8, cw |-> 0, ch |-> 0], [tc |-> 7, tl |-> 5, cw |-> 3, ch |-> 5],
              [tc |-> 9, tl |-> 3, cw |-> 1, ch |-> 2]>>
AllRatios == <<<<1, 2>>, <<1, 1>>, <<0, 1>>, <<3, 5>>>>      \* <<0, 1>>: taken from the cell size
Terms == {AllTerms[i] : i \in 1..NTerm}
RatioSet == {AllRatios[i] : i \in 1..NRatio}
Frames == {<<DefFC, DefFL>>, <<5, 3>>, <<-2, 4>>}

Op0 == [op |-> "", k |-> "", a |-> 0, b |-> 0, fc |-> 0, fl |-> 0, tc |-> 0, tl |-> 0, cw |-> 0,
        ch |-> 0, rn |-> 0, rd |-> 0]
OpM(op, m) == [Op0 EXCEPT !.op = op, !.k = m.k, !.a = m.a, !.b = m.b]

SetSizeOps ==
  {[OpM("set_size", Mode(k)) EXCEPT !.fc = f[1], !.fl = f[2]] : k \in SizeModes, f \in Frames}
  \cup {[OpM("set_size", m) EXCEPT !.fc = DefFC, !.fl = DefFL] :
          m \in {GivenW(3), GivenW(11), GivenH(2), GivenH(6), Manual(4, 2)}}
SizePropOps == {OpM("size=", Mode(k)) : k \in SizeModes} \cup {OpM("size=", Manual(6, 1))}
WidthPropOps == {OpM("width=", GivenW(5)), OpM("width=", Mode("ORIGINAL")), OpM("width=", Mode("FIT"))}
HeightPropOps == {OpM("height=", GivenH(3)), OpM("height=", Mode("AUTO")),
                  OpM("height=", Mode("FIT_TO_WIDTH"))}
ResizeOps == {[Op0 EXCEPT !.op = "resize", !.tc = t.tc, !.tl = t.tl, !.cw = t.cw, !.ch = t.ch] : t \in Terms}
RatioOps == {[Op0 EXCEPT !.op = "cell_ratio", !.rn = r[1], !.rd = r[2]] : r \in RatioSet}
RenderOp == [Op0 EXCEPT !.op = "render"]

VARIABLES s, out
vars == <<s, out>>
View == s

NoOut == [o |-> Op0, during |-> <<0, 0>>, tie |-> FALSE]

Init ==
  /\ s \in {[fam |-> f, ow |-> o[1], oh |-> o[2], tc |-> t.tc, tl |-> t.tl, cw |-> t.cw, ch |-> t.ch,
             rn |-> r[1], rd |-> r[2], sz |-> Dynamic("FIT")] :
               f \in Fams, o \in Origs, t \in Terms, r \in RatioSet}
  /\ out = NoOut
  /\ PrintT(<<"INIT", ToJson(Obs(s))>>)

TieOf(o) ==
  IF o.op = "set_size" /\ o.k # "WH" THEN Algo(OpMode(o), EnvOf(s, o.fc, o.fl)).tie
  ELSE IF o.op \in {"width=", "height="} THEN Algo(OpMode(o), EnvOf(s, DefFC, DefFL)).tie
  ELSE FALSE

OutOf(o) == [o |-> o, during |-> IF o.op = "render" THEN Rendered(s) ELSE <<0, 0>>, tie |-> TieOf(o)]

SetSize == \E o \in SetSizeOps :
  /\ s' = HApply(s, o)
  /\ out' = OutOf(o)
SetSizeProperty == \E o \in SizePropOps :
  /\ s' = HApply(s, o)
  /\ out' = OutOf(o)
SetWidthProperty == \E o \in WidthPropOps :
  /\ s' = HApply(s, o)
  /\ out' = OutOf(o)
SetHeightProperty == \E o \in HeightPropOps :
  /\ s' = HApply(s, o)
  /\ out' = OutOf(o)
Resize == \E o \in ResizeOps :
  /\ s' = HApply(s, o)
  /\ out' = OutOf(o)
SetCellRatio == \E o \in RatioOps :
  /\ s' = HApply(s, o)
  /\ out' = OutOf(o)
Render ==
  /\ s' = HApply(s, RenderOp)
  /\ out' = OutOf(RenderOp)

Next == SetSize \/ SetSizeProperty \/ SetWidthProperty \/ SetHeightProperty \/ Resize
        \/ SetCellRatio \/ Render
Spec == Init /\ [][Next]_vars

Bound == TLCGet("level") <= MaxLevel
Dump == PrintT(<<"EDGE", ToJson([from |-> Obs(s), op |-> out', to |-> Obs(s')])>>)

-----------------------------------------------------------------------------
\* a dynamic size follows the terminal and the cell ratio: what it renders as satisfies the
\* property under the CURRENT environment and the default frame
DynamicFollows ==
  s.sz.k = "dyn" => SizeRel(Mode(s.sz.m), EnvOf(s, DefFC, DefFL), Rendered(s))
SizeWellFormed ==
  \/ s.sz.k = "fixed" /\ s.sz.w >= 1 /\ s.sz.h >= 1
  \/ s.sz.k = "dyn" /\ s.sz.m \in SizeModes
\* the replay compares the real (float) code with Algo by equality: legitimate because no
\* rounding of the reachable computations is an exact tie (float error cannot flip them)
NoTieReachable == NoTies => ~RenderedTie(s)

\* action properties (checked on every transition, also those into known states)
\* a size changes only by a set operation: fixed sizes (manual or automatic) are stored
\* unchanged regardless of resize / set_cell_ratio / render; dynamic sizes stay dynamic
FixedUnchanged == [][~IsSetOp(out'.o) => s'.sz = s.sz]_vars
\* set_size / width= / height= always store a fixed size that satisfied the property when set;
\* size= stores a Size member as dynamic and a tuple unchanged
SetStoresFixedInRel ==
  [][LET o == out'.o IN
     /\ (o.op = "set_size" => s'.sz.k = "fixed"
            /\ SizeRel(OpMode(o), EnvOf(s, o.fc, o.fl), <<s'.sz.w, s'.sz.h>>))
     /\ (o.op \in {"width=", "height="} => s'.sz.k = "fixed"
            /\ SizeRel(OpMode(o), EnvOf(s, DefFC, DefFL), <<s'.sz.w, s'.sz.h>>))
     /\ (o.op = "size=" => s'.sz = IF o.k = "WH" THEN Fixed(o.a, o.b) ELSE Dynamic(o.k))
     /\ (NoTies => ~out'.tie)]_vars
\* rendering evaluates a dynamic size for the current terminal and restores it afterwards
RenderRestores ==
  [][out'.o.op = "render" =>
       /\ s' = s
       /\ (s.sz.k = "dyn" => SizeRel(Mode(s.sz.m), EnvOf(s, DefFC, DefFL), out'.during))
       /\ (s.sz.k = "fixed" => out'.during = <<s.sz.w, s.sz.h>>)]_vars
=============================================================================
