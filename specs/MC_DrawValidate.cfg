SPECIFICATION Spec
INVARIANT Sane
INVARIANT MixedPaddingStillValidated
INVARIANT StillDrawOfAnimatedSource
INVARIANT RelaxingNeverRejects
CHECK_DEADLOCK FALSE
