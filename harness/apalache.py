"""Apalache (symbolic, unbounded integers) as an informational extra - never the deciding engine."""

from __future__ import annotations

import shutil
import subprocess
import time
import uuid

from . import tlc
from .core import Report


def check_inv(rep: Report, module: str, inv: str, key: str, timeout: int = 300) -> None:
    out = tlc.OUT / "apalache" / uuid.uuid4().hex[:8]
    t0 = time.time()
    try:
        p = subprocess.run(
            ["apalache-mc", "check", "--init=Init", "--next=Next", f"--inv={inv}", "--length=0",
             f"--out-dir={out}", module],
            cwd=tlc.SPECS / "apalache", stdout=subprocess.PIPE, stderr=subprocess.STDOUT, text=True,
            timeout=timeout,
        )
        ok = "The outcome is: NoError" in p.stdout
        res = "NoError (Init => %s valid over unbounded integers)" % inv if ok else "not proved: " + p.stdout[-300:]
    except (subprocess.TimeoutExpired, FileNotFoundError) as e:
        ok, res = False, f"not run to completion: {type(e).__name__}"
    finally:
        shutil.rmtree(out, ignore_errors=True)
    rep.extra.setdefault("apalache", {})[key] = {"result": res, "wall_s": round(time.time() - t0, 1)}
    if not ok:
        rep.notes.append(f"apalache {key}: {res[:120]} (informational)")
