------------------------- MODULE Trace_UrwidWidget -------------------------
(***************************************************************************)
(* X04: code -> spec.  A trace is one history executed on REAL UrwidImage   *)
(* widgets (harness/x04_world.py):                                          *)
(*   [cfg, qcols, imgexc, init, ev]                                         *)
(*   cfg    the configuration (UrwidWidgetCore: style, fam, ow, oh, cw, ch, *)
(*          tc, tl, wp)                                                     *)
(*   qcols  the widths whose rows() is read after every operation           *)
(*   imgexc the class of the exception the image's own render raises while  *)
(*          it is broken ("FileNotFoundError")                              *)
(*   init   the spec state the history starts from                          *)
(*   event  [k, w, sz, f, a, r, o]: the operation, its observed result r    *)
(*          (res = "ok" | exception class; what the returned canvas SHOWS:  *)
(*          kind, cc x cr, image rectangle iw x ih at (pl, pt), reused =     *)
(*          the very canvas object held from the previous render, nc, z,    *)
(*          eq) and the projection o read from the real objects afterwards  *)
(* Steps are total: S' = Eval(S, op).s2 whatever was observed; the verdict  *)
(* names the first failing clause (= the signature) and the event index.    *)
(***************************************************************************)
EXTENDS UrwidWidgetCore, TLC, Json, IOUtils

Traces == JsonDeserialize(IOEnv.TRACE_FILE)

VARIABLES tid, l, S, verdict, at
vars == <<tid, l, S, verdict, at>>

Tr == Traces[tid]
C == Tr.cfg
NE == Len(Tr.ev)

StateOf(i) == [isz |-> i.isz, has |-> i.has, cache |-> i.cache, ph |-> i.ph, fail |-> i.fail]

WFTrace(tr) ==
  /\ WFConfig(tr.cfg)
  /\ \A i \in 1..Len(tr.qcols) : tr.qcols[i] >= 1
  /\ WFState(StateOf(tr.init))

OpOf(e) == Op(e.k, e.w, e.sz, e.f, e.a)

SzMode(e) == IF Len(e.sz) = 2 THEN "box" ELSE IF Len(e.sz) = 1 THEN "flow" ELSE "fixed"
ClsName(w) == IF w = 0 THEN "base" ELSE "sub"

\* ---- the result of the call --------------------------------------------------------------
ResClause(s, e, x) ==
  LET got == e.r.res IN
  CASE e.k = "new" ->
         IF x.res = "ok" THEN (IF got = "ok" THEN "ok" ELSE "new:valid-arguments-rejected")
         ELSE IF got = "ok" THEN "new:invalid-argument-accepted"
         ELSE IF got \in AllowedExc(e.a) THEN "ok" ELSE "new:undocumented-exception-class"
    [] e.k = "setph" ->
         IF x.res = "ok" THEN
           (IF got = "ok" THEN "ok"
            ELSE IF e.a[1] = "none" THEN "setph:" \o ClsName(e.w) \o ":none-to-remove-rejected"
            ELSE "setph:" \o ClsName(e.w) \o ":valid-widget-rejected")
         ELSE IF got = "ok" THEN "setph:" \o ClsName(e.w) \o ":non-widget-accepted"
         ELSE IF got = "TypeError" THEN "ok" ELSE "setph:" \o ClsName(e.w) \o ":wrong-exception-class"
    [] e.k = "pack" ->
         IF x.res = "ok" THEN (IF got = "ok" THEN "ok" ELSE "pack:" \o SzMode(e) \o ":raised")
         ELSE IF got = x.res THEN "ok" ELSE "pack:fixed:not-rejected-with-WidgetError"
    [] e.k = "render" ->
         IF x.res = "UrwidImageError" THEN
           (IF got = "UrwidImageError" THEN "ok" ELSE "render:fixed:not-rejected-with-UrwidImageError")
         ELSE IF x.res = "ok" THEN
           (IF got = "ok" THEN "ok"
            ELSE IF s.fail /\ ~x.reused THEN "render:" \o SzMode(e) \o ":placeholder-set-but-exception-escaped"
            ELSE "render:" \o SzMode(e) \o ":raised")
         ELSE IF x.res = "raise" THEN
           (IF got = Tr.imgexc THEN "ok"
            ELSE IF got = "ok" THEN "render:" \o SzMode(e) \o ":exception-suppressed-without-placeholder"
            ELSE "render:" \o SzMode(e) \o ":other-exception-than-the-image's")
         ELSE \* phfail (D2): the flow-only placeholder cannot be rendered with the box size it is given
           (IF got \notin {"ok", Tr.imgexc} THEN "ok" ELSE "render:" \o SzMode(e) \o ":flow-only-placeholder-outcome")
    [] OTHER -> IF got = "ok" THEN "ok" ELSE e.k \o ":raised"

\* ---- what the returned canvas shows -----------------------------------------------------------
CanvasClause(s, e, x) ==
  LET m == "render:" \o SzMode(e) \o ":"
      g == e.r
      p == C.wp[e.w]
  IN
  IF e.k # "render" \/ x.res # "ok" THEN "ok"
  ELSE IF x.reused /\ ~g.reused THEN m \o "re-rendered-although-cached"
  ELSE IF ~x.reused /\ g.reused THEN m \o "stale-canvas-reused"
  ELSE IF g.kind \notin {"image", "B1", "B2"} THEN m \o "malformed-canvas"
  ELSE IF x.kind = "image" /\ g.kind # "image" THEN m \o "placeholder-instead-of-image"
  ELSE IF x.kind # "image" /\ g.kind = "image" THEN m \o "image-instead-of-placeholder"
  ELSE IF x.kind # g.kind THEN m \o "placeholder-of-another-class"
  ELSE IF <<g.cc, g.cr>> # <<x.cc, x.cr>> THEN
         (IF x.kind = "image" THEN m \o "canvas-size" ELSE m \o "placeholder-not-at-requested-size")
  ELSE IF x.kind # "image" THEN "ok"
  ELSE IF SizeLaw(C, p, e.sz, g.cc, g.cr, g.iw, g.ih) # "ok"
         THEN m \o "size-law:" \o SizeLaw(C, p, e.sz, g.cc, g.cr, g.iw, g.ih)
  ELSE IF <<g.iw, g.ih>> # <<x.iw, x.ih>> THEN m \o "image-size"
  ELSE IF <<g.pl, g.pt>> # <<x.pl, x.pt>> THEN m \o "alignment"
  ELSE IF g.nc # x.nc THEN m \o "transmissions-per-render-method"
  ELSE IF g.z # x.z THEN "render:kitty:z-index-not-the-widget's-own"
  ELSE IF ~g.eq THEN m \o "content-differs-from-the-image's-own-render"
  ELSE "ok"

QueryClause(e, x) ==
  IF e.k = "rows" /\ e.r.cr # x.cr THEN "rows:height"
  ELSE IF e.k = "pack" /\ x.res = "ok" /\ <<e.r.cc, e.r.cr>> # <<x.cc, x.cr>> THEN "pack:" \o SzMode(e) \o ":size"
  ELSE "ok"

\* ---- the objects afterwards -------------------------------------------------------------------
\* (a difference in a component the operation has nothing to do with is reported under "any:",
\* so that one defect of a pure query - rows() is called by every observation - has one signature)
ObsClause(s, s2, e) ==
  LET want == WObs(C, s2, Tr.qcols)
      o == e.o
      who == IF e.k \in {"render", "pack"} THEN e.k \o ":" \o SzMode(e) ELSE e.k
      By(related) == IF e.k \in related THEN who ELSE "any"
  IN
  IF o.isz # want.isz THEN
       (IF e.k = "render" /\ o.isz = s.isz THEN who \o ":image-size-setting-not-updated"
        ELSE By({"render", "setsize", "rows", "pack"}) \o ":image-size-setting")
  ELSE IF o.has # want.has THEN By({"new", "drop"}) \o ":widget-table"
  ELSE IF o.rows # want.rows THEN "any:rows-table"
  ELSE IF o.cache # want.cache THEN By({"render", "inval", "release", "drop", "new"}) \o ":canvas-cache"
  ELSE IF o.ph # want.ph THEN
       (IF e.k = "setph" THEN "setph:" \o ClsName(e.w) \o ":effective-placeholder" ELSE "any:effective-placeholder")
  ELSE IF o.img # want.img THEN "any:image-property"
  ELSE "ok"

First(cs) ==
  LET bad == {i \in DOMAIN cs : cs[i] # "ok"} IN
  IF bad = {} THEN "ok" ELSE cs[CHOOSE i \in bad : \A j \in bad : i <= j]

Clause(s, e) ==
  LET op == OpOf(e) IN
  IF ~Applicable(C, s, op) THEN "unsupported-event"
  ELSE LET ev == Eval(C, s, op)
           x == ev.r
       IN IF x.tie \/ ObsTie(C, ev.s2, Tr.qcols) THEN "inconclusive:rounding-tie"
          ELSE First(<<ResClause(s, e, x), CanvasClause(s, e, x), QueryClause(e, x), ObsClause(s, ev.s2, e)>>)

Init ==
  /\ tid \in 1..Len(Traces)
  /\ l = 0
  /\ S = StateOf(Traces[tid].init)
  /\ verdict = IF WFTrace(Traces[tid]) THEN "ok" ELSE "unsupported-trace"
  /\ at = 0

Step ==
  /\ l < NE
  /\ l' = l + 1
  /\ LET e == Tr.ev[l + 1]
         op == OpOf(e)
         ok == verdict # "unsupported-trace" /\ Applicable(C, S, op)
         v == IF verdict # "ok" THEN verdict ELSE Clause(S, e)
     IN /\ S' = IF ok THEN Eval(C, S, op).s2 ELSE S
        /\ verdict' = v
        /\ at' = IF verdict = "ok" /\ v # "ok" THEN l + 1 ELSE at
  /\ UNCHANGED tid

Finish == l = NE /\ l' = NE + 1 /\ UNCHANGED <<tid, S, verdict, at>>

Next == Step \/ Finish
Spec == Init /\ [][Next]_vars

Done == l = NE + 1
Report ==
  Done => PrintT(<<"VERDICT", ToJson([tid |-> tid, verdict |-> verdict, at |-> at, events |-> NE,
                                      judged |-> IF verdict = "ok" THEN NE ELSE at])>>)
=============================================================================
