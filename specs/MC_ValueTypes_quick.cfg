SPECIFICATION Spec
CONSTANTS
  N = 2
  ScratchMax = 1
  Overwrite = FALSE
  ProbeAll = FALSE
  Fams = {"pad", "color"}
  Subs = TRUE
  AlignedSeeds <- Q_AlignedSeeds
  AlignedDefaultSeeds <- Q_AlignedDefaultSeeds
  ExactSeeds <- Q_ExactSeeds
  Terms <- TermsAll
  RSs <- RSsAll
  RebuildInts <- Q_RebuildInts
  Fills <- E_Fills
  SizeSeeds <- Q_SizeSeeds
  SizeReplace <- Q_SizeReplace
  ColorSeeds <- Q_ColorSeeds
  RgbSeeds <- Q_RgbSeeds
  ChanReplace <- Q_ChanReplace
  StrSeeds <- E_StrSeeds
VIEW View
INVARIANT TypeOK
INVARIANT IdentityAndEquality
INVARIANT EqualFieldsEqualPaddings
INVARIANT RelativeFlag
INVARIANT HexRoundTrip
INVARIANT ParseNormalForm
PROPERTY ActionsAreCoreOps
PROPERTY RejectedChangesNothing
PROPERTY ValueOpsChangeNothing
PROPERTY MutationRefused
PROPERTY OnlyDstChanges
PROPERTY OnlyBypassMakesInvalid
PROPERTY ResolveLaw
PROPERTY ToExactLaw
PROPERTY PaddedSizeLaw
PROPERTY PadMatchesPaddedSize
PROPERTY AlignmentSplit
PROPERTY RelativeIsRefused
PROPERTY RebuildLaw
PROPERTY FromHexLaw
PROPERTY HexLaw
CHECK_DEADLOCK FALSE
