--------------------------- MODULE StyleSettings ---------------------------
(***************************************************************************)
(* C20: style settings resolve instance -> nearest class -> default, and    *)
(* unset restores.  State machine over StyleSettingsCore for one family     *)
(* (kitty / iterm2) and one setting under test per behaviour (settings are  *)
(* independent; the replay nevertheless observes ALL settings after every    *)
(* operation, the untouched ones must show their defaults).                 *)
(*                                                                         *)
(* Tree: 5 classes (1 = the real style class, 2(1), 3(2), 4(2) fork, 5(3))  *)
(* and 2 instances (6 of class 5, 7 of class 4).                            *)
(***************************************************************************)
EXTENDS StyleSettingsCore, TLC, Json

CONSTANTS
  MaxWeight,   \* explore every state with at most this many overridden nodes (this contains
               \* every state reachable by a history of MaxWeight operations) and ALL
               \* transitions between such states (histories of any length)
  Rich         \* TRUE: larger value / bad-value / override alphabets

(* forced_support is a BaseImage property: its behaviours run on FsTree, which has   *)
(* the REAL ancestors above the style class: 1 BaseImage, 2 GraphicsImage(1),         *)
(* 3 the style class (2), 4 the other graphics style class (2), user classes 5(3),    *)
(* 6(5), 7(5); instances 8 of class 6, 9 of class 7.                                  *)
(*                                                                                   *)
(* Class variants of a tree: dm = which classes are declared with a derived           *)
(* metaclass, fl = which classes define `__len__` returning 0 (falsy instances).      *)
(* The model's transitions do not depend on the variant - the replay runs every       *)
(* walk on real classes built per variant (rotating; the walks of the global          *)
(* setting under EVERY variant).                                                      *)
StdVariants ==
  << [dm |-> <<0, 0, 1, 0, 0, 0, 0>>,    \* 3 (and so 5, instance 6) vs plain 1, 2, 4, 7
      fl |-> <<0, 0, 0, 0, 1, 0, 0>>],   \* instance 6 falsy, instance 7 truthy
     [dm |-> <<0, 1, 0, 0, 0, 0, 0>>,    \* everything below the real class
      fl |-> <<0, 1, 0, 0, 0, 0, 0>>],   \* both instances falsy (inherited __len__)
     [dm |-> <<0, 0, 0, 1, 1, 0, 0>>,    \* two unrelated derived metaclasses (4; 5)
      fl |-> <<0, 0, 0, 1, 0, 0, 0>>],   \* instance 7 falsy, instance 6 truthy
     [dm |-> <<0, 0, 0, 0, 0, 0, 0>>,
      fl |-> <<0, 0, 0, 0, 0, 0, 0>>] >> \* plain
FsVariants ==
  << [dm |-> <<0, 0, 0, 0, 0, 1, 0, 0, 0>>, fl |-> <<0, 0, 0, 0, 0, 0, 1, 0, 0>>],
     [dm |-> <<0, 0, 0, 0, 1, 0, 0, 0, 0>>, fl |-> <<0, 0, 0, 0, 1, 0, 0, 0, 0>>],
     [dm |-> <<0, 0, 0, 0, 0, 0, 0, 0, 0>>, fl |-> <<0, 0, 0, 0, 0, 0, 0, 0, 0>>] >>
StdTree == [par |-> <<0, 1, 2, 2, 3, 5, 4>>, nc |-> 5, dm |-> StdVariants[1].dm, fl |-> StdVariants[1].fl,
            real |-> <<"style", "", "", "", "", "", "">>]
FsTree == [par |-> <<0, 1, 2, 2, 3, 5, 5, 6, 7>>, nc |-> 7, dm |-> FsVariants[1].dm, fl |-> FsVariants[1].fl,
           real |-> <<"BaseImage", "GraphicsImage", "style", "other", "", "", "", "", "">>]
ASSUME \A i \in 1..Len(StdVariants) :
         WellFormedTree([StdTree EXCEPT !.dm = StdVariants[i].dm, !.fl = StdVariants[i].fl])
ASSUME \A i \in 1..Len(FsVariants) :
         WellFormedTree([FsTree EXCEPT !.dm = FsVariants[i].dm, !.fl = FsVariants[i].fl])

VARIABLES fam, cur, S, out
vars == <<fam, cur, S, out>>
View == <<fam, cur, S>>

\* the tree of the current behaviour (cur never changes)
Tree == IF cur = "fs" THEN FsTree ELSE StdTree
N == Len(Tree.par)
ClassVariants == IF cur = "fs" THEN FsVariants ELSE StdVariants

RmVals(f) == {StrV(m) : m \in (IF Rich THEN Methods(f) ELSE {"lines", "whole"})}

Values(f, set) ==
  CASE set = "rm" -> RmVals(f)
    [] set = "fs" -> {BoolV(TRUE), BoolV(FALSE)}
    [] set = "rf" -> {BoolV(TRUE), BoolV(FALSE)}
    [] set = "jq" -> {IntV(0), IntV(95)} \cup (IF Rich THEN {IntV(-1)} ELSE {})
    [] set = "nb" -> {IntV(1), IntV(1000000000)}

Bad(f, set) ==
  CASE set = "rm" -> {IntV(3), StrV("bogus")}
                     \cup (IF Rich THEN {StrV(""), NoneV} \cup (IF f = "kitty" THEN {StrV("anim")} ELSE {})
                           ELSE {})
    [] set = "fs" -> {IntV(1), NoneV}
    [] set = "rf" -> {IntV(0), NoneV}
    [] set = "jq" -> {IntV(96), StrV("x")} \cup (IF Rich THEN {V("float", 50, ""), NoneV} ELSE {})
    [] set = "nb" -> {IntV(0), StrV("x")} \cup (IF Rich THEN {IntV(-5), NoneV} ELSE {})

\* NoneV for "rm" is the documented *unset*, not an invalid value
BadVals(f, set) == IF set = "rm" THEN Bad(f, set) \ {NoneV} ELSE Bad(f, set)

Overrides(f) == RmVals(f) \cup (IF Rich THEN {Unset} ELSE {})

NoOp == [op |-> [k |-> "init", set |-> "", n |-> 0, a |-> Unset], res |-> "ok", used |-> "", um |-> ""]

Init ==
  /\ fam \in {"kitty", "iterm2"}
  /\ cur \in SettingsOf(fam)
  /\ S = Clean(Tree)
  /\ out = NoOp

Do(op) ==
  /\ S' = Apply(Tree, fam, S, op)
  /\ out' = [op |-> op, res |-> Res(Tree, fam, op),
             used |-> IF op.k = "render" THEN FrameOf(Used(Tree, S, op)) ELSE "",
             um |-> IF op.k = "render" THEN Used(Tree, S, op) ELSE ""]
  /\ UNCHANGED <<fam, cur>>

Writable(n) == ~(ClassOnly(cur) /\ ~IsClass(Tree, n))

\* --- one named action per API operation --------------------------------
Set == \E n \in Nodes(Tree), v \in Values(fam, cur) :
         Writable(n) /\ Do([k |-> "set", set |-> cur, n |-> n, a |-> v])

UnsetAt == \E n \in Nodes(Tree) :
         Writable(n) /\ HasUnset(cur) /\ Do([k |-> "unset", set |-> cur, n |-> n, a |-> Unset])

SetInvalid == \E n \in Nodes(Tree), b \in BadVals(fam, cur) :
         Writable(n) /\ Do([k |-> "set", set |-> cur, n |-> n, a |-> b])

\* forced_support documents no DELETE: `del cls.forced_support` must fail and change nothing
UnsetUnsupported == \E n \in Nodes(Tree) :
         Writable(n) /\ ~HasUnset(cur) /\ Do([k |-> "unset", set |-> cur, n |-> n, a |-> Unset])

\* instance-level write / delete of a class-only setting
InstanceSetClassOnly == \E n \in Nodes(Tree) :
         /\ ~Writable(n)
         /\ \/ \E v \in Values(fam, cur) : Do([k |-> "set", set |-> cur, n |-> n, a |-> v])
            \/ Do([k |-> "unset", set |-> cur, n |-> n, a |-> Unset])

Render == \E n \in Nodes(Tree), o \in Overrides(fam) :
         cur = "rm" /\ Do([k |-> "render", set |-> "rm", n |-> n, a |-> o])

Next == Set \/ UnsetAt \/ SetInvalid \/ UnsetUnsupported \/ InstanceSetClassOnly \/ Render
Spec == Init /\ [][Next]_vars

Bound == Weight(S, cur) <= MaxWeight

\* --- state invariants -----------------------------------------------------
TypeOK ==
  /\ \A set \in Settings, n \in Nodes(Tree) :
        S[set][n] = Unset \/ (set \in SettingsOf(fam) /\ Valid(fam, set, S[set][n]))
  /\ out.res \in {"ok", "rejected", "TypeError", "ValueError"}

\* (the other settings are untouched: OnlyCurrentSettingTouched)
EffectiveIsFirstSetValue ==
  \A n \in Nodes(Tree) : Eff(Tree, S, cur, n) = EffByChain(Tree, S, cur, n)

NbIsOneGlobal ==
  cur = "nb" =>
  /\ \A n \in Nodes(Tree) : Eff(Tree, S, "nb", n) = Eff(Tree, S, "nb", 1)
  /\ \A n \in Nodes(Tree) \ {1} : S["nb"][n] = Unset

ClassOnlyNeverOnInstance ==
  \A set \in Settings, n \in Nodes(Tree) : ClassOnly(set) /\ ~IsClass(Tree, n) => S[set][n] = Unset

OnlyCurrentSettingTouched == \A set \in Settings \ {cur} : S[set] = Clean(Tree)[set]

\* --- action properties (one per clause of the property statement) ---------
Accepted == out'.op.k \in {"set", "unset"} /\ out'.res = "ok"
X == Slot(Tree, out'.op.set, out'.op.n)

\* Set/Unset at x change Effective only at x and at the nodes that inherit through it
LocalEffectStep ==
  Accepted =>
    LET set == out'.op.set
        through == {X} \cup InheritsThrough(Tree, S, set, X) IN
      /\ \A other \in Settings \ {set} : S'[other] = S[other]
      /\ \A n \in Nodes(Tree) \ through : Eff(Tree, S', set, n) = Eff(Tree, S, set, n)
LocalEffect == [][LocalEffectStep]_vars

\* ... in particular ancestors and sibling classes never see a change (class-scoped settings)
AncestorsSiblingsStep ==
  Accepted /\ ~Global(out'.op.set) =>
    \A n \in Nodes(Tree) \ Subtree(Tree, out'.op.n) :
      Eff(Tree, S', out'.op.set, n) = Eff(Tree, S, out'.op.set, n)
AncestorsSiblingsUntouched == [][AncestorsSiblingsStep]_vars

SetTakesEffectStep ==
  Accepted /\ out'.op.k = "set" =>
    \A n \in {out'.op.n} \cup InheritsThrough(Tree, S, out'.op.set, X) :
      Eff(Tree, S', out'.op.set, n) = out'.op.a
SetTakesEffect == [][SetTakesEffectStep]_vars

\* unsetting makes that level follow the next one again
UnsetFollowsNextStep ==
  Accepted /\ out'.op.k = "unset" =>
    LET set == out'.op.set IN
      Eff(Tree, S', set, X) = IF Tree.par[X] = 0 THEN Default(set) ELSE Eff(Tree, S', set, Tree.par[X])
UnsetFollowsNext == [][UnsetFollowsNextStep]_vars

RejectedChangesNothing == [][out'.res # "ok" => S' = S]_vars
RenderChangesNothing == [][out'.op.k = "render" => S' = S /\ out'.res = "ok"]_vars

\* the method used by a render = per-call override, else the effective one
UsedMethodStep ==
  out'.op.k = "render" =>
    LET m == IF out'.op.a # Unset THEN out'.op.a.s ELSE Eff(Tree, S, "rm", out'.op.n).s IN
      out'.used = FrameOf(m) /\ out'.um = m
UsedMethodRule == [][UsedMethodStep]_vars

\* --- edge dump (spec -> code replay) ---------------------------------------
\* node identity of the dumped graph: the override map of the setting under test
Key(s) == [fam |-> fam, cur |-> cur, ov |-> [n \in 1..N |-> Show(s[cur][n])]]

\* what the real code must show after the operation, at every node
\* (m only matters while the render method is under test, gate / clr while forced_support is:
\*  elsewhere they are the defaults of the DEFAULTS line and are left out of the dump)
Exp(s) == [eff |-> [n \in 1..N |-> Show(ObsEff(Tree, fam, s, cur, n))],
           \* effective method: dictates the data size
           m |-> IF cur = "rm" THEN [n \in 1..N |-> Eff(Tree, s, "rm", n).s] ELSE <<>>,
           gate |-> IF cur = "fs" THEN [n \in 1..N |-> Gate(Tree, s, n)] ELSE <<>>,
           clr |-> IF cur = "fs" THEN [n \in 1..N |-> ClearObs(Tree, fam, s, n)] ELSE <<>>]

OpOut(o, s2) == [k |-> o.op.k, set |-> o.op.set, n |-> o.op.n, a |-> Show(o.op.a),
                 res |-> o.res, used |-> o.used, um |-> o.um, exp |-> Exp(s2)]

Dump == PrintT(<<"EDGE", ToJson([from |-> Key(S), op |-> OpOut(out', S'), to |-> Key(S')])>>)

\* geometries the replay renders with: sources smaller / about equal / larger than the rendered
\* pixel size (cell 2x4); the table tells the replay the data size each USED method dictates
Geo(rw, rh, ow, oh) == [cw |-> 2, ch |-> 4, rw |-> rw, rh |-> rh, ow |-> ow, oh |-> oh]
GeoSeq == <<Geo(2, 2, 3, 5), Geo(3, 3, 10, 7), Geo(2, 3, 16, 9), Geo(3, 2, 1, 2),
            Geo(1, 2, 2, 8), Geo(2, 2, 40, 40)>>
ASSUME \A i \in 1..Len(GeoSeq) : WellFormedGeo(GeoSeq[i])
RECURSIVE SetSeq(_)
SetSeq(Q) == IF Q = {} THEN <<>> ELSE LET q == CHOOSE q \in Q : TRUE IN <<q>> \o SetSeq(Q \ {q})
GeoTable == [i \in 1..Len(GeoSeq) |->
               [g |-> GeoSeq[i],
                px |-> [lines |-> SetSeq(PxSet(GeoSeq[i], "lines")),
                        whole |-> SetSeq(PxSet(GeoSeq[i], "whole")),
                        anim |-> SetSeq(PxSet(GeoSeq[i], "anim"))]]]

\* printed once per initial state: the initial node, the tree and the defaults
InitDump ==
  TLCGet("level") = 1 =>
    /\ PrintT(<<"INIT", ToJson(Key(S))>>)
    /\ PrintT(<<"DEFAULTS", ToJson([fam |-> fam, cur |-> cur, par |-> Tree.par, nc |-> Tree.nc, real |-> Tree.real,
                 eff |-> [i \in 1..Len(SettingSeq) |->
                            [set |-> SettingSeq[i], v |-> Show(ObsDefault(fam, SettingSeq[i]))]],
                 gate |-> "shut", clr |-> "silent", geos |-> GeoTable, variants |-> ClassVariants])>>)
=============================================================================
