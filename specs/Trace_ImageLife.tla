-------------------------- MODULE Trace_ImageLife --------------------------
(***************************************************************************)
(* X02: code -> spec.  Each trace is one history of operations executed on *)
(* a REAL image object (and on the caller's PIL image), recorded at the    *)
(* return of every call with its result and, after EVERY call, the value   *)
(* of every plain attribute of the object.                                 *)
(*                                                                         *)
(*   trace = [c, pt0, ev]     c: configuration (ImageLifeCore), pt0: frame *)
(*                            of the caller's PIL image at the start       *)
(*   event = [o, res, ret, opens, unr, obs]                                *)
(*     o     operation record                                              *)
(*     res   "ok" | "propagated" | "network" | exception class name        *)
(*     ret   return value token ("-" when none)                            *)
(*     opens times the library opened the source file during the call      *)
(*     unr   exceptions that escaped a finalizer during the call           *)
(*     obs   observed projection, same shape as LObs, plus `anom`: name of  *)
(*           the first attribute whose getter raised / returned a value of *)
(*           an undocumented type ("" normally)                            *)
(*                                                                         *)
(* Steps are total: S' follows the MODEL whatever was observed - except    *)
(* that the numbers of a computed fixed size are taken from the            *)
(* observation when they satisfy the sizing relation of check C04          *)
(* (Sizing!SizeClause), so that X02 never demands a particular rounding.   *)
(* The verdict names the first failing clause, the event and the phase.    *)
(***************************************************************************)
EXTENDS ImageLifeCore, Json, IOUtils

Traces == JsonDeserialize(IOEnv.TRACE_FILE)

VARIABLES tid, l, S, verdict, at, vop, vph
vars == <<tid, l, S, verdict, at, vop, vph>>

Tr == Traces[tid]
C == Tr.c
NE == Len(Tr.ev)

WFTrace(tr) == WFConfig(tr.c) /\ tr.pt0 \in 0..(tr.c.n - 1) /\ (~(HasPil(tr.c) /\ tr.c.anim) => tr.pt0 = 0)

WFEvent(e) ==
  /\ WFOp(C, e.o)
  /\ e.obs.ph \in {"unborn", "live"}
  /\ Len(e.obs.rsize) = 2

\* the model's next state, with the numbers of a computed fixed size taken from the observation
\* when they are within the relation
Follow(e, S1) ==
  LET o == e.o
      m2 == Apply(C, S1, o)
      r == ReqOf(C, S1, o)
      sz == e.obs.size
  IN IF /\ Accepts(C, S1, o) /\ r.is /\ r.m.k # "WH" /\ sz.k = "fixed"
        /\ Sz!SizeClause(r.m, Env(C, r.fc, r.fl), sz.w, sz.h) = "ok"
     THEN [m2 EXCEPT !.sz = Sz!Fixed(sz.w, sz.h)]
     ELSE m2

FieldOK(f, e, S2) ==
  LET ob == e.obs
      ex == LObsWith(C, S2, <<0, 0>>)
  IN IF ob.ph = "unborn" \/ S2.ph = "unborn" THEN
       \* no object: only its absence and the caller's PIL image are observed
       (f \in {"ph", "pilok", "pt"} => ob[f] = ex[f])
     ELSE
       CASE f = "size" -> ob.size = S2.sz
         [] f = "rsize" ->
              IF S2.sz.k = "fixed" THEN ob.rsize = <<S2.sz.w, S2.sz.h>>
              ELSE Sz!SizeClause(Sz!Mode(S2.sz.m), Env(C, Sz!DefFC, Sz!DefFL), ob.rsize[1], ob.rsize[2]) = "ok"
         [] f = "rw" -> ob.rw = ob.rsize[1]
         [] f = "rh" -> ob.rh = ob.rsize[2]
         [] OTHER -> ob[f] = ex[f]

FirstBad(e, S2) ==
  LET bad == {i \in 1..Len(ObsOrder) : ~FieldOK(ObsOrder[i], e, S2)} IN
  IF bad = {} THEN "" ELSE ObsOrder[CHOOSE i \in bad : \A j \in bad : i <= j]

FieldName(f, e, S2) ==
  CASE f = "size" -> IF e.obs.size.k # S2.sz.k THEN "size-kind" ELSE "size-value"
    [] f = "rsize" -> "rendered_size"
    [] f \in {"rw", "rh"} -> "rendered_width-height-inconsistent-with-rendered_size"
    [] f = "fd" -> "frame_duration"
    [] f = "anim" -> "is_animated"
    [] f \in {"ow", "oh"} -> "original_size"
    [] f = "stype" -> "source_type"
    [] f = "pilok" -> "caller-pil-image-finalized"
    [] f = "pt" -> "caller-pil-image-frame"
    [] f = "fs" -> "forced_support"
    [] f = "ph" -> "object-existence"
    [] OTHER -> f

\* first failing clause of event e in state S1 (S2 = followed next state)
Clause(e, S1, S2) ==
  LET o == e.o
      exp == LRes(C, S1, o)
      acc == Accepts(C, S1, o)
      f == FirstBad(e, S2)
  IN
  IF ~WFEvent(e) THEN "unsupported-event"
  ELSE IF ~Enabled(C, S1, o) THEN "unsupported-operation-in-this-phase"
  ELSE IF e.res \notin exp THEN
    IF e.res \in OkTags THEN
      (IF o.op = "with" THEN "exception-suppressed-by-context-manager"
       ELSE IF "TermImageError" \in exp THEN "finalized-image-not-rejected"
       ELSE IF o.op \in {"set_ro", "del_attr", "set_fs"} THEN "read-only-attribute-written"
       ELSE IF "StyleError" \in exp THEN "style-instantiated-on-unsupporting-terminal"
       ELSE "invalid-argument-accepted")
    ELSE IF acc THEN "valid-operation-rejected-" \o e.res
    ELSE "wrong-exception-class-" \o e.res
  ELSE IF e.unr # 0 THEN "exception-escaped-a-finalizer"
  ELSE IF e.obs.anom # "" THEN "attribute-getter-anomaly-" \o e.obs.anom
  ELSE IF e.ret # (IF acc THEN Ret(C, S1, o) ELSE "-") THEN
    (IF o.op \in {"new", "auto"} THEN "wrong-class-selected"
     ELSE IF o.op = "n_frames" THEN "wrong-frame-count"
     ELSE IF o.op = "source" THEN "source-is-not-what-was-given"
     ELSE "wrong-return-value")
  ELSE IF Opens(C, S1, o) # -1 /\ e.opens # Opens(C, S1, o) THEN
    (IF o.op \in {"n_frames", "seek"} THEN
       (IF e.opens > Opens(C, S1, o) THEN "frame-count-recomputed" ELSE "frame-count-not-read-from-source")
     ELSE "source-file-opened-unexpectedly")
  ELSE IF f = "" THEN "ok"
  ELSE IF ~acc THEN "rejected-operation-changed-" \o FieldName(f, e, S2)
  ELSE IF f \notin Footprint(o.op) THEN "changed-unrelated-" \o FieldName(f, e, S2)
  ELSE "wrong-" \o FieldName(f, e, S2)

Init ==
  /\ tid \in 1..Len(Traces)
  /\ l = 0
  /\ S = Unborn(Traces[tid].pt0)
  /\ verdict = IF WFTrace(Traces[tid]) THEN "ok" ELSE "unsupported-trace"
  /\ at = 0
  /\ vop = "" /\ vph = ""

Step ==
  /\ l < NE
  /\ l' = l + 1
  /\ LET e == Tr.ev[l + 1]
         usable == verdict # "unsupported-trace" /\ WFEvent(e) /\ Enabled(C, S, e.o)
         S2 == IF usable THEN Follow(e, S) ELSE S
         v == IF verdict # "ok" THEN verdict ELSE Clause(e, S, S2)
         first == verdict = "ok" /\ v # "ok"
     IN /\ S' = S2
        /\ verdict' = v
        /\ at' = IF first THEN l + 1 ELSE at
        /\ vop' = IF first THEN e.o.op ELSE vop
        /\ vph' = IF first THEN S.ph ELSE vph
  /\ UNCHANGED tid

Finish ==
  /\ l = NE
  /\ l' = NE + 1
  /\ UNCHANGED <<tid, S, verdict, at, vop, vph>>

Next == Step \/ Finish
Spec == Init /\ [][Next]_vars

Done == l = NE + 1
Report ==
  Done => PrintT(<<"VERDICT", ToJson([tid |-> tid, verdict |-> verdict, at |-> at, op |-> vop, ph |-> vph,
                                      events |-> NE, judged |-> IF verdict = "ok" THEN NE ELSE at])>>)
=============================================================================
