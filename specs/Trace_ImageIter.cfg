SPECIFICATION Spec
CONSTANT N = 3
INVARIANT Report
CHECK_DEADLOCK FALSE
