SPECIFICATION Spec
CONSTANTS
  Confs <- QuickConfs
VIEW View
ACTION_CONSTRAINT Dump
INVARIANT InitDump
INVARIANT TypeOK
INVARIANT ActiveIsFirstTerminal
INVARIANT NoActiveOnlyWithoutAnyTerminal
INVARIANT AnswerIsActiveTerminalsSize
INVARIANT FallbackNeverZero
PROPERTY ActiveNeverChanges
PROPERTY OtherTerminalInvisible
PROPERTY EnvInvisibleWhileActive
PROPERTY WarnedIffNone
CHECK_DEADLOCK FALSE
