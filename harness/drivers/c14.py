"""C14 - terminal access is serialized across threads and processes.

model:    specs/TtyLock.tla (+ TtyLockAbs.tla), configurations in specs/MC_TtyLock.tla
spec->code  every edge of the quick models (thorough: + a simulation sub-graph of the big
            model) is replayed, interleaving by interleaving, into the REAL ``lock_tty`` wrapper /
            ``get_cell_size`` and the REAL ``_process_start_wrapper`` / ``_process_run_wrapper``
            under the cooperative scheduler ``harness/env/sched.py`` (``harness/c14_replay.py``)
code->spec  real runs (threads x processes, fork / spawn / forkserver, concurrent
            ``query_terminal`` on a real pty) are stamped inside the critical sections and
            validated by TLC against specs/Trace_TtyLock.tla (``harness/c14_worker.py``)
"""

from __future__ import annotations

import copy
import multiprocessing
import os
from concurrent.futures import ProcessPoolExecutor, ThreadPoolExecutor

from .. import c14_lockorder, c14_real, c14_replay, tlc
from ..core import Report

ASSUMPTIONS = [
    "a synchronized call is `with G, G: body`: two reads of the module global and two acquisitions, each a "
    "separate step; release order b then a (TtyLock.tla header); CPython evaluates the items of a `with` "
    "statement left to right, entering each before evaluating the next",
    "a child started with fork begins with a copy of the parent's global; with spawn/forkserver it begins with "
    "a fresh thread lock (the module is imported afresh) until its run wrapper installs the lock stored on the "
    "Process object; no thread of the child makes a synchronized call before Process.run() starts",
    "starts issued from inside a synchronized call are excluded (documented as unsupported in lock_tty)",
    "scope of the guarantee as documented: processes created with multiprocessing.Process or a subclass "
    "(context-specific classes such as get_context('spawn').Process do not derive from it and are not "
    "wrapped by the library); the child has term_image imported before Process.run() is called",
    "spec->code replays run every model process as a separately loaded copy of term_image/utils.py in one OS "
    "process, every model thread as a real thread; lock stand-ins mirror the re-entrancy of the objects they "
    "replace; a divergence between the specified and the executed statement sequence is reported as a "
    "violation of the clause it endangers",
    "real runs are samples: they assert the timing-independent clauses (no overlap of stamped critical "
    "sections, every query returns exactly its own reply, every call returns); a run that does not finish is "
    "a Progress violation only when every unfinished probe thread is found inside a lock acquisition of the "
    "library, otherwise a machinery failure",
    "the pty responder answers requests in arrival order (FIFO terminal)",
    "time (Elapse): a synchronized call may stay inside its body for longer than any timeout the library knows (a long or "
    "infinite read_tty(), a slow draw_screen(), a user function decorated with lock_tty); in the replay virtual time passes "
    "only at Elapse steps: every BOUNDED wait for a lock that is not free expires then, unbounded waits keep waiting; the "
    "specification: whoever waits still waits - the hand-over of the start wrapper happens only when the old lock is free "
    "(HandOverHeld)",
    "thread population (Create, model n): a process starts with the threads whose Creator is 0 (possibly ONE); others come "
    "into existence at any moment of their creator's program, also inside a synchronized body; Kind 'raw' threads "
    "(_thread.start_new_thread, C extensions) are invisible to threading.active_count()/enumerate(); in the replay the "
    "`threading` view of a model process (active_count, enumerate, the module) is the model's, because all model processes "
    "of a world live in one OS process; the real newcomer scenarios (harness/c14_newcomer_worker.py) use real threads and "
    "no stand-in: the main thread stays inside its call until the newcomer has entered or is found waiting in the library",
    "lock order (LockOrder): the programs are the acquire/release sequences recorded from the real entry points "
    "(lock identity = object; re-entrant re-acquisitions dropped); the law quantifies over pairs (thorough: also 120 "
    "seeded triples) of entry points with every fact that is read under the terminal lock already warm; the same "
    "fact cold on both sides is outside the law and recorded under extra.lock_order as an observation",
    "configuration: the root's _queries_enabled may be TRUE or FALSE at its first Process.start() and be toggled once "
    "at any moment (model y, every second real run); the lock protocol must not depend on it (lock_tty guards "
    "terminal access - write_tty, read_tty, the urwid screen - not only queries); real runs started with queries "
    "disabled make no query probes (query_terminal returns None then)",
    "initialisation (TtyInit): the active terminal is the tty behind stdout, stdin, stderr (in that order), else "
    "/dev/tty; whenever one is found Process.start and Process.run must be the library's wrappers; probed by real "
    "imports in fresh sessions over all 16 combinations (one pty each)",
    "atomicity of a synchronized entry point: between its first and its last terminal access the terminal lock is "
    "never fully released (checked by letting a synchronized read_tty() of another thread run at every full release)",
    "the set of entry points that must be synchronized is TtySync!Synchronized (documented terminal-touching "
    "functions, docstrings marked 'Synchronized with lock_tty', the UrwidImageScreen overrides); a member "
    "'touches the terminal' when it reaches termios/read/write/select on the library's tty descriptor, or, for "
    "the urwid screen, the inherited urwid.raw_display.Screen method of the same name",
]

QUICK_MODELS = [
    ("MC_TtyLock_q_dump.cfg", "tty"),
    ("MC_TtyLock_s_dump.cfg", "tty"),
    ("MC_TtyLock_g_dump.cfg", "tty"),
    ("MC_TtyLock_y_dump.cfg", "tty"),
    ("MC_TtyLock_n_dump.cfg", "tty"),
    ("MC_TtyLock_cell.cfg", "cell"),
]
VARIANTS = {
    "single": "with _tty_lock: (one acquisition)",
    "nohold": "start wrapper swaps the lock without holding the old one",
    "norun": "run wrapper does not install the shared lock",
    "nonreentrant": "RLock -> Lock",
    "boundedwait": "start wrapper gives up waiting for the old lock after a timeout and swaps anyway",
}
# variants that need a particular configuration to manifest: (cfg, VARIANT, what)
VARIANTS_CFG = [
    ("MC_TtyLock_var_y.cfg", "noswapq", "no lock swap while queries are disabled"),
    ("MC_TtyLock_var_n.cfg", "fastpath", "no locking while threading sees one thread and no process was started"),
]
ALL_ACTIONS = {
    "DoReadA", "DoAcqA", "DoReadB", "DoAcqB", "DoNest", "DoWrite", "DoRead", "DoRelB", "DoRelA",
    "DoSReadA", "DoSAcqA", "DoSTest", "DoSNew", "DoSCopy", "DoSRel", "DoSSpawn", "DoRunWrap", "DoReply", "DoToggleQ",
    "DoCreate", "DoElapse",
}


def _pool():
    return ProcessPoolExecutor(max_workers=6, mp_context=multiprocessing.get_context("spawn"))


def real_jobs(rep: Report) -> list[dict]:
    src = os.path.join(rep.extra.get("repo", "/repo"), "src")
    jobs = []
    reps = 2 if rep.tier == "quick" else 12
    for method in c14_real.available_methods():
        for r in range(reps):
            big = rep.tier != "quick" and r % 3 == 2
            jobs.append(dict(
                method=method, src=src, seed=rep.seed * 101 + r,
                threads=4 if big else 3, children=3 if big else 2, child_threads=3 if big else 2,
                grandchild=True, min_calls=100 if big else 30, max_calls=20000,
                p_query=0.15, p_nested=0.25, stall_s=25,
            ))
            if r % 2 == 1:  # every second run: disable_queries() in effect at the first Process.start()
                jobs[-1].update(queries_off_at_start=True, p_query=0.0)
    return jobs


def run_real(rep: Report, jobs: list[dict], parallel: int = 3):
    traces = []
    for i in range(0, len(jobs), parallel):
        launched = [c14_real.launch(j) for j in jobs[i : i + parallel]]
        for p, outdir, job in launched:
            tr = c14_real.collect(p, outdir, job)
            tr["_job"] = {k: v for k, v in job.items() if k != "outdir"}
            traces.append(tr)
    return traces


def validate_real(rep: Report, traces: list[dict], selfcheck: bool = True):
    if not traces:
        raise tlc.MachineryError("no multiprocessing start method available: no real run")
    clean = [{k: v for k, v in t.items() if not k.startswith("_")} for t in traces]
    extra = []
    if selfcheck:
        # corrupted traces must be rejected: (a) two threads' events overlapped, (b) a foreign reply
        src_i = next((i for i, t in enumerate(clean) if len(t["ev"]) > 8 and t["q"] and not t["stalled"]), None)
        src = clean[src_i] if src_i is not None else None
        if src is not None:
            a = copy.deepcopy(src)
            i = next((k for k in range(len(a["ev"]) - 1) if a["ev"][k]["k"] == "exit" and a["ev"][k + 1]["k"] == "enter"
                     and (a["ev"][k]["p"], a["ev"][k]["t"]) != (a["ev"][k + 1]["p"], a["ev"][k + 1]["t"])), 0)
            a["ev"][i], a["ev"][i + 1] = a["ev"][i + 1], a["ev"][i]
            a["ev"][i]["seq"], a["ev"][i + 1]["seq"] = a["ev"][i + 1]["seq"], a["ev"][i]["seq"]
            b = copy.deepcopy(src)
            b["q"][0]["got"] = b["q"][0]["req"] + 1
            extra = [a, b]
    verdicts, st, tr = tlc.validate_traces(
        "Trace_TtyLock", "Trace_TtyLock.cfg", clean + extra, batch=4, parallel=6, workers=2, name="c14",
        timeout=600,
    )
    rep.states += st
    rep.transitions += tr
    if extra and verdicts[src_i]["verdict"] == "ok":  # meaningful only if the source trace is accepted
        va, vb = verdicts[len(clean)], verdicts[len(clean) + 1]
        if not va["verdict"].startswith("MutualExclusion") or not vb["verdict"].startswith("OwnReply"):
            raise tlc.MachineryError(f"Trace_TtyLock accepted a corrupted trace: {va} / {vb}")
        rep.extra["corrupted_traces_rejected"] = [va["verdict"][:40], vb["verdict"][:40]]
    methods = {}
    for t, v in zip(traces, verdicts):
        rep.traces_validated += 1
        d = t["_diag"]
        m = methods.setdefault(d["method"], dict(runs=0, events=0, nested=0, handovers=0, queries=0))
        m["runs"] += 1
        m["events"] += v["events"]
        m["nested"] += v["nested"]
        m["handovers"] += v["handovers"]
        m["queries"] += v["queries"]
        rep.evaluations += t["calls"]
        rep.distinct.add(("real", d["method"], t["_job"]["seed"], t["_job"]["threads"]))
        if v["verdict"].startswith("malformed"):
            raise tlc.MachineryError(f"real run ({d['method']}): {v['verdict']}; diag={d}")
        if v["verdict"] != "ok":
            clause = v["verdict"].split(":")[0]
            rep.violation(
                f"real:{d['method']}:{clause}",
                f"real run with start method {d['method']} ({t['_job']}): {v['verdict']} at event {v['at']} of "
                f"{v['events']}; window: {t['ev'][max(0, v['at'] - 3): v['at'] + 1]}; foreign/missing replies: "
                f"{d['raw_bad']}; stall evidence: {d['evidence']}",
                {"kind": "real", "job": t["_job"], "trace": {k: val for k, val in t.items() if not k.startswith('_')}},
            )
    rep.extra["real_runs"] = methods
    for name, m in methods.items():
        if rep.violations:
            break  # stalled / violating runs are short; coverage is only required of clean runs
        if m["handovers"] == 0 or m["nested"] == 0 or m["queries"] == 0:
            raise tlc.MachineryError(f"real runs with {name} never exercised handover/nesting/queries: {m}")


def validate_sync(rep: Report, result: dict, selfcheck: bool = True):
    """The SET of synchronized entry points (specs/TtySync.tla), judged by Trace_TtySync."""
    traces, names = [], []
    for name, m in result["members"].items():
        if "ev" not in m:
            raise tlc.MachineryError(f"synchronized-set probe of {name}: {m.get('error')}")
        if m["errors"]:
            raise tlc.MachineryError(f"synchronized-set probe: {name} raised {m['errors']}")
        if not m["decided"]:
            raise tlc.MachineryError(f"synchronized-set probe of {name}: the caller neither touched the terminal, "
                                     f"nor returned, nor waited for the lock within the time limit")
        traces.append({"member": name, "kind": "serialized", "ev": [{"k": e["k"], "t": e["t"]} for e in m["ev"]]})
        names.append(name)
        a = m.get("atomic")
        if a is None:
            raise tlc.MachineryError(f"synchronized-set probe of {name}: no atomicity run")
        if a["errors"] or not a["finished"]:
            raise tlc.MachineryError(f"synchronized-set atomicity probe of {name}: {a['errors']} finished={a['finished']}")
        traces.append({"member": name, "kind": "atomic", "ev": [{"k": e["k"], "t": e["t"]} for e in a["ev"]]})
        names.append(name)
    if not traces:
        raise tlc.MachineryError("synchronized-set probe produced no trace")
    extra = []
    if selfcheck:
        # corrupted trace: a touch moved in front of the release must be rejected
        bad = copy.deepcopy(traces[0])
        i = next(k for k, e in enumerate(bad["ev"]) if e["k"] == "release")
        j = next(k for k, e in enumerate(bad["ev"]) if e["k"] == "touch")
        if j > i:
            bad["ev"].insert(i, bad["ev"].pop(j))
            extra = [bad]
    verdicts, st, tr = tlc.validate_traces("Trace_TtySync", "Trace_TtySync.cfg", traces + extra, batch=100,
                                           parallel=1, workers=2, name="c14sync", timeout=300)
    rep.states += st
    rep.transitions += tr
    if selfcheck and verdicts[0]["missing"]:
        raise tlc.MachineryError(f"members of TtySync!Synchronized without a probe in the harness: {verdicts[0]['missing']}")
    if extra and verdicts[0]["verdict"] == "ok" and not verdicts[-1]["verdict"].startswith("not-serialized"):
        raise tlc.MachineryError(f"Trace_TtySync accepted a corrupted trace: {verdicts[-1]}")
    waited = 0
    for name, t, v in zip(names, traces, verdicts):
        rep.traces_validated += 1
        rep.evaluations += 1
        rep.distinct.add(("sync", name))
        waited += bool(v["waited"])
        verdict = v["verdict"]
        if verdict.startswith(("malformed", "vacuous")):
            raise tlc.MachineryError(f"synchronized-set probe of {name}: {verdict}; events={t['ev']}")
        if verdict != "ok":
            clause = verdict.split(":")[0]
            evs = result["members"][name]["atomic"]["ev"] if t["kind"] == "atomic" else result["members"][name]["ev"]
            what = (evs[v["at"] - 1].get("what") if 0 < v["at"] <= len(evs) else "") or next(
                (e.get("what") for e in evs if e["k"] == "touch"), "")
            rep.violation(
                f"synchronized-set:{name}:{clause}",
                f"{name} is specified as synchronized on the terminal lock (specs/TtySync.tla): {verdict} "
                f"(event {v['at']}; terminal access: {what}); events: "
                f"{compress(t['ev'])}",
                {"kind": "sync", "member": name},
            )
    rep.extra["synchronized_set"] = {"members": len(set(names)), "traces": len(names), "seen_waiting_for_the_lock": waited}


def validate_newcomer(rep: Report, result: dict, selfcheck: bool = True):
    """Threads that come into existence while a synchronized call is in progress / that `threading` does not know
    (TtyLock's Create action on real threads; harness/c14_newcomer_worker.py), judged by Trace_TtyLock."""
    if not result.get("tty_fd") or result.get("threads_at_start") != 1 or not result.get("scenarios"):
        raise tlc.MachineryError(f"newcomer worker: no pty / not single-threaded at the start / no scenario: "
                                 f"{ {k: v for k, v in result.items() if k != 'scenarios'} }")
    scs = result["scenarios"]
    for sc in scs:
        name = f"{sc['kind']}-{sc['when']}"
        if sc["error"] or not sc["finished"] or not sc["decided"] or sc["visible_before"] != 1:
            raise tlc.MachineryError(f"newcomer scenario {name}: error={sc['error']!r} finished={sc['finished']} "
                                     f"decided={sc['decided']!r} threads visible before={sc['visible_before']}")
    traces = [{k: sc[k] for k in ("ev", "q", "calls", "returned", "stalled")} for sc in scs]
    extra = []
    if selfcheck:  # corrupted trace: the second thread's enter moved in front of the main thread's exit
        bad = copy.deepcopy(traces[0])
        i = next((k for k, e in enumerate(bad["ev"]) if e["k"] == "exit" and e["t"] == 1), None)
        j = next((k for k, e in enumerate(bad["ev"]) if e["k"] == "enter" and e["t"] == 2), None)
        if i is not None and j is not None and j > i:
            bad["ev"].insert(i, bad["ev"].pop(j))
            for n, e in enumerate(bad["ev"], start=1):
                e["seq"] = n
            extra = [bad]
    verdicts, st, tr = tlc.validate_traces("Trace_TtyLock", "Trace_TtyLock.cfg", traces + extra, batch=100,
                                           parallel=1, workers=2, name="c14new", timeout=300)
    rep.states += st
    rep.transitions += tr
    if extra and verdicts[0]["verdict"] == "ok" and not verdicts[-1]["verdict"].startswith("MutualExclusion"):
        raise tlc.MachineryError(f"Trace_TtyLock accepted a corrupted newcomer trace: {verdicts[-1]}")
    info = {}
    for sc, v in zip(scs, verdicts):
        name = f"{sc['kind']}-{sc['when']}"
        rep.traces_validated += 1
        rep.evaluations += sc["calls"]
        rep.distinct.add(("newcomer", name))
        info[name] = sc["decided"]
        if v["verdict"].startswith("malformed"):
            raise tlc.MachineryError(f"newcomer scenario {name}: {v['verdict']}; events={sc['ev']}")
        if v["verdict"] != "ok":
            clause = v["verdict"].split(":")[0]
            rep.violation(
                f"real:newcomer:{name}:{clause}",
                f"a process with ONE thread (no Process started, terminal lock: {sc['lock']}) is inside a lock_tty-synchronized "
                f"call; a second thread (kind {sc['kind']}: {'threading.Thread' if sc['kind'] == 'threading' else '_thread.start_new_thread'}, "
                f"created {sc['when']} the call) makes a synchronized call: {v['verdict']} at event {v['at']}; "
                f"stamps: {[(e['k'], e['t']) for e in sc['ev']]}",
                {"kind": "newcomer", "only": [name]},
            )
    rep.extra["newcomer_threads"] = info


def validate_init(rep: Report, obs: list[dict]):
    """Initialisation environments (specs/TtyInit.tla): hand-over wrappers installed whenever a tty was found."""
    traces = [{k: o[k] for k in ("out", "inp", "err", "ctty", "found", "start", "run")} for o in obs]
    bad = dict(traces[-1], start=False)  # corrupted observation: must be rejected
    verdicts, st, tr = tlc.validate_traces("Trace_TtyInit", "Trace_TtyInit.cfg", traces + [bad], batch=100,
                                           parallel=1, workers=2, name="c14init", timeout=300)
    rep.states += st
    rep.transitions += tr
    if verdicts[0]["missing"]:
        raise tlc.MachineryError(f"{verdicts[0]['missing']} initialisation environments of TtyInit were not probed")
    if verdicts[-2]["verdict"] == "ok" and not verdicts[-1]["verdict"].startswith("HandOver"):
        raise tlc.MachineryError(f"Trace_TtyInit accepted a corrupted observation: {verdicts[-1]}")
    sources = {}
    for t, v in zip(traces, verdicts):
        rep.traces_validated += 1
        rep.evaluations += 1
        name = f"out={int(t['out'])},in={int(t['inp'])},err={int(t['err'])},ctty={int(t['ctty'])}"
        rep.distinct.add(("init", name))
        sources[v["source"]] = sources.get(v["source"], 0) + 1
        if v["verdict"] != "ok":
            clause = v["verdict"].split(":")[0]
            rep.violation(
                f"init:{v['source']}:{clause}",
                f"importing term_image with [{name}] (active terminal per the documented search: {v['source']}): "
                f"{v['verdict']}; observed tty found={t['found']}, Process.start wrapped={t['start']}, Process.run wrapped={t['run']}",
                {"kind": "init"},
            )
    rep.extra["init_environments"] = sources


def check_lock_order(rep: Report, src: str, triples: bool):
    """specs/LockOrder.tla over the lock programs recorded from the real code."""
    rec = c14_lockorder.record(src)
    c14_lockorder.guard(rec)
    a = c14_lockorder.analyse(rec, triples=triples, seed=rep.seed)
    rep.add_tlc(a["res"])
    rep.traces_validated += a["combos"]
    rep.evaluations += a["combos"]
    rep.distinct.update(("lock-order", i) for i in range(a["combos"]))
    if a["tamper_reported"] is False:
        raise tlc.MachineryError("lock-order: a tampered program (draw_screen reading another fact's cache lock) was not reported")
    info = {"programs": len(rec["programs"]), "locks": rec["locks"], "combinations": a["combos"],
            "tampered_program_reported": a["tamper_reported"], "deadlocks": len(a["deadlocks"])}
    for n, d in enumerate(a["deadlocks"]):
        conf = None
        if len(d["members"]) == 2 and n < 2:
            conf = c14_lockorder.confirm(src, rec, d, a["coll"])
            if not conf["deadlock"]:
                raise tlc.MachineryError(f"lock-order: LockOrder.tla reports a dead-lock of {d['members']} that the real code "
                                         f"does not show under the same schedule: {conf}")
        A, B = d["members"][0], " | ".join(d["members"][1:])
        rep.violation(
            f"lock-order:{A}|{B}:deadlock",
            f"{' || '.join(d['members'])} dead-lock: after the schedule {d['schedule']} (one outermost lock operation per "
            f"step) thread k waits for lock {d['waits']} = {d['locks']}, each held by another thread; every fact read "
            f"under the terminal lock was warm.  Recorded programs (outermost operations): "
            + "; ".join(f"{m}: " + " ".join(('+' if s['op'] == 'acq' else '-') + rec['locks'][str(s['l'])] for s in a['coll'][m][:12])
                        for m in d["members"])
            + (f".  Confirmed on the real code under the cooperative scheduler: {conf['blocked']}" if conf else ""),
            {"kind": "lockorder", "members": d["members"], "schedule": d["schedule"]},
        )
    obs = sorted(a["observations"], key=lambda d: -sum("enable_queries" in m for m in d["members"]))
    for n, d in enumerate(obs):
        conf = c14_lockorder.confirm(src, rec, d, a["coll"]) if len(d["members"]) == 2 and n < 2 else None
        info.setdefault("observations_outside_the_law", []).append(
            {"members": d["members"], "waits_for": d["locks"], "schedule": d["schedule"],
             "confirmed_on_real_code": bool(conf and conf["deadlock"])})
    rep.extra["lock_order"] = info


def compress(ev):
    out = []
    for e in ev:
        k = (e["k"], e["t"])
        if out and out[-1][0] == k:
            out[-1][1] += 1
        else:
            out.append([k, 1])
    return [f"{k[0]}(t{k[1]})" + (f"x{n}" if n > 1 else "") for k, n in out]


def report_replay(rep: Report, out: dict, cover: dict):
    cfg, inst = out["cfg"], out["instance"]
    rep.states += out["distinct"]
    rep.transitions += out["generated"]
    if out["violated"]:
        rep.violation(f"design:TtyLock:{cfg}:{out['violated']}",
                      f"the lock protocol specified in TtyLock.tla violates {out['violated']} ({cfg})\n" + out["error_text"][:1500],
                      {"kind": "design", "cfg": cfg})
        return
    for a, (d, g) in out["coverage"].items():
        if a in ALL_ACTIONS:
            cover[a] = cover.get(a, 0) + g
    rep.traces_validated += out["walks"]
    rep.evaluations += out["steps"]
    rep.distinct.update((cfg, i) for i in range(out["edges"]))
    rep.extra.setdefault("replay", {})[f"{cfg}:{inst}"] = {
        k: out.get(k) for k in ("distinct", "generated", "edges", "walks", "steps", "tlc_s", "replay_s", "tamper_rejected")
    }
    if out.get("sample"):
        rep.sample({"model": cfg, "instance": inst, "walk": out["sample"]})
    if "tamper_rejected" in out and not out["tamper_rejected"]:
        raise tlc.MachineryError(f"{cfg}: a tampered edge was not rejected by the replay")
    for d in out["divergences"]:
        rep.violation(
            f"replay:{inst}:{d['clause']}:{d['what']}",
            f"[{cfg}, {inst} lock] {d['clause']} endangered at step {d['idx']} ({d['what']}): {d['detail']}\n"
            f"real state: {d['state']}\ninterleaving: {d['path']}",
            {"kind": "walk", "cfg": cfg, "instance": inst, "config": out["config"], "walk": d["walk"]},
        )


def main(rep: Report, replay: dict | None) -> None:
    try:
        _main(rep, replay)
    finally:
        c14_real.cleanup()


def _main(rep: Report, replay: dict | None) -> None:
    rep.assumptions += ASSUMPTIONS
    rep.rule = (
        "spec->code: every edge of the exhaustive quick models (tty lock: q, s, g, y, n; cell-size lock) covered by "
        "walks from the initial states, each walk replayed on fresh module copies; distinct_nontrivial = "
        "distinct model edges replayed + distinct real-run configurations; code->spec: one trace per real run"
    )
    c14_replay.check_seams()
    if replay:
        sc = replay["scenario"]
        if sc.get("kind") == "walk":
            r = c14_replay.replay_walk(sc["config"], sc["instance"], sc["walk"], 0)
            rep.traces_validated += 1
            if r:
                idx, e, d, desc = r
                rep.violation(f"replay:{sc['instance']}:{d.clause}:{d.what}", f"{d.detail}\nreal state: {desc}", sc)
        elif sc.get("kind") == "sync":
            p, od = c14_real.launch_sync(os.path.join(rep.extra.get("repo", "/repo"), "src"), [sc["member"]])
            validate_sync(rep, c14_real.collect_sync(p, od), selfcheck=False)
        elif sc.get("kind") == "lockorder":
            check_lock_order(rep, os.path.join(rep.extra.get("repo", "/repo"), "src"), len(sc.get("members", [])) > 2)
        elif sc.get("kind") == "newcomer":
            src_ = os.path.join(rep.extra.get("repo", "/repo"), "src")
            validate_newcomer(rep, c14_real.collect_sync(*c14_real.launch_sync(src_, sc.get("only"), module="harness.c14_newcomer_worker")),
                              selfcheck=False)
        elif sc.get("kind") == "init":
            validate_init(rep, c14_real.run_init_envs(os.path.join(rep.extra.get("repo", "/repo"), "src")))
        elif sc.get("kind") == "real":
            # re-run the recorded configuration against the code under test (a real-time sample; the
            # recorded trace is kept in the file for reference)
            traces = run_real(rep, [dict(sc["job"], src=os.path.join(rep.extra.get("repo", "/repo"), "src"))])
            validate_real(rep, traces, selfcheck=False)
        else:
            res = tlc.run("MC_TtyLock", sc.get("cfg", "MC_TtyLock.cfg"), workers=8, timeout=900)
            rep.add_tlc(res)
            if res.violated:
                rep.violation(f"design:TtyLock:{sc.get('cfg')}:{res.violated}", res.error_text[:1500], sc)
        return

    quick = rep.tier == "quick"
    # real runs start first (separate processes), the replays run meanwhile
    jobs = real_jobs(rep)
    first = [c14_real.launch(j) for j in jobs[:6]]
    sync_p = c14_real.launch_sync(os.path.join(rep.extra.get("repo", "/repo"), "src"))
    new_p = c14_real.launch_sync(os.path.join(rep.extra.get("repo", "/repo"), "src"), module="harness.c14_newcomer_worker")
    tail = ThreadPoolExecutor(max_workers=5)
    lock_f = tail.submit(check_lock_order, rep, os.path.join(rep.extra.get("repo", "/repo"), "src"), not quick)
    init_f = tail.submit(c14_real.run_init_envs, os.path.join(rep.extra.get("repo", "/repo"), "src"))

    cover: dict = {}
    with _pool() as ex:
        futs = [
            ex.submit(c14_replay.replay_model, dict(cfg=cfg, instance=inst, seed=rep.seed, tamper=(i == 0) or None))
            for i, (cfg, inst) in enumerate(QUICK_MODELS)
        ]
        # the seeded regressions of the MODEL must violate an invariant (the spec discriminates)
        vres = tlc.run_many(
            [dict(spec="MC_TtyLock", cfg="MC_TtyLock_var.cfg", workers=1, timeout=300, env={"VARIANT": v})
             for v in VARIANTS]
            + [dict(spec="MC_TtyLock", cfg=c, workers=1, timeout=300, env={"VARIANT": v}) for c, v, _ in VARIANTS_CFG],
            parallel=4)
        what = dict(VARIANTS, **{v: w for _, v, w in VARIANTS_CFG})
        for v, res in zip(list(VARIANTS) + [v for _, v, _ in VARIANTS_CFG], vres):
            rep.add_tlc(res)
            if not res.violated:
                raise tlc.MachineryError(f"model variant {v!r} ({what[v]}) satisfies every invariant: "
                                         f"TtyLock.tla no longer discriminates")
            rep.extra.setdefault("model_variants", {})[v] = f"{res.violated} after {res.distinct} states"

        outs = [f.result() for f in futs]
    for out in outs:
        report_replay(rep, out, cover)

    traces = []
    for (p, outdir, job) in first:
        tr = c14_real.collect(p, outdir, job)
        tr["_job"] = {k: v for k, v in job.items() if k != "outdir"}
        traces.append(tr)
    traces += run_real(rep, jobs[6:], parallel=6)

    if not quick:
        big = tlc.run_many([
            dict(spec="MC_TtyLock", cfg="MC_TtyLock_big.cfg", workers=8, timeout=1500, coverage=True),
            dict(spec="MC_TtyLock", cfg="MC_TtyLock_race.cfg", workers=3, timeout=900, coverage=True),
            dict(spec="MC_TtyLock", cfg="MC_TtyLock_d.cfg", workers=3, timeout=900, coverage=True),
        ], parallel=3)
        for name, res in zip(("big", "race", "d"), big):
            rep.add_tlc(res)
            rep.extra.setdefault("mc", {})[name] = {"states": res.distinct, "transitions": res.generated, "depth": res.depth}
            if res.violated:
                rep.violation(f"design:TtyLock:{name}:{res.violated}", res.error_text[:1500], {"kind": "design", "cfg": f"MC_TtyLock_{name}.cfg"})
            for a, (d, g) in c14_replay.action_coverage(res.stdout).items():
                if a in ALL_ACTIONS:
                    cover[a] = cover.get(a, 0) + g
        with _pool() as ex:
            futs = [
                ex.submit(c14_replay.replay_model,
                          dict(cfg="MC_TtyLock_big_dump.cfg", instance="tty", simulate="num=150", depth=120,
                               seed=rep.seed * 10 + k, timeout=900, max_walks=6000))
                for k in range(4)
            ]
            for f in futs:
                out = f.result()
                out["cfg"] = f"{out['cfg']}(sim)"
                report_replay(rep, out, cover)

    missing = sorted(a for a in ALL_ACTIONS if not cover.get(a))
    if missing:
        raise tlc.MachineryError(f"vacuous: actions never taken in any explored model: {missing}")
    rep.extra["action_coverage"] = cover
    rep.exhaustive = True
    rep.extra["exhaustive_over"] = (
        "all interleavings of the model configurations named in extra.replay (state graphs fully explored by "
        "TLC and every edge replayed); real runs and the simulation sub-graph are samples"
    )
    # the three trace validations are independent TLC runs: run them side by side
    futs = [tail.submit(lambda: validate_sync(rep, c14_real.collect_sync(*sync_p, timeout=90))),
            tail.submit(validate_init, rep, init_f.result()),
            tail.submit(validate_real, rep, traces), lock_f,
            # collected inside the task: a worker that hangs (e.g. a lock that is not re-entrant) is a machinery problem
            # that must not hide the violations the other parts report
            tail.submit(lambda: validate_newcomer(rep, c14_real.collect_sync(*new_p, timeout=45)))]
    errors = []
    for f in futs:
        try:
            f.result()
        except Exception as e:  # report violations of the others first, then fail as machinery
            errors.append(e)
    tail.shutdown()
    if errors and not rep.violations:
        raise errors[0]
    for e in errors:
        rep.notes.append(f"machinery problem next to violations: {e}")
