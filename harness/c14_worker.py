"""C14 code -> spec: one REAL run of threads x processes under one multiprocessing start method.

Run as ``python -m harness.c14_worker <job.json>`` (by ``harness/drivers/c14.py``).  The root
process adopts a fresh pty as the library's active terminal *before* importing
``term_image`` (so ``utils._tty_fd != -1`` and ``Process.start`` / ``Process.run`` are wrapped by
the library itself), answers queries from a responder thread, and runs

* ``threads`` probe threads in the root process, calling while the main thread starts
* ``children`` child processes (each ``child_threads`` probe threads; the first child also
  starts a grandchild) with the job's start method (fork / spawn / forkserver).

Probes are decorated with the REAL ``utils.lock_tty``.  Inside the critical section every
enter / exit takes the next number of a run-wide counter (``multiprocessing.Value`` with its
own lock) and appends one JSON line to the process's event file.  Query probes call the real
``utils.query_terminal`` with a request that is unique to the call.
"""

from __future__ import annotations

import json
import os
import random
import sys
import threading
import time

STATE: dict = {}

if __name__ == "__mp_main__":
    # spawn / forkserver child: the main module is imported before Process.run() is called.
    # Import the library here, as a program that uses it would at its top, so that the child's
    # Process.run is wrapped when the bootstrap calls it (the root process must defer the
    # import until its pty exists).
    import warnings as _w

    _w.simplefilter("ignore")
    import term_image.utils  # noqa: F401


def _setup_process(job, pidx, seq, ready=None):
    from term_image import utils

    STATE.clear()
    STATE.update(job=job, pidx=pidx, seq=seq, ready=ready, utils=utils, flock=threading.Lock())
    STATE["evf"] = open(os.path.join(job["outdir"], f"events-{pidx}.jsonl"), "a", buffering=1)
    STATE["alldone"] = threading.Event()
    threading.Thread(target=_watchdog, args=(job, pidx, STATE["alldone"]), daemon=True).start()
    STATE["probe"] = _make_probes(utils)
    return utils


def _watchdog(job, pidx, alldone):
    """If the process has not finished after stall_s, record where every thread stands.
    (faulthandler.dump_traceback_later cannot be used: re-arming it in a forked child waits
    for the parent's watchdog thread, which does not exist there.)"""
    # children give up first so that the root still finds their dumps
    if alldone.wait(job["stall_s"] + (3 if pidx == 0 else 0)):
        return
    names = {t.ident: t.name for t in threading.enumerate()}
    out = []
    for ident, frame in sys._current_frames().items():
        frames = []
        f = frame
        while f is not None:
            frames.append([f.f_code.co_filename, f.f_lineno, f.f_code.co_name])
            f = f.f_back
        out.append({"thread": names.get(ident, str(ident)), "frames": frames})
    with open(os.path.join(job["outdir"], f"stacks-{pidx}.json"), "w") as fh:
        json.dump(out, fh)
    os._exit(3)


def _emit(obj):
    with STATE["flock"]:
        STATE["evf"].write(json.dumps(obj) + "\n")


def _stamp(kind, tidx, depth):
    seq = STATE["seq"]
    with seq.get_lock():
        seq.value += 1
        n = seq.value
    _emit({"k": kind, "p": STATE["pidx"], "t": tidx, "d": depth, "seq": n})


def _make_probes(utils):
    @utils.lock_tty
    def probe(tidx, depth, level, rng, query):
        _stamp("enter", tidx, level)
        try:
            if depth > 1:
                probe(tidx, depth - 1, level + 1, rng, query)
            elif query is not None:
                req = b"\x1b[?%d$p" % query
                got = utils.query_terminal(req, lambda s: not s.endswith(b"y"), 10.0)
                ids = []
                if got:
                    import re

                    ids = [int(x) for x in re.findall(rb"\x1b\[\?(\d+);2\$y", got)]
                _emit({"k": "query", "p": STATE["pidx"], "t": tidx, "req": query,
                       "got": ids[0] if len(ids) == 1 and got == b"\x1b[?%d;2$y" % ids[0] else 0,
                       "raw": repr(got)[:80]})
            else:
                r = rng.random()
                if r < 0.3:
                    time.sleep(0)
                elif r < 0.5:
                    time.sleep(rng.random() * 0.0004)
        finally:
            _stamp("exit", tidx, level)

    return probe


def _thread_main(tidx, stop, counts):
    job, pidx = STATE["job"], STATE["pidx"]
    rng = random.Random(job["seed"] * 1000003 + pidx * 1009 + tidx)
    probe = STATE["probe"]
    n = 0
    ready, total = STATE["ready"], job["processes"]
    with ready.get_lock():
        ready.value += 1  # one more probe thread is calling
    after = 0
    try:
        # keep calling until the probe threads of ALL processes are calling, then min_calls more:
        # the calls of every process overlap with those of every other and with the starts
        while n < job["max_calls"] and after < job["min_calls"]:
            n += 1
            if ready.value >= total:
                after += 1
            kind = rng.random()
            _emit({"k": "call", "p": pidx, "t": tidx})
            if kind < job["p_query"]:
                probe(tidx, 1, 1, rng, (pidx * 100 + tidx) * 100000 + n)
            elif kind < job["p_query"] + job["p_nested"]:
                probe(tidx, rng.choice([2, 3]), 1, rng, None)
            else:
                probe(tidx, 1, 1, rng, None)
            _emit({"k": "ret", "p": pidx, "t": tidx})
            if rng.random() < 0.2:
                time.sleep(rng.random() * 0.0003)
    finally:
        counts[tidx] = n


def _run_threads_and_children(job, pidx, seq, ready, nthreads, children):
    """Probe threads run while this (main) thread starts the given child processes."""
    import multiprocessing

    stop = threading.Event()
    counts: dict = {}
    threads = [
        threading.Thread(target=_thread_main, args=(t, stop, counts), daemon=True, name=f"probe-{t}")
        for t in range(1, nthreads + 1)
    ]
    for th in threads:
        th.start()
    procs = []
    rng = random.Random(job["seed"] * 7 + pidx)
    for cidx, grand in children:
        time.sleep(rng.random() * 0.002)
        # the documented scope of lock_tty: multiprocessing.Process (or a subclass of it); the
        # start method is the process-wide default chosen in main() (inherited by children)
        p = multiprocessing.Process(target=child_main, args=(job, cidx, seq, ready, grand), daemon=False)
        _emit({"k": "starting", "p": pidx, "c": cidx})
        p.start()
        _emit({"k": "started", "p": pidx, "c": cidx})
        procs.append(p)
    if pidx == 0 and job.get("queries_off_at_start"):
        import term_image

        term_image.enable_queries()  # toggled back while everybody keeps calling
    stop.set()
    deadline = time.time() + job["stall_s"] + 5
    ok = True
    for th in threads:
        th.join(max(0.1, deadline - time.time()))
        ok = ok and not th.is_alive()
    for p in procs:
        p.join(max(0.1, deadline - time.time()))
        if p.is_alive():
            ok = False
            p.terminate()
            p.join(5)
        elif p.exitcode != 0:
            ok = False
            _emit({"k": "child-exit", "p": pidx, "code": p.exitcode})
    return ok


def child_main(job, pidx, seq, ready, grandchild):
    utils = _setup_process(job, pidx, seq, ready)
    import multiprocessing

    wrapped = hasattr(multiprocessing.Process.start, "__wrapped__") and hasattr(
        multiprocessing.Process.run, "__wrapped__"
    )
    _emit({"k": "proc", "p": pidx, "tty_fd": utils._tty_fd != -1, "wrapped": wrapped,
           "lock": type(utils._tty_lock).__module__})
    children = [(grandchild, 0)] if grandchild else []
    ok = _run_threads_and_children(job, pidx, seq, ready, job["child_threads"], children)
    _emit({"k": "end", "p": pidx, "ok": ok})
    STATE["alldone"].set()
    STATE["evf"].close()
    if not ok:
        os._exit(3)


def main():
    job = json.load(open(sys.argv[1]))
    sys.path.insert(0, job["src"])
    from harness.env import c15_pty

    master = c15_pty.become_pty_process(80, 24, 640, 384)

    def answer(kind, m):
        if kind == "id":
            return b"\x1b[?%d;2$y" % int(m.group("id"))
        if kind == "da1":
            return c15_pty.DA1_REPLY
        return b""

    resp = c15_pty.Responder(master, answer)
    resp.start()
    import multiprocessing
    import warnings

    warnings.simplefilter("ignore")
    multiprocessing.set_start_method(job["method"], force=True)
    seq = multiprocessing.Value("q", 0)
    ready = multiprocessing.Value("i", 0)
    job["processes"] = job["threads"] + (job["children"] + (1 if job["grandchild"] else 0)) * job["child_threads"]
    utils = _setup_process(job, 0, seq, ready)
    wrapped = hasattr(multiprocessing.Process.start, "__wrapped__")
    _emit({"k": "proc", "p": 0, "tty_fd": utils._tty_fd != -1, "wrapped": wrapped,
           "lock": type(utils._tty_lock).__module__})
    result = {"ok": False, "tty_fd": utils._tty_fd != -1, "wrapped": wrapped}
    if job.get("queries_off_at_start"):
        # configuration at the FIRST Process.start(): disable_queries() is in effect.  lock_tty is
        # about terminal access, not only queries: the processes must exclude each other all the same
        import term_image

        term_image.disable_queries()
    if utils._tty_fd != -1 and wrapped:
        children = []
        nxt = job["children"] + 1
        for c in range(1, job["children"] + 1):
            grand = 0
            if c == 1 and job["grandchild"]:
                grand = nxt
            children.append((c, grand))
        result["ok"] = _run_threads_and_children(job, 0, seq, ready, job["threads"], children)
    _emit({"k": "end", "p": 0, "ok": result["ok"]})
    STATE["alldone"].set()
    result["requests_seen"] = dict(resp.counts)
    result["last_seq"] = seq.value
    with open(os.path.join(job["outdir"], "result.json"), "w") as f:
        json.dump(result, f)
    os._exit(0)


if __name__ == "__main__":
    main()
