"""X07 real-code side of ``specs/Redecorate.tla``: probe decorators guarded by the REAL
``term_image.utils.no_redecorate`` applied to fresh probe functions.

Decorators: ``a``, ``b`` guarded (``no_redecorate``) and built with ``functools.wraps`` like every
decorator of the library; ``r`` unguarded, ``wraps``-based; ``q`` unguarded and opaque (returns a
plain new function).  Every layer appends its name to a call log, every raw decorator counts its
applications per probe function.
"""

from __future__ import annotations

import functools

GUARDED = ("a", "b")
DECOS = ("a", "b", "r", "q")


class DecoWorld:
    def __init__(self, init: list | None = None):
        from term_image import utils as U

        self.U = U
        self.calls: list[str] = []
        self.owner: dict[int, int] = {}
        self.keep: list = []
        self.apps = {f: {d: 0 for d in DECOS} for f in (1, 2)}
        calls, owner, keep, apps = self.calls, self.owner, self.keep, self.apps

        def wraps_deco(name):
            def deco(func, *args, **kwargs):
                fid = owner[id(func)]
                apps[fid][name] += 1

                @functools.wraps(func)
                def layer(*a, **k):
                    calls.append(name)
                    return func(*a, **k)

                owner[id(layer)] = fid
                keep.append(layer)
                return layer

            deco.__name__ = deco.__qualname__ = f"deco_{name}"
            deco.__doc__ = f"probe decorator {name}"
            return deco

        def deco_q(func):
            fid = owner[id(func)]
            apps[fid]["q"] += 1

            def opaque_layer(*a, **k):
                calls.append("q")
                return func(*a, **k)

            owner[id(opaque_layer)] = fid
            keep.append(opaque_layer)
            return opaque_layer

        self.raw = {"a": wraps_deco("a"), "b": wraps_deco("b"), "r": wraps_deco("r"), "q": deco_q}
        self.dec = dict(self.raw)
        for d in GUARDED:
            self.dec[d] = U.no_redecorate(self.raw[d])

        def f1(x):
            """f1: the first probe function"""
            calls.append("f")
            return x + 1

        def f2(x):
            """f2: the second probe function"""
            calls.append("f")
            return x + 1

        self.base = {1: f1, 2: f2}
        self.cur = dict(self.base)
        for f in (1, 2):
            owner[id(self.base[f])] = f
        if init:
            self.force(init)

    def force(self, layers: list) -> None:
        """Rebuild both functions with the given layers (raw decorators; markers set by hand)."""
        for f in (1, 2):
            obj = self.base[f]
            self.apps[f] = {d: 0 for d in DECOS}
            for d in layers[f - 1]:
                obj = self.raw[d](obj)
                if d in GUARDED:
                    setattr(obj, f"_deco_{d}_wrapped_", ...)
            self.cur[f] = obj

    def do(self, op: dict, variant: int = 0) -> dict:
        k, d, f = op["k"], op["d"], op["f"]
        U = self.U
        r = {"same": False, "ok": True}
        try:
            if k == "decorate":
                new = self.dec[d](self.cur[f])
                r["same"] = new is self.cur[f]
                self.cur[f] = new
            elif k == "rewrap":
                r["same"] = r["ok"] = U.no_redecorate(self.dec[d]) is self.dec[d]
            elif k == "decmeta":
                g, raw = self.dec[d], self.raw[d]
                r["ok"] = (g is not raw and g.__name__ == raw.__name__ and g.__qualname__ == raw.__qualname__
                           and g.__doc__ == raw.__doc__ and getattr(g, "__wrapped__", None) is raw
                           and hasattr(g, "_no_redecorate_wrapped_"))
            elif k == "call":
                del self.calls[:]
                r["ok"] = self.cur[f](1) == 2
                del self.calls[:]
        except Exception as e:  # an operation of this alphabet never fails
            r["ok"] = False
            r["exc"] = f"{type(e).__name__}: {e}"
        return r

    def obs(self) -> list:
        out = []
        for f in (1, 2):
            obj, base = self.cur[f], self.base[f]
            del self.calls[:]
            try:
                obj(1)
            except Exception:
                self.calls.append("!")
            log = list(self.calls)
            del self.calls[:]
            wd, x = 0, obj
            while hasattr(x, "__wrapped__") and wd < 50:
                x = x.__wrapped__
                wd += 1
            meta = all(getattr(obj, n, None) == getattr(base, n) for n in ("__name__", "__qualname__", "__doc__", "__module__"))
            out.append({"log": log, "marks": {d: hasattr(obj, f"_deco_{d}_wrapped_") for d in GUARDED},
                        "apps": dict(self.apps[f]), "meta": meta, "wd": wd})
        return out


def library_facts(U) -> list[str]:
    """Facts about the library's own guarded decorators; returns the names of those that fail."""
    bad = []
    for name in ("cached", "lock_tty", "terminal_size_cached", "unix_tty_only"):
        g = getattr(U, name)
        if not (hasattr(g, "_no_redecorate_wrapped_") and g.__name__ == name and g.__doc__
                and getattr(g, "__wrapped__", None) is not None and g.__wrapped__.__name__ == name):
            bad.append(f"{name}-not-marked-or-metadata-lost")

        def probe(x=0):
            """probe doc"""
            return x

        once = g(probe)
        twice = g(once)
        if twice is not once or once.__name__ != "probe" or not (once.__doc__ or "").startswith("probe doc"):
            bad.append(f"{name}-redecorates-or-loses-metadata")
    if U.no_redecorate(U.cached) is not U.cached:
        bad.append("no_redecorate-not-idempotent-on-library-decorator")
    return bad


def homonym_blocked(U) -> bool:
    """Information only: two DIFFERENT guarded decorators with the same __name__ share a marker."""
    def one(func):
        @functools.wraps(func)
        def w1():
            return func() + "1"
        return w1

    def two(func):
        @functools.wraps(func)
        def w2():
            return func() + "2"
        return w2

    two.__name__ = "one"
    g1, g2 = U.no_redecorate(one), U.no_redecorate(two)
    return g2(g1(lambda: ""))() == "1"
