SPECIFICATION Spec
CONSTANTS
  MaxO = 10
  MaxTC = 12
  MaxTL = 8
INVARIANT AlgoSatisfiesProperty
CHECK_DEADLOCK FALSE
