SPECIFICATION Spec
CONSTANTS
  NP = 2
  NT = 3
  ProcOf <- YProcOf
  Prog <- YProg
  Modes = {"fork", "spawn"}
  QInit = {TRUE, FALSE}
  Creator <- NoCreator
  Kind <- AllThreading
  MaxToggle = 1
  CopyStep = TRUE
  Variant = "code"
INVARIANT TypeOK
INVARIANT MutualExclusion
INVARIANT OwnReply
INVARIANT Reentrant
INVARIANT NoDeadlock
INVARIANT CleanEnd
INVARIANT HandOverHeld
PROPERTY AbsStep
VIEW View
CHECK_DEADLOCK FALSE
ACTION_CONSTRAINT Dump
