SPECIFICATION Spec
CONSTANTS
  ChunkSize = 4096
  Block = 1048576
INVARIANT StreamWellFormed
INVARIANT DecodesToAll
INVARIANT StepMachineAgrees
INVARIANT Report
CHECK_DEADLOCK FALSE
