---------------------------- MODULE MC_FormatSpec ----------------------------
(***************************************************************************)
(* C19, design level.  The product of the recogniser (FormatSpec) with an   *)
(* input generator: every string over Alphabet up to MaxLen is fed, one     *)
(* character per step, through the production machine; in every state the   *)
(* three formulations of the documented grammar must agree:                 *)
(*   Unambiguous        a string has at most one derivation                 *)
(*   ParseIsTheGrammar  Parse accepts s  <=>  s has a derivation, and then  *)
(*                      denotes what the derivation denotes                 *)
(*   MachineAgrees      the production machine accepts exactly the strings  *)
(*                      Parse accepts (z range aside, a value constraint)   *)
(*   DeadIsDead         once the machine is dead no extension is a sentence *)
(* One named action per grammar production: -coverage shows each is taken.  *)
(* Prune = TRUE does not extend dead prefixes (state space = live parser    *)
(* states x alphabet); Prune = FALSE enumerates every string (smaller       *)
(* MaxLen) and is what justifies the pruning (DeadIsDead).                  *)
(***************************************************************************)
EXTENDS FormatSpec

CONSTANTS MaxLen, Prune, Alphabet

VARIABLES style, s, ph, last
vars == <<style, s, ph, last>>

Init == /\ style \in Styles
        /\ s = <<>>
        /\ ph = StartPhase
        /\ last = "none"

Feed(prod) ==
  /\ Len(s) < MaxLen
  /\ Prune => ~Dead(ph)
  /\ \E c \in Alphabet :
       /\ Prod(style, ph, c) = prod
       /\ s' = Append(s, c)
       /\ ph' = Target(ph, prod)
  /\ UNCHANGED style

PHAlign         == Feed("HAlign") /\ last' = "HAlign"
PWidthDigit     == Feed("WidthDigit") /\ last' = "WidthDigit"
PDot            == Feed("Dot") /\ last' = "Dot"
PVAlign         == Feed("VAlign") /\ last' = "VAlign"
PHeightDigit    == Feed("HeightDigit") /\ last' = "HeightDigit"
PHash           == Feed("Hash") /\ last' = "Hash"
PThresholdPoint == Feed("ThresholdPoint") /\ last' = "ThresholdPoint"
PThresholdDigit == Feed("ThresholdDigit") /\ last' = "ThresholdDigit"
PTermBg         == Feed("TermBg") /\ last' = "TermBg"
PHexDigit       == Feed("HexDigit") /\ last' = "HexDigit"
PPlus           == Feed("Plus") /\ last' = "Plus"
PMethod         == Feed("Method") /\ last' = "Method"
PZKey           == Feed("ZKey") /\ last' = "ZKey"
PZSign          == Feed("ZSign") /\ last' = "ZSign"
PZDigit         == Feed("ZDigit") /\ last' = "ZDigit"
PMixKey         == Feed("MixKey") /\ last' = "MixKey"
PMixVal         == Feed("MixVal") /\ last' = "MixVal"
PCompressKey    == Feed("CompressKey") /\ last' = "CompressKey"
PCompressVal    == Feed("CompressVal") /\ last' = "CompressVal"
PJunk           == Feed("Junk") /\ last' = "Junk"

Next == \/ PHAlign \/ PWidthDigit \/ PDot \/ PVAlign \/ PHeightDigit \/ PHash
        \/ PThresholdPoint \/ PThresholdDigit \/ PTermBg \/ PHexDigit \/ PPlus
        \/ PMethod \/ PZKey \/ PZSign \/ PZDigit \/ PMixKey \/ PMixVal
        \/ PCompressKey \/ PCompressVal \/ PJunk
Spec == Init /\ [][Next]_vars

P == Parse(style, s)
D == Derivations(style, s)

TypeOK ==
  /\ P.ok \in BOOLEAN
  /\ P.ok => /\ P.h \in HAlign \cup {"none"} /\ P.v \in VAlign \cup {"none"}
             /\ P.ak \in {"default", "none", "threshold", "termbg", "hex"}
             /\ P.m \in {"", "lines", "whole", "anim"} /\ P.x \in {"", "true"}
             /\ P.c \in {""} \cup (Digit \ {"4"})
             /\ P.w # "" /\ P.ht # "" /\ P.z # "0" /\ P.z # "-0"
  /\ ~P.ok => P.kind \in {"format", "style", "zrange"} /\ P.classes # {}

\* cheap invariant for the coverage run (MC_FormatSpec_cov.cfg): the expensive
\* formulations are not evaluated there, only the production machine is driven
MachineTypeOK == ph.p \in Productions \cup {"start", "Junk"} /\ ph.k \in 0..6 /\ Len(s) <= MaxLen

Unambiguous == Cardinality(D) <= 1

ParseIsTheGrammar ==
  /\ P.ok <=> D # {}
  /\ P.ok => \A t \in D : DenOf(s, t) = Den(P)

MachineAgrees == Accepting(ph) <=> (P.ok \/ P.kind = "zrange")

DeadIsDead == Dead(ph) => ~P.ok /\ D = {}

\* the lax recogniser is used only to name a cause: it accepts a superset, and the
\* difference is exactly the bare-dot family
LaxOnlyAddsBareDots ==
  /\ P.ok => ParseX(style, s, TRUE) = P
  /\ OnlyBareDot(style, s) => \E i \in 1..Len(s) : s[i] = "." /\ (i = Len(s) \/ s[i + 1] \in {"#", "+"})

\* value constraints that no bounded enumeration reaches: the z-index range is judged on
\* the literal (2**31 does not fit a TLC integer), documentation examples
ASSUME /\ ZInRange(MaxZ)
       /\ ZInRange(<<"0", "0", "0">> \o MaxZ)
       /\ ~ZInRange(<<"2", "1", "4", "7", "4", "8", "3", "6", "4", "8">>)
       /\ ~ZInRange(<<"2", "1", "4", "7", "4", "8", "3", "6", "5", "0">>)
       /\ ZInRange(<<"2", "1", "4", "7", "4", "8", "3", "6", "3", "9">>)
       /\ ZInRange(<<"1", "9", "9", "9", "9", "9", "9", "9", "9", "9">>)
       /\ ~ZInRange(<<"3", "0", "0", "0", "0", "0", "0", "0", "0", "0">>)
       /\ ~ZInRange(<<"1", "0", "0", "0", "0", "0", "0", "0", "0", "0", "0">>)
       /\ ZInRange(<<"9", "9", "9", "9", "9", "9", "9", "9", "9">>)
ASSUME /\ Parse("kitty", <<"+", "z", "-">> \o MaxZ).z = "-2147483647"
       /\ Parse("kitty", <<"+", "z">> \o MaxZ).z = "2147483647"
       /\ Parse("kitty", <<"+", "z", "-", "2", "1", "4", "7", "4", "8", "3", "6", "4", "8">>).kind = "zrange"
       /\ Parse("kitty", <<"+", "z", "2", "1", "4", "7", "4", "8", "3", "6", "4", "8">>).kind = "zrange"
       /\ Parse("iterm2", <<"+", "z", "1">>).kind = "style"
       /\ Parse("block", <<"#", "7", "f", "a", "a", "5", "2">>).ad = "7faa52"
       /\ Parse("block", <<"#", ".", "3", "2", "5", "0", "4", "3">>).ad = "0.325043"
       /\ Parse("block", <<"#", ".", "0">>).ad = "0.0"
       /\ Parse("block", <<"|", "2", "0", "0", ".", "^", "7", "0", "#", "f", "f", "f", "f", "f", "f">>)
            = [ok |-> TRUE, h |-> "|", w |-> "200", wq |-> <<"2", "0", "0">>, v |-> "^", ht |-> "70",
               ak |-> "hex", ad |-> "ffffff", m |-> "", z |-> "", x |-> "", c |-> "", plus |-> FALSE]
       /\ ~Parse("block", <<".", "#", "#">>).ok /\ OnlyBareDot("block", <<".", "#", "#">>)
       /\ BareDotClass("block", <<".", "#", "#">>) = "hash-bg"
       /\ BareDotClass("kitty", <<"1", ".", "+", "W">>) = "style"

\* block has no style grammar; the A method exists only for iterm2; z only for kitty
StyleSpecific ==
  P.ok => /\ (style = "block" => P.m = "" /\ P.z = "" /\ P.x = "" /\ P.c = "")
          /\ (P.m = "anim" => style = "iterm2")
          /\ (P.z # "" => style = "kitty")
=============================================================================
