----------------------------- MODULE Sizing_apa -----------------------------
(***************************************************************************)
(* C04, informational: Apalache attempt at  Algo => SizeRel  for FIT in the *)
(* text family over UNBOUNDED positive integers (no grid).  Self-contained  *)
(* and typed; mirrors Sizing!AlgoFit / Sizing!FitClause with CW = 1, CH = 2.*)
(* Non-linear integer arithmetic with division: the solver is allowed 300 s *)
(* (see notes/C04.md for the outcome); TLC on the grid is the deciding      *)
(* engine.                                                                  *)
(*   apalache-mc check --length=0 --inv=FitInRel Sizing_apa.tla             *)
(***************************************************************************)
EXTENDS Integers

VARIABLES
  \* @type: Int;
  ow,
  \* @type: Int;
  oh,
  \* @type: Int;
  fc,
  \* @type: Int;
  fl,
  \* @type: Int;
  pn,
  \* @type: Int;
  pd

\* @type: (Int) => Int;
Abs(x) == IF x < 0 THEN -x ELSE x

\* @type: (Int, Int) => Int;
RoundHE(n, d) ==
  LET q == n \div d
      r == n % d
  IN IF 2 * r < d THEN q
     ELSE IF 2 * r > d THEN q + 1
     ELSE IF q % 2 = 0 THEN q ELSE q + 1

\* @type: (Int) => Int;
Or1(x) == IF x = 0 THEN 1 ELSE x

FW == fc
FH == 2 * fl
hn == FW * oh * pn
hd == ow * pd
wn == FH * ow * pd
wd == oh * pn

WidthConstrains == FH * ow > FW * oh
Wpx == IF WidthConstrains
       THEN (IF hn > FH * hd THEN RoundHE(wn, wd) ELSE FW)
       ELSE (IF wn > FW * wd THEN FW ELSE RoundHE(wn, wd))
Hpx == IF WidthConstrains
       THEN (IF hn > FH * hd THEN FH ELSE RoundHE(hn, hd))
       ELSE (IF wn > FW * wd THEN RoundHE(hn, hd) ELSE FH)
W == Or1(Wpx)
H == Or1((Hpx + 1) \div 2)

NearH == Abs(H * ow * pd * 2 - W * oh * pn) < ow * pd * 2
NearW == Abs(W * oh * pn - H * 2 * ow * pd) < oh * pn

Init ==
  /\ ow \in Nat /\ ow >= 1
  /\ oh \in Nat /\ oh >= 1
  /\ fc \in Nat /\ fc >= 1
  /\ fl \in Nat /\ fl >= 1
  /\ pn \in Nat /\ pn >= 1
  /\ pd \in Nat /\ pd >= 1

Next == UNCHANGED <<ow, oh, fc, fl, pn, pd>>

FitInRel ==
  /\ W >= 1 /\ H >= 1
  /\ W <= fc /\ H <= fl
  /\ (W = fc /\ NearH) \/ (H = fl /\ NearW)
=============================================================================
