SPECIFICATION Spec
CONSTANTS
  ChunkSize = 4096
INVARIANT Report
CHECK_DEADLOCK FALSE
