---------------------------- MODULE UrwidWidget ----------------------------
(***************************************************************************)
(* X04 - term_image.widget.UrwidImage: the state machine.                   *)
(*                                                                         *)
(* One image (its size setting is shared mutable state), up to two widgets  *)
(* over it (slot 1: UrwidImage, slot 2: an application subclass, created    *)
(* and dropped during the history), histories of rows / pack / render calls *)
(* in the three urwid sizing modes, canvas-cache invalidation, the          *)
(* application resizing the image in between, failing renders and the       *)
(* per-class error placeholder.                                             *)
(*                                                                         *)
(* One behaviour = one configuration (chosen in Init) + any history.  The   *)
(* explored part is bounded by Weight(S) <= MaxWeight (how many of: cached   *)
(* canvas of widget 1 / 2, placeholder of the base class / the subclass,     *)
(* failing image differ from the initial state; 5 = everything): it         *)
(* contains every state reachable by MaxWeight such changes and ALL          *)
(* transitions between such states (histories of any length).  The laws are *)
(* listed in notes/X04.md (L1-L14, deviations D1-D3).                        *)
(***************************************************************************)
EXTENDS UrwidWidgetCore, TLC, Json

CONSTANTS
  Profile,       \* "quick" | "thorough": alphabets and configurations
  MaxWeight,     \* bound for the first configuration (and for all of them when model checking)
  MaxWeightRest  \* edge dump only: bound for the other configurations

Rich == Profile = "thorough"

P(cls, up, ha, va, me) == [cls |-> cls, up |-> up, ha |-> ha, va |-> va, me |-> me]
Cfg(style, ow, oh, cw, ch, p1, p2) ==
  [style |-> style, fam |-> FamOf(style), ow |-> ow, oh |-> oh, cw |-> cw, ch |-> ch,
   tc |-> 80, tl |-> 30, wp |-> <<p1, p2>>]

\* originals have odd pixel dimensions: no rounding of the sizing rule is an exact tie (NoTie)
Configs ==
  IF ~Rich
  THEN << Cfg("block", 5, 7, 0, 0, P(0, FALSE, "", "", "lines"), P(1, TRUE, ">", "_", "lines")),
          Cfg("kitty", 19, 23, 3, 5, P(0, TRUE, "<", "^", "lines"), P(1, FALSE, "|", "-", "whole")) >>
  ELSE << Cfg("block", 5, 7, 0, 0, P(0, FALSE, "", "", "lines"), P(1, TRUE, ">", "_", "lines")),
          Cfg("kitty", 19, 23, 3, 5, P(0, TRUE, "<", "^", "lines"), P(1, FALSE, "|", "-", "whole")),
          Cfg("block", 11, 3, 0, 0, P(0, TRUE, "<", "-", "lines"), P(1, FALSE, "|", "^", "lines")),
          Cfg("block", 1, 1, 0, 0, P(0, FALSE, ">", "_", "lines"), P(1, TRUE, "", "", "lines")),
          Cfg("kitty", 7, 31, 3, 5, P(0, FALSE, "|", "_", "whole"), P(1, FALSE, ">", "", "lines")),
          Cfg("iterm2", 19, 23, 3, 5, P(0, FALSE, "", "", "lines"), P(1, TRUE, "<", "_", "whole")) >>

\* urwid sizes offered to render() / pack(); <<>> is the fixed mode
FocusSize == <<8, 7>>
RSizes == IF ~Rich THEN {<<4>>, FocusSize} ELSE {<<4>>, <<8>>, <<3, 2>>, FocusSize}
\* widths whose rows() is read after EVERY operation (part of Obs)
QCols == IF ~Rich THEN <<4, 8>> ELSE <<1, 4, 6, 8>>
SetSizes == {Op("setsize", 0, <<>>, FALSE, <<"FIT">>), Op("setsize", 0, <<2>>, FALSE, <<"width">>)}
            \cup (IF Rich THEN {Op("setsize", 0, <<>>, FALSE, <<"AUTO">>)} ELSE {})
PhSet(cls) == IF cls = 0 THEN {"B1"} ELSE {"B2", "F"}
PhBadSet == IF Rich THEN PhBad ELSE {"bad:int", "bad:class"}
NewFlaws == { <<"image:path">>, <<"spec:int">>, <<"spec:dot">>, <<"spec:style">>, <<"upscale:int">>,
              <<"spec:dot", "upscale:none">> }
            \cup (IF Rich THEN { <<"image:pil">>, <<"image:none">>, <<"spec:none">>, <<"spec:bytes">>,
                                 <<"spec:plus">>, <<"spec:junk">>, <<"upscale:none">>, <<"upscale:str">>,
                                 <<"image:path", "upscale:int">>, <<"spec:style", "upscale:str">> }
                  ELSE {})

ASSUME \A i \in 1..Len(Configs) : WFConfig(Configs[i])
\* the expected sizes of the model are exact: no configuration / size of the alphabets is at a
\* rounding tie of the sizing rule (where the float arithmetic of the code may go either way)
NoTie ==
  \A i \in 1..Len(Configs) :
    /\ \A w \in 1..2, sz \in RSizes : ~ImgSize(Configs[i], Configs[i].wp[w], sz).tie
    /\ \A w \in 1..2, j \in 1..Len(QCols) : ~FlowSize(Configs[i], Configs[i].wp[w].up, QCols[j]).tie
    /\ \A o \in SetSizes : ~SetTie(Configs[i], o)
ASSUME NoTie

VARIABLES cid, S, out
vars == <<cid, S, out>>
View == <<cid, S>>
C == Configs[cid]

NoOut == [act |-> "Init", op |-> Op("init", 0, <<>>, FALSE, <<>>), r |-> R0]

Init == cid \in 1..Len(Configs) /\ S = InitState /\ out = NoOut

\* `act` is the name of the action taken: TLC's -coverage mode re-evaluates every LET at each
\* reference and does not finish on this module, so vacuity is checked by counting these labels
Do(act, op) ==
  /\ Applicable(C, S, op)
  /\ LET e == Eval(C, S, op) IN S' = e.s2 /\ out' = [act |-> act, op |-> op, r |-> e.r]
  /\ UNCHANGED cid

\* Do(op) restricted to one outcome class of render (so that -coverage shows every class)
RenderClass(r) ==
  IF r.res = "UrwidImageError" THEN "RenderFixedRejected"
  ELSE IF r.reused THEN "RenderReusesCanvas"
  ELSE IF r.res = "raise" THEN "RenderRaises"
  ELSE IF r.res = "phfail" THEN "RenderPlaceholderNotBox"
  ELSE IF r.kind = "image" THEN "RenderImage" ELSE "RenderPlaceholder"
DoRender(act, op) ==
  /\ Applicable(C, S, op)
  /\ LET e == Eval(C, S, op) IN
       /\ act = RenderClass(e.r)
       /\ S' = e.s2 /\ out' = [act |-> act, op |-> op, r |-> e.r]
  /\ UNCHANGED cid

Slots == {1, 2}
RenderOps == {Op("render", w, sz, FALSE, <<>>) : w \in Slots, sz \in RSizes}
             \cup {Op("render", w, FocusSize, TRUE, <<>>) : w \in Slots}    \* ignore_focus

\* ---- one named action per API operation (render: per documented outcome) --------------------
Rows == \E w \in Slots, i \in 1..Len(QCols) : Do("Rows", Op("rows", w, <<QCols[i]>>, FALSE, <<>>))
Pack == \E w \in Slots, sz \in RSizes : Do("Pack", Op("pack", w, sz, FALSE, <<>>))
PackFixedRejected == \E w \in Slots : Do("PackFixedRejected", Op("pack", w, <<>>, FALSE, <<>>))
RenderFixedRejected == \E w \in Slots, f \in BOOLEAN : DoRender("RenderFixedRejected", Op("render", w, <<>>, f, <<>>))
RenderImage == \E op \in RenderOps : DoRender("RenderImage", op)
RenderReusesCanvas == \E op \in RenderOps : DoRender("RenderReusesCanvas", op)
RenderPlaceholder == \E op \in RenderOps : DoRender("RenderPlaceholder", op)
RenderRaises == \E op \in RenderOps : DoRender("RenderRaises", op)
RenderPlaceholderNotBox == \E op \in RenderOps : DoRender("RenderPlaceholderNotBox", op)
Invalidate == \E w \in Slots : Do("Invalidate", Op("inval", w, <<>>, FALSE, <<>>))
ReleaseCanvas == \E w \in Slots : S.cache[w] # NoCanvas /\ Do("ReleaseCanvas", Op("release", w, <<>>, FALSE, <<>>))
ImageSetSize == \E op \in SetSizes : Do("ImageSetSize", op)
SetPlaceholder == \E cls \in {0, 1} : \E v \in PhSet(cls) : Do("SetPlaceholder", Op("setph", cls, <<>>, FALSE, <<v>>))
RemovePlaceholder == \E cls \in {0, 1} : Do("RemovePlaceholder", Op("setph", cls, <<>>, FALSE, <<"none">>))
SetPlaceholderInvalid == \E cls \in {0, 1}, v \in PhBadSet : Do("SetPlaceholderInvalid", Op("setph", cls, <<>>, FALSE, <<v>>))
BreakImage == Do("BreakImage", Op("break", 0, <<>>, FALSE, <<>>))
RepairImage == Do("RepairImage", Op("repair", 0, <<>>, FALSE, <<>>))
NewWidget == Do("NewWidget", Op("new", 2, <<>>, FALSE, <<>>))
NewWidgetRejected == \E a \in NewFlaws : Do("NewWidgetRejected", Op("new", 2, <<>>, FALSE, a))
DropWidget == Do("DropWidget", Op("drop", 2, <<>>, FALSE, <<>>))

Next ==
  \/ Rows \/ Pack \/ PackFixedRejected
  \/ RenderFixedRejected \/ RenderImage \/ RenderReusesCanvas \/ RenderPlaceholder \/ RenderRaises
  \/ RenderPlaceholderNotBox
  \/ Invalidate \/ ReleaseCanvas \/ ImageSetSize
  \/ SetPlaceholder \/ RemovePlaceholder \/ SetPlaceholderInvalid
  \/ BreakImage \/ RepairImage \/ NewWidget \/ NewWidgetRejected \/ DropWidget
Spec == Init /\ [][Next]_vars

\* the edge dump: without Rows (its answers are part of WObs, compared after every step) and, in
\* the quick profile, with fewer variants of the state-independent pure / rejected operations
Lean == ~Rich
PackD == IF Lean THEN Do("Pack", Op("pack", 1, <<4>>, FALSE, <<>>)) \/ Do("Pack", Op("pack", 2, FocusSize, FALSE, <<>>))
         ELSE Pack
PackFixedRejectedD == IF Lean THEN Do("PackFixedRejected", Op("pack", 1, <<>>, FALSE, <<>>)) ELSE PackFixedRejected
RenderFixedRejectedD ==
  IF Lean THEN \/ DoRender("RenderFixedRejected", Op("render", 1, <<>>, FALSE, <<>>))
               \/ DoRender("RenderFixedRejected", Op("render", 2, <<>>, TRUE, <<>>))
  ELSE RenderFixedRejected
SetPlaceholderInvalidD ==
  IF Lean THEN \/ Do("SetPlaceholderInvalid", Op("setph", 0, <<>>, FALSE, <<"bad:int">>))
               \/ Do("SetPlaceholderInvalid", Op("setph", 1, <<>>, FALSE, <<"bad:class">>))
  ELSE SetPlaceholderInvalid
NewWidgetRejectedD ==
  IF Lean THEN \E a \in { <<"image:path">>, <<"spec:style">>, <<"spec:dot", "upscale:none">> } :
                 Do("NewWidgetRejected", Op("new", 2, <<>>, FALSE, a))
  ELSE NewWidgetRejected
NextDump ==
  \/ PackD \/ PackFixedRejectedD
  \/ RenderFixedRejectedD \/ RenderImage \/ RenderReusesCanvas \/ RenderPlaceholder \/ RenderRaises
  \/ RenderPlaceholderNotBox
  \/ Invalidate \/ ReleaseCanvas \/ ImageSetSize
  \/ SetPlaceholder \/ RemovePlaceholder \/ SetPlaceholderInvalidD
  \/ BreakImage \/ RepairImage \/ NewWidget \/ NewWidgetRejectedD \/ DropWidget
SpecDump == Init /\ [][NextDump]_vars

B(x) == IF x THEN 1 ELSE 0
\* (the image's size setting and the existence of the second widget are not counted: nearly every
\* operation of interest touches them)
Weight(s) ==
  B(s.cache[1] # NoCanvas) + B(s.cache[2] # NoCanvas)
  + B(s.ph[1] # "none") + B(s.ph[2] # "inherit") + B(s.fail)
Bound == Weight(S) <= MaxWeight
BoundDump == Weight(S) <= (IF cid = 1 THEN MaxWeight ELSE MaxWeightRest)

-----------------------------------------------------------------------------
(* State invariants                                                            *)

TypeOK == cid \in 1..Len(Configs) /\ WFState(S)

\* the placeholder a class renders is the first one set along (class, parent class)
PlaceholderIsNearestSet == \A cls \in {0, 1} : EffPh(S, cls) = EffPhByChain(S, cls)

\* urwid's contract between the three size methods, for EVERY size (whatever the history):
\* pack(size) announces the canvas size, rows((cols,)) its height
SizeMethodsAgree ==
  \A w \in Slots, sz \in RSizes :
    LET p == C.wp[w]
        r == ImageR(C, w, sz)
    IN /\ PackOf(C, p, sz) = <<r.cc, r.cr>>
       /\ (Len(sz) = 1 => RowsOf(C, p, sz[1]) = r.cr /\ r.cr = r.ih)
       /\ (Len(sz) = 2 => <<r.cc, r.cr>> = <<sz[1], sz[2]>>)

\* the size an image is rendered at obeys the documented sizing laws, for EVERY size
SizesLawful ==
  \A w \in Slots, sz \in RSizes :
    LET r == ImageR(C, w, sz) IN SizeLaw(C, C.wp[w], sz, r.cc, r.cr, r.iw, r.ih) = "ok"

\* "Any ample space ... is filled": padding + image = canvas on both axes, both paddings >= 0
PaddingFills ==
  \A w \in Slots, sz \in RSizes :
    LET r == ImageR(C, w, sz) IN
      /\ r.pl >= 0 /\ r.pl + r.iw <= r.cc
      /\ r.pt >= 0 /\ r.pt + r.ih <= r.cr

\* a render never depends on the image's size setting (the widget sizes the image itself),
\* nor on the other widget's canvas
IszAlphabet == {Dynamic("FIT"), Dynamic("ORIGINAL"), Fixed(1, 1), Fixed(40, 20)}
RenderIgnoresImageSizeSetting ==
  \A op \in RenderOps : Applicable(C, S, op) =>
    \A z \in IszAlphabet :
      LET a == Eval(C, S, op)
          b == Eval(C, [S EXCEPT !.isz = z], op)
      IN a.r = b.r /\ a.s2.cache = b.s2.cache

-----------------------------------------------------------------------------
(* Action properties (one per clause)                                          *)

IsRender == out'.op.k = "render"
W == out'.op.w

\* urwid's canvas cache: a render is answered from the cache iff a canvas for exactly that
\* size is still cached for that widget; then NOTHING happens (no re-render, no side effect)
ReuseIffCachedStep ==
  IsRender /\ Len(out'.op.sz) > 0 => (out'.r.reused <=> S.cache[W].sz = out'.op.sz)
ReuseIffCached == [][ReuseIffCachedStep]_vars
ReuseHasNoEffect == [][IsRender /\ out'.r.reused => S' = S]_vars

\* after a successful render the canvas for that size is the cached one; after _invalidate()
\* (or when nobody holds the canvas any more) nothing is cached
CachedAfterRenderStep ==
  IsRender /\ out'.r.res = "ok" => S'.cache[W].sz = out'.op.sz /\ S'.cache[W].kind = out'.r.kind
CachedAfterRender == [][CachedAfterRenderStep]_vars
InvalidateForgets == [][out'.op.k \in {"inval", "release", "drop"} => S'.cache[W] = NoCanvas]_vars

\* the two widgets share the image, nothing else
WidgetsIndependentStep ==
  out'.op.k \in {"render", "inval", "release", "rows", "pack"} =>
    S'.cache[3 - W] = S.cache[3 - W] /\ S'.has = S.has
WidgetsIndependent == [][WidgetsIndependentStep]_vars

\* queries and rejected operations change nothing ...
Rejected == out'.r.res \notin {"ok"}
QueriesChangeNothing == [][out'.op.k \in {"rows", "pack"} => S' = S]_vars
\* ... except D1: a failing render has already sized the image
RejectedChangesNothingStep ==
  Rejected => [S' EXCEPT !.isz = S.isz] = S
              /\ (S'.isz # S.isz => IsRender /\ out'.r.res \in {"raise", "phfail"})
RejectedChangesNothing == [][RejectedChangesNothingStep]_vars

\* D1 stated: the image's size setting changes only by the application's own call or by a render
\* that was not answered from the cache, and then it IS the size rendered at
ImageSizeSettingStep ==
  S'.isz # S.isz =>
    \/ out'.op.k = "setsize"
    \/ /\ IsRender /\ ~out'.r.reused /\ Len(out'.op.sz) > 0
       /\ LET is == ImgSize(C, C.wp[W], out'.op.sz) IN S'.isz = Fixed(is.w, is.h)
ImageSizeSetting == [][ImageSizeSettingStep]_vars

\* error path: "If set, any exception raised during rendering is suppressed and the placeholder
\* is rendered in place of the image" - at the size requested; if not set the exception propagates
ErrorPathStep ==
  IsRender /\ ~out'.r.reused /\ Len(out'.op.sz) > 0 =>
    LET eff == EffPh(S, C.wp[W].cls)
        is == ImgSize(C, C.wp[W], out'.op.sz)
    IN /\ (~S.fail => out'.r.res = "ok" /\ out'.r.kind = "image")
       /\ (S.fail /\ eff = "none" => out'.r.res = "raise")
       /\ (S.fail /\ eff \in {"B1", "B2"} =>
             out'.r.res = "ok" /\ out'.r.kind = eff
             /\ <<out'.r.cc, out'.r.cr>> = CanvasSize(out'.op.sz, is))
       /\ (S.fail /\ eff = "F" => out'.r.res = "phfail")
ErrorPath == [][ErrorPathStep]_vars

\* a placeholder set on a class is seen by that class and by subclasses that have none of
\* their own; setting one on the subclass never changes the base class
PlaceholderScopeStep ==
  out'.op.k = "setph" /\ out'.r.res = "ok" =>
    /\ EffPh(S', out'.op.w) = out'.op.a[1]
    /\ (out'.op.w = 1 => EffPh(S', 0) = EffPh(S, 0))
    /\ (out'.op.w = 0 /\ S.ph[2] = "inherit" => EffPh(S', 1) = out'.op.a[1])
    /\ (out'.op.w = 0 /\ S.ph[2] # "inherit" => EffPh(S', 1) = EffPh(S, 1))
PlaceholderScope == [][PlaceholderScopeStep]_vars

\* construction: accepted iff every argument is valid; a rejected construction raises one of the
\* documented exception classes and leaves no widget behind
ConstructionStep ==
  out'.op.k = "new" =>
    /\ (out'.op.a = <<>> <=> out'.r.res = "ok")
    /\ (out'.op.a # <<>> => S' = S /\ AllowedExc(out'.op.a) \subseteq {"TypeError", "ValueError", "StyleError"})
Construction == [][ConstructionStep]_vars

\* fixed mode is rejected (UrwidImageError from render, WidgetError from urwid's pack)
FixedModeRejectedStep ==
  out'.op.k \in {"render", "pack"} /\ Len(out'.op.sz) = 0 =>
    out'.r.res = (IF out'.op.k = "render" THEN "UrwidImageError" ELSE "WidgetError") /\ S' = S
FixedModeRejected == [][FixedModeRejectedStep]_vars

-----------------------------------------------------------------------------
(* Edge dump (spec -> code replay): one STATE line per distinct state with its  *)
(* projection, one compact EDGE line per generated transition                   *)

Key(s) == <<cid, s.isz.k, s.isz.w, s.isz.h, s.isz.m, B(s.has[2]),
            s.cache[1].sz, s.cache[1].kind, s.cache[2].sz, s.cache[2].kind,
            s.ph[1], s.ph[2], B(s.fail)>>

RShow(o) == [res |-> IF o.op.k = "new" /\ o.r.res # "ok" THEN "rejected" ELSE o.r.res,
             al |-> IF o.op.k = "new" THEN SetToSeq0(AllowedExc(o.op.a)) ELSE <<>>,
             kind |-> o.r.kind, cc |-> o.r.cc, cr |-> o.r.cr, iw |-> o.r.iw, ih |-> o.r.ih,
             pl |-> o.r.pl, pt |-> o.r.pt, reused |-> o.r.reused, nc |-> o.r.nc, z |-> o.r.z, eq |-> o.r.eq]

Dump == PrintT(<<"EDGE", ToJson([from |-> Key(S), op |-> [act |-> out'.act, o |-> out'.op, r |-> RShow(out')],
                                  to |-> Key(S')])>>)
\* model-checking runs: one short line per generated transition, counted per action by the driver
Tally == PrintT(<<"ACT", out'.act>>)
ActionNames == {"Rows", "Pack", "PackFixedRejected", "RenderFixedRejected", "RenderImage",
                "RenderReusesCanvas", "RenderPlaceholder", "RenderRaises", "RenderPlaceholderNotBox",
                "Invalidate", "ReleaseCanvas", "ImageSetSize", "SetPlaceholder", "RemovePlaceholder",
                "SetPlaceholderInvalid", "BreakImage", "RepairImage", "NewWidget", "NewWidgetRejected",
                "DropWidget"}

DumpState ==
  BoundDump =>
    /\ PrintT(<<"STATE", ToJson([key |-> Key(S), s |-> S, obs |-> WObs(C, S, QCols)])>>)
    /\ (TLCGet("level") = 1 =>
          /\ PrintT(<<"INIT", ToJson(Key(S))>>)
          /\ PrintT(<<"CONFIG", ToJson([cid |-> cid, cfg |-> C, qcols |-> QCols,
                                        sizes |-> SetToSeq0(RSizes)])>>))
=============================================================================
