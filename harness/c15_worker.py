"""C15 worker: drives the REAL public functions of term_image on a REAL pty.

Run as ``python -m harness.c15_worker <job.json>`` by ``harness/drivers/c15.py``.  The process
adopts a fresh pty before importing ``term_image`` (``harness/env/c15_pty.py``), plays the
terminal emulator itself (window size in cells and pixels via ``TIOCSWINSZ``; XTWINOPS, OSC
10/11, XTVERSION and DA1 answered by a responder thread from the terminal state) and

* ``replay``: executes tours of the TermCache state graph (edges dumped by TLC): after every
  operation the returned value and the number of query round trips of the memoized functions
  must equal what the edge prescribes;
* ``histories``: executes seeded random histories of the public functions and records one
  event per call (operation, arguments, result, round trips) for ``Trace_TermCache.tla``.
"""

from __future__ import annotations

import json
import os
import random
import sys
from fractions import Fraction

FG = (0x12, 0x34, 0x56)
BG = (0xAB, 0xCD, 0xEF)
NAME = ("verifterm", "1.2.3")


class Term:
    """The terminal emulator's side: true geometry and what it answers."""

    def __init__(self, master, pty):
        self.master = master
        self.pty = pty
        self.env = dict(cols=80, rows=24, xpx=640, ypx=384, iopx=True, xt="text")

    def set_env(self, env):
        self.env = dict(env)
        self.apply()

    def resize(self, cols, rows, xpx, ypx):
        self.env.update(cols=cols, rows=rows, xpx=xpx, ypx=ypx)
        self.apply()

    def apply(self):
        e = self.env
        self.pty.set_winsize(self.master, e["cols"], e["rows"], e["xpx"] if e["iopx"] else 0,
                             e["ypx"] if e["iopx"] else 0)

    def answer(self, kind, m):
        e = self.env
        if kind == "winop":
            which = m.group("winop")  # b"4": text area (14 t), b"6": cell size (16 t)
            if which == b"6" and e["xt"] == "cell":
                return b"\x1b[6;%d;%dt" % (e["ypx"] // e["rows"], e["xpx"] // e["cols"])
            if which == b"4" and e["xt"] in ("text", "cell"):
                return b"\x1b[4;%d;%dt" % (e["ypx"], e["xpx"])
            return b""
        if kind == "osc":
            n = int(m.group("osc"))
            r, g, b = FG if n == 10 else BG
            return b"\x1b]%d;rgb:%02x%02x/%02x%02x/%02x%02x\x1b\\" % (n, r, r, g, g, b, b)
        if kind == "xtversion":
            return b"\x1bP>|%s(%s)\x1b\\" % (NAME[0].encode(), NAME[1].encode())
        if kind == "da1":
            return self.pty.DA1_REPLY
        return b""


class Lib:
    """The library under test, reached only through its public functions (plus the reset)."""

    def __init__(self, term, resp):
        import term_image
        from term_image import utils
        from term_image.exceptions import TermImageError

        self.ti, self.utils, self.err = term_image, utils, TermImageError
        self.term, self.resp = term, resp
        if utils._tty_fd == -1:
            raise SystemExit("term_image did not adopt the pty (utils._tty_fd == -1)")
        for name in ("_queries_enabled", "_swap_win_size", "_cell_size_cache", "_cell_size_lock"):
            if not hasattr(utils, name):
                raise SystemExit(f"seam term_image.utils.{name} is missing")
        term_image.set_query_timeout(5.0)

    def reset(self, env):
        """Initial state of the model: a freshly imported library on terminal `env`."""
        u, ti = self.utils, self.ti
        self.term.set_env(env)
        u._queries_enabled = True
        u._swap_win_size = False
        with u._cell_size_lock:
            u._cell_size_cache[:] = [0] * 4
        ti._cell_ratio = 0.5
        ti.AutoCellRatio.is_supported = None
        u.get_fg_bg_colors._invalidate_cache()
        u.get_terminal_name_version._invalidate_cache()
        u.read_tty_all()

    def counts(self):
        r = self.resp
        return (r.count("winop"), r.count("osc"), r.count("xtversion"))

    def do(self, op, arg):
        """Execute one operation; returns (res, q, err) in the vocabulary of TermCache.tla."""
        u, ti = self.utils, self.ti
        c0 = self.counts()
        res, err = [], False
        if op == "Resize":
            self.term.resize(*arg)
        elif op == "EnableSwap":
            ti.enable_win_size_swap()
        elif op == "DisableSwap":
            ti.disable_win_size_swap()
        elif op == "EnableQueries":
            ti.enable_queries()
        elif op == "DisableQueries":
            ti.disable_queries()
        elif op == "GetCellSize":
            s = u.get_cell_size()
            res = [0, 0] if s is None else [int(s[0]), int(s[1])]
        elif op == "GetRatio":
            f = Fraction(ti.get_cell_ratio()).limit_denominator(10000)
            res = [f.numerator, f.denominator]
        elif op == "SetRatio":
            try:
                if len(arg) == 2:
                    ti.set_cell_ratio(arg[0] / arg[1])
                else:
                    ti.set_cell_ratio(getattr(ti.AutoCellRatio, arg[0]))
            except self.err:
                err = True
        elif op == "GetColors":
            v = (u.get_fg_bg_colors(hex=True) if arg[0] == "colorshex"
                 else u.get_fg_bg_colors(hex=False) if arg[0] == "colorsnohex" else u.get_fg_bg_colors())
            real = ("#%02x%02x%02x" % FG, "#%02x%02x%02x" % BG) if arg[0] == "colorshex" else (FG, BG)
            res = ["real" if v == real else "none" if v == (None, None) else f"other:{v!r}"]
        elif op == "GetName":
            v = u.get_terminal_name_version()
            res = ["real" if v == NAME else "none" if v == (None, None) else f"other:{v!r}"]
        else:
            raise SystemExit(f"unknown operation {op}")
        c1 = self.counts()
        q = {"winops": (c1[0] - c0[0] + 1) // 2, "colors": (c1[1] - c0[1] + 1) // 2, "name": c1[2] - c0[2]}
        return res, q, err


def same_ratio(a, b):
    return len(a) == 2 and len(b) == 2 and a[0] * b[1] == a[1] * b[0]


def compare(op, exp, res, q, err, allowed=()):
    """None if the real observation is what the edge prescribes, else (what, description).

    For get_cell_size() and the DYNAMIC ratio the edge carries the set of values the property
    allows (computed by TLC: TermCacheCore!AllowedCells / AllowedRatios); a value in the set that
    differs from the model's own is *drift* (reported as ("drift", ...), not a violation)."""
    if err != exp["err"]:
        return "err", f"raised={err}, specified={exp['err']}"
    if op == "GetRatio":
        if not same_ratio(res, exp["res"]):
            if any(same_ratio(res, a) for a in allowed):
                return "drift", f"returned ratio {res}, model {exp['res']}, allowed {allowed}"
            return "res", f"returned ratio {res[0]}/{res[1]}, specified {exp['res'][0]}/{exp['res'][1]}" + (
                f" (allowed: {allowed})" if allowed else "")
    elif op == "GetCellSize":
        if list(res) != list(exp["res"]):
            if any(list(res) == list(a) for a in allowed):
                return "drift", f"returned {res}, model {exp['res']}, allowed {allowed}"
            return "res", f"returned {res}, specified {exp['res']} (allowed: {allowed})"
    elif op in ("GetColors", "GetName"):
        if list(res) != list(exp["res"]):
            return "res", f"returned {res}, specified {exp['res']}"
    if op in ("GetColors", "GetName"):
        k = "name" if op == "GetName" else "colors"
        if q[k] != exp["q"][k]:
            return "body-count", f"{q[k]} query round trips, specified {exp['q'][k]}"
    return None


ENV_KEYS = ("cols", "rows", "xpx", "ypx", "iopx", "xt")


def env_of(view):
    e = view[0]  # View = <<env, swap, queries, cr, isSup, cache, memo, bodies, basis>>
    return {k: e[k] for k in ENV_KEYS}


def run_replay(lib, tours):
    out = {"tours": 0, "ops": 0, "divergences": [], "drift": 0}
    for tour in tours:
        out["tours"] += 1
        lib.reset(env_of(tour[0]["from"]))
        for i, e in enumerate(tour):
            op = e["op"]
            res, q, err = lib.do(op["op"], op["arg"])
            out["ops"] += 1
            bad = compare(op["op"], op, res, q, err, e.get("allowed", ()))
            if bad and bad[0] == "drift":
                out["drift"] += 1
                bad = None
            if bad:
                out["divergences"].append({
                    "idx": i, "what": bad[0], "detail": bad[1], "op": op, "real": {"res": res, "q": q, "err": err},
                    "env": env_of(tour[0]["from"]),
                    "prefix": [x["op"] for x in tour[: i + 1]],
                    "allowed_prefix": [x.get("allowed", []) for x in tour[: i + 1]],
                })
                break
        if len(out["divergences"]) >= 5:
            break
    return out


SIZES = [(4, 2), (4, 3), (6, 3), (9, 5), (7, 5)]
PIXELS = [(48, 36), (96, 72), (63, 45), (130, 75)]
RATIOS = [(3, 4), (1, 2), (5, 9)]


def gen_history(rng, length):
    env = dict(cols=0, rows=0, xpx=0, ypx=0, iopx=rng.random() < 0.4, xt=rng.choice(["cell", "text", "text", "none"]))
    (env["cols"], env["rows"]), (env["xpx"], env["ypx"]) = rng.choice(SIZES), rng.choice(PIXELS)
    ops = []
    cur = (env["cols"], env["rows"], env["xpx"], env["ypx"])
    for _ in range(length):
        r = rng.random()
        if r < 0.2:
            while True:
                kind = rng.random()
                s = rng.choice(SIZES) if kind < 0.7 else cur[:2]
                p = rng.choice(PIXELS) if kind > 0.4 else cur[2:]
                if (*s, *p) != cur:
                    break
            cur = (*s, *p)
            ops.append(("Resize", list(cur)))
        elif r < 0.36:
            ops.append((rng.choice(["EnableSwap", "DisableSwap", "EnableQueries", "DisableQueries"]), []))
        elif r < 0.46:
            k = rng.random()
            ops.append(("SetRatio", list(rng.choice(RATIOS)) if k < 0.3 else [rng.choice(["FIXED", "DYNAMIC", "DYNAMIC"])]))
        elif r < 0.66:
            ops.append(("GetCellSize", []))
        elif r < 0.82:
            ops.append(("GetRatio", []))
        elif r < 0.94:
            ops.append(("GetColors", [rng.choice(["colors", "colorshex", "colorsnohex"])]))
        else:
            ops.append(("GetName", ["name"]))
    return env, ops


def run_history(lib, env, ops):
    lib.reset(env)
    ev = []
    for op, arg in ops:
        res, q, err = lib.do(op, arg)
        ev.append({"op": op, "arg": arg, "res": res, "q": q, "err": err})
    return {"env": env, "ev": ev}


def main():
    job = json.load(open(sys.argv[1]))
    sys.path.insert(0, job["src"])
    for k in ("TERM_PROGRAM", "TERM_PROGRAM_VERSION"):
        os.environ.pop(k, None)
    from harness.env import c15_pty

    master = c15_pty.become_pty_process(80, 24, 640, 384)
    term = Term(master, c15_pty)
    resp = c15_pty.Responder(master, term.answer)
    resp.start()
    import warnings

    warnings.simplefilter("ignore")
    lib = Lib(term, resp)
    result = {}
    if job.get("tours_file"):
        tours = json.load(open(job["tours_file"]))
        result["replay"] = run_replay(lib, tours)
    if job.get("histories"):
        h = job["histories"]
        rng = random.Random(h["seed"])
        traces = []
        for _ in range(h["count"]):
            env, ops = gen_history(rng, rng.randrange(h["min_len"], h["max_len"] + 1))
            traces.append(run_history(lib, env, ops))
        result["traces"] = traces
    if job.get("scenario"):
        sc = job["scenario"]
        result["traces"] = [run_history(lib, sc["env"], [tuple(o) for o in sc["ops"]])]
    result["garbage"] = bytes(resp.garbage[-200:]).decode("latin1")
    with open(job["result_file"], "w") as f:
        json.dump(result, f)
    os._exit(0)


if __name__ == "__main__":
    main()
