SPECIFICATION Spec
INVARIANT Report
INVARIANT ModelHeapWellFormed
CHECK_DEADLOCK FALSE
