------------------------- MODULE Trace_StyleArgs -------------------------
(***************************************************************************)
(* X10: code -> spec.  One trace = one history of set_render_method /       *)
(* draw(style keywords) / format(+style) / _check_style_args operations run  *)
(* on REAL objects: a fresh user subclass U of BlockImage / KittyImage /     *)
(* ITerm2Image on a scripted terminal and instances of it.  Recorded per     *)
(* operation (harness/x10_world.py): the result, a projection of what was    *)
(* written / returned (class of output, number of image transmissions,       *)
(* z-indexes, erasure, compression levels consistent with the data, digest), *)
(* the mapping returned by _check_style_args, the attributes that changed,   *)
(* and the same projection of a plain still draw of every instance made       *)
(* right afterwards ("skip" = not probed at this step).                       *)
(*                                                                         *)
(*   trace = [fam, term, rows, nf, animated, init: [cm, im], ev]             *)
(*   event = [op: [r, i, an, args], res, wrote, ncmd, zs, er, lv, kept, chg,  *)
(*            dg, so, pr: <<[res, wrote, ncmd, zs, er, lv, dg], ...>>]        *)
(*                                                                         *)
(* Steps are total; the verdict names the first failing clause and event.    *)
(***************************************************************************)
EXTENDS StyleArgsCore, TLC, Json, IOUtils

Traces == JsonDeserialize(IOEnv.TRACE_FILE)

VARIABLES tid, l, cm, im, seen, verdict, at, vroute
vars == <<tid, l, cm, im, seen, verdict, at, vroute>>

Tr == Traces[tid]
Fam == Tr.fam
NE == Len(Tr.ev)
NInst == Len(Tr.animated)
Range(s) == {s[i] : i \in DOMAIN s}
MethodStates(f) == {"unset"} \cup Methods(f)

WFTrace(tr) ==
  /\ tr.fam \in Families
  /\ tr.term \in Terms(tr.fam)
  /\ tr.rows \in 1..8 /\ tr.nf \in 1..8
  /\ Len(tr.animated) \in 1..4
  /\ \A i \in DOMAIN tr.animated : tr.animated[i] \in BOOLEAN
  /\ tr.init.cm \in MethodStates(tr.fam)
  /\ Len(tr.init.im) = Len(tr.animated)
  /\ \A i \in DOMAIN tr.init.im : tr.init.im[i] \in MethodStates(tr.fam)

WFOp(op) ==
  /\ op.r \in {"set", "draw", "format", "check"}
  /\ op.i \in 0..NInst
  /\ op.an \in BOOLEAN
  /\ WFArgs(op.args)
  /\ op.r = "set" => Len(op.args) = 1 /\ op.args[1].k = "method" /\ ~op.an
  /\ op.r \in {"draw", "format"} => op.i > 0
  /\ op.r = "check" => op.i = 0 /\ ~op.an
  /\ op.r = "format" => Expressible(op.args) /\ ~op.an

WFEvent(e) ==
  /\ WFOp(e.op)
  /\ Len(e.pr) = NInst
  /\ e.so \in BOOLEAN /\ e.er \in BOOLEAN
  /\ \A j \in DOMAIN e.kept : WFValue(e.kept[j].v)
  /\ \A j \in DOMAIN e.zs : WFValue(e.zs[j])

MethOf(c, m, i) == IF i = 0 THEN Resolved(Fam, c, "unset") ELSE Resolved(Fam, c, m[i])
Exp(c, m, op) == ExpOf(Fam, op, MethOf(c, m, op.i), op.i > 0 /\ Tr.animated[op.i], Tr.rows, Tr.nf)
PlainOp(i) == [r |-> "draw", i |-> i, an |-> FALSE, args |-> <<>>]

ApplyCm(c, op, ok) == IF op.r = "set" /\ ok /\ op.i = 0 THEN SetValue(op.args[1].v) ELSE c
ApplyIm(m, op, ok) == IF op.r = "set" /\ ok /\ op.i > 0 THEN [m EXCEPT ![op.i] = SetValue(op.args[1].v)] ELSE m

\* which aspect of an observed output (of the operation itself or of a probe) contradicts the
\* expectation x
Aspect(o, x) ==
  IF o.wrote \notin x.wrote THEN "output"
  ELSE IF x.wrote # {"picture"} THEN "ok"
  ELSE IF Fam # "block" /\ o.ncmd # x.ncmd[Tr.rows] THEN "method"
  ELSE IF x.zj /\ \E j \in DOMAIN o.zs : o.zs[j].t # "int" THEN "z_index-malformed"
  ELSE IF x.zj /\ o.zs # <<x.den.z>> THEN "z_index"
  ELSE IF o.er # x.er[Tr.term] THEN "mix"
  ELSE IF x.cj /\ x.den.c \notin Range(o.lv) THEN "compress"
  ELSE "ok"

\* calls that denote the same thing on the same instance write the same picture (keyword route =
\* specifier route; an argument at its default = the argument not given; any spelling of a method)
KeyOf(i, an, den) == [i |-> i, an |-> an, den |-> den]
Clash(sn, k, dg) == \E r \in sn : r.k = k /\ r.dg # dg

\* input class of a call: the (name, type) of its arguments in call order, e.g.
\* "method-none" or "z_index-int+mix-bool"
RECURSIVE ClassStr(_, _)
ClassStr(args, i) ==
  IF i > Len(args) THEN ""
  ELSE (IF i > 1 THEN "+" ELSE "") \o args[i].k \o "-" \o args[i].v.t \o ClassStr(args, i + 1)
InputClass(op) ==
  IF Len(op.args) = 0 THEN "no-arguments"
  ELSE IF Len(op.args) = 1 THEN ClassStr(op.args, 1)
  ELSE "several-arguments"

ProbeAspect(e, c2, m2, sn, i) ==
  LET p == e.pr[i]
      xp == Exp(c2, m2, PlainOp(i)) IN
  IF p.wrote = "skip" THEN "ok"
  ELSE IF p.res # "ok" THEN "fails"
  ELSE IF Aspect(p, xp) # "ok" THEN Aspect(p, xp)
  ELSE IF Clash(sn, KeyOf(i, FALSE, xp.den), p.dg) THEN "digest"
  ELSE "ok"

SeenAfterOp(e, x, sn) ==
  IF x.wrote = {"picture"} /\ e.res = "ok"
  THEN sn \cup {[k |-> KeyOf(e.op.i, e.op.an /\ Tr.animated[e.op.i], x.den), dg |-> e.dg]}
  ELSE sn
SeenAfterProbes(e, c2, m2, sn) ==
  sn \cup {[k |-> KeyOf(i, FALSE, Exp(c2, m2, PlainOp(i)).den), dg |-> e.pr[i].dg] :
             i \in {j \in 1..NInst : e.pr[j].wrote # "skip" /\ e.pr[j].res = "ok"}}

\* first failing clause of event e: (c1, m1) state before, (c2, m2) state after (model)
Clause(e, c1, m1, c2, m2, sn) ==
  LET op == e.op
      x == Exp(c1, m1, op)
      ok == x.res = {"ok"}
      renders == x.wrote = {"picture"}
      asp == Aspect(e, x)
      allowed == IF op.r = "set" /\ ok
                 THEN {IF op.i = 0 THEN "U._render_method" ELSE "i" \o ToString(op.i) \o "._render_method"}
                 ELSE {}
      sn2 == SeenAfterOp(e, x, sn)
      bad == {i \in 1..NInst : ProbeAspect(e, c2, m2, sn2, i) # "ok"}
      pa == IF bad = {} THEN "ok"
            ELSE ProbeAspect(e, c2, m2, sn2, CHOOSE i \in bad : \A j \in bad : i <= j)
  IN
  IF e.res \notin x.res THEN
    (IF ok THEN "rejects-valid:" ELSE IF e.res = "ok" THEN "accepts-invalid:" ELSE "wrong-exception:")
      \o InputClass(op)
  ELSE IF e.so THEN "wrote-to-stdout"
  ELSE IF asp = "output" THEN
    (IF renders THEN "accepted-call-drew-nothing"
     ELSE IF e.wrote = "picture" THEN "rejected-call-drew-picture"
     ELSE "rejected-call-wrote-unexpected-output")
  ELSE IF asp = "method" THEN
    (IF Given(op.args, "method") /\ EffArg(op.args, "method").t = "str" THEN "method-override-not-applied"
     ELSE "resolved-method-not-used")
  ELSE IF asp = "z_index-malformed" THEN "z_index-malformed-in-output"
  ELSE IF asp # "ok" THEN asp \o (IF Given(op.args, asp) THEN "-not-applied" ELSE "-not-default")
  ELSE IF op.r = "check" /\ ok /\ ~IsKeptOf(e.kept, op.args) THEN
    (IF \E j \in DOMAIN e.kept : EqDefault(e.kept[j]) THEN "default-not-removed" ELSE "minimal-arguments-differ")
  ELSE IF ~(Range(e.chg) \subseteq allowed) THEN
    (IF ~ok THEN "rejected-call-changed-state"
     ELSE IF op.r = "set" THEN "set-changed-other-attribute"
     ELSE "call-changed-state")
  ELSE IF renders /\ Clash(sn, KeyOf(op.i, op.an /\ Tr.animated[op.i], x.den), e.dg)
    THEN "equivalent-calls-different-output"
  ELSE IF pa = "ok" THEN "ok"
  ELSE IF pa = "fails" THEN "plain-draw-fails-after-call"
  ELSE IF pa = "output" THEN "plain-draw-shows-no-picture-after-call"
  ELSE IF pa = "digest" THEN "plain-draw-output-varies"
  ELSE IF op.r = "set" THEN "render-method-state-differs-after-set:" \o pa
  ELSE pa \o "-leaks-into-next-plain-draw"

Init ==
  /\ tid \in 1..Len(Traces)
  /\ l = 0
  /\ cm = Traces[tid].init.cm
  /\ im = Traces[tid].init.im
  /\ seen = {}
  /\ verdict = IF WFTrace(Traces[tid]) THEN "ok" ELSE "unsupported-trace"
  /\ at = 0
  /\ vroute = "none"

Step ==
  /\ l < NE
  /\ l' = l + 1
  /\ LET e == Tr.ev[l + 1]
         wf == verdict # "unsupported-trace" /\ WFEvent(e)
         ok == wf /\ Exp(cm, im, e.op).res = {"ok"}
         c2 == IF wf THEN ApplyCm(cm, e.op, ok) ELSE cm
         m2 == IF wf THEN ApplyIm(im, e.op, ok) ELSE im
         v == IF verdict # "ok" THEN verdict
              ELSE IF ~wf THEN "unsupported-event"
              ELSE Clause(e, cm, im, c2, m2, seen)
     IN
       /\ cm' = c2 /\ im' = m2
       /\ seen' = IF wf /\ v = "ok"
                  THEN SeenAfterProbes(e, c2, m2, SeenAfterOp(e, Exp(cm, im, e.op), seen))
                  ELSE seen
       /\ verdict' = v
       /\ at' = IF verdict = "ok" /\ v # "ok" THEN l + 1 ELSE at
       /\ vroute' = IF verdict = "ok" /\ v # "ok" /\ wf THEN e.op.r ELSE vroute
  /\ UNCHANGED tid

Spec == Init /\ [][Step]_vars

Report ==
  l = NE =>
    PrintT(<<"VERDICT", ToJson([tid |-> tid, verdict |-> verdict, at |-> at, route |-> vroute,
                                fam |-> IF verdict = "unsupported-trace" THEN "?" ELSE Fam,
                                events |-> NE, judged |-> IF verdict = "ok" THEN NE ELSE at])>>)
=============================================================================
